"""C16 - resumption preserves the session or falls back; tickets are authenticated (gmtls)."""
import struct
from collections import OrderedDict

ID = "C16"
PROPS = "Props/C16.v"
GEN = ["tlssuites"]
LEGS = [{"driver": "c16", "runner": ("resume", "Extract/ExtractResume.v", "Resume_model"), "tags": "verif", "timeout": 1500}]
COQ_TIMEOUT = 5400

TECHNIQUE = ("Coq proofs over (a) a byte-level model of the sessionState codec and of encryptTicket/decryptTicket, (b) a symbolic model "
             "(ideal ticket MAC) of the ticket gate, the server's resumption decision (GM and TLS variants over the suite tables regenerated "
             "from /repo), full and abbreviated handshakes and the client's cache handling, with an induction over arbitrary histories, "
             "(c) the LRU client session cache refined to a map with recency order; models tied to /repo by differential runs of the "
             "extracted models against real loopback connection histories, ticket tampering sweeps and white-box calls")
LEVEL_TEXT = ("Theorems in Coq (Props/C16.v): sessionState marshal/unmarshal round trip for all states that fit the field widths and "
              "unmarshal/decryptTicket never panic for any byte string; the ticket gate (decryptTicket succeeds iff tickets enabled, a "
              "configured key has the name, the ticket is an unmodified seal under it; usedOldKey iff index>0; every modified ticket is "
              "rejected) relative to an ideal MAC; checkForResumption (GM and TLS) equals the statement's conjunction; a valid ticket under "
              "unchanged configurations is resumed and completes; for every history (any length) of connections, key rotations, suite / "
              "ClientAuth changes, ticket disabling, forged client session fields, tampered tickets, any cache capacity and any number of "
              "server configurations every resumed connection carries the version, suite, master secret and both peer identities of the "
              "full handshake that created its master secret; the LRU cache refines map+recency for every operation sequence. The "
              "extracted models are run on the same histories as real gmtls endpoints (GMSSL-only, auto-switch, TLS-only) and every "
              "resumed/full/error outcome, version, suite, master-secret origin and offered ticket is compared.")
LEVEL_NOTE = ("Relative to premises: ideal ticket MAC (ideal_mac), distinct ticket keys have distinct key names, AES-CTR/HMAC abstract at "
              "byte level. The handshake itself is modelled only as far as its outcome (suite/version negotiation, client-certificate "
              "policy, ticket issue); record protection after resumption ('protect data exactly as after a full handshake') is checked "
              "by the driver (EKM of both ends, echo of 700 bytes each way) and is otherwise C07's subject. A stored client certificate "
              "that the new policy cannot verify makes the abbreviated handshake fail with an error on both sides (model outcome "
              "Failed), it is never resumed. Master secret of a resumed connection is identified by recomputing the exporter from "
              "the key-logged master secret of the issuing handshake and the two hello randoms sniffed on the wire. End-to-end "
              "tampering is exhaustive over positions/truncations of one GMSSL ticket (one xor value per position) and sampled for "
              "the other modes; all 255 values at every position are swept through decryptTicket directly (white box).")
TRUSTED_BASE = [
    "models coq/Resume/{TicketModel,ResumeModel,LruModel}.v written by hand from gmtls/ticket.go, common.go, handshake_{client,server}.go, gm_handshake_{client,server}_double.go, auto_handshake_server.go; tied by this check's correspondence run",
    "suite tables, version and ClientAuth constants: coq/Gen/TLSSuites.v regenerated from /repo by harness/cmd/gen/target_tls.go",
    "extraction: ExtrOcamlBasic only; runner ocaml/resume/main.ml and ocaml/conv.ml.tmpl",
    "Go driver harness/cmd/c16 (loopback TCP, wire sniffing of hello randoms, key log, session-cache spy) and the hook file gmtls/verif_ticket_verif.go",
    "python reference decoder / LRU / policy evaluation in checks/c16.py (the predicate)",
]
ASSUMPTIONS = [
    "ideal ticket MAC: equal tags only for equal (key, message); tags not produced by a key never verify (premise ideal_mac of the theorems)",
    "ticket keys with different 32-byte seeds have different key names / AES / HMAC keys (SHA-512 derivation collision-free)",
    "AES-CTR and HMAC-SHA256 (Go standard library) abstract: length preserving involution / 32-byte tag",
    "server certificates and CA pool fixed (websvr/certs); clients use InsecureSkipVerify with distinct ServerNames as cache keys",
    "int is 64 bits (certLen < 0 unreachable); configurations are changed through Config.Clone and SetSessionTicketKeys only",
    "histories are sequential (one connection at a time); concurrency is C20's subject",
]
RULE = ("a handshake that FAILS although a session was offered is accepted only when the driver's control connection (same configurations, "
        "no session) fails too, or in the cases C16_resume_attempt_outcomes names (stored client certificates no longer verify; forged cached "
        "version/suite); a tampered ticket must give a silent full handshake. Seeded generator (VERIF_SEED): 28 fixed histories pinning each clause of the statement (same config resumes in GM/auto/TLS 1.0-1.2, "
        "rotation keeping/dropping the old key, suite removed, suite not offered, ClientAuth tightened/loosened, untrusted stored certificate, "
        "tickets disabled and re-enabled, LRU eviction with capacity 1..2, tickets travelling between two configurations sharing a key, "
        "forged client-side version/suite, tampered ticket, ECDHE-only offers, protocol mismatch), 27 re-issue histories with client certificates, the 56-history full-resume-resume matrix (explicit suite list x every ClientAuth policy x client certificate / none x GMSSL-only, auto-switch, TLS 1.0-1.2) on which the must-resume clause of the predicate bites, 28 resumption histories at TLS 1.0/1.1/1.2 over 14 version/suite pairs on plain-TLS and auto-switch servers + random histories of 2..6 connections "
        "over 1..2 server configurations with rotations, suite/ClientAuth/disable changes, client kinds g/t10/t11/t12, client certificates "
        "none/trusted/forged-issuer, cache capacity 1..3, 1..4 cache keys; X: every byte position and every truncation length of a GMSSL-CBC "
        "ticket replayed end to end, every 5th position and every 7th truncation for TLS 1.2, TLS 1.0, auto-switch GM/TLS 1.2/TLS 1.1 tickets plus random samples; S: all 255 values at every position and all "
        "truncations through decryptTicket; T/M/U/L: white-box gate, codec (lengths 0..65535, huge length fields, truncations) and LRU op "
        "sequences; B: keysFromMasterSecret evaluated twice in a row for one master secret (the original connection's hello randoms, then "
        "fresh ones - both, only the server's, only the client's) for 11 version/suite pairs (GMSSL CBC/GCM, TLS 1.0/1.1 CBC, TLS 1.2 SHA-256 "
        "and SHA-384 suites, ChaCha20) x 3: each block must be PRF(master, 'key expansion', server_random + client_random) of ITS randoms "
        "(python, hashlib; for GMSSL also the extracted key derivation over HMAC-SM3). Non-trivial = history with >= 2 connections, or any X/T/S/U/M/L/B case with non-empty input; distinct = distinct case text")

GOOD = ("R", "F", "E")


def nontrivial(f):
    if f[0] == "H":
        return f[4].count("c/") >= 2
    if f[0] in ("U", "L"):
        return f[-1] != "-"
    return True


def classify(f, io):
    if not io:
        return f[0] + ":none"
    if f[0] == "H" and io[0] == "ok":
        return "H:" + "".join(t.split(",")[0][0] for t in io[1].split(";"))[:8]
    if f[0] == "X" and len(io) >= 3:
        return "X:" + f[7][0] + ":" + io[2][:2]
    return f[0] + ":" + io[0]


def _proj(f, o):
    if f[0] == "H" and o and o[0] == "ok" and len(o) > 1 and o[1] != "-":
        out = []
        for t in o[1].split(";"):
            p = t.split(",")
            out.append(",".join(p[:6]) if p[0] in ("R", "F") else p[0])
        return ["ok", ";".join(out)]
    if f[0] == "X":
        return [x.rstrip("!") for x in o[:3]]
    return o


def same(f, io, mo):
    return _proj(f, io) == _proj(f, mo)


# ---------------------------------------------------------------------------------------------
def _unhex(s):
    return b"" if s in ("-", ".", "") else bytes.fromhex(s)


def _unhexlist(s):
    return [] if s in ("-", "") else [_unhex(x) for x in s.split(",")]


def _ref_unmarshal(d):
    """reference decoder of the ticket plaintext, written from the format description"""
    if len(d) < 8:
        return None
    vers, suite, mslen = struct.unpack(">HHH", d[:6])
    d = d[6:]
    if len(d) < mslen:
        return None
    ms, d = d[:mslen], d[mslen:]
    if len(d) < 2:
        return None
    n = struct.unpack(">H", d[:2])[0]
    d = d[2:]
    certs = []
    for _ in range(n):
        if len(d) < 4:
            return None
        l = struct.unpack(">I", d[:4])[0]
        d = d[4:]
        if len(d) < l:
            return None
        certs.append(d[:l])
        d = d[l:]
    if d:
        return None
    return vers, suite, ms, certs


def _state_of(io):
    return int(io[0], 16), int(io[1], 16), _unhex(io[2]), _unhexlist(io[3])


def _suites(s):
    return None if s == "n" else ([] if s in ("", "-") else [int(x, 16) for x in s.split("+")])


def _pred_history(f, io):
    if io[0] != "ok":
        return False, "history did not run: " + " ".join(io)[:200]
    kinds = f[3].split(",")
    srv = [{"kind": k, "keys": [i + 1], "suites": None, "auth": 0, "disabled": False} for i, k in enumerate(kinds)]
    toks = io[1].split(";") if len(io) > 1 and io[1] != "-" else []
    conns = []           # per connection: dict(cls, vers, suite, pcc, pcs, origin, snap)
    tickets = {}         # id -> dict(key, origin)
    forged = False
    forged_names = set()
    ci = 0
    for op in f[4].split(";"):
        a = op.split("/")
        if a[0] == "r":
            srv[int(a[1])]["keys"] = [int(x) for x in a[2].split("+")]
        elif a[0] == "s":
            srv[int(a[1])]["suites"] = _suites(a[2])
        elif a[0] == "a":
            srv[int(a[1])]["auth"] = int(a[2])
        elif a[0] == "d":
            srv[int(a[1])]["disabled"] = a[2] == "1"
        elif a[0] == "k":
            # Config.Clone(): a copy of every field; from here on parent and clone have their own key histories
            srv[int(a[2])] = dict(srv[int(a[1])], kind=srv[int(a[2])]["kind"])
        elif a[0] in ("fv", "fs", "ft"):
            forged = True
            if a[0] in ("fv", "fs"):
                forged_names.add(a[1])
        elif a[0] == "c":
            if ci >= len(toks):
                return False, "no observation for connection %d" % ci
            p = toks[ci].split(",")
            s = srv[int(a[1])]
            cls = p[0]
            snap = (s["kind"], tuple(s["suites"]) if s["suites"] is not None else None, s["auth"], a[2], a[3], a[4])
            rec = {"cls": cls, "snap": snap}
            if cls not in GOOD:
                return False, "connection %d: %s (panic / hang / one-sided completion / disagreement): %s" % (ci, cls, toks[ci][:160])
            offer = p[4] if len(p) > 4 else "-"
            if cls == "E" and offer != "-":
                # A handshake FAILED although a session was offered.  The statement allows only a resumption or a silent
                # full handshake; C16_fallback_is_full_handshake / C16_resume_attempt_outcomes leave a failure only when
                # the same configurations fail without a session too (control connection of the driver), when the
                # client certificates stored in the ticket no longer verify under the current policy, or when the
                # client's cached version / suite were forged.
                ctl = p[5] if len(p) > 5 else "?"
                stored_untrusted = (offer != "x" and int(offer) in tickets and conns[tickets[int(offer)]["origin"]]["snap"][5] == "u"
                                    and conns[tickets[int(offer)]["origin"]].get("pcs", "-") != "-" and s["auth"] >= 3)
                if not (ctl == "E" or a[5] in forged_names or stored_untrusted):
                    return False, ("connection %d: a session was offered and the handshake FAILED (%s) although the same configurations "
                                   "complete without a session (control: %s): neither resumed nor a silent full handshake"
                                   % (ci, ",".join(p[6:])[:160], ctl))
            if cls in ("R", "F"):
                vers, suite, origin, stored = int(p[1], 16), int(p[2], 16), int(p[3]), p[5] == "1"
                rec.update(vers=vers, suite=suite, origin=origin, pcc=p[7], pcs=p[8])
                if p[6] != "1":
                    return False, "connection %d: the two ends export different keying material" % ci
                if p[9] != "1":
                    return False, "connection %d: application data not echoed intact after the handshake" % ci
                if cls == "F" and origin != ci:
                    return False, "connection %d: full handshake whose exporter does not match its key-logged master secret" % ci
                if cls == "R":
                    if origin < 0 or origin >= ci or conns[origin]["cls"] != "F":
                        return False, "connection %d: resumed, but its master secret is not that of an earlier full handshake" % ci
                    o = conns[origin]
                    if (o["vers"], o["suite"], o["pcc"], o["pcs"]) != (vers, suite, p[7], p[8]):
                        return False, "connection %d: resumed with version/suite/peer identity different from full handshake %d" % (ci, origin)
                    if offer in ("-", "x") or int(offer) not in tickets:
                        return False, "connection %d: resumed without offering a ticket the server issued (offer=%s)" % (ci, offer)
                    t = tickets[int(offer)]
                    if t["origin"] != origin:
                        return False, "connection %d: resumed on ticket %s but holds the master secret of handshake %d" % (ci, offer, origin)
                    why = None
                    if s["disabled"]:
                        why = "tickets are disabled"
                    elif t["key"] not in s["keys"]:
                        why = "the ticket key is no longer configured"
                    elif _suites(a[3]) is not None and suite not in _suites(a[3]):
                        why = "the suite is not offered by the client"
                    elif s["suites"] is not None and suite not in s["suites"]:
                        why = "the suite is not in the server's list"
                    elif o["pcs"] != "-" and s["auth"] == 0:
                        why = "the ticket carries client certificates and the policy is NoClientCert"
                    elif o["pcs"] == "-" and s["auth"] in (2, 4):
                        why = "the policy requires a client certificate and the ticket has none"
                    elif o["pcs"] != "-" and s["auth"] >= 3 and o["snap"][5] == "u":
                        # C16_resume_attempt_outcomes: the stored chain is validated against the CURRENT ClientCAs / ClientAuth
                        why = ("the ticket carries a client certificate whose issuer is not in the current ClientCAs and the policy "
                               "(%d) verifies client certificates" % s["auth"])
                    if why:
                        return False, "connection %d: resumed although %s" % (ci, why)
                if stored:
                    tickets[ci] = {"key": s["keys"][0], "origin": origin}
            # required resumption: unchanged configurations, explicit suite list, valid ticket
            if cls != "R" and offer not in ("-", "x") and not forged and int(offer) in tickets:
                t = tickets[int(offer)]
                o = conns[t["origin"]]
                if (o["snap"] == snap and s["suites"] is not None and o["suite"] in s["suites"]
                        and not s["disabled"] and t["key"] in s["keys"]):
                    return False, ("connection %d: a valid ticket under unchanged configurations with an explicit suite list was not "
                                   "resumed (%s)" % (ci, cls))
            conns.append(rec)
            ci += 1
    return True, ""


_C06 = []


def _c06():
    """the PRFs (P_SM3, P_SHA256/384, MD5-SHA1) written out in checks/c06.py over hashlib's hash functions"""
    if not _C06:
        import importlib.util, os
        spec = importlib.util.spec_from_file_location("checks.c06_prf", os.path.join(os.path.dirname(os.path.abspath(__file__)), "c06.py"))
        m = importlib.util.module_from_spec(spec)
        spec.loader.exec_module(m)
        _C06.append(m)
    return _C06[0]


def predicate(f, io):
    """the property, evaluated on what /repo did (independent of the Coq model)"""
    if not io or io[0] in ("PANIC", "HANG", "BADCASE") or io[0].startswith("RUNNER"):
        return False, "implementation " + (io[0] if io else "gave no result")
    op = f[0]
    if op == "B":
        # a resumed connection is keyed as after a full handshake: key_block = PRF(master_secret, "key expansion",
        # server_random + client_random) with the hello randoms of THAT connection (RFC 5246 6.3, RFC 2246 6.3, GM/T 0024)
        if io[0] != "ok" or len(io) < 6:
            return False, "key block not produced: " + " ".join(io)[:120]
        prf = _c06()._prf
        vers, suite, ms = int(f[2], 16), int(f[3], 16), _unhex(f[4])
        n = 2 * (int(io[1]) + int(io[2]) + int(io[3]))
        for which, cr, sr, got in (("original", f[5], f[6], io[4]), ("resumed", f[7], f[8], io[5])):
            want = prf(vers, suite, ms, b"key expansion", _unhex(sr) + _unhex(cr), n)
            if _unhex(got) != want:
                return False, ("keysFromMasterSecret for the %s connection (version %04x suite %04x): key block %s... is not PRF(master secret, "
                               "'key expansion', server_random + client_random) = %s... of this connection's hello randoms%s"
                               % (which, vers, suite, got[:16], want[:8].hex(),
                                  " - it is the ORIGINAL connection's key block" if which == "resumed" and got == io[4] else ""))
        return True, ""
    if op == "M":
        vers, suite, ms, certs = int(f[2], 16), int(f[3], 16), _unhex(f[4]), _unhexlist(f[5])
        want = struct.pack(">HHH", vers, suite, len(ms) & 0xffff) + ms + struct.pack(">H", len(certs) & 0xffff)
        for c in certs:
            want += struct.pack(">I", len(c)) + c
        if _unhex(io[1]) != want:
            return False, "marshal output differs from the documented layout"
        if len(ms) < 65536 and len(certs) < 65536:
            if io[2] == "err" or _state_of(io[2:6]) != (vers, suite, ms, certs):
                return False, "unmarshal(marshal(s)) != s"
        return True, ""
    if op == "U":
        ref = _ref_unmarshal(_unhex(f[2]))
        if io[0] == "err":
            return (ref is None), "unmarshal refused a well-formed encoding"
        if ref is None:
            return False, "unmarshal accepted a malformed encoding"
        return (_state_of(io[1:5]) == ref), "unmarshal decoded different fields"
    if op == "T":
        keys = [int(x) for x in f[2].split("+")]
        seal, disabled, mod = int(f[3]), f[4] == "1", f[6]
        should = (not disabled) and seal in keys and mod == "-"
        if io[0] == "ok":
            if not should:
                return False, "decryptTicket accepted a ticket it must reject (disabled / unknown key / modified)"
            if io[1] != ("1" if keys.index(seal) > 0 else "0") or io[2] != "1":
                return False, "usedOldKey or the recovered state is wrong"
            return True, ""
        return (not should), "decryptTicket rejected a valid ticket"
    if op == "S":
        if io[0] != "ok" or int(io[1]) == 0:
            return False, "sweep did not run: " + " ".join(io)
        return (io[2] == "0"), "decryptTicket accepted a modified ticket: " + io[3]
    if op == "L":
        cap = int(f[2])
        cap = 64 if cap < 1 else cap
        d, gets = OrderedDict(), []
        for o in ([] if f[3] == "-" else f[3].split(",")):
            if o[0] == "p":
                k, v = o[1:].split(":")
                if k in d:
                    d.pop(k)
                elif len(d) >= cap:
                    d.popitem(last=False)
                d[k] = v
            else:
                k = o[1:]
                if k in d:
                    v = d.pop(k)
                    d[k] = v
                    gets.append(v)
                else:
                    gets.append("n")
        dump = ",".join("%s:%s" % (k, d[k]) for k in reversed(d)) or "-"
        mk = ",".join(sorted(d.keys())) or "-"
        want = ["ok", str(cap), ",".join(gets) or "-", dump, mk]
        return (io == want), "LRU cache differs from map + recency order: want %s" % " ".join(want)[:200]
    if op == "H":
        return _pred_history(f, io)
    if op == "X":
        if io[0] != "ok":
            return False, "tamper case did not run"
        if io[1] != "F":
            return False, "the ticket-issuing handshake did not complete as a full handshake: " + io[1]
        c2 = io[2]
        if f[7] == "-":
            return (c2 == "R"), "an unmodified ticket under unchanged configurations was not resumed: " + c2
        if c2.startswith("R"):
            return False, "a modified ticket was resumed"
        # the configuration completes without a ticket (the first connection did): C16_fallback_is_full_handshake leaves
        # only the silent full handshake
        return (c2 == "F"), "modified ticket: not a silent full handshake (the same configuration completes without a ticket): " + c2
    return False, "unknown case type"
