"""C09 - issued certificates, CSRs and CRLs parse back and verify only under the issuer (x509.Create*)."""
ID = "C09"
PROPS = "Props/C09.v"
COQ_TIMEOUT = 5400   # Coq build of this property incl. rebuilt dependencies; generous: on a loaded machine a rebuild after an upstream edit took > 1500 s
GEN = ["x509tables", "sm2", "sm2sig"]   # every Gen file in the Coq closure of Props/C09.v is regenerated (never a stale table)
LEGS = [{"driver": "c09", "runner": ("x509", "Extract/ExtractX509.v", "X509_model")}]

TECHNIQUE = ("Coq proofs over tables regenerated from x509/x509.go (signature algorithms, OIDs, switches) and over a model of the signing "
             "decisions of CreateCertificate / CreateCertificateRequest / CreateCRL / CreateRevocationList versus checkSignature, plus proofs "
             "of the field codecs gmsm owns; create -> parse -> compare -> verify -> mutate differential run on the real package")
LEVEL_TEXT = ("Theorems in Coq (Props/C09.v): sigalg_table_consistent (OID <-> algorithm <-> key family <-> hash, and the hash equals the one "
              "checkSignature's switch uses, swept over the generated table), sm2_algs_are_ecdsa_family, ExtKeyUsage / named-curve / "
              "public-key-algorithm OID round trips; signing_input_consistent: for every kind of object, signer key type and requested "
              "algorithm the package accepts, the verifier checks under the same primitive, hash and message convention (digest of the TBS, or "
              "raw TBS with the SM2 default id) the signer used (created_verifies_or_refused: every request is refused at "
              "creation or self-verifies; MD2WithRSA and MD5WithRSA are refused); key-usage bit codec for all 511 non-empty usage sets, basic "
              "constraints (MaxPathLen -1/0/MaxPathLenZero) and DER INTEGER (serials of any sign/size, minimal length) for all inputs. "
              "Relative to C01 (SM2Facts): created_verifies_sm2 (the signature an SM2 signer stores verifies under the issuer key, all keys, TBS, "
              "random streams), created_rejects_changed_signature (checkSignature accepts exactly the strict DER{r,s} of pairs Sm2Verify accepts), "
              "created_rejects_changed_tbs (same signature accepted for two TBS => SM3 digests agree mod n), C09_signer_signs_over_default_Z (the "
              "stored signature is an Sm2Sign result for the default user id, a function of key, TBS and random stream only) and "
              "C09_other_uid_Z_rejected (a signature over the Z value of another user id is accepted by checkSignature only if the digests agree "
              "mod n); RSA/ECDSA by contract. Byte-level "
              "extension codecs over a proved DER layer (TLV, base-128, OIDs): SubjectAltName, ExtKeyUsage, CertificatePolicies, NameConstraints, "
              "Subject/AuthorityKeyId round-trip for everything the builders accept; extension OIDs, parse arms and KeyUsage bit order tied to "
              "the source. Differential run: ~400 (quick) / ~3000 (thorough) templates over all documented fields x signer {SM2, RSA-2048, P-256} x 22 "
              "algorithm values: parse-back of every field, verification under the issuer and under another key, and 5-8 thousand single-byte "
              "mutants per object (all positions in the thorough tier) plus ~25 arithmetic mutants of the signature VALUE "
              "((r,s+N), (r+N,s), s+2N, r-N, N-s for SM2, swapped, negated, zero-padded integers, long-form lengths, surplus element / byte; "
              "RSA: c+N, 0||c, N-c), each spliced into the object with lengths fixed up; the model predicts accept/reject and self-verification of every case.")
LEVEL_NOTE = ("Field-by-field parse-back through encoding/asn1 and pkix is NOT proved; it is checked by the differential run only. The "
              "cryptographic primitives: SM2 relative to C01 (created_verifies_sm2 under SM2Facts; created_rejects_* by C01's characterisation / "
              "collision clause), crypto/rsa and crypto/ecdsa by contract (created_verifies_by_contract); 'verifies only under the "
              "issuer' and 'any changed byte is rejected' are observed on every generated object, not proved. The signing model abstracts "
              "'bytes handed to Sign / bytes verified' to a scheme (primitive, hash, digest-or-raw); signingParamsForPublicKey's defaults, "
              "isRSAPSS, marshalPublicKey's OIDs and both switches are taken from the source by the translator, the control flow around them "
              "is modelled by hand and tied by the run. Byte changes inside the OUTER signatureAlgorithm (neither signed bytes nor signature "
              "value) survive for certificates (the parser reads only the inner identifier) and for SM2 / RSA CSRs and CRLs (sibling SM2 OIDs, "
              "NULL tag): counted in the statistics (algsurvivor), not a failure of this property. For plain ECDSA the pair (r, N-s) is the well-known second signature "
              "of the same message (a property of ECDSA, accepted by crypto/ecdsa): it is not among the arithmetic mutants of P-256 signatures; "
              "it is for SM2. Since c7e548c an EC signature value must be exactly DER SEQUENCE{r,s} (surplus element rejected; regression "
              "mutant seq+extra-int). MD5WithRSA is inside the property (RSA family): it is refused "
              "at creation since 08c5823. corpus/c09/c09_anomalies.cases holds the inputs of the four defects repaired in c92c937, 08c5823, "
              "9737171, 26cf598 as regression cases.")
TRUSTED_BASE = [
    "translator target harness/cmd/gen/target_x509.go (go/parser): tables, OID literals, the checkSignature / isRSAPSS / curve / key-type switches of x509/x509.go -> coq/Gen/X509Tables.v",
    "model coq/X509/CreateModel.v written by hand from utils.go:CreateCertificate, x509.go:CreateCertificateRequest/CreateCRL/CreateRevocationList/signingParamsForPublicKey/signingInput/getSignatureAlgorithmFromAI/checkSignature/buildExtensions; tied by the correspondence run",
    "coq/X509/CreateRun.v: the runner evaluates a table computed by Coq from the model (theorem runner_table_is_the_model)",
    "object-level models coq/X509/CertModel.v (TBSCertificate frame, SM2 SubjectPublicKeyInfo, buildExtensions order / criticality / conditions, extension loop of parseCertificate, CertificationRequestInfo frame) and coq/X509/CrlModel.v; tied by the tbsc / tbs E cases (real RawTBSCertificate / TBSCertList bytes = model)",
    "byte-level extension models coq/X509/ExtModel.v over coq/X509/DerLayer.v (encoding/asn1 by contract: how typed values are filled); tied by the E cases (real extension value bytes and parsed fields = model)",
    "C01 (Props/C01.v) for the SM2 statements: premises SM2Facts (p, n prime, group law, order of G)",
    "extraction: ExtrOcamlBasic only; runner ocaml/x509/main.ml and ocaml/conv.ml.tmpl",
    "Go driver harness/cmd/c09 (template generator, field comparison, mutation regions); cached RSA test keys corpus/c09/rsa2048_*.pem",
    "encoding/asn1, crypto/x509/pkix, crypto/rsa, crypto/ecdsa, math/big: modelled by contract where the codecs need them, otherwise exercised by the run",
]
ASSUMPTIONS = [
    "rsa.PrivateKey.Sign signs PSS iff given *rsa.PSSOptions, else PKCS#1 v1.5 with opts.HashFunc(); ecdsa.PrivateKey.Sign signs the digest it is given; sm2.PrivateKey.Sign signs the raw message with the default user id",
    "a public key that went through marshalPublicKey / parsePublicKey comes back as *rsa.PublicKey or *ecdsa.PublicKey on the named curve",
    "encoding/asn1: optional / default fields are omitted exactly when they hold the default; a BIT STRING is accepted iff its unused bits are zero; *big.Int is written as minimal two's complement",
    "verification under a different key and after byte changes relies on the primitives (SM2: C01; RSA, ECDSA: standard library)",
]
RULE = ("T case lines carry, besides the seed, (field 8) whether the template lies inside the documented domain of its fields (v) or has a "
        "planted invalid value (x: invalid UTF-8, year 10000, non-IA5 or empty permitted domain, NextUpdate before ThisUpdate - decided by "
        "the generator from the field documentation, never by calling the package) and (field 9, certificates) the template values of serial, "
        "validity, key usage, basic constraints, SANs and the subject public key. The predicate demands creation for every v template with an "
        "acceptable (signer, algorithm) pair (its own table), reads the DER of every created certificate with its own DER reader and compares "
        "those fields (public key also checked to lie on the SM2 curve), and sees CheckSignatureFrom and CheckSignature separately (a mutant "
        "survives if EITHER accepts it). Quick: 441 T cases (every (kind, signer, algorithm) once + 240 random, SM2 signer 1/2), of which ~300 "
        "are created objects (~60 SM2 certificates, ~30 SM2 CRLs). "
        "Seeded generator (VERIF_SEED): every (kind, signer, algorithm) combination once (kind in cert/csr/crl/rl, signer in SM2/RSA-2048/P-256, "
        "algorithm in 0..19, 99, -1), then random templates of varying richness: serials (negative, 0, 20-byte with/without top bit, 40 bytes), "
        "names with multi-valued and extra attributes and non-ASCII strings, validity bounds (1950/2049/2050/9999, time zones), all key-usage bits, "
        "EKUs incl. unknown OIDs, basic constraints and path lengths incl. MaxPathLenZero, SANs of each kind, name constraints, policy OIDs, "
        "AIA/CRL distribution points, extra extensions, CSR attributes, CRL entries with extensions; per object: parse-back of every field, "
        "verification under issuer / other key, arithmetic mutants of the decoded signature value (congruent values mod the group order, "
        "non-canonical encodings), single-byte mutants (quick: every header octet with all 255 values + one mutant at every other "
        "sampled position; thorough: all positions). E cases (400 quick / 4000 thorough): one extension each (SubjectAltName, ExtKeyUsage, "
        "CertificatePolicies, NameConstraints, Subject/AuthorityKeyId) with byte strings of length 0..300 and 65536+, non-IA5 bytes, IPs of good "
        "and bad length, OIDs with boundary arcs and invalid shapes, unknown EKU constants: the extension VALUE bytes and the fields parsed back "
        "are compared with the byte-level Coq model; every fifth E case is a TBSCertList (CreateRevocationList / CreateCRL with random "
        "times around the UTCTime/GeneralizedTime switch, serials, entry extensions, key id, CRL number, extra extensions): the real "
        "TBSCertList bytes must equal the model's; another fifth is a TBSCertificate (CreateCertificate with an SM2 subject key given by its "
        "coordinates, serial, names, validity, key usage, EKUs, basic constraints, key ids, SANs, policies, name constraints): the real "
        "RawTBSCertificate bytes must equal the model's. Y cases (6 quick / 40 thorough): HISTORIES of fixed SM2 keys whose public "
        "coordinates have 0, 1, 2 and 3 leading zero bytes (x, y or both; scalars found off line), in a seed-rotated order: each key issues a "
        "self-signed CA certificate, a certificate for the next key, a request and a CRL, and after every issuance ALL objects so far are "
        "verified again under their issuer (must hold), after each key's last object also under every other key used so far (must fail), and public keys must parse back "
        "to the coordinates (implementation-only: the runner prints SKIP). Y cases with an operation list (24 quick / 240 thorough): USER-ID "
        "HISTORIES on ONE *sm2.PrivateKey object (fixed scalars with short coordinates and random ones): Sm2Sign / Sm3Digest / Sm2Verify with "
        "user ids (empty, the default id spelled out, a prefix of it, the default id plus one octet, 'alice@example.org', 1..40 random octets), "
        "PrivateKey.Sign, value copies of the key object, and certificates / requests / CRLs / RevocationLists issued with the same object "
        "in between (every history has an operation with a non-default id before its first or second issuance): after EVERY operation all "
        "objects issued so far must verify under the issuer's public key (a certificate issued by a fresh key object and parsed), a "
        "signature made with id u must verify with u under a fresh public key and through the used object and with the default id exactly "
        "when u is the default id, Sm3Digest of the used object must equal that of a fresh one (implementation-only; the model is a "
        "function of (key, uid, message) and has no state: C09_signer_signs_over_default_Z, C09_other_uid_Z_rejected). Q cases with six fields (30 quick / 300 thorough): BUNDLES - 1 to 6 "
        "certificates issued by the package (r = random template with extensions of every kind, b = self-signed from a template that uses "
        "NO optional field, n = the same under a parent without SubjectKeyId, k = KeyUsage only; SM2 and P-256 signers; every order of "
        "with / without extensions systematically, then random shapes) are concatenated and read back through ParseCertificates: every "
        "certificate must equal its own template field by field (the comparison of T cases), for ParseCertificates AND ParseCertificate, "
        "the two parsed structures must be equal in every field, the bare kinds must come back without extensions and each must verify "
        "under its signer's key (implementation-only). P cases (40 quick / 400 thorough): a signer LOADED through "
        "ParseSm2PrivateKey / ParsePKCS8UnecryptedPrivateKey / ReadPrivateKeyFromPem from a hand-built key file whose scalar OCTET STRING "
        "has 30, 31 (leading zero octets stripped), 32, 33 or 34 octets (zero padding, as signed-integer encoders write), with or without the "
        "optional public key: the loaded key must be (d, [d]G) with [d]G computed by the check module's own curve arithmetic, the certificate "
        "it issues must carry [d]G and certificate, request and CRL must verify under [d]G. Q cases (36 quick / 360 thorough): a CA whose "
        "subject encoding is given (attributes through ExtraNames, a second country, an unknown attribute type, CN-O-C order, UTF8String / "
        "IA5String / TeletexString values, multi-valued, plain) goes through ParseCertificate (or is an in-memory parent with RawSubject) and "
        "issues a certificate: the issuer field read from the child's DER must equal the parent's subject byte for byte and Verify must "
        "build child -> parent (both implementation-only). Every case is non-trivial; distinct = distinct case text")


ALGO_ERRORS = ("x509:_requested_SignatureAlgorithm_does_not_match_private_key_type", "x509:_unknown_SignatureAlgorithm",
               "x509:_cannot_sign_with_hash_function_requested", "x509:_signing_with_MD5_is_not_supported", "x509:_only_RSA_and_ECDSA_keys_supported",
               "x509:_unknown_elliptic_curve", "x509:_unknown_SM2_curve")


def _same(f, io, mo):
    if f[0] in ("P", "Q"):
        return True                  # no model side (the runner prints SKIP): judged by the predicate's own EC / DER code
    if f[0] == "Y":
        return True                  # histories have no model side (the runner prints SKIP)
    if f[0] == "E":
        return io == mo              # extension bytes and the fields parsed back (or err create / err parse / PANIC)
    return _same_T(f, io, mo)


def _same_T(f, io, mo):
    """projected observables: was the (signer, algorithm) pair accepted, and does the object verify under the issuer.
    The model covers the algorithm decision only: a template refused for another reason (invalid UTF-8, year 10000,
    NextUpdate before ThisUpdate ...) or a created object that does not parse is outside it."""
    if not io or not mo or io[0] != "ok" or mo[0] != "ok":
        return bool(io) and bool(mo) and io[0] == mo[0]
    tmpl = f[7] if len(f) > 7 else "?"
    if io[1] == "0":
        why = io[-1]
        if why.startswith(ALGO_ERRORS):
            return mo[1] == "0"
        # refused for another reason: expected only for templates with a planted invalid value (field 8 = x); a valid
        # template (v) that is refused disagrees with the model, which predicts creation from the (signer, algorithm) pair
        return tmpl != "v"
    if mo[1] != "1":
        return False
    if len(io) > 10 and io[10].startswith("parsefail:"):
        return True
    return (set(io[3]) == {"1"}) == (mo[2] == "1")


SM2_ALGS = {16, 17, 18}
RSA_ALGS = {2, 3, 4, 5, 6, 13, 14, 15}     # RSA algorithms the package signs with (MD2 is refused at creation)
RSA_INSECURE = {1, 2}                       # MD2WithRSA / MD5WithRSA: checkSignature answers InsecureAlgorithmError by design
ECDSA_ALGS = {9, 10, 11, 12}

_FAMILY = {"sm2": SM2_ALGS, "rsa": RSA_ALGS, "p256": ECDSA_ALGS}


def _algo(f):
    try:
        return int(f[4])
    except (ValueError, IndexError):
        return None


# the (signer, algorithm) pairs every Create* function accepts (independent of the Coq model: read off
# signatureAlgorithmDetails - SM2 algorithms are registered in the ECDSA family - and the MD2/MD5 refusals)
_ACCEPTED = {"rsa": {0, 3, 4, 5, 6, 13, 14, 15}, "sm2": {0, 9, 10, 11, 12, 16, 17, 18}, "p256": {0, 9, 10, 11, 12, 16, 17, 18}}


# ---- the predicate's own view of a created certificate: a small DER reader (python, independent of the package
# under test, of the driver's comparison and of the Coq model) ----------------------------------------------------
def _tlv(b, i):
    """(identifier, content start, content end) of the element at offset i; raises on truncation / indefinite length"""
    ident = b[i]
    if ident & 0x1f == 0x1f:
        raise ValueError("high tag number")
    l = b[i + 1]
    j = i + 2
    if l & 0x80:
        k = l & 0x7f
        if k == 0 or k > 4:
            raise ValueError("bad length")
        l = int.from_bytes(b[j:j + k], "big")
        j += k
    if j + l > len(b):
        raise ValueError("truncated")
    return ident, j, j + l


def _children(b, lo, hi):
    out = []
    while lo < hi:
        ident, cs, ce = _tlv(b, lo)
        out.append((ident, cs, ce))
        lo = ce
    if lo != hi:
        raise ValueError("overrun")
    return out


def _oid(b):
    arcs, v = [], 0
    for x in b:
        v = (v << 7) | (x & 0x7f)
        if not x & 0x80:
            arcs.append(v)
            v = 0
    first = arcs[0]
    head = [first // 40, first % 40] if first < 80 else [2, first - 80]
    return ".".join(str(a) for a in head + arcs[1:])


def _time(ident, s):
    import calendar
    s = s.decode("ascii")
    if ident == 0x17:
        y = int(s[0:2])
        y += 2000 if y < 50 else 1900
        rest = s[2:]
    elif ident == 0x18:
        y = int(s[0:4])
        rest = s[4:]
    else:
        raise ValueError("not a time")
    if rest[-1] != "Z" or len(rest) != 11:
        raise ValueError("time format")
    mo, d, h, mi, se = (int(rest[k:k + 2]) for k in (0, 2, 4, 6, 8))
    # days since the epoch in the proleptic Gregorian calendar (years 1..9999), without datetime's platform limits
    import datetime
    days = datetime.date(y, mo, d).toordinal() - datetime.date(1970, 1, 1).toordinal()
    return days * 86400 + h * 3600 + mi * 60 + se


SM2_P = 0xFFFFFFFEFFFFFFFFFFFFFFFFFFFFFFFFFFFFFFFF00000000FFFFFFFFFFFFFFFF
SM2_B = 0x28E9FA9E9D9F5E344D5A9E4BCF6509A7F39789F515AB8F92DDBCBD414D940E93


def cert_view(der):
    """serial, validity, public key, key usage, basic constraints and SANs read from the DER of a certificate"""
    ident, cs, ce = _tlv(der, 0)
    if ident != 0x30 or ce != len(der):
        raise ValueError("outer")
    tbs, alg, sig = _children(der, cs, ce)
    ch = _children(der, tbs[1], tbs[2])
    k = 0
    v = {}
    if ch[0][0] == 0xa0:
        k = 1
    serial = ch[k]
    v["serial"] = int.from_bytes(der[serial[1]:serial[2]], "big", signed=True)
    validity = _children(der, ch[k + 3][1], ch[k + 3][2])
    v["nb"] = _time(validity[0][0], der[validity[0][1]:validity[0][2]])
    v["na"] = _time(validity[1][0], der[validity[1][1]:validity[1][2]])
    spki = _children(der, ch[k + 5][1], ch[k + 5][2])
    algo = _children(der, spki[0][1], spki[0][2])
    v["keyalg"] = _oid(der[algo[0][1]:algo[0][2]])
    v["curve"] = _oid(der[algo[1][1]:algo[1][2]]) if len(algo) > 1 and algo[1][0] == 6 else None
    bits = der[spki[1][1]:spki[1][2]]
    v["point"] = bits[1:]
    v["ku"], v["bc"], v["dns"], v["emails"], v["ips"] = 0, None, [], [], []
    for e in ch[k + 6:]:
        if e[0] != 0xa3:
            continue
        (seq,) = _children(der, e[1], e[2])
        for x in _children(der, seq[1], seq[2]):
            parts = _children(der, x[1], x[2])
            oid = _oid(der[parts[0][1]:parts[0][2]])
            val = parts[-1]
            vb = der[val[1]:val[2]]
            if oid == "2.5.29.15":
                i2, c2, e2 = _tlv(vb, 0)
                pad, body = vb[c2], vb[c2 + 1:e2]
                ku = 0
                for i in range(9):
                    if i < len(body) * 8 - pad and (body[i // 8] >> (7 - i % 8)) & 1:
                        ku |= 1 << i
                v["ku"] = ku
            elif oid == "2.5.29.19":
                i2, c2, e2 = _tlv(vb, 0)
                isca, mpl = False, -1
                for y in _children(vb, c2, e2):
                    if y[0] == 1:
                        isca = vb[y[1]] != 0
                    elif y[0] == 2:
                        mpl = int.from_bytes(vb[y[1]:y[2]], "big", signed=True)
                v["bc"] = (isca, mpl)
            elif oid == "2.5.29.17":
                i2, c2, e2 = _tlv(vb, 0)
                for y in _children(vb, c2, e2):
                    body = vb[y[1]:y[2]]
                    if y[0] & 0x1f == 2:
                        v["dns"].append(body.hex())
                    elif y[0] & 0x1f == 1:
                        v["emails"].append(body.hex())
                    elif y[0] & 0x1f == 7:
                        v["ips"].append(body.hex())
    return v


def _check_cert_fields(f, io):
    """compare the template fields of the case line with what the predicate reads from the DER itself"""
    t = f[8].split(";")
    v = cert_view(bytes.fromhex(io[11]))
    if v["serial"] != int(t[0]):
        return "serial number %d, template %s" % (v["serial"], t[0])
    if v["nb"] != int(t[1]) or v["na"] != int(t[2]):
        return "validity %d..%d, template %s..%s" % (v["nb"], v["na"], t[1], t[2])
    if v["ku"] != int(t[3]):
        return "key usage %d, template %s" % (v["ku"], t[3])
    bcv, isca, mpl, zero = t[4].split(",")
    if bcv == "1":
        want = int(mpl)
        if want == 0 and zero != "1":
            want = -1                    # MaxPathLen 0 without MaxPathLenZero means "not set"
        if v["bc"] != (isca == "1", want):
            return "basic constraints %s, template isCA=%s pathlen=%d" % (v["bc"], isca, want)
    elif v["bc"] is not None:
        return "basic constraints extension present although BasicConstraintsValid is false"
    ips = [x[24:] if len(x) == 32 and x.startswith(V4PREFIX) else x for x in _hexlist(t[7])]
    if v["dns"] != _hexlist(t[5]) or v["emails"] != _hexlist(t[6]) or v["ips"] != ips:
        return "subject alternative names differ from the template"
    x, y = int(t[8], 16), int(t[9], 16)
    pt = v["point"]
    if v["keyalg"] != "1.2.840.10045.2.1" or v["curve"] != "1.2.156.10197.1.301":
        return "public key algorithm / curve identifiers %s %s" % (v["keyalg"], v["curve"])
    if len(pt) != 65 or pt[0] != 4 or int.from_bytes(pt[1:33], "big") != x or int.from_bytes(pt[33:], "big") != y:
        return "public key differs from the subject key"
    if (y * y - (x * x * x - 3 * x + SM2_B)) % SM2_P != 0:
        return "public key is not a point of the SM2 curve"
    return None


def _accepts(f):
    return f[2] == "crl" or _algo(f) in _ACCEPTED.get(f[3], set())


def _in_property(f):
    """is (signer, algo) 'left to default or of the signer's key family' (and verifiable at all)"""
    a = _algo(f)
    return a == 0 or a in _FAMILY.get(f[3], set())


def _insecure(f):
    # MD5WithRSA / MD2WithRSA with an RSA signer: refused at creation (MD5 since 08c5823).  Should one be created
    # again, the algorithm belongs to the signer's family and the predicate demands that it verifies.
    return f[3] == "rsa" and _algo(f) in RSA_INSECURE


def nontrivial(f):
    return (len(f) >= 7 and f[0] == "T") or f[0] == "E" or (f[0] == "P" and len(f) == 6) or (f[0] == "Q" and len(f) == 5) or (f[0] == "Q" and len(f) == 6 and f[2] == "bundle") or (f[0] == "Y" and len(f) == 3 and f[2].count(",") >= 2) or (f[0] == "Y" and len(f) == 4 and _uid_history_nontrivial(f[3].split(",")))


KNOWN_EKU_OIDS = {"2.5.29.37.0", "1.3.6.1.4.1.311.10.3.3", "2.16.840.1.113730.4.1"} | {"1.3.6.1.5.5.7.3.%d" % i for i in range(1, 10)}
V4PREFIX = "00000000000000000000ffff"


def _hexlist(s):
    return [] if s == "-" else ["" if x == "." else x for x in s.split(",")]


def _predicate_E(f, io):
    """one extension: the fields parsed back equal the fields put in (inside the documented domain of the fields)"""
    if not io or io[0] in ("PANIC", "HANG"):
        if f[2] == "eku" and io and io[0] == "PANIC" and any(int(x) > 11 for x in f[3].split(",") if x != "-"):
            return True, ""          # ExtKeyUsage value that is no constant of the package: buildExtensions panics by design
        return False, "implementation " + (io[0] if io else "gave no result")
    kind = f[2]
    if kind in ("ncx", "tbs", "tbsc"):
        return True, ""              # arbitrary NameConstraints value / TBSCertList / TBSCertificate bytes: decided by comparison with the model
    if io[:2] == ["err", "create"]:
        # a refusal must be explained by the input: an object identifier encoding/asn1 cannot write, an empty or
        # non-IA5 permitted domain; everything else the builders must accept
        def oid_bad(o):
            a = [int(x) for x in o.split(".")]
            return len(a) < 2 or a[0] > 2 or (a[0] < 2 and a[1] >= 40)
        if kind == "eku" and any(oid_bad(o) for o in f[4].split(",") if o != "-"):
            return True, ""
        if kind == "pol" and any(oid_bad(o) for o in f[3].split(",") if o != "-"):
            return True, ""
        if kind == "nc" and any(d == "" or any(b >= 128 for b in bytes.fromhex(d)) for d in _hexlist(f[4])):
            return True, ""
        return False, "%s extension: fields inside their documented domain were refused" % kind
    if io[:2] == ["err", "parse"]:
        if kind == "san" and any(len(x) not in (8, 32) for x in _hexlist(f[5])):
            return True, ""          # a net.IP that is neither 4 nor 16 bytes is no IP address
        if kind in ("eku", "pol"):
            oids = [o for o in (f[4] if kind == "eku" else f[3]).split(",") if o != "-"]
            for o in oids:
                a = [int(x) for x in o.split(".")]
                if len(a) >= 2 and (40 * a[0] + a[1] >= 2 ** 31 or any(x >= 2 ** 31 for x in a)):
                    return True, ""  # encoding/asn1 writes arcs >= 2^31 (incl. 40*first+second) but refuses to read them
        return False, "created certificate does not parse (%s extension)" % kind
    if io[0] != "ok" or len(io) < 3 or io[1] == "-":
        return False, "extension missing from the created certificate: " + " ".join(io)
    if kind == "san":
        ips = [x[24:] if len(x) == 32 and x.startswith(V4PREFIX) else x for x in _hexlist(f[5])]
        want = [_hexlist(f[3]), _hexlist(f[4]), ips]
        got = [_hexlist(io[2]), _hexlist(io[3]), _hexlist(io[4])]
    elif kind == "eku":
        unknown = [] if f[4] == "-" else f[4].split(",")
        if any(o in KNOWN_EKU_OIDS for o in unknown):
            return True, ""          # an "unknown" usage that is a known one comes back as the known constant
        want = [f[3], unknown]
        got = [io[2], [] if io[3] == "-" else io[3].split(",")]
    elif kind == "pol":
        want, got = [f[3]], [io[2]]
    elif kind == "nc":
        want, got = [f[3], _hexlist(f[4])], [io[2], _hexlist(io[3])]
    else:
        want, got = [f[3]], [io[2]]
    if want != got:
        return False, "%s extension does not parse back to the template fields" % kind
    return True, ""


SM2_N = 0xFFFFFFFEFFFFFFFFFFFFFFFFFFFFFFFF7203DF6B21C6052B53BBF40939D54123
SM2_GX = 0x32C4AE2C1F1981195F9904466A39C9948FE30BBFF2660BE1715A4589334C74C7
SM2_GY = 0xBC3736A2F4F6779C59BDCEE36B692153D0A9877CC62A474002DF32E52139F0A0


def _ec_add(P, Q):
    """affine addition on y^2 = x^3 - 3x + b over GF(SM2_P); None is the point at infinity"""
    if P is None:
        return Q
    if Q is None:
        return P
    (x1, y1), (x2, y2) = P, Q
    if x1 == x2:
        if (y1 + y2) % SM2_P == 0:
            return None
        l = (3 * x1 * x1 - 3) * pow(2 * y1, -1, SM2_P) % SM2_P
    else:
        l = (y2 - y1) * pow(x2 - x1, -1, SM2_P) % SM2_P
    x3 = (l * l - x1 - x2) % SM2_P
    return x3, (l * (x1 - x3) - y1) % SM2_P


def sm2_base_mult(d):
    """[d]G by double-and-add (the predicate's own arithmetic: no code of /repo, of the driver or of the model)"""
    R, A = None, (SM2_GX, SM2_GY)
    while d:
        if d & 1:
            R = _ec_add(R, A)
        A = _ec_add(A, A)
        d >>= 1
    return R


def _predicate_P(f, io):
    """a signer loaded from a hand-built key file: the loaded key is (d, [d]G) and what it issues verifies under [d]G"""
    if not io or io[0] in ("PANIC", "HANG"):
        return False, "implementation " + (io[0] if io else "gave no result")
    d = int(f[2], 16)
    octets = int(f[3])
    if not 0 < d < SM2_N or octets < 30 or octets > 34 or (octets < 32 and d >> (8 * octets)):
        return True, ""                  # outside the documented domain (not generated)
    if io[0] != "ok" or len(io) < 8:
        return False, "valid SM2 key file (scalar in %d octets, loader %s) not usable: %s" % (octets, f[4], " ".join(io)[:200])
    X, Y = sm2_base_mult(d)
    lx, ly, ld, tx, ty = (int(v, 16) for v in io[1:6])
    if (tx, ty) != (X, Y):
        return False, "driver's reference point differs from [d]G computed by the check module"
    if ld != d:
        return False, "loaded private scalar differs from the one in the key file (scalar in %d octets)" % octets
    if (lx, ly) != (X, Y):
        return False, "loaded public key is not [d]G (scalar in %d octets, loader %s)" % (octets, f[4])
    if io[6] != "111":
        return False, "objects issued by the loaded signer do not verify under [d]G: certificate/request/CRL = %s" % io[6]
    pt = cert_view(bytes.fromhex(io[7]))["point"]
    if len(pt) != 65 or pt[0] != 4 or (int.from_bytes(pt[1:33], "big"), int.from_bytes(pt[33:], "big")) != (X, Y):
        return False, "certificate issued for the loaded key carries a public key that is not [d]G"
    return True, ""


def name_view(der):
    """the issuer and subject fields of a certificate, as the bytes that are in its DER"""
    ident, cs, ce = _tlv(der, 0)
    tbs = _children(der, cs, ce)[0]
    ch = _children(der, tbs[1], tbs[2])
    k = 1 if ch[0][0] == 0xa0 else 0
    return der[ch[k + 1][2]:ch[k + 2][2]], der[ch[k + 3][2]:ch[k + 4][2]]


def _predicate_Q(f, io):
    """a certificate issued under a parent with a given subject encoding: issuer field == subject of the parent, byte for byte,
    and Verify builds the chain"""
    if not io or io[0] in ("PANIC", "HANG"):
        return False, "implementation " + (io[0] if io else "gave no result")
    if io[0] != "ok" or len(io) < 5:
        return False, "certificate under a parent with a valid subject (%s) was not issued: %s" % (f[2], " ".join(io)[:200])
    raw = bytes.fromhex(f[3])
    ca_issuer, ca_subject = name_view(bytes.fromhex(io[2]))
    if ca_subject != raw:
        return False, "subject of the CA certificate is not the RawSubject of its template (%s)" % f[2]
    ch_issuer, _ = name_view(bytes.fromhex(io[1]))
    if ch_issuer != raw:
        return False, ("issuer field of the issued certificate differs from the subject of its parent (%s, parent %s): %s vs %s"
                       % (f[2], "parsed" if f[4] == "p" else "in memory", ch_issuer.hex(), raw.hex()))
    if io[3] != "1":
        return False, "Verify does not build the chain child -> parent (%s): %s" % (f[2], io[3])
    if io[4] != "1":
        return False, "the issued certificate does not verify under its parent (%s)" % f[2]
    return True, ""


def _predicate_Y(f, io):
    """a history of SM2 keys (public coordinates with leading zero bytes among them): every object issued so far verifies under
    its issuer, and under no other key used so far, at EVERY point of the history; public keys parse back"""
    if not io or io[0] in ("PANIC", "HANG"):
        return False, "implementation " + (io[0] if io else "gave no result")
    nkeys = f[2].count(",") + 1
    if io[0] != "ok" or len(io) < 4:
        return False, "history could not be run (creation / parsing refused for a valid SM2 key): " + " ".join(io)
    if io[1] != str(4 * nkeys):
        return False, "history issued %s objects, expected %d" % (io[1], 4 * nkeys)
    # 4 verification rounds per key: round r of key i checks every object so far under its issuer; the last round of key i
    # also checks them under the i other keys used so far
    want = sum(4 * i + r for i in range(nkeys) for r in range(1, 5)) + sum(4 * (i + 1) * i for i in range(nkeys))
    if io[2] != str(want):
        return False, "history made %s verification checks, expected %d" % (io[2], want)
    if io[3] != "-":
        return False, "history of SM2 keys: " + io[3]
    return True, ""


_DEFAULT_UID_HEX = "31323334353637383132333435363738"
_ISSUE_OPS = ("cert", "csr", "crl", "rl")


def _uid_history_expect(ops):
    """(objects, checks) a user-id history must report: s = 3 checks, d = 1, v = 2, S = 2, copy = 0, issuing = 0, and after every
    operation one check per object issued so far"""
    objs = checks = 0
    for op in ops:
        k = op.split(":")[0]
        if k in _ISSUE_OPS:
            objs += 1
        elif k not in ("s", "d", "v", "S", "copy"):
            return None
        checks += {"s": 3, "d": 1, "v": 2, "S": 2}.get(k, 0) + objs
    return objs, checks


def _uid_history_nontrivial(ops):
    """some operation with a user id other than the default one (empty = default) comes before an issuing operation"""
    seen = False
    for op in ops:
        k, _, u = op.partition(":")
        if k in ("s", "d", "v") and u not in ("", _DEFAULT_UID_HEX):
            seen = True
        if k in _ISSUE_OPS and seen:
            return True
    return False


def _predicate_YU(f, io):
    """a history of operations on ONE SM2 key object (signatures / digests / verifications with arbitrary user ids, value copies,
    issuing): whatever came before, every issued object verifies under the issuer's public key at every later point, signatures
    verify with exactly their own user id, and the used key object answers like a fresh one"""
    if not io or io[0] in ("PANIC", "HANG"):
        return False, "implementation " + (io[0] if io else "gave no result")
    ops = f[3].split(",")
    want = _uid_history_expect(ops)
    if want is None:
        return False, "malformed user-id history"
    if io[0] != "ok" or len(io) < 4:
        return False, "user-id history could not be run (signing / creation / parsing refused for a valid SM2 key): " + " ".join(io)
    if io[1] != str(want[0]):
        return False, "user-id history issued %s objects, expected %d" % (io[1], want[0])
    if io[2] != str(want[1]):
        return False, "user-id history made %s checks, expected %d" % (io[2], want[1])
    if io[3] != "-":
        return False, "history of operations on one SM2 key object (user ids %s): %s" % (
            ";".join(sorted({op.partition(":")[2] or "default" for op in ops if ":" in op}))[:160], io[3])
    return True, ""


def _predicate_bundle(f, io):
    """certificates issued by the package, concatenated and read back through ParseCertificates: each one comes back with the field
    values of its own template and equal to what ParseCertificate gives for the same bytes, whatever stands next to it"""
    if not io or io[0] in ("PANIC", "HANG"):
        return False, "implementation " + (io[0] if io else "gave no result")
    els = f[5].split(",")
    if any(e.split(":")[0] not in ("r", "b", "n", "k") for e in els):
        return False, "malformed bundle case"
    if io[0] != "ok" or len(io) < 4:
        return False, "bundle could not be issued / parsed (valid templates, matching signature algorithm): " + " ".join(io)
    if io[1] != str(len(els)) or io[2] != str(1 + 4 * len(els)):
        return False, "bundle of %d certificates: driver reports %s certificates, %s checks" % (len(els), io[1], io[2])
    if io[3] != "-":
        return False, "bundle %s read through ParseCertificates: %s" % (".".join(e.split(":")[0] for e in els), io[3])
    return True, ""


def _predicate(f, io):
    """the property evaluated on what /repo did (no model involved)"""
    if f[0] == "E":
        return _predicate_E(f, io)
    if f[0] == "Y" and len(f) == 4:
        return _predicate_YU(f, io)
    if f[0] == "Y":
        return _predicate_Y(f, io)
    if f[0] == "P":
        return _predicate_P(f, io)
    if f[0] == "Q" and len(f) == 6 and f[2] == "bundle":
        return _predicate_bundle(f, io)
    if f[0] == "Q":
        return _predicate_Q(f, io)
    if not io or io[0] in ("PANIC", "HANG"):
        return False, "implementation " + (io[0] if io else "gave no result")
    if io[0] != "ok" or len(io) < 11:
        return False, "driver could not run the case: " + " ".join(io)
    created = io[1]
    if created == "0":
        # a refusal is legitimate only when the (signer, algorithm) pair is not acceptable or the template carries a
        # planted invalid value (field 8 = x, decided by the generator from the documented domains of the fields)
        if len(f) > 7 and f[7] == "v" and _accepts(f):
            return False, "valid template with an acceptable signature algorithm was refused (%s)" % io[-1]
        return True, ""
    if created != "1":
        return False, "malformed observation"
    if not _in_property(f):
        return True, ""                     # cross-family / insecure / unknown algorithm accepted: the property does not speak
    parse_equal, v_issuer, v_other = io[2], io[3], io[4]
    try:
        s_tbs, s_sig, s_alg, s_hdr = int(io[6]), int(io[7]), int(io[8]), int(io[9])
    except ValueError:
        return False, "malformed observation"
    detail = io[10] if len(io) > 10 else "-"
    kind = f[2]
    if parse_equal != "1":
        return False, "created %s does not parse back to the template (%s)" % (kind, detail)
    if kind == "cert" and len(f) > 8 and f[8] != "-" and len(io) > 11:
        try:
            w = _check_cert_fields(f, io)
        except (ValueError, IndexError) as e:
            w = "the DER of the created certificate is not readable (%s)" % e
        if w:
            return False, "created certificate, read independently: " + w
    if set(v_issuer) != {"1"}:      # one character per entry point (certificates: CheckSignatureFrom, CheckSignature)
        return False, "created %s does not verify under the issuer's key (entry points: %s)" % (kind, v_issuer)
    if set(v_other) != {"0"}:
        return False, "created %s verifies under a different key (entry points: %s)" % (kind, v_other)
    if s_tbs or s_sig or s_hdr:
        return False, "changed object still verifies (single-byte or arithmetic signature mutant): tbs=%d sig=%d hdr=%d (%s)" % (s_tbs, s_sig, s_hdr, detail)
    # s_alg > 0 (changes inside the outer signatureAlgorithm, which is neither signed nor the signature value) is
    # reported through classify(), not a failure of this property
    return True, ""


def _classify(f, io):
    """kind:signer:created|rejected[:crossfamily|:insecure][:noverify][:diff][:algsurvivor][:survivor]"""
    if f[0] == "P":
        return "P:%s:%s:%s" % (f[3], f[4], "ok" if io[:1] == ["ok"] and io[6:7] == ["111"] else "fail")
    if f[0] == "Q" and len(f) == 6 and f[2] == "bundle":
        return "B:%s:%s" % (".".join(e.split(":")[0] for e in f[5].split(","))[:9], "ok" if io[:1] == ["ok"] and io[3:4] == ["-"] else "fail")
    if f[0] == "Q":
        return "Q:%s:%s:%s" % (f[2], f[4], "ok" if io[:1] == ["ok"] and io[3:5] == ["1", "1"] else "fail")
    if f[0] == "Y" and len(f) == 4:
        return "YU:" + ("ok" if io[:1] == ["ok"] and io[3:4] == ["-"] else "fail")
    if f[0] == "Y":
        return "Y:" + ("ok" if io[:1] == ["ok"] and io[3:4] == ["-"] else "fail")
    if f[0] == "E":
        return "E:%s:%s" % (f[2], " ".join(io[:2]) if io and io[0] != "ok" else "ok")
    base = "%s:%s" % (f[2], f[3])
    if not io or io[0] != "ok" or len(io) < 11:
        return base + ":" + (io[0] if io else "none")
    if io[1] != "1":
        return base + ":rejected"
    lab = base + ":created"
    if _insecure(f):
        lab += ":insecure"
    elif not _in_property(f):
        lab += ":crossfamily"
    if set(io[3]) != {"1"}:
        lab += ":noverify"
    if io[2] != "1":
        lab += ":diff"
    try:
        if int(io[8]) > 0:
            lab += ":algsurvivor"
        if int(io[6]) + int(io[7]) + int(io[9]) > 0:
            lab += ":survivor"
    except ValueError:
        pass
    return lab




# An observation or model line that does not have the shape its case expects (a truncated file, a line of another
# run) must not crash the check: it is reported as a failure of that case.
def _guarded(fn, default):
    def g(*a):
        try:
            return fn(*a)
        except (IndexError, ValueError, KeyError) as e:
            return default(e)
    return g


predicate = _guarded(_predicate, lambda e: (False, "malformed observation for this case (%s: %s)" % (type(e).__name__, e)))
same = _guarded(_same, lambda e: False)
classify = _guarded(_classify, lambda e: "malformed")
