"""C09 - issued certificates, CSRs and CRLs parse back and verify only under the issuer (x509.Create*)."""
ID = "C09"
PROPS = "Props/C09.v"
COQ_TIMEOUT = 5400   # Coq build of this property incl. rebuilt dependencies; generous: on a loaded machine a rebuild after an upstream edit took > 1500 s
GEN = ["x509tables"]
LEGS = [{"driver": "c09", "runner": ("x509", "Extract/ExtractX509.v", "X509_model")}]

TECHNIQUE = ("Coq proofs over tables regenerated from x509/x509.go (signature algorithms, OIDs, switches) and over a model of the signing "
             "decisions of CreateCertificate / CreateCertificateRequest / CreateCRL / CreateRevocationList versus checkSignature, plus proofs "
             "of the field codecs gmsm owns; create -> parse -> compare -> verify -> mutate differential run on the real package")
LEVEL_TEXT = ("Theorems in Coq (Props/C09.v): sigalg_table_consistent (OID <-> algorithm <-> key family <-> hash, and the hash equals the one "
              "checkSignature's switch uses, swept over the generated table), sm2_algs_are_ecdsa_family, ExtKeyUsage / named-curve / "
              "public-key-algorithm OID round trips; signing_input_consistent: for every kind of object, signer key type and requested "
              "algorithm the package accepts, the verifier checks under the same primitive, hash and message convention (digest of the TBS, or "
              "raw TBS with the SM2 default id) the signer used (created_verifies_or_refused: every request is refused at "
              "creation or self-verifies; MD2WithRSA and MD5WithRSA are refused); key-usage bit codec for all 511 non-empty usage sets, basic "
              "constraints (MaxPathLen -1/0/MaxPathLenZero) and DER INTEGER (serials of any sign/size, minimal length) for all inputs. "
              "Relative to C01 (SM2Facts): created_verifies_sm2 (the signature an SM2 signer stores verifies under the issuer key, all keys, TBS, "
              "random streams), created_rejects_changed_signature (checkSignature accepts exactly the strict DER{r,s} of pairs Sm2Verify accepts), "
              "created_rejects_changed_tbs (same signature accepted for two TBS => SM3 digests agree mod n); RSA/ECDSA by contract. Byte-level "
              "extension codecs over a proved DER layer (TLV, base-128, OIDs): SubjectAltName, ExtKeyUsage, CertificatePolicies, NameConstraints, "
              "Subject/AuthorityKeyId round-trip for everything the builders accept; extension OIDs, parse arms and KeyUsage bit order tied to "
              "the source. Differential run: ~400 (quick) / ~3000 (thorough) templates over all documented fields x signer {SM2, RSA-2048, P-256} x 22 "
              "algorithm values: parse-back of every field, verification under the issuer and under another key, and 5-8 thousand single-byte "
              "mutants per object (all positions in the thorough tier) plus ~25 arithmetic mutants of the signature VALUE "
              "((r,s+N), (r+N,s), s+2N, r-N, N-s for SM2, swapped, negated, zero-padded integers, long-form lengths, surplus element / byte; "
              "RSA: c+N, 0||c, N-c), each spliced into the object with lengths fixed up; the model predicts accept/reject and self-verification of every case.")
LEVEL_NOTE = ("Field-by-field parse-back through encoding/asn1 and pkix is NOT proved; it is checked by the differential run only. The "
              "cryptographic primitives: SM2 relative to C01 (created_verifies_sm2 under SM2Facts; created_rejects_* by C01's characterisation / "
              "collision clause), crypto/rsa and crypto/ecdsa by contract (created_verifies_by_contract); 'verifies only under the "
              "issuer' and 'any changed byte is rejected' are observed on every generated object, not proved. The signing model abstracts "
              "'bytes handed to Sign / bytes verified' to a scheme (primitive, hash, digest-or-raw); signingParamsForPublicKey's defaults, "
              "isRSAPSS, marshalPublicKey's OIDs and both switches are taken from the source by the translator, the control flow around them "
              "is modelled by hand and tied by the run. Byte changes inside the OUTER signatureAlgorithm (neither signed bytes nor signature "
              "value) survive for certificates (the parser reads only the inner identifier) and for SM2 / RSA CSRs and CRLs (sibling SM2 OIDs, "
              "NULL tag): counted in the statistics (algsurvivor), not a failure of this property. For plain ECDSA the pair (r, N-s) is the well-known second signature "
              "of the same message (a property of ECDSA, accepted by crypto/ecdsa): it is not among the arithmetic mutants of P-256 signatures; "
              "it is for SM2. Since c7e548c an EC signature value must be exactly DER SEQUENCE{r,s} (surplus element rejected; regression "
              "mutant seq+extra-int). MD5WithRSA is inside the property (RSA family): it is refused "
              "at creation since 08c5823. corpus/c09/c09_anomalies.cases holds the inputs of the four defects repaired in c92c937, 08c5823, "
              "9737171, 26cf598 as regression cases.")
TRUSTED_BASE = [
    "translator target harness/cmd/gen/target_x509.go (go/parser): tables, OID literals, the checkSignature / isRSAPSS / curve / key-type switches of x509/x509.go -> coq/Gen/X509Tables.v",
    "model coq/X509/CreateModel.v written by hand from utils.go:CreateCertificate, x509.go:CreateCertificateRequest/CreateCRL/CreateRevocationList/signingParamsForPublicKey/signingInput/getSignatureAlgorithmFromAI/checkSignature/buildExtensions; tied by the correspondence run",
    "coq/X509/CreateRun.v: the runner evaluates a table computed by Coq from the model (theorem runner_table_is_the_model)",
    "object-level models coq/X509/CertModel.v (TBSCertificate frame, SM2 SubjectPublicKeyInfo, buildExtensions order / criticality / conditions, extension loop of parseCertificate, CertificationRequestInfo frame) and coq/X509/CrlModel.v; tied by the tbsc / tbs E cases (real RawTBSCertificate / TBSCertList bytes = model)",
    "byte-level extension models coq/X509/ExtModel.v over coq/X509/DerLayer.v (encoding/asn1 by contract: how typed values are filled); tied by the E cases (real extension value bytes and parsed fields = model)",
    "C01 (Props/C01.v) for the SM2 statements: premises SM2Facts (p, n prime, group law, order of G)",
    "extraction: ExtrOcamlBasic only; runner ocaml/x509/main.ml and ocaml/conv.ml.tmpl",
    "Go driver harness/cmd/c09 (template generator, field comparison, mutation regions); cached RSA test keys corpus/c09/rsa2048_*.pem",
    "encoding/asn1, crypto/x509/pkix, crypto/rsa, crypto/ecdsa, math/big: modelled by contract where the codecs need them, otherwise exercised by the run",
]
ASSUMPTIONS = [
    "rsa.PrivateKey.Sign signs PSS iff given *rsa.PSSOptions, else PKCS#1 v1.5 with opts.HashFunc(); ecdsa.PrivateKey.Sign signs the digest it is given; sm2.PrivateKey.Sign signs the raw message with the default user id",
    "a public key that went through marshalPublicKey / parsePublicKey comes back as *rsa.PublicKey or *ecdsa.PublicKey on the named curve",
    "encoding/asn1: optional / default fields are omitted exactly when they hold the default; a BIT STRING is accepted iff its unused bits are zero; *big.Int is written as minimal two's complement",
    "verification under a different key and after byte changes relies on the primitives (SM2: C01; RSA, ECDSA: standard library)",
]
RULE = ("seeded generator (VERIF_SEED): every (kind, signer, algorithm) combination once (kind in cert/csr/crl/rl, signer in SM2/RSA-2048/P-256, "
        "algorithm in 0..19, 99, -1), then random templates of varying richness: serials (negative, 0, 20-byte with/without top bit, 40 bytes), "
        "names with multi-valued and extra attributes and non-ASCII strings, validity bounds (1950/2049/2050/9999, time zones), all key-usage bits, "
        "EKUs incl. unknown OIDs, basic constraints and path lengths incl. MaxPathLenZero, SANs of each kind, name constraints, policy OIDs, "
        "AIA/CRL distribution points, extra extensions, CSR attributes, CRL entries with extensions; per object: parse-back of every field, "
        "verification under issuer / other key, arithmetic mutants of the decoded signature value (congruent values mod the group order, "
        "non-canonical encodings), single-byte mutants (quick: every header octet with all 255 values + one mutant at every other "
        "sampled position; thorough: all positions). E cases (400 quick / 4000 thorough): one extension each (SubjectAltName, ExtKeyUsage, "
        "CertificatePolicies, NameConstraints, Subject/AuthorityKeyId) with byte strings of length 0..300 and 65536+, non-IA5 bytes, IPs of good "
        "and bad length, OIDs with boundary arcs and invalid shapes, unknown EKU constants: the extension VALUE bytes and the fields parsed back "
        "are compared with the byte-level Coq model; every fifth E case is a TBSCertList (CreateRevocationList / CreateCRL with random "
        "times around the UTCTime/GeneralizedTime switch, serials, entry extensions, key id, CRL number, extra extensions): the real "
        "TBSCertList bytes must equal the model's; another fifth is a TBSCertificate (CreateCertificate with an SM2 subject key given by its "
        "coordinates, serial, names, validity, key usage, EKUs, basic constraints, key ids, SANs, policies, name constraints): the real "
        "RawTBSCertificate bytes must equal the model's. Every case is non-trivial; distinct = distinct case text")


ALGO_ERRORS = ("x509:_requested_SignatureAlgorithm_does_not_match_private_key_type", "x509:_unknown_SignatureAlgorithm",
               "x509:_cannot_sign_with_hash_function_requested", "x509:_signing_with_MD5_is_not_supported", "x509:_only_RSA_and_ECDSA_keys_supported",
               "x509:_unknown_elliptic_curve", "x509:_unknown_SM2_curve")


def _same(f, io, mo):
    if f[0] == "E":
        return io == mo              # extension bytes and the fields parsed back (or err create / err parse / PANIC)
    return _same_T(f, io, mo)


def _same_T(f, io, mo):
    """projected observables: was the (signer, algorithm) pair accepted, and does the object verify under the issuer.
    The model covers the algorithm decision only: a template refused for another reason (invalid UTF-8, year 10000,
    NextUpdate before ThisUpdate ...) or a created object that does not parse is outside it."""
    if not io or not mo or io[0] != "ok" or mo[0] != "ok":
        return bool(io) and bool(mo) and io[0] == mo[0]
    if io[1] == "0":
        why = io[-1]
        if why.startswith(ALGO_ERRORS):
            return mo[1] == "0"
        return True                  # template refused before or after signingParamsForPublicKey: outside the model
    if mo[1] != "1":
        return False
    if len(io) > 10 and io[10].startswith("parsefail:"):
        return True
    return io[3] == mo[2]


SM2_ALGS = {16, 17, 18}
RSA_ALGS = {2, 3, 4, 5, 6, 13, 14, 15}     # RSA algorithms the package signs with (MD2 is refused at creation)
RSA_INSECURE = {1, 2}                       # MD2WithRSA / MD5WithRSA: checkSignature answers InsecureAlgorithmError by design
ECDSA_ALGS = {9, 10, 11, 12}

_FAMILY = {"sm2": SM2_ALGS, "rsa": RSA_ALGS, "p256": ECDSA_ALGS}


def _algo(f):
    try:
        return int(f[4])
    except (ValueError, IndexError):
        return None


def _in_property(f):
    """is (signer, algo) 'left to default or of the signer's key family' (and verifiable at all)"""
    a = _algo(f)
    return a == 0 or a in _FAMILY.get(f[3], set())


def _insecure(f):
    # MD5WithRSA / MD2WithRSA with an RSA signer: refused at creation (MD5 since 08c5823).  Should one be created
    # again, the algorithm belongs to the signer's family and the predicate demands that it verifies.
    return f[3] == "rsa" and _algo(f) in RSA_INSECURE


def nontrivial(f):
    return (len(f) >= 7 and f[0] == "T") or f[0] == "E"


KNOWN_EKU_OIDS = {"2.5.29.37.0", "1.3.6.1.4.1.311.10.3.3", "2.16.840.1.113730.4.1"} | {"1.3.6.1.5.5.7.3.%d" % i for i in range(1, 10)}
V4PREFIX = "00000000000000000000ffff"


def _hexlist(s):
    return [] if s == "-" else ["" if x == "." else x for x in s.split(",")]


def _predicate_E(f, io):
    """one extension: the fields parsed back equal the fields put in (inside the documented domain of the fields)"""
    if not io or io[0] in ("PANIC", "HANG"):
        if f[2] == "eku" and io and io[0] == "PANIC" and any(int(x) > 11 for x in f[3].split(",") if x != "-"):
            return True, ""          # ExtKeyUsage value that is no constant of the package: buildExtensions panics by design
        return False, "implementation " + (io[0] if io else "gave no result")
    kind = f[2]
    if kind in ("ncx", "tbs", "tbsc"):
        return True, ""              # arbitrary NameConstraints value / TBSCertList / TBSCertificate bytes: decided by comparison with the model
    if io[:2] == ["err", "create"]:
        return True, ""              # template refused: the property speaks about accepted templates
    if io[:2] == ["err", "parse"]:
        if kind == "san" and any(len(x) not in (8, 32) for x in _hexlist(f[5])):
            return True, ""          # a net.IP that is neither 4 nor 16 bytes is no IP address
        if kind in ("eku", "pol"):
            oids = [o for o in (f[4] if kind == "eku" else f[3]).split(",") if o != "-"]
            for o in oids:
                a = [int(x) for x in o.split(".")]
                if len(a) >= 2 and (40 * a[0] + a[1] >= 2 ** 31 or any(x >= 2 ** 31 for x in a)):
                    return True, ""  # encoding/asn1 writes arcs >= 2^31 (incl. 40*first+second) but refuses to read them
        return False, "created certificate does not parse (%s extension)" % kind
    if io[0] != "ok" or len(io) < 3 or io[1] == "-":
        return False, "extension missing from the created certificate: " + " ".join(io)
    if kind == "san":
        ips = [x[24:] if len(x) == 32 and x.startswith(V4PREFIX) else x for x in _hexlist(f[5])]
        want = [_hexlist(f[3]), _hexlist(f[4]), ips]
        got = [_hexlist(io[2]), _hexlist(io[3]), _hexlist(io[4])]
    elif kind == "eku":
        unknown = [] if f[4] == "-" else f[4].split(",")
        if any(o in KNOWN_EKU_OIDS for o in unknown):
            return True, ""          # an "unknown" usage that is a known one comes back as the known constant
        want = [f[3], unknown]
        got = [io[2], [] if io[3] == "-" else io[3].split(",")]
    elif kind == "pol":
        want, got = [f[3]], [io[2]]
    elif kind == "nc":
        want, got = [f[3], _hexlist(f[4])], [io[2], _hexlist(io[3])]
    else:
        want, got = [f[3]], [io[2]]
    if want != got:
        return False, "%s extension does not parse back to the template fields" % kind
    return True, ""


def _predicate(f, io):
    """the property evaluated on what /repo did (no model involved)"""
    if f[0] == "E":
        return _predicate_E(f, io)
    if not io or io[0] in ("PANIC", "HANG"):
        return False, "implementation " + (io[0] if io else "gave no result")
    if io[0] != "ok" or len(io) < 11:
        return False, "driver could not run the case: " + " ".join(io)
    created = io[1]
    if created == "0":
        return True, ""                     # template (or algorithm) rejected: the property speaks about accepted templates
    if created != "1":
        return False, "malformed observation"
    if not _in_property(f):
        return True, ""                     # cross-family / insecure / unknown algorithm accepted: the property does not speak
    parse_equal, v_issuer, v_other = io[2], io[3], io[4]
    try:
        s_tbs, s_sig, s_alg, s_hdr = int(io[6]), int(io[7]), int(io[8]), int(io[9])
    except ValueError:
        return False, "malformed observation"
    detail = io[10] if len(io) > 10 else "-"
    kind = f[2]
    if parse_equal != "1":
        return False, "created %s does not parse back to the template (%s)" % (kind, detail)
    if v_issuer != "1":
        return False, "created %s does not verify under the issuer's key" % kind
    if v_other != "0":
        return False, "created %s verifies under a different key" % kind
    if s_tbs or s_sig or s_hdr:
        return False, "changed object still verifies (single-byte or arithmetic signature mutant): tbs=%d sig=%d hdr=%d (%s)" % (s_tbs, s_sig, s_hdr, detail)
    # s_alg > 0 (changes inside the outer signatureAlgorithm, which is neither signed nor the signature value) is
    # reported through classify(), not a failure of this property
    return True, ""


def _classify(f, io):
    """kind:signer:created|rejected[:crossfamily|:insecure][:noverify][:diff][:algsurvivor][:survivor]"""
    if f[0] == "E":
        return "E:%s:%s" % (f[2], " ".join(io[:2]) if io and io[0] != "ok" else "ok")
    base = "%s:%s" % (f[2], f[3])
    if not io or io[0] != "ok" or len(io) < 11:
        return base + ":" + (io[0] if io else "none")
    if io[1] != "1":
        return base + ":rejected"
    lab = base + ":created"
    if _insecure(f):
        lab += ":insecure"
    elif not _in_property(f):
        lab += ":crossfamily"
    if io[3] != "1":
        lab += ":noverify"
    if io[2] != "1":
        lab += ":diff"
    try:
        if int(io[8]) > 0:
            lab += ":algsurvivor"
        if int(io[6]) + int(io[7]) + int(io[9]) > 0:
            lab += ":survivor"
    except ValueError:
        pass
    return lab




# An observation or model line that does not have the shape its case expects (a truncated file, a line of another
# run) must not crash the check: it is reported as a failure of that case.
def _guarded(fn, default):
    def g(*a):
        try:
            return fn(*a)
        except (IndexError, ValueError, KeyError) as e:
            return default(e)
    return g


predicate = _guarded(_predicate, lambda e: (False, "malformed observation for this case (%s: %s)" % (type(e).__name__, e)))
same = _guarded(_same, lambda e: False)
classify = _guarded(_classify, lambda e: "malformed")
