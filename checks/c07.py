"""C07 - protected records cannot be altered, reordered, replayed or truncated undetected (gmtls record layer)."""
ID = "C07"
PROPS = "Props/C07.v"
COQ_TIMEOUT = 5400   # Coq build of this property incl. rebuilt dependencies; generous: on a loaded machine a rebuild after an upstream edit took > 1500 s
GEN = ["tlssuites"]                          # Agree/KeyModel.v (key block derivation for the capture cases) reads the labels from Gen/TLSSuites.v
COQ_EXTRA_TARGETS = ["Rec/GcmRefTest.vo"]      # RFC 8998 A.1 (SM4-GCM) test of the GCM spec used by the runner
LEGS = [
    # white box: halfConn.encrypt / decrypt / incSeq / extractPadding / roundUp / padToBlockSize through the hook
    # gmtls/verif_record_verif.go; the model runs with the extracted SM4 / HMAC-SM3 / GCM specifications
    {"driver": "c07w", "runner": ("rec", "Extract/ExtractRec.v", "Rec_model"), "tags": "verif"},
    # black box: two real GMSSL endpoints through an in-process man in the middle (public API only);
    # the model replays the same writes and the same script with its own keys
    {"driver": "c07", "runner": ("rec", "Extract/ExtractRec.v", "Rec_model"), "tags": "verif"},
]

TECHNIQUE = ("Coq proofs over a function-by-function model of gmtls/conn.go's record layer (halfConn.encrypt/decrypt, incSeq, "
             "changeCipherSpec, extractPadding, padToBlockSize, roundUp, writeRecordLocked, Write, sendAlertLocked, readRecord in "
             "both phases, Read incl. the close_notify look-ahead), first with abstract primitives, then instantiated with the Coq "
             "specifications of SM4, HMAC-SM3 and GCM for which the premises are proved; the extracted model is run against the "
             "real code on single-record mutants, stateful pairs and handshake-phase reads (white box), on attacker scripts, "
             "close sequences and captured connections (black box, incl. key-block derivation from the logged master secret)")
LEVEL_TEXT = ("Theorems in Coq (Props/C07.v, 35): extractPadding's constant-time arithmetic equals the RFC padding rule for every payload; "
              "incSeq is +1 on a 64-bit big-endian counter and panics exactly at 2^64-1; the sequence number is reset only by a requested "
              "ChangeCipherSpec arriving with no handshake bytes pending; nonce/AAD/MAC-input/record layouts; fresh explicit IVs from the "
              "randomness stream; the GCM explicit nonce is the sequence number, so over any history of Writes the nonces never repeat; over any history of Writes of a CBC sender the explicit IVs on the wire are, in order, exactly the consecutive blocks consumed from config.rand() (record j carries block j, nothing reused), hence pairwise distinct whenever the blocks of the entropy source are; decrypt(encrypt(r)) = r; for every byte stream an attacker can present (every script over deliver / flip / "
              "truncate / extend / swap / duplicate / drop / inject / cross-direction and cross-connection replay / header rewrite) the "
              "receiver delivers a prefix of what the sender wrote, its first error is permanent, its sequence number equals the number of "
              "accepted records - relative to the stated idealisation only; Write always succeeds (given randomness) and the writes arrive "
              "in order; after a failure the fatal alert stops both directions; Read is chunking-independent (any buffer sizes) and never drops "
              "the unread tail of a record. For SM4 / "
              "HMAC-SM3 / GCM-over-SM4 the premises on the primitives are proved (C07_*_sm4 theorems carry none). The model is tied to /repo "
              "by ~61 000 white-box cases per quick run (exhaustive bit flips for records <= 128 bytes, all padding lengths 0..255 with every "
              "padding byte corrupted, TLS 1.0 implicit-IV chains, 370 handshake-phase reads) and ~340 black-box cases on real GMSSL "
              "connections; the extracted development also derives the key block from the logged master secret and decodes every "
              "captured record of real connections.")
LEVEL_NOTE = ("Idealisation (premise of the integrity theorems, not an axiom): ideal authenticity of HMAC-SM3 and SM4-GCM - every "
              "halfConn.decrypt call of the run that succeeds does so on an (additional data, plaintext) pair resp. MAC input the sender "
              "authenticated (trace form of INT-CTXT / unforgeability; C07_idealisation_is_about_* tie it to open / mac). "
              "Proved, no longer assumed: SM4 decrypt after encrypt and output shape (from the SM4 family's lemmas), HMAC-SM3 output length, "
              "GCM open after seal. Modelled, not verified: crypto/cipher CBC and GCM of the Go standard library (the model uses the "
              "SP 800-38A/D definitions), sockets, timing, locks, temporary network errors, renegotiation (Config.Renegotiation = Never), "
              "how much of the inbound stream is already buffered when Read looks ahead (the model takes all of it as buffered; this only "
              "moves an error report between two Read calls). Trusted: Coq kernel, extraction, the Go drivers and the hook file, "
              "generator coverage.")
TRUSTED_BASE = [
    "model coq/Rec/RecordModel.v written by hand from gmtls/conn.go, cipher_suites.go, gm_support.go; tied by the correspondence runs of this check",
    "specifications of the primitives: coq/SM4/SM4Spec.v, coq/SM3/SM3Spec.v, coq/SM3/HMACSpec.v (other families; facts used: SM4/SM4Lemmas.v decrypt_encrypt_rk and bytes_of_state_block16, SM3/HMACProofs.v hmac_sm3_length), coq/Rec/GcmRef.v (SP 800-38D; GHASH vectors and RFC 8998 A.1 with SM4 as Examples), coq/Agree/KeyModel.v (key block derivation, runner only)",
    "extraction: ExtrOcamlBasic only; nat/positive/N stay inductive; OCaml 4.13.1 + dune; runner ocaml/rec/main.ml and ocaml/conv.ml.tmpl",
    "hook file /repo/gmtls/verif_record_verif.go (build tag verif): bare halfConn with given suite/version/keys/seq (encrypt/decrypt/incSeq), extractPadding/roundUp/padToBlockSize, and Conn.readRecord in the handshake phase on a bare Conn over a byte string",
    "Go drivers harness/cmd/c07w (white box, hand-built CBC records with chosen padding) and harness/cmd/c07 (black box: in-memory buffered net.Conn pair, record-parsing man in the middle, KeyLogWriter captures with a seeded Config.Rand)",
]
ASSUMPTIONS = [
    "ideal authenticity of HMAC-SM3 (CBC suite): every (MAC input, tag) pair that verifies at the receiver during the run was MACed by the sender (premise no_forgery of the integrity theorems)",
    "ideal authenticity of SM4-GCM (GCM suite): every (additional data, plaintext) that opens at the receiver during the run was sealed by the sender",
    "for the theorems over abstract primitives: prims_ok (block cipher length-preserving with decrypt(encrypt(b)) = b on byte blocks and byte output; MAC of fixed length with byte output; AEAD open(seal(p)) = p, |seal(p)| = |p| + overhead); proved for SM4 / HMAC-SM3 / GCM over SM4 (C07_sm4_prims_ok)",
    "sequence numbers stay below 2^64-1 (incSeq panics at the wrap, as the code does); record payloads are byte strings shorter than 2^29",
    "config.rand() delivers bytes (one block per CBC record)",
    "the inbound connection delivers a byte stream and then EOF; temporary read errors only delay; Config.Renegotiation = RenegotiateNever",
]
RULE = ("white box (seeded): per suite, payload lengths 0..43 (cbc) / 0..99 (gcm) give records <= 128 bytes: the genuine record, EVERY single-bit "
        "flip of every byte incl. header (length-field bits are expected to be ignored by halfConn.decrypt), every truncation, extensions 1..48; "
        "hand-built CBC records for every padding length 0..255 (must be accepted) with every padding byte corrupted (implementation and "
        "predicate on every position; in the quick tier the model is compared on <= 8 positions per padding length - length byte, first, "
        "last, middle, three random - and on all of them in the thorough tier), MAC bits flipped, "
        "inconsistent length bytes (must be rejected); payload sizes up to 16384; sequence numbers 0, 1, 2^32-1, 2^32, 2^64-2, 2^64-1 "
        "(panic), wrong seq / key / MAC key / fixed nonce / direction; extractPadding on 3800 tails; incSeq, roundUp, padToBlockSize sweeps; "
        "48 stateful write/read pairs (several records, GMSSL and TLS 1.0 implicit IV); 372 handshake-phase readRecord runs "
        "(ChangeCipherSpec with / without pending handshake bytes or pending cipher spec, malformed, type and version checks, alerts, SSLv2). "
        "black box (seeded): 300 scripts (25 categories x suite x direction: every grammar element as first deviation at the first / a middle / "
        "the last record, several deviations, all-genuine, empty) over real GMSSL connections after the handshake; the model replays the "
        "same writes and script with its own keys (Write fragmentation incl. 1/n-1 split and dynamic record sizing, apply_script, Read "
        "with the same buffer sizes) and must predict the record sizes on the wire, the number of bytes delivered, the error and "
        "whether an alert goes back. capture cases (K): 12 real connections (both suites) with Config.KeyLogWriter and a seeded Config.Rand; "
        "the extracted Coq development derives the key block from the logged master secret and the hello randoms (PRF over HMAC-SM3, "
        "Agree/KeyModel.v) and opens every record captured after ChangeCipherSpec in both directions (Finished under sequence number 0, then "
        "the application data): the decoded bytes must equal what the endpoints wrote and read, and the verify_data of both decrypted Finished "
        "messages must equal PRF(master secret, finished label, SM3(handshake messages captured in the clear)). long histories (round 6): 8 / 48 further S cases with 40..75 protected records in one direction of one "
        "connection (many small Writes, both suites, both directions; all genuine, or one deviation behind the 17th record) and 2 / 8 "
        "further captures with 20..45 protected records in each direction: the explicit IVs (CBC) of the WHOLE history must be pairwise "
        "distinct, the explicit nonces (GCM) the consecutive sequence numbers - state the sender keeps across records and calls (IV "
        "pools, reused buffers). close cases (C): 24 runs of writes, "
        "close_notify, all bytes buffered at once, Read buffers smaller than the last record. "
        "A case is non-trivial unless it is an empty-input helper call; distinct = distinct case text")


def _unhex(s):
    return b"" if s in ("-", ".", "") else bytes.fromhex(s)


def _lst(s):
    return [] if s in ("-", "") else s.split(",")


def nontrivial(f):
    if f[0] in ("P", "B"):
        return f[2] != "-"
    return True


def classify(f, io):
    o = io[0] if io else "none"
    if f[0] == "D":
        return "D:%s:%s:%s" % (f[2], f[8], o)
    if f[0] == "M":
        return "M:%s:%s:%s" % (f[2], f[3], o)
    if f[0] == "H":
        return "H:%s:%s" % (f[12], " ".join(io[1:2] + io[4:6]) if io else "none")
    if f[0] == "K":
        return "K:%s:%s" % (f[2], o)
    if f[0] == "C":
        return "C:%s:%s:%s" % (f[2], f[3], o)
    if f[0] == "S":
        first = "genuine"
        sc = _lst(f[6])
        for k, t in enumerate(sc):
            if t != "g%d" % k:
                first = t.rstrip("0123456789.abcdef-") or t[0]
                break
        return "S:%s:%s:%s:%s" % (f[2], f[3], first, o)
    return f[0] + ":" + o


def _seq_next(seqhex):
    v = int(seqhex, 16)
    return None if v == (1 << 64) - 1 else "%016x" % (v + 1)


def _pad_ok(p):
    if len(p) == 0:
        return False
    l = p[-1]
    return l < len(p) and all(b == l for b in p[len(p) - 1 - l:])


def _first_repeat(ivs):
    """which records of the history carry the same explicit IV (first pair), for the violation text"""
    seen = {}
    for j, v in enumerate(ivs):
        if v in seen:
            return " (record %d of this direction's history carries the explicit IV of record %d: %s)" % (j, seen[v], v)
        seen[v] = j
    return ""


def _pred_S(f, io):
    if io[0] != "ok":
        return False, "black box: no result (%s)" % " ".join(io[:2])
    cid, suite, writes, script = f[1], f[2], [int(x) for x in _lst(f[5])], _lst(f[6])
    n = int(io[1])
    wl = [int(x) for x in _lst(io[2])]
    heads, tails = _lst(io[3]), _lst(io[4])
    dc = [int(x) for x in _lst(io[5])]
    er = [int(x) for x in _lst(io[6])]
    delivered = _unhex(io[7])
    sticky, after, alert, werr = io[8], int(io[9]), io[10], io[11]
    salt = int(cid) % 251
    total = sum(writes)
    stream = bytes(((i * 131 + (i >> 8) + salt) & 0xff) for i in range(total))
    if werr != "0":
        return False, "sender: Write failed on an unmodified connection"
    if len(dc) != len(script) + 1 or len(er) != len(script) + 1 or len(wl) != n:
        return False, "black box: malformed observation"
    if stream[:len(delivered)] != delivered:
        return False, "receiver delivered bytes that are not a prefix of what the sender wrote"
    if dc[-1] != len(delivered):
        return False, "black box: delivered count inconsistent"
    if after != 0:
        return False, "bytes were delivered after the first error"
    if er[-1] != 1:
        return False, "no error reported although the stream ended / was modified"
    if sticky != "1":
        return False, "Read succeeded again after an error (error not sticky)"
    # m = number of whole genuine records, in order, that prefix the emitted byte stream;
    # last = index of the emit that completes record m-1
    m, last, complete = 0, -1, True
    for k, t in enumerate(script):
        if t in ("i-", "i"):
            continue
        if n == 0 and t[0] in "gftTxXhc":
            continue               # nothing to emit: the driver skips these
        if n > 0 and t[0] == "g" and t[1:].isdigit() and int(t[1:]) == m and m < n:
            m, last = m + 1, k
            continue
        if n > 0 and t[0] == "x" and int(t[1:].split(".")[0]) == m and m < n:
            m, last = m + 1, k     # genuine record m followed by trailing garbage
        complete = False
        break
    want_final = dc[last] if last >= 0 else 0
    if dc[-1] != want_final:
        return False, ("receiver delivered %d bytes although only the first %d records arrived unmodified and in order (%d bytes)"
                       % (dc[-1], m, want_final))
    # every unmodified in-order record must have been accepted: sizes follow from the wire lengths
    lo = hi = 0
    for j in range(m):
        if suite == "gcm":
            p = wl[j] - 5 - 8 - 16
            lo, hi = lo + p, hi + p
        else:
            body = wl[j] - 5 - 16
            lo, hi = lo + max(0, body - 32 - 16), hi + body - 32 - 1
    if not (lo <= dc[-1] <= hi):
        return False, "an unmodified in-order record was not delivered (got %d bytes, expected %d..%d)" % (dc[-1], lo, hi)
    if complete and m == n:
        if delivered != stream:
            return False, "faithful delivery: the receiver did not get everything the sender wrote"
        if any(er[:-1]):
            return False, "error before the end of an unmodified stream"
    # explicit IVs / nonces of the genuine records
    for j, h in enumerate(heads):
        if h[:6] != "170101":
            return False, "genuine record with unexpected type/version"
    if suite == "gcm":
        for j, h in enumerate(heads):
            if int(h[10:26], 16) != j + 1:
                return False, "GCM explicit nonce of record %d is not the sequence number" % j
    else:
        ivs = [h[10:42] for h in heads]
        if len(set(ivs)) != len(ivs):
            return False, "CBC explicit IV repeated" + _first_repeat(ivs)
        for j in range(1, len(ivs)):
            if ivs[j] == tails[j - 1]:
                return False, "CBC explicit IV equals the previous ciphertext block"
    return True, ""


def predicate(f, io):
    """the property, evaluated on what /repo returned (independent of the Coq model)"""
    if not io:
        return False, "implementation gave no result"
    op = f[0]
    if op == "S":
        if io[0] in ("PANIC", "HANG"):
            return False, "implementation " + io[0]
        return _pred_S(f, io)
    if op == "C":
        # writes, close_notify, everything buffered at once, small Read buffers: all bytes, then a clean EOF
        if io[0] != "ok" or len(io) != 5:
            return False, "close case: " + " ".join(io[:2])
        total = sum(int(x) for x in _lst(f[4]))
        salt = int(f[1]) % 251
        want = bytes(((i * 131 + (i >> 8) + salt) & 0xff) for i in range(total))
        got = _unhex(io[2])
        if want[:len(got)] != got:
            return False, "close case: delivered bytes are not a prefix of what was written"
        if got != want:
            return False, ("close case: only %d of %d bytes were delivered before the end of the stream was reported "
                           "(reader buffers %s)" % (len(got), total, f[5]))
        if io[3] != "1" or io[4] != "1":
            return False, "close case: close_notify was not reported as io.EOF"
        return True, ""
    if op == "K":
        # a captured connection: both directions delivered exactly what was written
        if io[0] != "ok" or len(io) != 5 or io[3:] != ["1", "1"]:
            return False, "capture: " + " ".join(io[:2])
        salt = int(f[1]) % 251
        for k, (ws, sl) in enumerate(((f[3], salt), (f[4], salt + 1))):
            total = sum(int(x) for x in _lst(ws))
            want = bytes(((i * 131 + (i >> 8) + sl) & 0xff) for i in range(total))
            if _unhex(io[1 + k]) != want:
                return False, "capture: the peer did not read what was written on an unmodified connection"
        # on the wire: GCM explicit nonce of record j after ChangeCipherSpec = j (the sequence number), so the
        # nonces of one direction never repeat; CBC explicit IVs pairwise distinct and not the previous block
        for recs in (_lst(f[8]), _lst(f[9])):
            if f[2] == "gcm":
                for j, r in enumerate(recs):
                    if int(r[10:26], 16) != j:
                        return False, "capture: GCM explicit nonce of record %d is not the sequence number" % j
            else:
                ivs = [r[10:42] for r in recs]
                if len(set(ivs)) != len(ivs):
                    return False, "capture: CBC explicit IV repeated" + _first_repeat(ivs)
                for j in range(1, len(recs)):
                    if ivs[j] == recs[j - 1][-32:]:
                        return False, "capture: CBC explicit IV equals the previous ciphertext block"
        return True, ""
    if io[0] == "HANG":
        return False, "implementation HANG"
    if op == "P":
        p = _unhex(f[2])
        if io[0] != "ok":
            return False, "extractPadding: " + io[0]
        rem, good = int(io[1]), int(io[2])
        if len(p) == 0:
            return (rem, good) == (0, 0), "extractPadding(empty)"
        if rem != p[-1] + 1:
            return False, "extractPadding: toRemove is not padding length + 1"
        if good != (255 if _pad_ok(p) else 0):
            return False, "extractPadding: good byte disagrees with the RFC padding rule"
        return True, ""
    if op == "U":
        a, b = int(f[2]), int(f[3])
        return (io[0] == "ok" and int(io[1]) == -(-a // b) * b), "roundUp is not the least multiple >= a"
    if op == "B":
        p, bs = _unhex(f[2]), int(f[3])
        if io[0] != "ok":
            return False, "padToBlockSize: " + io[0]
        pre, fin = _unhex(io[1]), _unhex(io[2])
        k = bs - len(p) % bs
        ok = pre + fin == p + bytes([(k - 1) % 256]) * k and len(fin) == bs and len(pre) % bs == 0
        return ok, "padToBlockSize: not payload followed by k bytes of k-1"
    if op == "Q":
        nxt = _seq_next(f[2])
        if nxt is None:
            return io[0] == "PANIC", "incSeq at 2^64-1 must panic rather than wrap"
        return (io[0] == "ok" and io[1] == nxt), "incSeq is not +1"
    if op == "E":
        nxt = _seq_next(f[6])
        if nxt is None:
            return io[0] == "PANIC", "encrypt at sequence number 2^64-1 must panic rather than wrap"
        if io[0] != "ok":
            return False, "encrypt: " + io[0]
        rec, data, eiv = _unhex(io[1]), _unhex(f[10]), _unhex(f[9])
        if io[2] != nxt:
            return False, "encrypt: sequence number did not advance by one"
        if rec[:3] != bytes([int(f[7])]) + bytes.fromhex(f[8]) or int.from_bytes(rec[3:5], "big") != len(rec) - 5:
            return False, "encrypt: header type/version/length wrong"
        if rec[5:5 + len(eiv)] != eiv:
            return False, "encrypt: explicit IV / nonce not on the wire as given"
        want = (5 + 16 + ((len(data) + 32) // 16 + 1) * 16) if f[2] == "cbc" else 5 + 8 + len(data) + 16
        if len(rec) != want:
            return False, "encrypt: record length"
        return True, ""      # the ciphertext bytes are decided by comparison with the model (real SM4/SM3/GCM specs)
    if op == "M":
        # several records through one write and one read half connection: every fragment comes back, in order,
        # and both sequence numbers advance by the number of records
        items = [it.split(":") for it in f[8].split(",")]
        if io[0] != "ok":
            return False, "stateful pair: a genuine record was rejected (%s)" % " ".join(io)
        pts = io[2].split(",")
        if [(_unhex(p)) for p in pts] != [_unhex(it[2]) for it in items]:
            return False, "stateful pair: decrypted fragments differ from what was encrypted"
        want = "%016x" % (int(f[7], 16) + len(items))
        if io[3] != want or io[4] != want:
            return False, "stateful pair: sequence numbers did not advance by one per record"
        return True, ""
    if op == "H":
        # readRecord during the handshake; the full behaviour is decided by comparison with the model, here the
        # part the property text names: the pending cipher spec is activated only by a requested
        # ChangeCipherSpec that arrives while no handshake bytes are waiting, and the sequence number restarts
        if io[0] != "ok":
            return False, "handshake-phase readRecord: " + io[0]
        failed, switched = int(io[1]), io[4] == "1"
        wants = [int(x) for x in _lst(f[12])]
        if switched and (f[6] == "-" or 20 not in wants):
            return False, "cipher spec activated although none was pending / no ChangeCipherSpec was requested"
        wire = _unhex(f[11])
        if f[10] != "-" and wants[:1] == [20] and wire[:1] == b"\x14":
            if switched or failed != 0:
                return False, "ChangeCipherSpec accepted although handshake bytes were waiting in c.hand"
        return True, ""
    if op == "D":
        label, want, seq = f[8], f[9], f[6]
        if label in ("genuine", "lenfield"):
            nxt = _seq_next(seq)
            if nxt is None:
                return io[0] == "PANIC", "decrypt at sequence number 2^64-1 must panic rather than wrap"
            if io[0] != "ok":
                return False, "an unmodified record was rejected"
            if io[1] != want:
                return False, "decrypt delivered bytes the sender did not send"
            if io[2] != nxt:
                return False, "sequence number did not advance by exactly one on an accepted record"
            return True, ""
        if io[0] == "ok":
            return False, "a modified / replayed / foreign record was accepted"
        if io[0] == "PANIC":
            return False, "decrypt panicked on a modified record"
        if io[0] != "err" or io[1] != seq:
            return False, "sequence number changed on a rejected record"
        return True, ""
    return False, "unknown case"


def same(f, io, mo):
    """projected observables only"""
    if f[0] == "S":
        # model observation: ok <n> <wirelens> <dcount-final> <err> <alert>; compare the number and sizes of the
        # records on the wire, the number of bytes delivered, the error flag, and whether an alert went back
        if io[0] != "ok" or mo[0] != "ok":
            return io[0] == mo[0]
        return (io[1] == mo[1] and io[2] == mo[2] and io[5].split(",")[-1] == mo[3]
                and io[6].split(",")[-1] == mo[4] and io[10] == mo[5])
    if f[0] == "C":
        # number of records (data + close_notify), bytes delivered, error reported
        return io[:4] == mo[:4]
    return io == mo
