"""C08 - handshakes complete only with a peer that proves the certified identity (gmtls, GMSSL ECC suites)."""
ID = "C08"
PROPS = "Props/C08.v"
COQ_TIMEOUT = 5400   # Coq build of this property incl. rebuilt dependencies; generous: on a loaded machine a rebuild after an upstream edit took > 1500 s
GEN = ["hssig", "hstables"]       # scheme tables and the structure of pickSignatureAlgorithm / verifyHandshakeSignature (auth.go, common.go, prf.go)
LEGS = [{"driver": "c08", "runner": ("hs", "Extract/ExtractHS.v", "Hs_model"), "timeout": 3000}]

TECHNIQUE = ("Coq proofs over symbolic (perfect-cryptography) state machines of the gmtls GMSSL client and of the servers, with a Dolev-Yao network attacker; "
             "models tied to /repo by malicious servers, malicious clients and a man in the middle (re-implemented in the driver on the real record layer) "
             "attacking real endpoints, each script also run at term level on the extracted models")
LEVEL_TEXT = ("Theorems in Coq (Props/C08.v): for EVERY message sequence delivered to the GMSSL client model (verification on, ECC suites) completion implies >= 2 SM2 certificates "
              "with the key usages, Verify succeeded for both, a ServerKeyExchange signature valid under certificate 0 over this session's randoms and certificate 1, the pre-master secret sent "
              "encrypted to certificate 1's key, and Finished = PRF(master,'server finished',Hash(transcript)); for every sequence delivered to a server model completion implies the ClientAuth "
              "policy table, CertificateVerify valid over this transcript whenever a certificate was presented, and the right Finished; against a Dolev-Yao attacker the accepted signature and "
              "Finished originate from honest key holders (authentication) and both ends that complete hold equal transcripts and master secrets (agreement). "
              "Byte level: equal byte transcripts of well-formed messages are the same message values, hence equal under every abstraction into terms (C08_equal_byte_transcripts_equal_views, from the marshal/unmarshal round trip of C15). "
              "gmtls/auth.go: for every key type, version and scheme lists for which signer and verifier both succeed they use the same signature type, hash and digest (tables and structure of pickSignatureAlgorithm read from the AST); "
              "4 100 pickSignatureAlgorithm calls and 1 200 digest selections are compared with the model through hooks. "
              "The catalogue is run on the GMSSL path and on the standard-TLS path (c02f, 002f), the man in the middle under seven (ClientAuth, certificate) configurations, and honest pairs report VerifiedChains (AV). "
              "The attacker catalogue of the property (about 1 800 scripts quick, 15 000 thorough) is executed against real endpoints and outcomes compared with the models.")
LEVEL_NOTE = ("Idealisation: symbolic signatures / encryption / PRF / hash (free term algebra). Chain verification is an abstract predicate per certificate (C10 owns x509.Verify); "
              "the premises of 'authentication' (CA unforgeability + honest server keys, secrecy discipline of honest parties, network = Dolev-Yao derivation) are explicit hypotheses, "
              "shown satisfiable on the honest run. The single-connection 'agreement' assumes the client's accepted Finished is the one the server sent; the MULTI-SESSION theorems "
              "(C08_sessions_secrecy, C08_agreement_sessions: any number of concurrent GMSSL clients and servers, the attacker delivering and replaying anything it can derive) need no premise "
              "about the network - their scope is GMSSL clients without cached session and servers with tickets off, the certification premise (keys in Verify-accepted certificates are not attacker keys) "
              "and unshared pre-master randomness. Resumption and the standard-TLS client are covered per connection (C08_*_with_resumption, C08_tls_client_complete_requires), not inside the multi-session model.")
TRUSTED_BASE = [
    "models coq/HS/HSModel.v, HSTerms.v written by hand from gmtls/*.go; tied by the correspondence runs of this check and of C15",
    "extraction: ExtrOcamlBasic only; OCaml runner ocaml/hs/main.ml (term-level rendering of each attack script)",
    "crypto.Hash numbering (SHA1 3 ... MD5SHA1 8) written into the translator; the identification of a digest by the driver (comparison with stdlib / sm3 hashes of the same data)",
    "Go driver harness/cmd/c08 (malicious GM server / client flows and MITM on the real record layer through gmtls/verif_handshake_verif.go)",
]
ASSUMPTIONS = [
    "symbolic (perfect) cryptography: a signature verifies iff built with the matching private key over the same payload; a ciphertext opens only with the private key; PRF and Hash are injective and one-way",
    "network attacker = Dolev-Yao derivation (HSAuth.derives): knows all public terms and observed messages, its own keys and randomness; replays, pairs/projects, encrypts, signs/decrypts with its own keys",
    "certification premise: keys named in certificates accepted by the client's Verify are not attacker keys; chain verification itself is an abstract predicate on the certificate (membership in c_trusted / s_client_trusted)",
    "honest parties send the pre-master and master secrets only encrypted to an honest key, as PRF keys or under a hash (shown for the honest run by an Example)",
    "Config as in C15: Renegotiation=Never, no GetConfigForClient/VerifyPeerCertificate callbacks, session tickets disabled on the server for the C08 theorems",
]
RULE = ("deterministic catalogue (seed only picks MITM offsets): AS = 26 malicious-server attacks x 2 ECC suites x {client cert, CertificateRequest}; AC = 14 malicious-client attacks x 2 suites x 5 ClientAuth policies; "
        "AM = man in the middle flipping one byte of one handshake message: every offset of every length field and header, first/middle/last byte of every other field + 8 random offsets per message (quick) / every offset (thorough), "
        "x 2 suites x 4 (ClientAuth, client cert) configurations; controls (honest peers, untampered MITM) must complete. Non-trivial: every case; distinct = distinct case text")

_CERT_ALERTS = {42, 43, 44, 45, 46, 48}     # bad_certificate .. unknown_ca

AS_CONTROLS = {"honest", "threecerts"}

# which malicious-client scripts a server may complete with, per ClientAuth policy (from the property text:
# 0 never asks; 1/2 do not verify the chain but a presented certificate needs proof of possession; 2/4 need a certificate;
# 3/4 need a chain to the client CAs)
def _ac_may_complete(attack, auth):
    if attack in ("ckx_key2", "ckx_replay", "fin_bad", "fin_label"):
        return False
    if auth == 0:
        return True                      # no CertificateRequest: the script degrades to the honest flow without certificate
    if attack in ("honest_cert", "chain_honest"):
        return True
    if attack == "honest_nocert":
        return auth in (1, 3)
    if attack in ("untrusted_cert", "expired_cert", "mimic_root_cert"):
        return auth in (1, 2)            # mimic_root_cert: self-signed, copies subject name and key identifier of the client CA
    return False                         # nocertmsg, cv_*, chain_key2 (CertificateVerify by the key of a certificate that is not the leaf)


def _name_matches(pattern, host):
    """RFC 6125 as the property reads it: case-insensitive, one trailing dot ignored, same number of labels, only the
    left-most label may be the wildcard '*' and it stands for exactly one label"""
    p, h = pattern.lower(), host.lower()
    if p.endswith("."):
        p = p[:-1]
    if h.endswith("."):
        h = h[:-1]
    if not p or not h:
        return False
    pl, hl = p.split("."), h.split(".")
    if len(pl) != len(hl):
        return False
    for i, (a, b) in enumerate(zip(pl, hl)):
        if i == 0 and a == "*":
            if b == "":
                return False
            continue
        if a != b:
            return False
    return True


def nontrivial(f):
    return True


def same(f, io, mo):
    """AS / AC: the model predicts the outcome class; the alert a victim sent (err a<desc>) is an observation of the
    implementation only"""
    if f[0] in ("AS", "AC"):
        return bool(io) and bool(mo) and io[0] == mo[0]
    if f[0] == "AH":                     # the RootCAs pool sizes are an observation of the implementation only
        return io == mo if f[3].startswith(("cache", "resume_")) else io[:2] == mo[:2]
    return io == mo


def classify(f, io):
    if f[0] == "AV":
        return "AV:" + f[2] + ":" + " ".join(io)
    if f[0] == "AH":
        return "AH:" + f[3] + ":" + " ".join(io[:2])
    if f[0] == "PA":
        return "PA:" + f[2] + ":" + f[5] + ":" + (io[0] if io else "none")
    if f[0] == "PD":
        return "PD:" + f[2] + ":" + f[3] + ":" + (io[0] if io else "none")
    if f[0] == "AM":
        return "AM:" + f[6] + ":" + " ".join(io[:2])
    if f[0] == "AN":
        return "AN:" + f[3] + ":" + (io[0] if io else "none")
    return f[0] + ":" + f[3] + ":" + (io[0] if io else "none")


def predicate(f, io):
    if not io:
        return False, "no observation"
    op = f[0]
    if op == "PA":
        # pickSignatureAlgorithm: a panic is a failure unless the case passes an own list the handshake code never passes (marked u)
        if "PANIC" in io and f[-1] != "u":
            return False, "pickSignatureAlgorithm panicked for lists the handshake code can pass"
        if io[0] == "ok":
            peer = [] if f[3] == "-" else f[3].split(".")
            tls12 = int(f[5], 16) >= 0x0303
            if tls12 and peer and io[1] not in peer:
                return False, "picked scheme %s is not in the peer's list" % io[1]
        return True, ""
    if op == "PD":
        if "PANIC" in io and not (f[2] in ("cc", "skx") and int(f[3], 16) >= 0x0303 and f[6] not in ("3", "5", "6", "7")):
            return False, "digest selection panicked"
        if f[2] == "gmcc" and io[0] != "sm3":
            return False, "the GMSSL client does not sign SM3(transcript)"
        return True, ""
    if any(x in ("PANIC", "HANG") for x in io):
        return False, "endpoint panicked or hung under attack"
    if op == "AS":
        attack = f[3]
        if attack in AS_CONTROLS:
            return (io[0] == "ok"), "control run (honest server) did not complete"
        if io[0] == "ok":
            return False, "client completed although the server script is an attack (%s)" % attack
        # where the scripted peer saw the victim's alert: a certificate that fails Verify is refused with a certificate alert
        if len(io) > 1 and io[1].startswith("a") and attack.split("_")[0] in ("untrusted", "expired", "notyet", "wrongname", "mimic"):
            if int(io[1][1:]) not in _CERT_ALERTS:
                return False, "certificate attack %s answered with alert %s, not a certificate alert" % (attack, io[1][1:])
        return True, ""
    if op == "AC":
        attack, auth = f[3], int(f[4])
        may = _ac_may_complete(attack, auth)
        if io[0] == "ok" and not may:
            return False, "server with ClientAuth=%d completed although the client script is an attack (%s)" % (auth, attack)
        if io[0] != "ok" and attack in ("honest_cert", "chain_honest"):
            return False, "control run (honest client with certificate) did not complete"
        if io[0] != "ok" and attack == "honest_nocert" and auth in (0, 1, 3):
            return False, "control run (honest client without certificate, ClientAuth=%d permits it) did not complete" % auth
        return True, ""
    if op == "AH":
        # a history of two connections on ONE client Config: what a peer sent in the first must not change what the second
        # accepts; the trust pool is never modified by a handshake
        sc = f[3]
        if len(io) < 5:
            return False, "incomplete observation"
        if sc.startswith("resume_"):
            # two connections of one client with a ClientSessionCache to servers with tickets on sharing the ticket key;
            # between them the server's Time / ClientCAs / ClientAuth change: a handshake (resumed or full) completes only
            # if the peer's identity is certified under the CURRENT configuration.  obs: s1 s2 c2 resumed2 verified2
            change, a1 = sc.split("_")[1], int(sc.split("_")[2][1:])
            a2 = {"tighten": a1 + 2, "refused": 4}.get(change, a1)
            if io[0] != "ok":
                return False, "control: the first connection of %s (certificate acceptable under the configuration of that time) did not complete" % sc
            if change == "same":
                if io[1] != "ok" or io[2] != "ok" or io[3] != "1":
                    return False, "control: second connection under the unchanged configuration did not resume: %s" % " ".join(io)
            elif io[1] == "ok" or io[2] == "ok":
                return False, ("second connection completed (server %s, client %s, resumed=%s, verified chains=%s) although the client "
                               "certificate is not acceptable under the server's current configuration (%s, ClientAuth %d -> %d)"
                               % (io[1], io[2], io[3], io[4], change, a1, a2))
            if io[1] == "ok" and a2 >= 3 and io[4] != "1":
                return False, "server completed under ClientAuth=%d with a client certificate but without a verified chain" % a2
            return True, ""
        if sc.startswith("cache"):
            # three connections of Clone()d client configs on one ClientSessionCache: valid name (full), valid name
            # (resumed), then the name of the scenario: a cached session must never stand in for the name check
            if io[0] != "ok" or io[1] != "ok" or io[3] != "1":
                return False, "control: the first two connections (valid name, the second resumed) gave %s" % " ".join(io)
            if sc == "cache_same":
                return (io[2] == "ok"), "control: third connection with the same name did not complete"
            if io[2] == "ok" or io[4] == "1":
                return False, "a client asking for a name the certificate is not valid for %s (%s)" % (
                    "resumed a session cached for another name and completed" if io[4] == "1" else "completed", sc)
            return True, ""
        want1 = "err" if sc == "ca_inject" else "ok"
        want2 = "ok" if sc == "honest_twice" else "err"
        if io[0] != want1:
            return False, "first connection of %s: %s" % (sc, io[0])
        if io[1] != want2:
            return False, ("second connection completed with certificates of a CA that is not in RootCAs (%s)" % sc) if want2 == "err" \
                          else "second honest connection did not complete"
        if not (io[2] == io[3] == io[4]):
            return False, "Config.RootCAs changed size over the handshakes: %s -> %s -> %s" % (io[2], io[3], io[4])
        return True, ""
    if op == "AV":
        # what the endpoints report, stated without the model: both or neither complete; an honest pair completes unless
        # the ClientAuth policy wants a certificate the client does not send; VerifiedChains is non-empty on the client
        # iff it completed with verification enabled, on the server iff it completed having verified a client chain
        vf, auth, cc = f[3] == "1", int(f[4]), f[5] == "1"
        if len(io) < 4 or (io[0] == "ok") != (io[1] == "ok"):
            return False, "honest pair: one side completed and the other did not"
        must = not (auth in (2, 4) and not cc)
        if (io[0] == "ok") != must:
            return False, "honest pair %s" % ("did not complete" if must else "completed against the ClientAuth policy")
        if (io[2] == "1") != (io[0] == "ok" and vf):
            return False, "client VerifiedChains %s although verification is %s and the handshake %s" % (
                "non-empty" if io[2] == "1" else "empty", "on" if vf else "off", "completed" if io[0] == "ok" else "failed")
        if (io[3] == "1") != (io[1] == "ok" and auth >= 3 and cc):
            return False, "server VerifiedChains %s under ClientAuth=%d, client certificate %s" % (
                "non-empty" if io[3] == "1" else "empty", auth, "sent" if cc else "not sent")
        return True, ""
    if op == "AN":
        # server-name check: certificates issued by the trusted test CA for <pattern>; the client asks for <servername>
        if io[0] == "ok" and not _name_matches(f[4], f[5]):
            return False, "client completed for server name %s although the certificates are only valid for %s" % (f[5], f[4])
        return True, ""
    if op == "AM":
        tampered = f[5] != "none"
        both = io[0] == "ok" and io[1] == "ok"
        if both and len(io) > 2 and io[2] == "0":
            return False, "both ends completed with different views of the handshake"
        if tampered and both:
            return False, "both ends completed although a handshake message was modified in transit"
        if not tampered and not (both and io[2] == "1"):
            return False, "control run (untampered) did not complete with equal views"
        return True, ""
    return True, ""


FINDING_MATCHERS = {}
