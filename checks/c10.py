"""C10 - chain verification accepts exactly the chains a reference path validator accepts (x509.Verify)."""
ID = "C10"
PROPS = "Props/C10.v"
COQ_TIMEOUT = 5400   # Coq build of this property incl. rebuilt dependencies; generous: on a loaded machine a rebuild after an upstream edit took > 1500 s
GEN = ["x509verify", "x509tables"]
LEGS = [
    {"driver": "c10", "runner": ("x509", "Extract/ExtractX509.v", "X509_model")},
    {"driver": "c10w", "runner": ("x509", "Extract/ExtractX509.v", "X509_model"), "tags": "verif"},
]

TECHNIQUE = ("Coq proof over an executable model of x509/verify.go + cert_pool.go (Verify, buildChains with the signature-check budget, isValid, "
             "findVerifiedParents, CheckSignatureFrom, VerifyHostname and the string matchers, checkChainForKeyUsage) against a declarative "
             "valid_chain written from the property text; model tied to /repo by differential runs on PKIs built with the library itself")
LEVEL_TEXT = ("Theorems in Coq (Props/C10.v), for all byte strings / chains / pools / options / signature relations: the matchers equal their "
              "declarative specifications (exact, leftmost-label wildcard, trailing dot, IP and bracketed IP, SAN overrides CN; DNS subtrees; "
              "ASCII folding; nested EKU); verify_sound: every chain Verify_model returns is a valid_chain (signed by the next, validity, CA + "
              "certSign, path length, DNS constraints, host name, EKU, no critical extension on the leaf, pool certificates only, leaf first, "
              "root last, no repetition); verify_complete: if a valid_chain exists (with the fail-closed extras, well-formed key ids, search within "
              "the 100-signature-check budget) Verify_model returns a non-empty list; buildChains_terminates with fuel |intermediates|+1. "
              "verify_sound_rfc / verify_complete_rfc for the RFC 5280 reading of path length (self-issued intermediates not counted; "
              "premise: none on the chain); name_constraints_critical_unhandled_rejected / _noncritical_others_dropped over the byte-level parser. "
              "Witness theorems show that each premise of completeness is needed (budget - also inside 3 roots/4 intermediates -, key ids, extras). "
              "The extracted model is run on the abstract description of ~300 (quick) / ~5000 (thorough) library-built PKIs x 6 queries and its "
              "ok/error class and SET of chains compared with the real Verify; the returned chains are checked against a python transcription of "
              "valid_chain and valid chains are searched exhaustively.")
LEVEL_NOTE = ("Proved relative to premises stated in the theorems: sig_ok is an abstract relation (the harness computes it with CheckSignature on "
              "real SM2 signatures); net.ParseIP is a function supplied by the driver (contract: 16 bytes or nil); strings.EqualFold is modelled "
              "as ASCII folding (exact for ASCII constraints, which IA5String guarantees). Readings chosen where the text is silent (PathSpec.v): "
              "path length counts every intermediate (valid_chain; the RFC reading valid_chain_rfc exempts self-issued ones: sound for both, "
              "complete for the RFC reading only without self-issued intermediates - witness C10_self_issued_intermediates_are_counted, corpus case); DNS constraints are applied to the requested host name; EKU of "
              "issuers, constraints with an empty DNSName and the leaf's own permitted subtrees are fail-closed extras (proved in soundness, "
              "assumed in completeness). Completeness additionally assumes aki=ski on the chain and <= 100 signature checks (the constant is read "
              "from verify.go; implied by budget_bound(|roots|+|inters|, |inters|) <= 100, theorem verify_complete_small_pools); the budget "
              "can be exhausted by a 3-root/4-intermediate PKI (theorem C10_budget_reached_by_small_pki, corpus case, known finding "
              "verify-sigcheck-budget: the predicate does not waive it). Roots=nil (system pool), Windows, certificates "
              "without Raw, v1 roots and the Entrust SPKI exception are outside the model / excluded by premises.")
TRUSTED_BASE = [
    "translator target x509verify (harness/cmd/gen/target_x509.go): maxChainSignatureChecks and the certificate-type constants of x509/verify.go -> coq/Gen/X509Verify.v; the model's budget is defined from it",
    "model coq/X509/VerifyModel.v written by hand from x509/verify.go, cert_pool.go, x509.go:CheckSignatureFrom; tied by the correspondence run of this check",
    "specification coq/X509/PathSpec.v + NameMatchSpec.v written from the property text and RFC 5280/6125 (readings listed in the file headers)",
    "extraction: ExtrOcamlBasic only; nat/positive/N/Z stay inductive; runner ocaml/x509/main.ml and ocaml/conv.ml.tmpl",
    "Go drivers harness/cmd/c10 (black box: Verify, VerifyHostname on library-built PKIs; abstract description = fields of the parsed certificates, except BasicConstraintsValid / IsCA / MaxPathLen which are the values put into the templates, + CheckSignature matrix) and harness/cmd/c10w (white box through x509/verif_verify_verif.go)",
    "python transcription of valid_chain in checks/c10.py (independent of the Coq model) used as the property predicate",
]
ASSUMPTIONS = [
    "sig_ok child parent = (parent.CheckSignature(child.SignatureAlgorithm, child.RawTBSCertificate, child.Signature) == nil), computed by the driver",
    "net.ParseIP by contract (the driver passes its answers for the host and for the bracket-stripped host)",
    "strings.EqualFold = ASCII case folding on strings of equal byte length when the constraint is ASCII",
    "completeness is demanded (predicate) exactly when some chain is valid in the sense of the text AND satisfies the fail-closed extras (issuer EKU, raw DNSName constraints) AND whose links can be found by key identifier (every AuthorityKeyId on the chain equals the issuer's SubjectKeyId - RFC 5280 4.2.1.1 -, or is absent, or is carried by no certificate of the issuer's pool, so that the search falls back to the issuer name: exactly the condition under which findVerifiedParents tries the issuer, PathSpec.keyid_link_ok); chains that are valid only through a misleading key id (the driver plants them in ~3% of PKIs and the D26 topology has one) are outside the premise and only counted (classify: text-valid-chain-rejected-by-premise)",
    "waivers are visible in generator_stats as V:err:...:WAIVED-statement-valid-chain-outside-premise(issuer-EKU | raw-DNSName-constraint | misleading-key-id); for every other rejection the error CLASS is checked against the order of Verify's checks (python) and against the model's error number",
    "the 100-signature-check budget is NOT waived: a valid chain missed because of it fails the predicate and is the known finding verify-sigcheck-budget",
    "soundness: roots are v3 certificates, no certificate carries the Entrust SPKI blob, identity index is injective on roots vs leaf",
]
RULE = ("seeded generator (VERIF_SEED): PKIs built with x509.CreateCertificate/SM2: 1-3 roots, 0-4 intermediates incl. cross-signs, loops, same-name keys, "
        "self-issued, leaf in roots, missing links, the D26 topology, the 101-bad-roots budget PKI; per certificate random validity window, CA flags, "
        "MaxPathLen unset/0/1/2, KeyUsage with/without certSign, permitted DNS domains, EKU sets, SKI/AKI (rarely mismatching), critical unknown "
        "extension, forged signatures (flipped byte / spliced TBS); queries: times on/around the window bounds, host names (exact, case, trailing dot, "
        "wildcard, too deep, wrong, IPv4/IPv6 literal, bracketed, bracketed name), usage lists, pool insertion orders; plus direct VerifyHostname cases "
        "on hand-built certificates with arbitrary byte strings and white-box cases for the four unexported helpers. Key identifiers are well formed (AKI = issuer SKI, or absent) "
        "except in the planted malformed class, on which completeness is not demanded. corpus/c10/c10_small_budget.cases replays the "
        "3-root/4-intermediate PKI that exhausts the budget. A case is non-trivial unless it is a V query whose pools are both empty; "
        "distinct = distinct case text")


# ------------------------------------------------------------------------------------------------
# python transcription of NameMatchSpec / PathSpec (independent of the Coq model)

def _unhex(s):
    return b"" if s in ("-", ".", "") else bytes.fromhex(s)


def _hexlist(s):
    return [] if s in ("-", "") else [_unhex(x) for x in s.split(",")]


def _ints(s):
    return [] if s in ("-", "") else [int(x) for x in s.split(",")]


def lower(b):
    return bytes((c + 32) if 65 <= c <= 90 else c for c in b)


def strip_dot(s):
    return s[:-1] if s.endswith(b".") else s


def dns_match(P, H):
    p, h = strip_dot(P), strip_dot(H)
    if not p or not h:
        return False
    if p == h:
        return True
    if p[:1] == b"*":
        rest = p[1:]
        if rest == b"" or rest[:1] == b".":
            if h.endswith(rest) if rest else True:
                l = h[:len(h) - len(rest)] if rest else h
                return b"." not in l
    return False


def in_dns_domain(d, c):
    if c == b"":
        return True
    if len(d) < len(c):
        return False
    p, s = d[:len(d) - len(c)], d[len(d) - len(c):]
    if lower(s) != lower(c):
        return False
    if p == b"":
        return True
    lead = c[:1] == b"."
    return (p[-1:] == b".") != lead


V4P = bytes([0] * 10 + [255, 255])


def same_ip(a, b):
    if len(a) == len(b):
        return a == b
    if len(a) == 4 and len(b) == 16:
        return b == V4P + a
    if len(a) == 16 and len(b) == 4:
        return a == V4P + b
    return False


def strip_brackets(h):
    if len(h) >= 3 and h[:1] == b"[" and h[-1:] == b"]":
        return h[1:-1]
    return h


class Cert:
    __slots__ = ("idx", "v3", "subject", "issuer", "ski", "aki", "nb", "na", "bcv", "isca", "mpl", "ku", "permitted", "dns", "ips",
                 "cn", "eku", "unk", "crit", "entrust")


def parse_cert(s):
    p = s.split("/")
    c = Cert()
    c.idx = int(p[0]); c.v3 = p[1] == "1"; c.subject = _unhex(p[2]); c.issuer = _unhex(p[3])
    c.ski = _unhex(p[4]); c.aki = _unhex(p[5]); c.nb = int(p[6]); c.na = int(p[7]); c.bcv = p[8] == "1"; c.isca = p[9] == "1"
    c.mpl = int(p[10]); c.ku = int(p[11]); c.permitted = _hexlist(p[12]); c.dns = _hexlist(p[13]); c.ips = _hexlist(p[14])
    c.cn = _unhex(p[15]); c.eku = _ints(p[16]); c.unk = p[17] == "1"; c.crit = p[18] == "1"; c.entrust = p[19] == "1"
    return c


def host_matches(c, h, pip1, pip2):
    cand = strip_brackets(h)
    ip = (pip2 if cand != h else pip1)
    if ip is not None:
        return any(same_ip(ip, a) for a in c.ips)
    names = c.dns if c.dns else [c.cn]
    return any(dns_match(lower(n), lower(h)) for n in names)


def cert_allows(c, u):
    if not c.eku and not c.unk:
        return True
    if 0 in c.eku or u in c.eku:
        return True
    return u == 1 and (10 in c.eku or 11 in c.eku)


def eku_ok(certs, usages):
    req = usages if usages else [1]
    if 0 in req:
        return True
    return any(all(cert_allows(c, u) for c in certs) for u in req)


class Query:
    pass


def parse_v(f):
    q = Query()
    q.certs = [parse_cert(s) for s in f[2].split(";")]
    q.sig = f[3].split(",")
    q.leaf = q.certs[int(f[4])]
    def pool(s):
        out, seen = [], set()
        for i in _ints(s):
            if i not in seen:
                seen.add(i); out.append(q.certs[i])
        return out
    q.roots, q.inters = pool(f[5]), pool(f[6])
    q.now = int(f[7]); q.host = _unhex(f[8])
    q.pip1 = None if f[9] == "-" else _unhex(f[9])
    q.pip2 = None if f[10] == "-" else _unhex(f[10])
    q.usages = _ints(f[11])
    return q


def sig_ok(q, child, parent):
    return q.sig[child.idx][parent.idx] == "1"


def raw_dns_ok(q, c):
    return (not c.permitted) or any(in_dns_domain(q.host, k) for k in c.permitted)


def why_invalid(q, chain):
    """None if the chain (list of Cert, leaf first) is a valid_chain in the sense of the property text, else the violated condition"""
    if not chain or chain[0].idx != q.leaf.idx:
        return "chain does not start with the leaf"
    ids = [c.idx for c in chain]
    if len(set(ids)) != len(ids):
        return "a certificate appears twice"
    ups = chain[1:]
    rid = {c.idx for c in q.roots}
    iid = {c.idx for c in q.inters}
    if not ups:
        if q.leaf.idx not in rid:
            return "single-certificate chain whose certificate is not a supplied root"
    else:
        if ups[-1].idx not in rid:
            return "last certificate is not a supplied root"
        if any(m.idx not in iid for m in ups[:-1]):
            return "an inner certificate is not a supplied intermediate"
    leaf = chain[0]
    if leaf.crit:
        return "leaf carries an unhandled critical extension"
    if not (leaf.nb <= q.now <= leaf.na):
        return "leaf outside its validity period"
    if q.host and not host_matches(leaf, q.host, q.pip1, q.pip2):
        return "leaf does not match the requested host name"
    if not eku_ok([leaf], q.usages):
        return "leaf does not allow a requested extended key usage"
    child = leaf
    for n, p in enumerate(ups):
        if not sig_ok(q, child, p):
            return "certificate %d is not correctly signed by %d" % (child.idx, p.idx)
        if child.issuer != p.subject:
            return "issuer name of %d is not the subject of %d" % (child.idx, p.idx)
        if not (p.bcv and p.isca):
            return "issuer %d is not a CA" % p.idx
        if p.ku != 0 and (p.ku & 32) == 0:
            return "issuer %d lacks keyCertSign" % p.idx
        if not (p.nb <= q.now <= p.na):
            return "issuer %d outside its validity period" % p.idx
        if p.bcv and p.mpl >= 0 and n > p.mpl:
            return "path length constraint of %d violated" % p.idx
        if q.host and p.permitted and not any(in_dns_domain(q.host, k) for k in p.permitted):
            return "requested name outside the permitted DNS subtrees of %d" % p.idx
        child = p
    return None


def strict_extras(q, chain):
    return eku_ok(chain, q.usages) and all(raw_dns_ok(q, c) for c in chain)


def keyids_wf(q, chain):
    """every link can be found by a search that selects candidates by key identifier first: the child has no
    AuthorityKeyId, or the issuer's SubjectKeyId equals it, or no certificate of the issuer's pool carries it"""
    ups = chain[1:]
    for k, (c, p) in enumerate(zip(chain, ups)):
        if not c.aki or p.ski == c.aki:
            continue
        pool = q.roots if k == len(ups) - 1 else q.inters
        if any(x.ski == c.aki for x in pool):
            return False
    return True


def enumerate_chains(q):
    """all candidate chains: leaf, distinct intermediates, a root (pools are tiny)"""
    out = []
    if any(r.idx == q.leaf.idx for r in q.roots):
        out.append([q.leaf])
    def rec(chain):
        used = {c.idx for c in chain}
        last = chain[-1]
        for r in q.roots:
            if r.idx not in used and sig_ok(q, last, r):
                out.append(chain + [r])
        for i in q.inters:
            if i.idx not in used and sig_ok(q, last, i):
                rec(chain + [i])
    rec([q.leaf])
    return out


def search_bound(q):
    """over-approximation of the number of signature checks of any depth-first search that selects candidate
    parents by issuer name or key id: one check per candidate per visited partial chain"""
    def match(c, p):
        return c.issuer == p.subject or (c.aki and p.ski == c.aki)
    total = 0
    stack = [[q.leaf]]
    while stack:
        chain = stack.pop()
        last = chain[-1]
        used = {c.idx for c in chain}
        total += sum(1 for r in q.roots if match(last, r))
        for i in q.inters:
            if match(last, i):
                total += 1
                if i.idx not in used:
                    stack.append(chain + [i])
        if total > 5000:
            break
    return total


_cache = {}


def analyse(f):
    key = tuple(f)
    r = _cache.get(key)
    if r is None:
        q = parse_v(f)
        chains = enumerate_chains(q)
        text_valid = [ch for ch in chains if why_invalid(q, ch) is None]
        good = [ch for ch in text_valid if strict_extras(q, ch) and keyids_wf(q, ch)]
        r = (q, text_valid, good, search_bound(q))
        if len(_cache) > 20000:
            _cache.clear()
        _cache[key] = r
    return r


def _no_eku_invalid(q, chain):
    """like why_invalid, but without the usage condition and with the raw DNSName constraints on every certificate:
    what the chain builder itself demands of a candidate chain"""
    saved = q.usages
    q.usages = [0]                      # anyExtendedKeyUsage: the usage condition is vacuous
    try:
        w = why_invalid(q, chain)
    finally:
        q.usages = saved
    if w is None and not all(raw_dns_ok(q, c) for c in chain):
        w = "raw DNSName constraint"
    return w


def expected_error_classes(q):
    """the error classes Verify may answer with, from the order of its checks (independent of the Coq model)"""
    leaf = q.leaf
    if leaf.crit:
        return {"critical"}
    if not (leaf.nb <= q.now <= leaf.na) or not raw_dns_ok(q, leaf):
        return {"invalid"}
    if q.host and not host_matches(leaf, q.host, q.pip1, q.pip2):
        return {"hostname"}
    cands = [ch for ch in enumerate_chains(q) if _no_eku_invalid(q, ch) is None]
    if any(keyids_wf(q, ch) for ch in cands):
        return {"usage", "limit"}       # candidate chains exist: only the usage filter (or the budget) can reject
    if cands:
        return {"unknownauthority", "invalid", "limit", "usage"}
    return {"unknownauthority", "invalid", "limit"}


def nontrivial(f):
    if f[0] == "V":
        return not (f[5] == "-" and f[6] == "-")
    return True


def _classify(f, io):
    if not io:
        return f[0] + ":none"
    if f[0] == "L":
        return "L:" + io[0]
    if f[0] != "V":
        return f[0] + ":" + " ".join(io[:2])
    if io[0] != "ok" and io[0] != "err":
        return "V:" + io[0]
    q, text_valid, good, bound = analyse(f)
    if io[0] == "ok":
        return "V:ok"
    tag = io[1] if len(io) > 1 else "?"
    if good:
        return "V:err:%s:valid-chain-missed(search-bound %s)" % (tag, ">100" if bound > 100 else "<=100")
    if text_valid and not good:
        if any(strict_extras(q, ch) for ch in text_valid):
            why = "misleading-key-id"
        elif any(eku_ok(ch, q.usages) for ch in text_valid):
            why = "raw-DNSName-constraint"          # empty / IP host name with a constrained certificate, or the leaf's own subtrees
        else:
            why = "issuer-EKU"                       # nested extended key usage
        return "V:err:%s:WAIVED-statement-valid-chain-outside-premise(%s)" % (tag, why)
    return "V:err:" + tag


def _predicate(f, io):
    """the property, evaluated on what /repo returned (independent of the Coq model)"""
    if not io or io[0] in ("PANIC", "HANG"):
        return False, "implementation " + (io[0] if io else "gave no result")
    op = f[0]
    if op == "V":
        q, text_valid, good, bound = analyse(f)
        if io[0] == "ok":
            if len(io) < 2 or io[1] == "-":
                return False, "Verify returned no error and no chain"
            for chs in io[1].split(","):
                chain = [q.certs[int(x)] for x in chs.split(".")]
                w = why_invalid(q, chain)
                if w is not None:
                    return False, "returned chain %s is not valid: %s" % (chs, w)
            return True, ""
        if io[0] == "err":
            if good:
                return False, ("a valid chain exists (%s) but Verify returned an error (%s)"
                               % (".".join(str(c.idx) for c in good[0]), io[1] if len(io) > 1 else ""))
            want = expected_error_classes(q)
            if len(io) > 1 and io[1] not in want:
                return False, "Verify rejected with error class %s, expected %s" % (io[1], "/".join(sorted(want)))
            return True, ""
        return False, "unexpected observation " + io[0]
    if op == "H":
        c = parse_cert(f[2])
        h = _unhex(f[3])
        want = host_matches(c, h, None if f[4] == "-" else _unhex(f[4]), None if f[5] == "-" else _unhex(f[5]))
        if io[0] != "ok" or io[1] != ("1" if want else "0"):
            return False, "VerifyHostname %s although the names %s" % ("accepts" if io[1:2] == ["1"] else "rejects", "match" if want else "do not match")
        return True, ""
    if op == "N":
        want = in_dns_domain(_unhex(f[2]), _unhex(f[3]))
        return (io[0] == "ok" and io[1] == ("1" if want else "0")), "matchNameConstraint differs from the DNS-subtree relation"
    if op == "M":
        want = dns_match(_unhex(f[2]), _unhex(f[3]))
        return (io[0] == "ok" and io[1] == ("1" if want else "0")), "matchHostnames differs from exact / leftmost-label-wildcard matching"
    if op == "L":
        return (io[0] == "ok" and _unhex(io[1]) == lower(_unhex(f[2]))), "toLowerCaseASCII is not ASCII lower-casing"
    if op == "K":
        chain = []
        if f[2] != "-":
            for s in f[2].split(";"):
                e, u = s.split("|")
                c = Cert(); c.eku = _ints(e); c.unk = u == "1"
                chain.append(c)
        us = _ints(f[3])
        want = bool(chain) and (not us or any(all(cert_allows(c, u) for c in chain) for u in us))
        return (io[0] == "ok" and io[1] == ("1" if want else "0")), "checkChainForKeyUsage differs from 'one requested usage allowed by every certificate'"
    return True, ""


# The signature-check budget (maxChainSignatureChecks = 100) makes Verify give up although a valid chain exists
# (theorems C10_incomplete_beyond_budget, C10_budget_reached_by_small_pki; corpus/c10/c10_small_budget.cases).
# Matches exactly: the python oracle finds a valid chain (incl. extras and well-formed key ids) AND the
# implementation reports the limit error.
def _budget_finding(f, io):
    if f[0] != "V" or io[:2] != ["err", "limit"]:
        return False
    q, text_valid, good, bound = analyse(f)
    return bool(good)


FINDING_MATCHERS = {}   # filled at the end of the file (guarded)


# Verify_model's error numbers and the error classes of the implementation they stand for
_MODEL_ERR_CLASSES = {"1": {"critical"}, "2": {"invalid"}, "3": {"hostname"},
                      "4": {"unknownauthority", "invalid", "limit"}, "5": {"usage"}}


def _same(f, io, mo):
    """projected observables only: ok/error class and, when ok, the SET of chains"""
    if f[0] == "V":
        if io[0] != mo[0]:
            return False
        if io[0] == "ok":
            return set(io[1].split(",")) == set(mo[1].split(","))
        if io[0] == "err" and len(io) > 1 and len(mo) > 1:
            return io[1] in _MODEL_ERR_CLASSES.get(mo[1], {io[1]})
        return True
    return io[:2] == mo[:2]


# An observation or model line that does not have the shape its case expects (a truncated file, a line of another
# run) must not crash the check: it is reported as a failure of that case.
def _guarded(fn, default):
    def g(*a):
        try:
            return fn(*a)
        except (IndexError, ValueError, KeyError) as e:
            return default(e)
    return g


predicate = _guarded(_predicate, lambda e: (False, "malformed observation for this case (%s: %s)" % (type(e).__name__, e)))
same = _guarded(_same, lambda e: False)
classify = _guarded(_classify, lambda e: "malformed")

FINDING_MATCHERS["verify-sigcheck-budget"] = _guarded(_budget_finding, lambda e: False)
