"""C03 - the SM2 curve object (sm2/p256.go): parameters, field arithmetic on 9-limb Montgomery elements,
Jacobian point functions, wNAF recoding, Add/Double/ScalarMult/ScalarBaseMult/IsOnCurve, GenerateKey."""
import hashlib
import os
import re

ID = "C03"
PROPS = "Props/C03.v"
GEN = ["sm2", "sm2limbs"]
COQ_TIMEOUT = 5400
LEGS = [
    {"driver": "c03", "runner": ("ec", "Extract/ExtractEC.v", "Ec_model")},
    {"driver": "c03w", "runner": ("ec", "Extract/ExtractEC.v", "Ec_model"), "tags": "verif"},
]

TECHNIQUE = ("Coq proofs over an executable model of sm2/p256.go and GenerateKey at the level 'field element = integer mod p' "
             "(affine spec, Jacobian formula lemmas over any field by `field`, total PointAdd/Sub/Double, wNAF recoding, comb evaluation, "
             "table checked by vm_compute), constants re-read from the source by the translator; model tied to /repo by differential runs "
             "of the extracted model (black box: public API; white box: 9-limb functions through hooks) and a python affine oracle")
LEVEL_TEXT = ("Theorems in Coq (Props/C03.v, 41): the generated parameters are those of GM/T 0003.5, G on the curve, RInverse*2^257 = 1, "
              "Zero31/Carry/Factor limb constants, the 2x15 comb table entries are [sum b_i 2^(64i+32h)]G; Jacobian doubling / mixed / full "
              "addition formulas as the code computes them represent the affine law over ANY field (incl. Z=0, P=-Q, equal-input cases); "
              "for ALL pairs of curve points incl. infinity (0,0), equal and opposite: Add/Double = group law; IsOnCurve = curve equation for all "
              "integers; for EVERY byte string k (any length, leading zeros, >= n): wNAF digits sum to OS2IP(k) mod n with odd digits |d|<=7, "
              "ScalarMult P k = [k mod n]P, ScalarBaseMult k = [k mod n]G (no side condition), GenerateKey reads exactly 40 bytes, "
              "d = OS2IP mod (n-2) + 1 in [1,n-2], P = [d]G, error on short read. "
              "LIMB LAYER (the 9-limb 28/29-bit Montgomery code, translated MECHANICALLY from the Go AST on every run, explicit uint32/uint64 "
              "wrap-around): for all operands within the bound invariant 'loose' (limb < 2^30 / 2^29) Add, Sub (+ReduceCarry, Zero31), the "
              "schoolbook products, FromBig/ToBig and ReduceDegree (unpack, every path of both elimination-step shapes for every window within the "
              "loop's bound invariant, repack) never wrap, return loose limbs, and compute a+b, a-b, a*b/R mod p; the old (pre-a3cb9c3) "
              "elimination step is refuted on the D36 window; the limb functions commute with the abstraction sm2P256ToBig; the point functions "
              "(PointDouble/AddMixed/Add/Sub as programs over them, decisions on ToBig values), the constant-time selections on uint32 masks "
              "(CopyConditional, SelectAffinePoint, SelectJacobianPoint) and the ScalarMult / ScalarBaseMult loops are defined at the limb level and "
              "proved equal (under ToBig) to the F_p-level model, so IsOnCurve, Add, Double, ScalarMult, ScalarBaseMult, GenerateKey on the "
              "limb pipeline satisfy the property theorems: nothing between the public API and the affine result is F_p-level by specification. "
              "Premises, explicit in each statement: prime p for inverses; SM2Facts (p, n prime, associativity, G of order n) for the scalar "
              "multiplications and the table. The extracted models (F_p level and limb level) are run on the same inputs as /repo; limb results "
              "must agree word for word.")
LEVEL_NOTE = ("Proved at the limb level: sm2P256Add/Sub/ReduceCarry/Mul/Square/ReduceDegree (mechanically translated from the Go AST) for all loose "
              "operands, and on top of them the point functions, mask selections, scalar-multiplication loops and public methods (hand-written limb-level "
              "models in coq/EC/LimbPoint.v, LimbSelect.v, LimbScalar.v, LimbScalarMult.v, LimbAPI.v, which call the translated field functions). "
              "What ties these hand-written limb-level models to p256.go is the differential run: exact words for the point functions (white box), exact "
              "results for the public methods (black box, every third scalar-multiplication case); the field functions are tied by the translator plus "
              "word-for-word equality. sm2P256FromBig/ToBig and the decisions of PointAdd are hand models of the math/big calls. "
              "The translator (partial evaluator over a small Go subset, ~600 lines) is trusted. "
              "Primality of p and n, associativity and the order of G are premises (SM2Facts; proved elsewhere in coq/Prime, coq/SM2), never assumed "
              "globally; ScalarMult additionally needs [1]P..[6]P finite (true for every finite SM2 point, cofactor 1; proved for all [j]G). "
              "big.Int (SetBytes, Mod, ModInverse incl. z=0, Bit, BitLen, Rsh, Bytes) and io.ReadFull are modelled contracts. Timing is out of scope. "
              "Found while building: the ReduceDegree borrow defect D36 (fixed in /repo a3cb9c3; regression inputs in corpus/c03; "
              "Props: C03_limb_D36_old_step_refuted).")
TRUSTED_BASE = [
    "model coq/EC/P256Model.v written by hand from sm2/p256.go and sm2/sm2.go (GenerateKey); tied by the correspondence runs of this check",
    "translator harness/cmd/gen/target_sm2limbs.go: partial evaluator over the Go AST of Add, Sub, ReduceCarry, Mul, Square, ReduceDegree "
    "(constant loops unrolled, explicit wrap-around, data-dependent ifs as trees) -> coq/Gen/P256Limbs.v; tied by word-for-word equality of the "
    "extracted limb model with /repo on every white-box limb case",
    "translator harness/cmd/gen/target_sm2.go (hex constants of initP256Sm2, limb tables as 8-digit hex words decoded by coq/EC/HexWords.v); "
    "cross-checked at run time: sha256 of the tables seen through the hooks = sha256 of the generated file (case TB)",
    "extraction: ExtrOcamlBasic (bool, option, unit, list, prod, sumbool, sumor, andb, orb) + ExtrOcamlZBigInt (positive, N, Z => Big_int_Z.big_int; "
    "Pos.{add,succ,pred,sub,mul,min,max,compare,compare_cont}, N.{add,succ,pred,sub,mul,min,max,div_eucl,div,modulo,compare,shiftl,shiftr}, "
    "Z.{add,succ,pred,sub,mul,opp,abs,min,max,compare,eqb,eq_dec,to_N,of_N,abs_N,div_eucl,div,modulo,shiftl,shiftr}); zarith 1.12; nat stays inductive; "
    "no Extract directive of our own; the same model functions are also evaluated by vm_compute in the Examples of Props/C03.v",
    "OCaml 4.13.1 + dune; runner ocaml/ec/main.ml (hex parsing, printing)",
    "Go drivers harness/cmd/c03 (public API) and harness/cmd/c03w (hooks /repo/sm2/verif_p256_verif.go); inputs built with the drivers' own big.Int arithmetic",
    "predicate in checks/c03.py: affine arithmetic over the SM2 curve with python integers, constants typed from GM/T 0003.5",
]
ASSUMPTIONS = [
    "SM2Facts (premise of the ScalarMult / ScalarBaseMult / GenerateKey / table theorems): sm2_p and sm2_n are prime, the affine addition is associative on curve points, G is on the curve, [n]G = infinity, [k]G <> infinity for 0<k<n",
    "prime sm2_p (premise of Add_is_group_add, Double_is_group_double and the totality theorems)",
    "ScalarMult: the base point is a valid finite curve point with [1]P..[6]P finite (every finite point of the SM2 curve; proved for [j]G, 0<j<n)",
    "limb operands are 'loose' (limb i < 2^30 even / < 2^29 odd): established by FromBig and preserved by every limb function (proved); the callers' data flow (which limb vectors reach which function) is covered by the general program-refinement theorem, instantiated for PointDouble",
    "math/big and io.ReadFull behave as documented (modelled); the random source is the list of bytes it delivers",
]
RULE = (
    "seeded generators (hx.NewRng(seed)); inputs are built with the drivers' own affine big.Int arithmetic, never with the code under test. "
    "Black box (c03; quick 1 PA, 300 OC, 500 AD, 200 DB, 250 SM, 300 BM, 60 GK; thorough x10): scalars of 0..40 bytes from {empty, zero as 1..40 zero "
    "bytes, 1, 2, small < 40, n-16..n+16, 2^k and 2^k-1 for k < 320, OR of 1..6 all-ones windows of 4..8 bits at offsets < 250, n - 2d*2^j for d in "
    "{1,3,5,7} and j in 0..252 (j = 0 in a third of them), 2n, 2n+small, m*n+small, (n-1)/2 +-2, n + d*2^j, random < n, random 256-bit with the top nibble set, "
    "random bytes of random length}, a fifth of the structured ones padded with leading zero bytes to 33..40 bytes and an eighth to exactly 32; points "
    "{G, [k]G for k <= 20, [k]G for random k, [n-k]G for k <= 20, points with abscissa 0..8 or p-1..p-9, random curve points (random x, square root)}, "
    "negated with probability 1/4; AD pairs (P,P), (P,-P), (P,inf), (inf,P), (inf,inf), (P,+-2P), (P,Q), P with P+p, and pairs with an operand that "
    "is off the curve / has a coordinate >= p / has one coordinate 0; DB on P, (0,0), P+p, bad pairs; OC on curve points, (0,0), x = p-1..p-3, on-curve "
    "residue + p, y+1, x+1, random pairs; SM on the point families x the scalar families, 1/16 with (0,0) and 1/16 with a bad pair; GK readers: 40 zero "
    "bytes, 40 0xff bytes, 0 / 1 / 39 bytes, values m(n-2) and m(n-2)+n-3 (d = 1, d = n-2), n-3, n-2, n-1, random short, random 41..100 bytes, exactly 40 "
    "random, structured small values. "
    "White box (c03w; quick 1 TB, 4036 FM, 1512 FS, 2024 FA, 2024 FB, 500 FF, 1000 FT, 1000 FR, 120 PD, 160 PM, 160 PP, 160 PS, 300 WN; thorough x8): "
    "operands with limb i from {0, 1, mask_i, maxAfterAdd_i, random <= mask_i} (mask = 2^29-1 / 2^28-1; maxAfterAdd = mask + 14 / 0x1FFFFF00 / 0x37FF / "
    "0xE000000 for i = 0 / 2 / 3 / 7), all 2^9 corner patterns (limb 0 or mask_i) against a corner and a random-style operand on either side (FM: 3 per "
    "pattern, FA and FB: 2, FS: the pattern itself, in the thorough repetitions with one limb raised to maxAfterAdd_i), then random-style operands: field values "
    "0, 1, p-1, p-2, small, 2^k, values whose limb value is d*2^k, random, in canonical Montgomery limbs and re-split after adding p or 2p (< 2^257), "
    "high-limb and all-maxAfterAdd operands, sparse operands, a = b, a + (-a); FB keeps every limb of b <= maxAfterAdd_i <= sm2P256Zero31[i]; FF on "
    "0..2, p+-2, 2p+-2, 2^256+-2, 2^k (k < 400), random bytes up to 48, n+-2, random < p, random + p; FR on the 17 words of real products (schoolbook as "
    "in sm2P256Mul) of such operands (70%), sparse words, random words < 2^62 with the top word < 2^60; point cases on Jacobian representations "
    "(X = x l^2, Y = y l^3, Z = l; l = 1 or random or p-1; coordinates re-split +p with probability 1/4 each) of G, [k]G, the point with x = 0, random "
    "points, their negatives; second operand P, -P, infinity, +-2P, random; Z = 0 operands with zero / one / random / curve-point X, Y; a few off-curve "
    "operands; WN on the black-box scalar families. A case is non-trivial unless it is PA or TB; distinct = distinct case text")

# ------------------------------------------------------------------------------------------------
# SM2 curve, constants typed from GM/T 0003.5-2012
P = 0xFFFFFFFEFFFFFFFFFFFFFFFFFFFFFFFFFFFFFFFF00000000FFFFFFFFFFFFFFFF
A = P - 3
B = 0x28E9FA9E9D9F5E344D5A9E4BCF6509A7F39789F515AB8F92DDBCBD414D940E93
N = 0xFFFFFFFEFFFFFFFFFFFFFFFFFFFFFFFF7203DF6B21C6052B53BBF40939D54123
GX = 0x32C4AE2C1F1981195F9904466A39C9948FE30BBFF2660BE1715A4589334C74C7
GY = 0xBC3736A2F4F6779C59BDCEE36B692153D0A9877CC62A474002DF32E52139F0A0
RINV = 0x7ffffffd80000002fffffffe000000017ffffffe800000037ffffffc80000002   # (2^257)^-1 mod p, checked below
assert (RINV << 257) % P == 1
OFF = [0, 29, 57, 86, 114, 143, 171, 200, 228]
G = (GX, GY)


def on_curve(x, y):
    return (y * y - (x * x * x + A * x + B)) % P == 0


def ec_add(p1, p2):
    """affine group law; None = point at infinity"""
    if p1 is None:
        return p2
    if p2 is None:
        return p1
    x1, y1 = p1
    x2, y2 = p2
    if x1 == x2:
        if (y1 + y2) % P == 0:
            return None
        lam = (3 * x1 * x1 + A) * pow(2 * y1, -1, P) % P
    else:
        lam = (y2 - y1) * pow(x2 - x1, -1, P) % P
    x3 = (lam * lam - x1 - x2) % P
    return x3, (lam * (x1 - x3) - y1) % P


def ec_neg(p1):
    return None if p1 is None else (p1[0], (-p1[1]) % P)


def ec_mul(k, p1):
    r = None
    for bit in bin(k)[2:] if k else "":
        r = ec_add(r, r)
        if bit == "1":
            r = ec_add(r, p1)
    return r


def _aff(p1):
    """infinity is reported as (0,0) by the public API"""
    return (0, 0) if p1 is None else p1


def _pt(x, y):
    """public-API input pair -> ('ok', point) if it is (0,0) or an in-range curve point, else ('bad', None)"""
    if x == 0 and y == 0:
        return "ok", None
    if 0 <= x < P and 0 <= y < P and on_curve(x, y):
        return "ok", (x, y)
    return "bad", None


def _int(s):
    return int(s, 16)


def _bytes(s):
    return b"" if s in ("-", "") else bytes.fromhex(s)


def _os2ip(s):
    return int.from_bytes(_bytes(s), "big")


def _limbs(s):
    v = [int(w, 16) for w in s.split(",")]
    if len(v) != 9:
        raise ValueError("limb vector with %d words" % len(v))
    return v


def limb_value(v):
    return sum(w << o for w, o in zip(v, OFF))


def fe(s):
    """field element represented by a limb vector (text or list): limb value * R^-1 mod p"""
    v = _limbs(s) if isinstance(s, str) else s
    return limb_value(v) * RINV % P


def _jac(xs, ys, zs):
    """Jacobian triple of limb vectors -> ('inf', None) | ('pt', (x,y)) | ('bad', None) when not on the curve"""
    X, Y, Z = fe(xs), fe(ys), fe(zs)
    if Z == 0:
        return "inf", None
    zi = pow(Z, -1, P)
    x, y = X * zi * zi % P, Y * zi * zi * zi % P
    if not on_curve(x, y):
        return "bad", None
    return "pt", (x, y)


def _jac_is(xs, ys, zs, want):
    """does the Jacobian triple represent the affine point want (None = infinity)?"""
    X, Y, Z = fe(xs), fe(ys), fe(zs)
    if want is None:
        return Z == 0
    if Z == 0:
        return False
    zi = pow(Z, -1, P)
    return (X * zi * zi % P, Y * zi * zi * zi % P) == want


def nontrivial(f):
    return f[0] not in ("PA", "TB")


def classify(f, io):
    return f[0] + ":" + (io[0] if io else "none")


FE_OPS = ("FM", "FS", "FA", "FB", "FF", "FR")
PT_OPS = ("PD", "PM", "PP", "PS")


def same(f, io, mo):
    """implementation vs model.  Limb results are compared as the field elements they represent (the model
    prints values), everything else field by field."""
    if not io or not mo or io[0] != mo[0]:
        return False
    if io[0] != "ok":
        return True          # same class (err / PANIC / HANG); nothing else is projected
    op = f[0]
    if op in FE_OPS:
        # model line: ok <represented value by the F_p-level model> <exact words by the limb-level model
        # (Gen/P256Limbs.v, mechanically translated)>; the implementation printed its result words
        if len(io) != 2 or len(mo) != 3:
            return False
        try:
            return fe(io[1]) == int(mo[1], 16) and _limbs(io[1]) == _limbs(mo[2])
        except ValueError:
            return False
    if op == "FT":
        return len(io) == 2 and len(mo) == 3 and io[1] == mo[1] == mo[2]
    if op in PT_OPS:
        # model line: ok <values by the F_p-level model> L <exact words by the limb-level point function>
        if "L" not in mo:
            return False
        k = mo.index("L")
        vals, lim = mo[1:k], mo[k + 1:]
        if len(vals) != len(io) - 1 or len(lim) != len(io) - 1:
            return False
        try:
            return (all(fe(a) == int(b, 16) for a, b in zip(io[1:], vals)) and
                    all(_limbs(a) == _limbs(b) for a, b in zip(io[1:], lim)))
        except ValueError:
            return False
    if "L" in mo:
        # public methods: F_p-level model result, then the same method on the limb-level pipeline; all three must agree
        k = mo.index("L")
        return io == mo[:k] and io == mo[k + 1:]
    return io[1:] == mo[1:]


# (The sm2P256ReduceDegree borrow defect found by the white-box leg is fixed in /repo, commit a3cb9c3;
#  its inputs are kept in corpus/c03/ as regression cases, so no FINDING_MATCHERS entry is needed.)

_TABLE_HASH = []


def _gen_table_hash():
    """sha256 of the tables as the translator read them from the source (coq/Gen/P256Tables.v), or None"""
    if _TABLE_HASH:
        return _TABLE_HASH[0]
    h = None
    path = os.path.join(os.path.dirname(os.path.abspath(__file__)), "..", "coq", "Gen", "P256Tables.v")
    try:
        with open(path) as fh:
            text = fh.read()
        parts = []
        for name, count in (("sm2P256Precomputed", 540), ("sm2P256Zero31", 9), ("sm2P256Carry", 72), ("sm2P256Factor", 81)):
            # the translator emits each table as rows of 8-digit hexadecimal words (decoded in Coq by EC/HexWords.v)
            m = re.search(r"Definition gen_%s_hex\s*:\s*list string\s*:=(.*?)\]\." % name, text, re.S)
            hexes = "".join(re.findall(r'"([0-9a-f]*)"', m.group(1))) if m else ""
            nums = [str(int(hexes[i:i + 8], 16)) for i in range(0, len(hexes), 8)]
            if len(nums) != count:
                parts = None
                break
            parts.extend(nums)
        if parts:
            h = hashlib.sha256("".join(n + "," for n in parts).encode()).hexdigest()
    except OSError:
        h = None
    _TABLE_HASH.append(h)
    return h


def _scalar_digits_ok(digs, k):
    if not digs:
        return "empty digit list"
    if sum(d << i for i, d in enumerate(digs)) != k:
        return "digits do not sum to the scalar mod n"
    for d in digs:
        if d != 0 and (d % 2 == 0 or abs(d) > 7):
            return "digit %d is not 0 or odd with |d| <= 7" % d
    if k == 0:
        return "" if digs == [0] else "zero scalar not recoded as [0]"
    if digs[-1] == 0:
        return "most significant digit is zero"
    return ""


def predicate(f, io):
    """the property, evaluated on what /repo returned with plain python integers (independent of the Coq model)"""
    if not io or io[0] in ("PANIC", "HANG"):
        return False, "implementation " + (io[0] if io else "gave no result")
    op = f[0]
    try:
        ok, why = _predicate(op, f, io)
        return ok, ("" if ok else why)
    except (ValueError, IndexError) as e:
        return False, "malformed observation for %s: %s" % (op, e)


def _predicate(op, f, io):
    if op == "GK":
        rnd = _bytes(f[2])
        if len(rnd) < 40:
            if io[0] != "err":
                return False, "GenerateKey succeeded although the random source delivered only %d bytes" % len(rnd)
            return True, ""
        if io[0] != "ok" or len(io) != 5:
            return False, "GenerateKey failed on a source with >= 40 bytes"
        d = int.from_bytes(rnd[:40], "big") % (N - 2) + 1
        if _int(io[1]) != d or not 1 <= _int(io[1]) <= N - 2:
            return False, "private key is not (OS2IP(first 40 bytes) mod (n-2)) + 1 in [1, n-2]"
        if (_int(io[2]), _int(io[3])) != _aff(ec_mul(d, G)):
            return False, "public key is not [d]G"
        if io[4] != "40":
            return False, "GenerateKey consumed %s bytes of the source, expected 40" % io[4]
        return True, ""
    if io[0] != "ok":
        return False, "unexpected result class " + io[0]
    if op == "PA":
        want = [P, N, B, GX, GY]
        if len(io) != 7 or [_int(x) for x in io[1:6]] != want or io[6] != "256":
            return False, "Params() differs from the GM/T 0003.5 recommended curve (P, N, B, Gx, Gy, BitSize 256)"
        return True, ""
    if op == "OC":
        x, y = _int(f[2]), _int(f[3])
        if 0 <= x < P and 0 <= y < P:
            if (io[1] == "1") != on_curve(x, y):
                return False, "IsOnCurve answered %s, curve equation says %s" % (io[1], on_curve(x, y))
        return True, ""
    if op in ("AD", "DB"):
        s1, p1 = _pt(_int(f[2]), _int(f[3]))
        if op == "AD":
            s2, p2 = _pt(_int(f[4]), _int(f[5]))
        else:
            s2, p2 = s1, p1
        if s1 == "bad" or s2 == "bad":
            return True, ""
        if (_int(io[1]), _int(io[2])) != _aff(ec_add(p1, p2)):
            return False, ("Add" if op == "AD" else "Double") + " result is not the group law result"
        return True, ""
    if op == "SM":
        s1, p1 = _pt(_int(f[2]), _int(f[3]))
        if s1 == "bad" or p1 is None:
            return True, ""
        if (_int(io[1]), _int(io[2])) != _aff(ec_mul(_os2ip(f[4]) % N, p1)):
            return False, "ScalarMult result is not [k mod n]P"
        return True, ""
    if op == "BM":
        if (_int(io[1]), _int(io[2])) != _aff(ec_mul(_os2ip(f[2]) % N, G)):
            return False, "ScalarBaseMult result is not [k mod n]G"
        return True, ""
    # ---- white box
    if op == "FM":
        return (fe(io[1]) == fe(f[2]) * fe(f[3]) % P), "sm2P256Mul: result does not represent a*b mod p"
    if op == "FS":
        return (fe(io[1]) == fe(f[2]) * fe(f[2]) % P), "sm2P256Square: result does not represent a*a mod p"
    if op == "FA":
        return (fe(io[1]) == (fe(f[2]) + fe(f[3])) % P), "sm2P256Add: result does not represent a+b mod p"
    if op == "FB":
        return (fe(io[1]) == (fe(f[2]) - fe(f[3])) % P), "sm2P256Sub: result does not represent a-b mod p"
    if op == "FF":
        out = _limbs(io[1])
        if fe(out) != _int(f[2]) % P:
            return False, "sm2P256FromBig: result does not represent x mod p"
        if any(w >= (1 << (29 if i % 2 == 0 else 28)) for i, w in enumerate(out)):
            return False, "sm2P256FromBig: limb out of range"
        return True, ""
    if op == "FT":
        return (_int(io[1]) == fe(f[2])), "sm2P256ToBig: result is not the represented field element"
    if op == "FR":
        b = [int(w, 16) for w in f[2].split(",")]
        val = sum(w << (57 * (k // 2) + 29 * (k % 2)) for k, w in enumerate(b))
        return (fe(io[1]) == val * RINV * RINV % P), "sm2P256ReduceDegree: result limbs do not represent value(b)/R mod p"
    if op == "PD":
        s, p1 = _jac(f[2], f[3], f[4])
        if s == "bad":
            return True, ""
        return _jac_is(io[1], io[2], io[3], ec_add(p1, p1)), "sm2P256PointDouble: result does not represent 2P"
    if op == "PM":
        s, p1 = _jac(f[2], f[3], f[4])
        x2, y2 = fe(f[5]), fe(f[6])
        # the mixed addition is only specified for a finite first operand, a finite affine second operand and P1 != P2
        if s != "pt" or not on_curve(x2, y2) or p1 == (x2, y2):
            return True, ""
        return _jac_is(io[1], io[2], io[3], ec_add(p1, (x2, y2))), "sm2P256PointAddMixed: result does not represent P1+P2"
    if op in ("PP", "PS"):
        if op == "PS" and fe(io[4]) != (-fe(f[6])) % P:
            return False, "sm2P256PointSub: y2 was not replaced by its negation"
        s1, p1 = _jac(f[2], f[3], f[4])
        s2, p2 = _jac(f[5], f[6], f[7])
        if s1 == "bad" or s2 == "bad":
            return True, ""
        want = ec_add(p1, p2 if op == "PP" else ec_neg(p2))
        return _jac_is(io[1], io[2], io[3], want), ("sm2P256PointAdd: result does not represent P1+P2" if op == "PP"
                                                     else "sm2P256PointSub: result does not represent P1-P2")
    if op == "WN":
        digs = [] if io[1] == "-" else [int(d) for d in io[1].split(",")]
        why = _scalar_digits_ok(digs, _os2ip(f[2]) % N)
        return (why == ""), "sm2GenrateWNaf: " + why
    if op == "TB":
        h = _gen_table_hash()
        if h is not None and io[1] != h:
            return False, "tables in the binary differ from the tables the translator read from sm2/p256.go"
        return True, ""
    return True, ""
