"""C11 - the SM4 ECB/CBC/CFB/OFB helpers equal the standard PKCS#7-padded modes and invert (sm4/sm4.go)."""
import os, importlib.util

ID = "C11"
PROPS = "Props/C11.v"
COQ_TIMEOUT = 5400   # Coq build of this property incl. rebuilt dependencies; generous: on a loaded machine a rebuild after an upstream edit took > 1500 s
GEN = ["sm4tables", "sm4consts", "modescode"]
LEGS = [{"driver": "c11", "runner": ("sm4modes", "Extract/ExtractSM4Modes.v", "Sm4modes_model")}]

TECHNIQUE = ("Coq proof that a function-by-function model of the mode helpers of sm4.go equals SP 800-38A ECB/CBC/CFB-128/OFB over the "
             "PKCS#7-padded message for every key, IV and length, and inverts, for an abstract block cipher (instantiated by the GM/T 0002 "
             "specification, which C05 proves sm4.go implements); model tied to /repo semantically (the mode helpers, xor, pkcs7Padding, pkcs7UnPadding are "
             "translated statement by statement from the source on every run and proved equal to the model for all inputs) and by differential runs of the extracted model; /repo "
             "additionally checked against crypto/cipher's modes and an independent python implementation")
LEVEL_TEXT = ("Theorems in Coq (Props/C11.v) over a model of pkcs7Padding, pkcs7UnPadding, SetIV/IV, Sm4Ecb, Sm4Cbc, Sm4CFB, Sm4OFB "
              "(hand-written loops incl. their i==0 branches): for every 16-byte key, 16-byte IV and message of any length the ciphertext is "
              "the textbook mode over pad(m); decrypting it returns m; decryption of any whole number of blocks is the textbook decryption "
              "followed by un-padding; output length 16*(|m|/16+1); with `in` modelled as a slice header into a heap of arrays and pkcs7Padding's and the helpers' own writes (out = make, "
              "copy(out[i*16:..], x)) performed on that heap, no array existing at call time (so neither in nor its spare capacity) is written; SetIV accepts exactly 16 bytes and the helpers use "
              "the package IV at call time; other key lengths give an error; any history of SetIV / helper calls returns for each call the standard result on the values at call "
              "time and the IV in force. The model is run (extracted, block cipher = SM4Spec) on all "
              "lengths 0..1024 x 4 modes with canary bytes behind len(in).")
LEVEL_NOTE = ("Trusted: Coq kernel, extraction (ExtrOcamlBasic only), the translator target modescode and its vocabulary SM4/ModesCodeLib.v (Go statement -> Gallina; "
              "slices/index reads in range not re-checked, c.Encrypt(dst, src) fills a 16-byte dst, out = make + window copies = slots appended in order, value semantics for slices), "
              "through which Sm4Ecb/Sm4Cbc/Sm4CFB/Sm4OFB, xor, pkcs7Padding, pkcs7UnPadding of the source are proved equal to the hand-written model for all inputs (SM4/ModesCodeTie.v; OFB relative to 16-byte cipher outputs), "
              "additionally the differential run, the transcription of SP 800-38A / RFC 5652 in ModesSpec.v (tied to crypto/cipher by the driver's oracle). "
              "The block cipher is abstract in the theorems (16-byte outputs, D after E = id); C05 supplies that for sm4.go. Decryption of inputs "
              "that encryption cannot produce (ragged length, invalid pad) returns an empty result and a nil error - recorded, outside the property. "
              "SetIV stores the caller's slice (aliasing): values, not aliasing, are modelled for the IV.")
TRUSTED_BASE = [
    "translator harness/cmd/gen target modescode (Sm4Ecb, Sm4Cbc, Sm4CFB, Sm4OFB, xor, pkcs7Padding, pkcs7UnPadding of sm4.go statement by statement -> coq/Gen/ModesCode.v, vocabulary coq/SM4/ModesCodeLib.v; SM4/ModesCodeTie.v proves it equal to the model for all inputs)",
    "translator harness/cmd/gen target sm4consts (integer literals of SetIV, package-level variables of sm4.go) -> coq/Gen/SM4Consts.v; sm4tables via the SM4 instantiation",
    "specification coq/SM4/ModesSpec.v transcribed by hand from NIST SP 800-38A (ECB, CBC, CFB s=128, OFB) and RFC 5652 6.3",
    "model coq/SM4/ModesModel.v written by hand from sm4/sm4.go; tied by C11_helpers_are_source / C11_leaves_are_source (all inputs, over Gen/ModesCode.v) and by the correspondence run of this check; SetIV / IV / the heap-level models: correspondence run only",
    "block cipher abstract in the theorems (Record block_cipher); instantiated by SM4Spec (C11_sm4_is_block_cipher); C05 ties sm4.go's cipher.Block to SM4Spec",
    "extraction: ExtrOcamlBasic only; OCaml 4.13.1 + dune; runner ocaml/sm4modes/main.ml and ocaml/conv.ml.tmpl",
    "Go driver harness/cmd/c11 (canary placement, crypto/cipher oracle); python SM4 + modes in checks/c05.py / checks/c11.py",
]
ASSUMPTIONS = [
    "keys of 16 bytes (other lengths: error, proved), package IV of 16 bytes (what SetIV enforces and the initial value is)",
    "Go []byte values are lists of N; `out := make(...)` + copy into slot i is modelled by appending the slots in order",
    "caller memory: a heap of arrays with slice headers (array, offset, len, cap), Go's make/copy/append semantics incl. in-place append",
    "sequential use (the package-level IV is shared state)",
]
RULE = ("seeded generator (VERIF_SEED): every plaintext length 0..1024 x {ecb,cbc,cfb,ofb}, each encrypted and decrypted again (thorough: 4 passes "
        "with fresh keys), plus lengths up to 8 KiB sampled; a third of the messages end in bytes that look like a pad (k x k, 16 x 0x10, zeros, lone pad length); "
        "IV random / all-ff / package default, always installed through SetIV; `in` placed in front of 0..48 canary bytes inside one backing array "
        "(a quarter with no spare capacity), backing arrays, key and IV compared after the calls; key lengths 0..64; decryption of ragged / "
        "invalid / empty inputs (no panic required, behaviour recorded) and of genuine ciphertexts made by crypto/cipher (must return the message); SetIV with lengths 0..40; histories of 2..4 helper calls (modes and directions "
        "mixed) with SetIV (new IV, IV counted up in place, rejected lengths, or none) in between, on ONE key array, ONE IV array and ONE in array "
        "whose contents are overwritten in place between calls, each result checked against the values at call time and the IV in force. Non-trivial: message or input non-empty; "
        "distinct = distinct case text")

_spec = importlib.util.spec_from_file_location("checks._c05_sm4", os.path.join(os.path.dirname(os.path.abspath(__file__)), "c05.py"))
_c05 = importlib.util.module_from_spec(_spec)
_spec.loader.exec_module(_c05)
sm4_block = _c05.sm4_block


def _unhex(s):
    return b"" if s in ("-", ".", "") else bytes.fromhex(s)


def _xor(a, b):
    return bytes(x ^ y for x, y in zip(a, b))


def py_encrypt(mode, key, iv, m):
    """SP 800-38A over the PKCS#7-padded message (independent of the Coq model and of /repo)"""
    k = 16 - len(m) % 16
    p = m + bytes([k]) * k
    out = b""
    fb = iv
    for i in range(0, len(p), 16):
        b = p[i:i + 16]
        if mode == "ecb":
            c = sm4_block(key, b)
        elif mode == "cbc":
            c = sm4_block(key, _xor(b, fb)); fb = c
        elif mode == "cfb":
            c = _xor(b, sm4_block(key, fb)); fb = c
        else:
            o = sm4_block(key, fb); c = _xor(b, o); fb = o
        out += c
    return out


def py_decrypt(mode, key, iv, c):
    """SP 800-38A decryption of whole blocks, then PKCS#7 un-padding; b"" when the pad is invalid (what the helpers return)"""
    out = b""
    fb = iv
    for i in range(0, len(c) - len(c) % 16, 16):
        b = c[i:i + 16]
        if mode == "ecb":
            p = sm4_block(key, b, True)
        elif mode == "cbc":
            p = _xor(sm4_block(key, b, True), fb); fb = b
        elif mode == "cfb":
            p = _xor(b, sm4_block(key, fb)); fb = b
        else:
            o = sm4_block(key, fb); p = _xor(b, o); fb = o
        out += p
    if not out or len(c) % 16:
        return b""
    k = out[-1]
    if k == 0 or k > 16 or out[-k:] != bytes([k]) * k:
        return b""
    return out[:-k]


def _raw_pad16(mode, key, iv, c):
    """does c decrypt to exactly one block of 0x10 padding after an empty message? (py_decrypt returns b"" for that too)"""
    if len(c) != 16:
        return False
    fb = iv
    if mode == "ecb":
        p = sm4_block(key, c, True)
    elif mode == "cbc":
        p = _xor(sm4_block(key, c, True), fb)
    else:
        p = _xor(c, sm4_block(key, fb))
    return p == bytes([16]) * 16


def nontrivial(f):
    if f[0] == "R":
        return f[5] != "-"
    if f[0] == "D":
        return f[5] != "-"
    return True


def classify(f, io):
    if not io:
        return f[0] + ":none"
    if f[0] == "R":
        return "R:%s:%s" % (f[2], io[0])
    if f[0] == "D":
        kind = io[0] if io[0] != "ok" else ("ok-empty" if len(io) > 1 and io[1] == "-" else "ok-bytes")
        return "D:%s:len%%16=%s:%s" % (f[2], "0" if len(_unhex(f[5])) % 16 == 0 else "x", kind)
    if f[0] == "Q":
        return "Q:%d calls:%s" % (len(f[2].split(",")), io[0])
    return "S:" + " ".join(io[:3])


def same(f, io, mo):
    if f[0] == "Q":
        return io == mo
    if f[0] == "R":
        return io[:4] == mo[:4]
    if f[0] == "D":
        # inputs encryption cannot produce: only "returns (no panic, no hang)" is compared
        return (io[0] in ("ok", "err")) == (mo[0] in ("ok", "err"))
    return io == mo


def predicate(f, io):
    """the property, evaluated on what /repo returned"""
    if not io or io[0] in ("PANIC", "HANG"):
        return False, "implementation " + (io[0] if io else "gave no result")
    op = f[0]
    if op == "R":
        mode, key, m = f[2], _unhex(f[3]), _unhex(f[5])
        if len(key) != 16:
            return (io == ["err"]), "a key of %d bytes was accepted" % len(key)
        if io[0] != "ok" or len(io) != 5:
            return False, "helper returned an error for a 16-byte key"
        ct, pt, mem, orc = _unhex(io[1]), _unhex(io[2]), io[3], io[4]
        if len(ct) != 16 * (len(m) // 16 + 1):
            return False, "ciphertext length is not the next multiple of 16 above the plaintext length"
        if pt != m:
            return False, "decrypting the ciphertext does not return the plaintext"
        if mem != "1":
            return False, "caller memory (in, spare capacity behind it, key or IV) was written"
        if orc != "1":
            return False, "ciphertext differs from crypto/cipher's %s over the PKCS#7-padded plaintext" % mode
        if True:   # the independent oracle on every case
            iv = _unhex(f[4]) if f[4] != "-" else bytes(16)
            if py_encrypt(mode, key, iv, m) != ct:
                return False, "ciphertext differs from SP 800-38A %s over the PKCS#7-padded plaintext" % mode
        return True, ""
    if op == "D":
        # inputs that are a valid ciphertext (whole blocks decrypting to a correctly padded string) must return the
        # un-padded message; for everything else only "returns" is required (behaviour recorded, outside the property)
        key, c = _unhex(f[3]), _unhex(f[5])
        iv = _unhex(f[4]) if f[4] != "-" else bytes(16)
        if len(key) == 16 and len(c) > 0 and len(c) % 16 == 0:
            want = py_decrypt(f[2], key, iv, c)
            raw_valid = want != b"" or _raw_pad16(f[2], key, iv, c)
            if raw_valid and (io[0] != "ok" or _unhex(io[1]) != want):
                return False, "decryption of a valid %s ciphertext does not return the padded-then-unpadded message" % f[2]
        return True, ""
    if op == "Q":
        calls = f[2].split(",")
        if io[0] != "ok" or len(io) != 3:
            return False, "history: unexpected result"
        outs = io[1].split(",")
        if len(outs) != len(calls):
            return False, "history: wrong number of results"
        iv = bytes(16)
        for i, (c, got) in enumerate(zip(calls, outs)):
            mode, d, key, ivs, x = c.split(":")
            key, x = _unhex(key), _unhex(x)
            s = "n"
            if ivs != "~":
                v = _unhex(ivs)
                s = "o" if len(v) == 16 else "e"
                if len(v) == 16:
                    iv = v
            want = py_encrypt(mode, key, iv, x) if d == "e" else py_decrypt(mode, key, iv, x)
            if got != s + "/" + (want.hex() or "-"):
                if got.split("/")[0] != s:
                    return False, "history: SetIV accepted a wrong length or rejected 16 bytes (call %d)" % (i + 1)
                return False, ("call %d of a history (%s %s) does not return the standard result for its arguments and the IV in force "
                               "(the result depends on earlier calls or the IV was changed)" % (i + 1, mode, d))
        if io[2] != "1":
            return False, "history: a call wrote to the caller's key / in buffers or changed the package IV"
        return True, ""
    if op == "S":
        iv1, iv2, key, m = _unhex(f[2]), _unhex(f[3]), _unhex(f[4]), _unhex(f[5])
        if io[0] != "ok" or len(io) != 4:
            return False, "SetIV case: error from Sm4Cbc"
        if io[1] != "ok":
            return False, "SetIV rejected a 16-byte IV"
        if (io[2] == "ok") != (len(iv2) == 16):
            return False, "SetIV accepted an IV of %d bytes" % len(iv2) if io[2] == "ok" else "SetIV rejected a 16-byte IV"
        iv = iv2 if len(iv2) == 16 else iv1
        if py_encrypt("cbc", key, iv, m) != _unhex(io[3]):
            return False, "Sm4Cbc did not use the IV installed by the last successful SetIV"
        return True, ""
    return True, ""
