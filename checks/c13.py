"""C13 - SM2 key exchange gives both parties the same key and the standard's values (sm2/sm2.go)."""
import os, sys
sys.path.insert(0, os.path.dirname(os.path.abspath(__file__)))
import sm2_oracle as o

ID = "C13"
PROPS = "Props/C13.v"
GEN = ["sm2", "sm2sig"]      # curve constants (sm2/p256.go) and default_uid / limits / mode values (sm2/sm2.go)
LEGS = [{"driver": "c13", "runner": ("sm2", "Extract/ExtractSM2.v", "Sm2_model")}]
COQ_TIMEOUT = 5400

TECHNIQUE = ("Coq proof over an executable model of keyExchange / KeyExchangeA / KeyExchangeB / keXHat / keCoordBytes / ZA / kdf "
             "(all keys, ephemerals, identities, key lengths, both roles); model tied to /repo by differential runs of the extracted model; "
             "the property itself decided on /repo's outputs by an independent plain-python GM/T 0003.3 oracle and by pairing the two roles")
LEVEL_TEXT = ("Theorems in Coq (Props/C13.v): keXHat(x) = 2^127 + (x mod 2^127) for every non-negative x of any byte length; keyExchange equals GM/T 0003.3 "
              "6.1 in both roles (t, V = [t](P + [x~]R), K = KDF(xV||yV||ZA||ZB), S1/S2 with tags 02/03, 32-byte coordinates, initiator's ephemeral first) "
              "for all keys, ephemerals, identities below 8192 bytes and key lengths; initiator and responder obtain the same (K, S1, S2) for all scalars "
              "in [1,n-1]; a peer ephemeral that is not a curve point with coordinates in [0,p) (incl. (0,0)) and V = O yield an error.")
LEVEL_NOTE = ("Relative to C03: ScalarMult / Add / IsOnCurve are the affine operations of EC/SM2Curve.v with infinity written (0,0). Conformance and agreement "
              "is relative to 'p prime' only, agreement to p prime + associativity + [n]G = O + [k]G finite for 0<k<n (premises visible in the statements; 'n prime' is not needed; associativity is proved in SM2/ECAssoc.v and C13_kx_agree_noassoc drops it); the refusals and keXHat are premise-free. "
              "The peer's LONG-TERM key is not validated by the code (a pair (0,0) is taken as infinity): the conformance theorem assumes it is a curve point, "
              "the property does not speak about invalid long-term keys. The code refuses an all-zero K (standard silent). SM3, math/big modelled; tied by "
              "the differential run, which includes the GM/T 0003.5 Annex example as a corpus case.")
TRUSTED_BASE = [
    "model coq/SM2/SM2Model.v written by hand from sm2/sm2.go; tied by the correspondence run of this check",
    "specification coq/SM2/SM2Spec.v typed from GM/T 0003.3 over EC/SM2Curve.v and SM3/SM3Spec.v; the python oracle and the model reproduce the GM/T 0003.5 Annex example (K, S1, S2)",
    "extraction: ExtrOcamlBasic + ExtrOcamlZBigInt (positive/N/Z -> zarith Big_int_Z and its arithmetic constants); no other Extract directive; OCaml 4.13.1, zarith 1.12, dune; runner ocaml/sm2/main.ml",
    "Go driver harness/cmd/c13 (session generator, hard-coded leading-zero scalars, error catalogue)",
    "translator targets sm2 (build-ec) and sm2sig (harness/cmd/gen/target_sm2sig.go): curve constants, nonce length, mode values, length limits read from the source into coq/Gen/*.v (theorem C13_source_constants_tied)",
    "python oracle checks/sm2_oracle.py (SM3, affine EC, KDF, key exchange per GM/T 0003.3) for the predicate",
]
ASSUMPTIONS = [
    "relative to C03: curve methods = affine spec operations with infinity as (0,0)",
    "conformance: p prime; agreement: p prime, affine addition associative on curve points, [n]G = O, [k]G finite for 0<k<n (components of SM2Facts)",
    "the peer's long-term public key is a point of the curve; own public keys are [d]G, [r]G",
]
RULE = ("seeded generator (VERIF_SEED): sessions (dA,dB,rA,rB,idA,idB,klen) emitted as an A line and a B line; scalars {1,2,n-2, random, leading-zero}; public points / shared point V with "
        "leading-zero coordinates (31-byte X / Y scalars searched from the seed in all four positions, 30-byte ones hard-coded; shared point V: 5 + 5 sessions searched per round); sessions with special relations between long-term and ephemeral keys (d = +-xbar(R)r, dA = dB, rA = rB, R = +-P, cross-equal, tiny scalars); sparse scalars 2^e, 2^e +- 1, 3*2^e as long-term key, ephemeral scalar and as the exchange scalar t itself (quick: every other value, seed-dependent); identities 0..8191 bytes (and 8192, 8193 -> error); klen {1..1024 classes, 0 -> error}; peer ephemeral off the curve / (0,0) / >= p / "
        "(x+p,y); V infinite; small-x ephemerals (keXHat short path); corpus: GM/T 0003.5 Annex example, regression cases for ephemeral coordinates >= p. "
        "Non-trivial: every case; distinct = distinct case text")


def nontrivial(f):
    return True


def classify(f, io):
    return f[0] + f[2] + ":" + (io[0] if io else "none")


def _parse(f):
    role, klen = f[2], int(f[3])
    ida, idb = o.unhex(f[4]), o.unhex(f[5])
    d, peer, r, rpeer = o.zint(f[6]), (o.zint(f[7]), o.zint(f[8])), o.zint(f[9]), (o.zint(f[10]), o.zint(f[11]))
    return role, klen, ida, idb, d, peer, r, rpeer


def predicate(f, io):
    """the property, evaluated on what /repo returned (independent of the Coq model)"""
    if not io or io[0] in ("PANIC", "HANG"):
        return False, "implementation " + (io[0] if io else "gave no result")
    if f[0] != "K":
        return True, ""
    role, klen, ida, idb, d, peer, r, rpeer = _parse(f)
    if not (1 <= d < o.N and 1 <= r < o.N):
        return True, ""
    if not o.on_curve(rpeer):
        return io[0] == "err", "a peer ephemeral value that is not a point of the curve yielded a key instead of an error"
    if not o.on_curve(peer):
        return True, ""          # invalid long-term key: outside the property's domain (model comparison only)
    own, own_r = o.ec_mul(d, o.G), o.ec_mul(r, o.G)
    want = o.key_exchange(role == "A", klen, ida, idb, d, own, peer, r, own_r, rpeer)
    if want is None:
        return io[0] == "err", "key exchange returned a key where GM/T 0003.3 fails (V infinite / identity too long / no key requested)"
    if io[0] != "ok":
        return False, "key exchange failed on valid inputs"
    got = tuple(o.unhex(x) for x in io[1:4])
    if got[0] != want[0]:
        return False, "shared key K differs from GM/T 0003.3"
    if got[1] != want[1] or got[2] != want[2]:
        return False, "confirmation values S1/S2 differ from GM/T 0003.3"
    return True, ""


def extra(tier, seed, wd, sh, env):
    """pair the two roles of every generated session: K, S1, S2 of the initiator must equal the responder's"""
    cases, obs = os.path.join(wd, "c13_cases.txt"), os.path.join(wd, "c13_impl.txt")
    if not (os.path.exists(cases) and os.path.exists(obs)):
        return []
    impl = {}
    with open(obs) as fh:
        for l in fh:
            i, _, rest = l.rstrip("\n").partition(" ")
            impl[i] = rest
    lines = {}
    with open(cases) as fh:
        for l in fh:
            f = l.rstrip("\n").split(" ")
            if len(f) >= 12 and f[0] == "K":
                lines[int(f[1])] = (l.rstrip("\n"), f)
    out = []
    for i in sorted(lines):
        if i % 2 != 1 or i + 1 not in lines:
            continue
        la, fa = lines[i]
        lb, fb = lines[i + 1]
        if fa[2] != "A" or fb[2] != "B" or fa[3:6] != fb[3:6]:
            continue
        # a session: B's peer keys are A's own public keys and vice versa
        da, ra, db, rb = o.zint(fa[6]), o.zint(fa[9]), o.zint(fb[6]), o.zint(fb[9])
        if not all(1 <= k < o.N for k in (da, ra, db, rb)):
            continue
        if (o.zint(fb[7]), o.zint(fb[8])) != o.ec_mul(da, o.G) or (o.zint(fa[7]), o.zint(fa[8])) != o.ec_mul(db, o.G):
            continue
        if (o.zint(fb[10]), o.zint(fb[11])) != o.ec_mul(ra, o.G) or (o.zint(fa[10]), o.zint(fa[11])) != o.ec_mul(rb, o.G):
            continue
        if impl.get(str(i)) != impl.get(str(i + 1)):
            out.append(("input", "initiator and responder of one session derive different (K, S1, S2)",
                        {"kind": "case", "property": ID, "driver": "c13", "origin": "generated", "case": la,
                         "impl": impl.get(str(i)), "model": None, "predicate_ok": False,
                         "why": "responder line: " + lb[:300] + " -> " + str(impl.get(str(i + 1)))[:200]}))
        if len(out) >= 3:
            break
    return out
