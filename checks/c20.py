"""C20 - results do not depend on goroutine interleaving; shared objects are race-free."""
import os, re, json, fcntl, glob, shutil

ID = "C20"
PROPS = "Props/C20.v"
COQ_TIMEOUT = 5400   # Coq build of this property incl. rebuilt dependencies; generous: on a loaded machine a rebuild after an upstream edit took > 1500 s
GEN = ["conc"]      # Gen/ConcWriteSets.v: static write sets of the exported entry points, regenerated from the source
# one driver, built twice: plainly (leg below: concurrent result == single-threaded result) and with -race (extra())
LEGS = [{"driver": "c20", "runner": None, "timeout": 1500}]

ROOT = os.path.dirname(os.path.dirname(os.path.abspath(__file__)))
HARNESS = os.path.join(ROOT, "harness")

TECHNIQUE = ("Coq proof about an access model of sharing (serialisability of race-free programs for every interleaving; the gmsm access "
             "table meets the hypothesis; activeCall interlock by invariant); the table is validated against the running code by the Go race "
             "detector and by comparing every concurrent result with its single-threaded result")
LEVEL_TEXT = ("Theorems in Coq (Props/C20.v): (1) for every program of lock-protected sections, free accesses and sync.Once calls in which every "
              "conflicting pair of accesses of different goroutines shares a mutex or is ordered by a Once, EVERY complete interleaving of micro-steps "
              "ends in the state (store, each goroutine's reads) of executing the blocks sequentially; (1') the same for nested locks and RWMutex "
              "(shared readers), with regions as the sequential units; (2) the hand-written access table of gmsm "
              "(sm2/sm3/sm4/x509 package operations, shared Sm4Cipher, first use of the curve, CertPool reads, Config once/ticket keys/LRU cache, "
              "Conn Read/Write/Close) satisfies that hypothesis for every program built from its rows, SetSessionTicketKeys at any time included "
              "(finite check lifted; first use of a Config against rotation also swept step by step: the rotated keys are always kept); (3) the activeCall protocol of Conn.Write/Close for any number of "
              "calls and all schedules, and a Close on the close_notify path never coexists with a Write inside the record layer (the shortcut condition is read from the source); (4) threads that take their locks in one rank order never reach a state with every unfinished thread blocked on a mutex, "
              "the rows of the table are so ordered, and the lock acquisitions found in the current source go strictly upwards in the same rank. Tie: `go build -race` of the scenario driver, 2..32 goroutines per row pair, fresh process per scenario.")
LEVEL_NOTE = ("PARTIAL BY NATURE. The theorems carry the logic of sharing only: the Go scheduler, the Go memory model, preemption inside an "
              "access and the correspondence between the access table and the code are not proved. The table (coq/Conc/AccessTable.v) is written by "
              "hand; its write sets are tied to the current source statically (Gen/ConcWriteSets.v, theorems table_covers_source_writes incl. the Conn rows and the handshake code, "
              "source_unattributed_bounded for calls through function values / outside interfaces; reads and renegotiation are outside that tie) and it is validated per run by the race detector on the interleavings that occur. Locks are modelled where "
              "the code takes them (nested, RWMutex with shared readers); the serialisability conclusion is at REGION level (accesses between two "
              "synchronisation operations), not at call level (Example region_level_not_call_level), and concerns complete schedules; absence of deadlock is "
              "proved for blocking on mutexes only (Once is an atomic step of the machine; the source lock order treats a Once as a lock; network, Cond, channels outside); Conn.Handshake and handshakeComplete() are modelled as a sync.Once; renegotiation is outside. "
              "sm4.IV (SetIV), x509.ContentEncryptionAlgorithm and CertPool construction are caller-synchronised: only concurrent reads are claimed. "
              "Static tie precision: field level, calls inside the analysed packages, known external mutators only (harness/cmd/gen/target_conc.go).")
TRUSTED_BASE = [
    "access table coq/Conc/AccessTable.v written by hand from sm2/p256.go, sm4/sm4.go, x509/{ber,cert_pool,pkcs7,verify}.go, gmtls/{common,conn}.go",
    "Go race detector (ThreadSanitizer runtime of go1.23, CGO) observing the interleavings of this run only",
    "scenario driver harness/cmd/c20 (own synchronisation: start barrier, WaitGroup, per-goroutine result slots and RNG; loopback TCP 127.0.0.1:0)",
    "sync.Mutex / sync.RWMutex / sync.Once / sync/atomic and net.Conn behave as documented (modelled, not verified)",
]
ASSUMPTIONS = [
    "an access to an abstract location is atomic in the model; weak-memory effects of unsynchronised accesses are outside (they are exactly what race-freedom excludes)",
    "sync.Once is atomic for its callers; sync.RWMutex: any number of Shared holders or one Excl holder, not re-entrant",
    "no renegotiation on the shared connection (default RenegotiateNever)",
    "exported package variables are caller-synchronised: x509.ContentEncryptionAlgorithm (no setter; PKCS7Encrypt / PKCS7EncryptSM2 read it once per call) and a direct assignment `sm4.IV = ...` are not performed while other goroutines use the packages (row x509_set_cea is outside the claim, theorem package_state_writers; scenario pkcs7_cea changes the selector between concurrent phases only).  The library call sm4.SetIV may run at any time since /repo 0fa6cb9; the slice handed to it must not be changed afterwards",
]
RULE = ("fixed scenario plan (25 scenarios: 15 shared-object scenarios, the alert branches of one connection, Close against a Write parked in the transport, and package-level state / operations - SM4 helpers with the IV changed between phases and by a concurrent SetIV, GCM helpers on one key, PKCS#7 encryption under both content-encryption settings (changed between concurrent phases), SM2 key exchange with shared long-term keys, PKCS#12 encode / decode of shared objects; GOMAXPROCS 2, 4 or all processors per scenario - the shared-object scenarios incl. first use of a fresh cipher.Block, first use of the curve, first use of a CertPool with AKI-miss/name-hit chains, first use of a Config against key rotation with a ticket-under-rotated-key observation) x goroutine counts {2,8,32} (thorough: {2,3/4,8,16,32}, more iterations); each scenario runs in a fresh process; every "
        "call's result (digest of all outputs for deterministic per-goroutine nonce streams, verdicts, parsed fields, echoed/delivered bytes) is compared "
        "with the single-threaded result of the same call; the same plan and the corpus run again in a -race build; a case is non-trivial when it "
        "uses >= 2 goroutines; distinct = distinct (scenario, goroutines, iterations, seed)")


def nontrivial(f):
    return len(f) > 3 and f[3].isdigit() and int(f[3]) >= 2


def classify(f, io):
    return f[2] + ":" + (io[0] if io else "none")


def predicate(f, io):
    """every concurrent result equals the single-threaded result of the same call"""
    if not io or io[0] in ("PANIC", "HANG"):
        return False, "scenario %s: implementation %s" % (f[2], io[0] if io else "gave no result")
    if io[0] != "ok":
        return False, "scenario %s did not complete: %s" % (f[2], " ".join(io[1:])[:200])
    if int(io[2]) != 0:
        return False, "scenario %s: %s of %s concurrent results differ from the single-threaded result (%s)" % (f[2], io[2], io[1], io[4] if len(io) > 4 else "")
    return True, ""


def _frames(report):
    """first /repo frame of each of the two stacks of the first race, for the message"""
    first = (report.split("WARNING: DATA RACE") + [""])[1]
    out = []
    for sect in re.split(r"\n(?=(?:Read|Write|Previous read|Previous write|Atomic read|Atomic write|Previous atomic \w+) at )", first):
        if not re.match(r"^\s*(Read|Write|Previous|Atomic)", sect):
            continue
        m = re.search(r"^\s+(github\.com/tjfoc/gmsm/\S+)\(\)\s*\n\s+(\S+:\d+)", sect, re.M)
        if m:
            out.append("%s %s (%s)" % (sect.strip().split(" at ")[0].lower(), m.group(1).replace("github.com/tjfoc/gmsm/", ""), m.group(2)))
    return " / ".join(out[:2])


def _race_tops(report):
    """for every race of the report: the top frame (function name, module prefix removed) of its two stacks"""
    res = []
    for blk in report.split("WARNING: DATA RACE")[1:]:
        tops = []
        for sect in re.split(r"\n(?=(?:Read|Write|Previous read|Previous write|Atomic read|Atomic write|Previous atomic \w+) at )", blk):
            if not re.match(r"^\s*(Read|Write|Previous|Atomic)", sect):
                continue
            m = re.search(r"^\s+(\S+)\(\)\s*\n\s+\S+:\d+", sect, re.M)
            tops.append(m.group(1).replace("github.com/tjfoc/gmsm/", "") if m else "?")
        res.append(tuple(tops[:2]))
    return res


def _races_within(report, scenario, want_scenario, writer, others):
    """every race of the report has the unsynchronised writer on one side and the writer or one of `others` on the other"""
    tops = _race_tops(report)
    if scenario != want_scenario or not tops:
        return False
    for t in tops:
        if len(t) != 2 or not any(re.fullmatch(writer, x) for x in t):
            return False
        if not all(re.fullmatch(writer, x) or x in others for x in t):
            return False
    return True


# Findings that only the race-detector leg can see (the functional results are those of a sequential order):
# slug -> matcher(scenario, report).  Listed in KNOWN_FINDINGS.txt -> the matching race reports are not violations (the
# framework prints KNOWN-FINDING for STATIC_FINDINGS); anything else in the same scenario still is.  Empty at present:
# D51 (sm4.SetIV against the helpers) was repaired in /repo 0fa6cb9 and scenario sm4_iv_set must be race-free.
RACE_FINDINGS = {}
STATIC_FINDINGS = tuple(RACE_FINDINGS)


def _listed_findings():
    import verif
    return {e.get("id") for e in verif.known_findings()["finding"] if e["property"] == "C20"}


def extra(tier, seed, wd, sh, GOENV):
    """race-detector leg: the same scenarios (corpus first) in a -race build; each scenario in its own process"""
    problems = []
    os.makedirs(os.path.join(HARNESS, "bin"), exist_ok=True)
    lock = open(os.path.join(ROOT, "work", ".go.lock"), "w")
    fcntl.flock(lock, fcntl.LOCK_EX)
    repo = os.environ.get("VERIF_REPO", "/repo")
    alt = repo != "/repo"
    outname = "bin/alt-c20race" if alt else "bin/c20race"
    try:
        env = dict(GOENV, CGO_ENABLED="1", VERIF_REPO=repo)
        flags = []
        if alt:   # same redirection of the module replace as verif.py build_driver
            with open(os.path.join(HARNESS, "go.mod")) as fh:
                mod = fh.read().replace("=> /repo", "=> " + repo)
            ap = os.path.join(HARNESS, "alt.mod")
            if not os.path.exists(ap) or open(ap).read() != mod:
                open(ap, "w").write(mod)
            try:
                shutil.copyfile(os.path.join(repo, "go.sum"), os.path.join(HARNESS, "alt.sum"))
            except OSError:
                pass
            flags = ["-modfile=alt.mod"]
        rc, out = sh(["go", "build", "-race"] + flags + ["-tags", "verif", "-o", outname, "./cmd/c20"], cwd=HARNESS, env=env, timeout=1500)
    finally:
        fcntl.flock(lock, fcntl.LOCK_UN)
        lock.close()
    if rc != 0:
        return [("unproved", "the race-detector build of the C20 driver fails against the tree",
                 {"kind": "build", "what": "go build -race ./cmd/c20", "output": out[-3000:]})]
    exe = os.path.join(HARNESS, outname)
    for old in glob.glob(os.path.join(wd, "race_*")):
        os.remove(old)
    batches = []
    for cp in sorted(glob.glob(os.path.join(ROOT, "corpus", "c20", "c20*.cases"))):
        obs = os.path.join(wd, "race_obs_" + os.path.basename(cp) + ".txt")
        rc, out = sh([exe, "run", cp, obs], env=env, timeout=1500)
        batches.append((cp, obs, rc, out))
    cases = os.path.join(wd, "race_cases.txt")
    obs = os.path.join(wd, "race_obs.txt")
    envs = [env]
    if tier == "thorough":
        envs = [env, dict(env, GOMAXPROCS="2"), dict(env, GOMAXPROCS="5")]
    for k, e in enumerate(envs):
        c, o = (cases, obs) if k == 0 else (cases + ".%d" % k, obs + ".%d" % k)
        rc, out = sh([exe, "gen", str(seed + 1000 * k), tier, c, o], env=e, timeout=2700)
        batches.append((c, o, rc, out))
    stats = {"scenarios": 0, "races": 0}
    listed = _listed_findings()
    for cp, op, rc, out in batches:
        if rc != 0 or not os.path.exists(op):
            problems.append(("unproved", "race-detector run failed on " + os.path.basename(cp),
                             {"kind": "driver", "what": "c20race", "output": out[-3000:]}))
            continue
        if not any(l.strip() for l in open(cp)):
            problems.append(("unproved", "race-detector run produced no scenario for " + os.path.basename(cp),
                             {"kind": "driver", "what": "c20race", "output": out[-3000:]}))
            continue
        impl = {}
        for l in open(op):
            i, _, rest = l.rstrip("\n").partition(" ")
            impl[i] = rest
        for line in open(cp):
            line = line.strip()
            if not line:
                continue
            f = line.split(" ")
            io = impl.get(f[1], "").split(" ")
            stats["scenarios"] += 1
            races = 0
            if io[0] == "ok" and len(io) > 3:
                races = int(io[3])
            else:
                m = re.search(r"races=(\d+)", " ".join(io))
                races = int(m.group(1)) if m else 0
            report = ""
            rpath = "%s.report.%s.txt" % (op, f[1])
            if os.path.exists(rpath):
                report = open(rpath, errors="replace").read()
            if races > 0 and any(fid in listed and fn(f[2], report) for fid, fn in RACE_FINDINGS.items()):
                stats["known"] = stats.get("known", 0) + 1
            elif races > 0:
                stats["races"] += 1
                problems.append(("input",
                                 "DATA RACE reported by the Go race detector in scenario %s (%s goroutines) on operations the access table calls race-free: %s"
                                 % (f[2], f[3], _frames(report)),
                                 {"kind": "race", "property": "C20", "scenario": f[2], "case": line, "impl": " ".join(io),
                                  "rerun": "cd /verif/harness && go build -race -tags verif -o bin/c20race ./cmd/c20 && ./bin/c20race one " + line,
                                  "race_report": report[:6000]}))
            okp, why = predicate(f, io)
            if not okp:
                problems.append(("input", "under the race detector: " + why,
                                 {"kind": "race", "property": "C20", "scenario": f[2], "case": line, "impl": " ".join(io),
                                  "rerun": "cd /verif/harness && ./bin/c20race one " + line, "race_report": report[:6000]}))
    with open(os.path.join(wd, "race_summary.json"), "w") as fh:
        json.dump(stats, fh)
    print("C20 race-detector leg: %d scenario runs, %d with race reports%s" % (stats["scenarios"], stats["races"],
          (" (+%d matching listed findings)" % stats["known"]) if stats.get("known") else ""), flush=True)
    return problems
