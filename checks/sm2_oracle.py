"""Plain-python oracle for GM/T 0003.2/.3/.4 (SM2 signature, key exchange, encryption) and GM/T 0004 (SM3).

Standard library only.  Written from the standards, independently of /repo and of the Coq model; used by
checks/c01.py, c02.py, c13.py to decide the property on what /repo returned.
Not a check module itself (verif.py loads checks/c*.py only)."""
import struct

# ---------------------------------------------------------------- SM3 (GM/T 0004-2012)
_IV = [0x7380166f, 0x4914b2b9, 0x172442d7, 0xda8a0600, 0xa96f30bc, 0x163138aa, 0xe38dee4d, 0xb0fb0e4e]
_M32 = 0xffffffff


def _rol(x, n):
    n %= 32
    return ((x << n) | (x >> (32 - n))) & _M32


def _p0(x):
    return x ^ _rol(x, 9) ^ _rol(x, 17)


def _p1(x):
    return x ^ _rol(x, 15) ^ _rol(x, 23)


def _cf(v, blk):
    w = list(struct.unpack(">16I", blk))
    for j in range(16, 68):
        w.append(_p1(w[j - 16] ^ w[j - 9] ^ _rol(w[j - 3], 15)) ^ _rol(w[j - 13], 7) ^ w[j - 6])
    a, b, c, d, e, f, g, h = v
    for j in range(64):
        t = 0x79cc4519 if j < 16 else 0x7a879d8a
        ss1 = _rol((_rol(a, 12) + e + _rol(t, j)) & _M32, 7)
        ss2 = ss1 ^ _rol(a, 12)
        if j < 16:
            ff, gg = a ^ b ^ c, e ^ f ^ g
        else:
            ff, gg = (a & b) | (a & c) | (b & c), (e & f) | ((~e & _M32) & g)
        tt1 = (ff + d + ss2 + (w[j] ^ w[j + 4])) & _M32
        tt2 = (gg + h + ss1 + w[j]) & _M32
        d, c, b, a = c, _rol(b, 9), a, tt1
        h, g, f, e = g, _rol(f, 19), e, _p0(tt2)
    return [x ^ y for x, y in zip(v, [a, b, c, d, e, f, g, h])]


def sm3(msg):
    msg = bytes(msg)
    m = msg + b"\x80" + b"\x00" * ((55 - len(msg)) % 64) + struct.pack(">Q", 8 * len(msg))
    v = _IV
    for i in range(0, len(m), 64):
        v = _cf(v, m[i:i + 64])
    return struct.pack(">8I", *v)


# ---------------------------------------------------------------- the curve (GM/T 0003.5)
P = 0xFFFFFFFEFFFFFFFFFFFFFFFFFFFFFFFFFFFFFFFF00000000FFFFFFFFFFFFFFFF
A = 0xFFFFFFFEFFFFFFFFFFFFFFFFFFFFFFFFFFFFFFFF00000000FFFFFFFFFFFFFFFC
B = 0x28E9FA9E9D9F5E344D5A9E4BCF6509A7F39789F515AB8F92DDBCBD414D940E93
N = 0xFFFFFFFEFFFFFFFFFFFFFFFFFFFFFFFF7203DF6B21C6052B53BBF40939D54123
G = (0x32C4AE2C1F1981195F9904466A39C9948FE30BBFF2660BE1715A4589334C74C7,
     0xBC3736A2F4F6779C59BDCEE36B692153D0A9877CC62A474002DF32E52139F0A0)
DEFAULT_ID = b"1234567812345678"


def on_curve(pt, b=B):
    """pt is a pair of integers; canonical field elements only"""
    if pt is None:
        return False
    x, y = pt
    return 0 <= x < P and 0 <= y < P and (y * y - (x * x * x + A * x + b)) % P == 0


def ec_add(p1, p2):
    """affine chord-and-tangent; None is the point at infinity (formulas do not involve b)"""
    if p1 is None:
        return p2
    if p2 is None:
        return p1
    x1, y1 = p1
    x2, y2 = p2
    if (x1 - x2) % P == 0:
        if (y1 + y2) % P == 0:
            return None
        lam = (3 * x1 * x1 + A) * pow(2 * y1, -1, P) % P
    else:
        lam = (y2 - y1) * pow(x2 - x1, -1, P) % P
    x3 = (lam * lam - x1 - x2) % P
    return (x3, (lam * (x1 - x3) - y1) % P)


def ec_mul_affine(k, pt):
    """[k]pt by double-and-add on the affine law above (the definition; used to cross-check ec_mul)"""
    r = None
    q = pt
    while k > 0:
        if k & 1:
            r = ec_add(r, q)
        q = ec_add(q, q)
        k >>= 1
    return r


def _jdbl(X, Y, Z):
    if Y == 0 or Z == 0:
        return (1, 1, 0)
    S = 4 * X * Y * Y % P
    M = (3 * X * X + A * Z * Z % P * Z * Z) % P
    X3 = (M * M - 2 * S) % P
    return (X3, (M * (S - X3) - 8 * Y * Y % P * Y * Y) % P, 2 * Y * Z % P)


def _jadd(X1, Y1, Z1, x2, y2):
    """Jacobian + affine, all special cases handled"""
    if Z1 == 0:
        return (x2, y2, 1)
    Z1Z1 = Z1 * Z1 % P
    U2 = x2 * Z1Z1 % P
    S2 = y2 * Z1 % P * Z1Z1 % P
    H = (U2 - X1) % P
    R = (S2 - Y1) % P
    if H == 0:
        return _jdbl(X1, Y1, Z1) if R == 0 else (1, 1, 0)
    HH = H * H % P
    HHH = H * HH % P
    V = X1 * HH % P
    X3 = (R * R - HHH - 2 * V) % P
    return (X3, (R * (V - X3) - Y1 * HHH) % P, Z1 * H % P)


def ec_mul(k, pt):
    """[k]pt; same function as ec_mul_affine, computed in Jacobian coordinates (one inversion instead of ~380):
    the predicates evaluate thousands of scalar multiplications per run.  _selftest compares the two."""
    if pt is None or k <= 0:
        return None
    x2, y2 = pt[0] % P, pt[1] % P
    X, Y, Z = 1, 1, 0
    for i in range(k.bit_length() - 1, -1, -1):
        X, Y, Z = _jdbl(X, Y, Z)
        if (k >> i) & 1:
            X, Y, Z = _jadd(X, Y, Z, x2, y2)
    if Z == 0:
        return None
    zi = pow(Z, -1, P)
    return (X * zi * zi % P, Y * zi * zi % P * zi % P)


def i2osp(x, n=32):
    return int(x).to_bytes(n, "big")


def os2ip(b):
    return int.from_bytes(bytes(b), "big")


# ---------------------------------------------------------------- GM/T 0003.2 signature
def za(pub, uid):
    """ZA = H256(ENTL || ID || a || b || xG || yG || xA || yA); None when ENTL does not fit 16 bits"""
    if 8 * len(uid) >= 65536:
        return None
    return sm3(struct.pack(">H", 8 * len(uid)) + bytes(uid) + i2osp(A) + i2osp(B) + i2osp(G[0]) + i2osp(G[1])
               + i2osp(pub[0]) + i2osp(pub[1]))


def msg_e(pub, uid, msg):
    z = za(pub, uid)
    if z is None:
        return None
    return os2ip(sm3(z + bytes(msg)))


def sign_with_nonce(d, e, k):
    """steps A4-A6; None = the standard says: draw another k"""
    x1 = ec_mul(k, G)[0]
    r = (e + x1) % N
    if r == 0 or r + k == N:
        return None
    s = (pow(1 + d, -1, N) * (k - r * d)) % N
    if s == 0:
        return None
    return r, s


def verify(pub, e, r, s):
    """steps B1-B7 on a public key given as a pair of integers"""
    if not (1 <= r < N and 1 <= s < N):
        return False
    t = (r + s) % N
    if t == 0:
        return False
    pt = ec_add(ec_mul(s, G), ec_mul(t, pub))
    if pt is None:
        return False
    return (e + pt[0]) % N == r


def nonce_of(chunk40):
    """how /repo's contract maps 40 random bytes to k in [1, n-1] (FIPS 186 extra-random-bits style)"""
    return os2ip(chunk40) % (N - 1) + 1


# strict DER: SEQUENCE { INTEGER r, INTEGER s }
def _der_len(n):
    if n < 128:
        return bytes([n])
    b = n.to_bytes((n.bit_length() + 7) // 8, "big")
    return bytes([0x80 | len(b)]) + b


def der_int(x):
    if x == 0:
        c = b"\x00"
    elif x > 0:
        c = x.to_bytes((x.bit_length() + 7) // 8, "big")
        if c[0] & 0x80:
            c = b"\x00" + c
    else:
        n = (-x - 1).bit_length() // 8 + 1
        c = (x + (1 << (8 * n))).to_bytes(n, "big")
    return b"\x02" + _der_len(len(c)) + c


def der_sig(r, s):
    body = der_int(r) + der_int(s)
    return b"\x30" + _der_len(len(body)) + body


def _der_read(b, tag):
    """strict DER TLV reader: (content, rest) or None"""
    if len(b) < 2 or b[0] != tag:
        return None
    l = b[1]
    off = 2
    if l & 0x80:
        k = l & 0x7f
        if k == 0 or k > 4 or len(b) < 2 + k:
            return None
        l = int.from_bytes(b[2:2 + k], "big")
        if l < 128 or b[2] == 0:
            return None
        off = 2 + k
    if len(b) < off + l:
        return None
    return b[off:off + l], b[off + l:]


def _der_read_int(b):
    t = _der_read(b, 0x02)
    if t is None:
        return None
    c, rest = t
    if len(c) == 0:
        return None
    if len(c) > 1 and ((c[0] == 0 and c[1] & 0x80 == 0) or (c[0] == 0xff and c[1] & 0x80)):
        return None
    return int.from_bytes(c, "big", signed=True), rest


def der_sig_decode(b):
    """(r, s) iff b is exactly the DER encoding of SEQUENCE{INTEGER, INTEGER}; else None"""
    b = bytes(b)
    t = _der_read(b, 0x30)
    if t is None or t[1]:
        return None
    x = _der_read_int(t[0])
    if x is None:
        return None
    y = _der_read_int(x[1])
    if y is None or y[1]:
        return None
    return x[0], y[0]


# ---------------------------------------------------------------- GM/T 0003.4 encryption
def kdf(z, klen):
    """klen in bytes"""
    out = b""
    ct = 1
    while len(out) < klen:
        out += sm3(bytes(z) + struct.pack(">I", ct))
        ct += 1
    return out[:klen]


def encrypt_with_nonce(pub, msg, k, mode):
    """mode 0: C1||C3||C2, mode 1: C1||C2||C3; None = the standard says: draw another k"""
    c1 = ec_mul(k, G)
    x2, y2 = ec_mul(k, pub)
    t = kdf(i2osp(x2) + i2osp(y2), len(msg))
    if not any(t):
        return None
    c2 = bytes(a ^ b for a, b in zip(msg, t))
    c3 = sm3(i2osp(x2) + bytes(msg) + i2osp(y2))
    head = b"\x04" + i2osp(c1[0]) + i2osp(c1[1])
    return head + (c3 + c2 if mode == 0 else c2 + c3)


def decrypt(d, c, mode):
    """plaintext or None (= error) for a raw ciphertext 04||x1||y1||... per B1-B7"""
    c = bytes(c)
    if len(c) < 1 + 64 + 32 + 1 or c[0] != 4:
        return None
    c1 = (os2ip(c[1:33]), os2ip(c[33:65]))
    if not on_curve(c1):
        return None
    body = c[65:]
    if mode == 0:
        c3, c2 = body[:32], body[32:]
    else:
        c2, c3 = body[:-32], body[-32:]
    s = ec_mul(d, c1)
    if s is None:
        return None
    x2, y2 = s
    t = kdf(i2osp(x2) + i2osp(y2), len(c2))
    if not any(t):
        return None
    m = bytes(a ^ b for a, b in zip(c2, t))
    if sm3(i2osp(x2) + m + i2osp(y2)) != c3:
        return None
    return m


def der_octets(b):
    return b"\x04" + _der_len(len(b)) + bytes(b)


def asn1_ciphertext(raw):
    """SEQUENCE{INTEGER x, INTEGER y, OCTET STRING hash, OCTET STRING c2} of a raw C1C3C2 ciphertext"""
    x, y = os2ip(raw[1:33]), os2ip(raw[33:65])
    body = der_int(x) + der_int(y) + der_octets(raw[65:97]) + der_octets(raw[97:])
    return b"\x30" + _der_len(len(body)) + body


def asn1_ciphertext_decode(b):
    """strict DER decode to the raw C1C3C2 form, or None"""
    b = bytes(b)
    t = _der_read(b, 0x30)
    if t is None or t[1]:
        return None
    x = _der_read_int(t[0])
    if x is None:
        return None
    y = _der_read_int(x[1])
    if y is None:
        return None
    h = _der_read(y[1], 0x04)
    if h is None:
        return None
    c = _der_read(h[1], 0x04)
    if c is None or c[1]:
        return None
    if not (0 <= x[0] < (1 << 256) and 0 <= y[0] < (1 << 256)) or len(h[0]) != 32:
        return None
    return b"\x04" + i2osp(x[0]) + i2osp(y[0]) + h[0] + c[0]


# ---------------------------------------------------------------- GM/T 0003.3 key exchange
W = 127


def xbar(x):
    return (1 << W) + (x & ((1 << W) - 1))


def key_exchange(initiator, klen, ida, idb, d_own, pub_own, pub_peer, r_own, R_own, R_peer):
    """returns (K, S1, S2) with S1 = Hash(02||...), S2 = Hash(03||...), or None (= failure).
    ida/idb are A's and B's identities; 'initiator' says whether the caller is A."""
    if not on_curve(R_peer):
        return None
    t = (d_own + xbar(R_own[0]) * r_own) % N
    v = ec_mul(t, ec_add(pub_peer, ec_mul(xbar(R_peer[0]), R_peer)))
    if v is None:
        return None
    pa, pb = (pub_own, pub_peer) if initiator else (pub_peer, pub_own)
    ra, rb = (R_own, R_peer) if initiator else (R_peer, R_own)
    z_a, z_b = za(pa, ida), za(pb, idb)
    if z_a is None or z_b is None:
        return None
    xv, yv = i2osp(v[0]), i2osp(v[1])
    if klen <= 0:
        return None
    k = kdf(xv + yv + z_a + z_b, klen)
    if not any(k):
        return None
    inner = sm3(xv + z_a + z_b + i2osp(ra[0]) + i2osp(ra[1]) + i2osp(rb[0]) + i2osp(rb[1]))
    return k, sm3(b"\x02" + yv + inner), sm3(b"\x03" + yv + inner)


# ---------------------------------------------------------------- helpers shared by the check modules
def unhex(s):
    return b"" if s in ("-", ".", "") else bytes.fromhex(s)


def hexs(b):
    return b.hex() if b else "-"


def zint(s):
    """integers travel as decimal-free hex with an optional sign: 'n1f' = -0x1f"""
    if s.startswith("n"):
        return -int(s[1:], 16)
    return int(s, 16)


def _selftest():
    assert sm3(b"abc").hex() == "66c7f0f462eeedd9d1f2d46bdc10e4e24167c4875cf2f7a2297da02b8f4ba8e0"
    assert sm3(b"abcd" * 16).hex() == "debe9ff92275b8a1386048 89c18e5a4d6fdb70e5387e5765293dcba39c0c5732".replace(" ", "")
    assert on_curve(G) and ec_mul(N, G) is None and ec_mul_affine(N, G) is None
    for kk in (1, 2, 3, 5, N - 1, N - 2, 2 ** 255 % N, 2 ** 128 + 1, 0x3945208F7B2144B13F36E38AC6D39F95889393692860B51A42FB81EF4DF7C5B8):
        assert ec_mul(kk, G) == ec_mul_affine(kk, G), kk
        q = ec_mul_affine(7, G)
        assert ec_mul(kk, q) == ec_mul_affine(kk, q), kk
    assert ec_mul(5, (3, 0)) == ec_mul_affine(5, (3, 0))   # order-2 point of another curve: y = 0
    # GM/T 0003.5 key exchange example
    da = 0x81EB26E941BB5AF16DF116495F90695272AE2CD63D6C4AE1678418BE48230029
    db = 0x785129917D45A9EA5437A59356B82338EAADDA6CEB199088F14AE10DEFA229B5
    ra = 0xD4DE15474DB74D06491C440D305E012400990F3E390C7E87153C12DB2EA60BB3
    rb = 0x7E07124814B309489125EAED101113164EBF0F3458C5BD88335C1F9D596243D6
    pa, pb, Ra, Rb = ec_mul(da, G), ec_mul(db, G), ec_mul(ra, G), ec_mul(rb, G)
    ka = key_exchange(True, 16, DEFAULT_ID, DEFAULT_ID, da, pa, pb, ra, Ra, Rb)
    kb = key_exchange(False, 16, DEFAULT_ID, DEFAULT_ID, db, pb, pa, rb, Rb, Ra)
    assert ka == kb and ka[0].hex().upper() == "6C89347354DE2484C60B4AB1FDE4C6E5"
    assert ka[1].hex().upper() == "D3A0FE15DEE185CEAE907A6B595CC32A266ED7B3367E9983A896DC32FA20F8EB"
    assert ka[2].hex().upper() == "18C7894B3816DF16CF07B05C5EC0BEF5D655D58F779CC1B400A4F3884644DB88"
    # GM/T 0003.5 signature example (message digest, k, r, s)
    d = 0x3945208F7B2144B13F36E38AC6D39F95889393692860B51A42FB81EF4DF7C5B8
    pub = ec_mul(d, G)
    e = msg_e(pub, DEFAULT_ID, b"message digest")
    k = 0x59276E27D506861A16680F3AD9C02DCCEF3CC1FA3CDBE4CE6D54B80DEAC1BC21
    r, s = sign_with_nonce(d, e, k)
    assert "%064X" % r == "F5A03B0648D2C4630EEAC513E1BB81A15944DA3827D5B74143AC7EACEEE720B3"
    assert "%064X" % s == "B1B6AA29DF212FD8763182BC0D421CA1BB9038FD1F7F42D4840B69C485BBC1AA"
    assert verify(pub, e, r, s)
    # GM/T 0003.5 encryption example
    d = 0x3945208F7B2144B13F36E38AC6D39F95889393692860B51A42FB81EF4DF7C5B8
    k = 0x59276E27D506861A16680F3AD9C02DCCEF3CC1FA3CDBE4CE6D54B80DEAC1BC21
    c = encrypt_with_nonce(pub, b"encryption standard", k, 0)
    assert c[65:97].hex().upper() == "59983C18F809E262923C53AEC295D30383B54E39D609D160AFCB1908D0BD8766"
    assert c[97:].hex().upper() == "21886CA989CA9C7D58087307CA93092D651EFA"
    assert decrypt(d, c, 0) == b"encryption standard"
    assert asn1_ciphertext_decode(asn1_ciphertext(c)) == c
    assert der_sig_decode(der_sig(r, s)) == (r, s)
    return True


if __name__ == "__main__":
    print("selftest", _selftest())
