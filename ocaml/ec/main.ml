(* Runner for the extracted sm2/p256.go model (Ec_model): reads C03 case lines, prints the model's
   observations.  Ec_model defines its own module Z (Coq's), so zarith's is bound first and Ec_model
   is never opened.  positive / N / Z of the extraction are all Big_int_Z.big_int = zarith Z.t. *)
module ZZ = Z
module M = Ec_model

let z_of_hex (s : string) : ZZ.t = if s = "0" || s = "" then ZZ.zero else ZZ.of_string ("0x" ^ s)
let hex_of_z (z : ZZ.t) : string = ZZ.format "%x" z

let bytes_of_hex (s : string) : ZZ.t list =
  if s = "-" || s = "." || s = "" then [] else begin
    let len = String.length s / 2 in
    let rec go i acc =
      if i < 0 then acc else go (i - 1) (ZZ.of_int (int_of_string ("0x" ^ String.sub s (2 * i) 2)) :: acc) in
    go (len - 1) []
  end

let limbs_of (s : string) : ZZ.t list = List.map z_of_hex (String.split_on_char ',' s)

let rec int_of_nat = function M.O -> 0 | M.S n -> 1 + int_of_nat n

let fe l = M.fe_of_limbs_m (limbs_of l)
let show_limbs (l : ZZ.t list) : string = match l with [] -> "-" | _ -> String.concat "," (List.map hex_of_z l)
let lm s = limbs_of s
let show_jacl ((x, y), z) = show_limbs x ^ " " ^ show_limbs y ^ " " ^ show_limbs z
(* the limb-level scalar multiplications are slower: run them on every third case *)
let limb_pipeline (id : string) = (int_of_string id) mod 3 = 0
let show_pt (x, y) = "ok " ^ hex_of_z x ^ " " ^ hex_of_z y
let show_jac ((x, y), z) = "ok " ^ hex_of_z x ^ " " ^ hex_of_z y ^ " " ^ hex_of_z z

let show_outcome (ok : 'a -> string) (o : 'a M.outcome) : string =
  match o with
  | M.Ok a -> ok a
  | M.Err _ -> "err"
  | M.Panic -> "PANIC"
  | M.Hang -> "HANG"

let handle (f : string array) : string =
  match f.(0) with
  | "PA" ->
    let (((((p, n), b), gx), gy), bs) = M.params_model in
    Printf.sprintf "ok %s %s %s %s %s %s" (hex_of_z p) (hex_of_z n) (hex_of_z b) (hex_of_z gx) (hex_of_z gy) (ZZ.to_string bs)
  (* public methods: the F_p-level model, then "L" and the same method on the limb-level pipeline *)
  | "OC" ->
    let b2s b = if b then "ok 1" else "ok 0" in
    b2s (M.isOnCurve_model (z_of_hex f.(2)) (z_of_hex f.(3))) ^ " L " ^ b2s (M.isOnCurve_limbs (z_of_hex f.(2)) (z_of_hex f.(3)))
  | "AD" -> show_pt (M.add_model (z_of_hex f.(2)) (z_of_hex f.(3)) (z_of_hex f.(4)) (z_of_hex f.(5)))
            ^ " L " ^ show_pt (M.add_limbs (z_of_hex f.(2)) (z_of_hex f.(3)) (z_of_hex f.(4)) (z_of_hex f.(5)))
  | "DB" -> show_pt (M.double_model (z_of_hex f.(2)) (z_of_hex f.(3)))
            ^ " L " ^ show_pt (M.double_limbs (z_of_hex f.(2)) (z_of_hex f.(3)))
  | "SM" -> show_outcome show_pt (M.scalarMult_model (z_of_hex f.(2)) (z_of_hex f.(3)) (bytes_of_hex f.(4)))
            ^ (if limb_pipeline f.(1) then " L " ^ show_outcome show_pt (M.scalarMult_limbs (z_of_hex f.(2)) (z_of_hex f.(3)) (bytes_of_hex f.(4))) else "")
  | "BM" -> show_outcome show_pt (M.scalarBaseMult_model (bytes_of_hex f.(2)))
            ^ (if limb_pipeline f.(1) then " L " ^ show_outcome show_pt (M.scalarBaseMult_limbs (bytes_of_hex f.(2))) else "")
  | "GK" ->
    let show = show_outcome (fun ((d, (x, y)), consumed) ->
        Printf.sprintf "ok %s %s %s %d" (hex_of_z d) (hex_of_z x) (hex_of_z y) (int_of_nat consumed)) in
    show (M.generateKey_model (bytes_of_hex f.(2)))
    ^ (if limb_pipeline f.(1) then " L " ^ show (M.generateKey_limbs (bytes_of_hex f.(2))) else "")
  (* limb functions: the value-level model AND the limb-level model (exact words) *)
  | "FM" -> "ok " ^ hex_of_z (M.mul_model (fe f.(2)) (fe f.(3))) ^ " " ^ show_limbs (M.sm2P256Mul_limbs (limbs_of f.(2)) (limbs_of f.(3)))
  | "FS" -> "ok " ^ hex_of_z (M.square_model (fe f.(2))) ^ " " ^ show_limbs (M.sm2P256Square_limbs (limbs_of f.(2)))
  | "FA" -> "ok " ^ hex_of_z (M.addFe_model (fe f.(2)) (fe f.(3))) ^ " " ^ show_limbs (M.sm2P256Add_limbs (limbs_of f.(2)) (limbs_of f.(3)))
  | "FB" -> "ok " ^ hex_of_z (M.subFe_model (fe f.(2)) (fe f.(3))) ^ " " ^ show_limbs (M.sm2P256Sub_limbs (limbs_of f.(2)) (limbs_of f.(3)))
  | "FF" -> "ok " ^ hex_of_z (M.fromBig_model (z_of_hex f.(2))) ^ " " ^ show_limbs (M.sm2P256FromBig_limbs (z_of_hex f.(2)))
  | "FT" -> "ok " ^ hex_of_z (fe f.(2)) ^ " " ^ hex_of_z (M.sm2P256ToBig_limbs (limbs_of f.(2)))
  | "FR" -> "ok " ^ hex_of_z (M.reduceDegree_model (limbs_of f.(2))) ^ " " ^ show_limbs (M.sm2P256ReduceDegree_limbs (limbs_of f.(2)))
  (* point functions: values by the F_p-level model, then "L" and the exact words by the limb-level functions *)
  | "PD" -> show_jac (M.pointDouble_model ((fe f.(2), fe f.(3)), fe f.(4)))
            ^ " L " ^ show_jacl (M.pointDouble_limbs ((lm f.(2), lm f.(3)), lm f.(4)))
  | "PM" -> show_jac (M.pointAddMixed_model ((fe f.(2), fe f.(3)), fe f.(4)) (fe f.(5)) (fe f.(6)))
            ^ " L " ^ show_jacl (M.pointAddMixed_limbs ((lm f.(2), lm f.(3)), lm f.(4)) (lm f.(5)) (lm f.(6)))
  | "PP" -> show_jac (M.pointAdd_model ((fe f.(2), fe f.(3)), fe f.(4)) ((fe f.(5), fe f.(6)), fe f.(7)))
            ^ " L " ^ show_jacl (M.pointAdd_limbs ((lm f.(2), lm f.(3)), lm f.(4)) ((lm f.(5), lm f.(6)), lm f.(7)))
  | "PS" ->
    let (j, y2) = M.pointSub_model ((fe f.(2), fe f.(3)), fe f.(4)) ((fe f.(5), fe f.(6)), fe f.(7)) in
    let (jl, y2l) = M.pointSub_limbs ((lm f.(2), lm f.(3)), lm f.(4)) ((lm f.(5), lm f.(6)), lm f.(7)) in
    show_jac j ^ " " ^ hex_of_z y2 ^ " L " ^ show_jacl jl ^ " " ^ show_limbs y2l
  | "WN" ->
    show_outcome (fun ds -> "ok " ^ (match ds with [] -> "-" | _ -> String.concat "," (List.map ZZ.to_string ds)))
      (M.sm2GenrateWNaf_model (bytes_of_hex f.(2)))
  | "TB" -> "SKIP"
  | _ -> "BADCASE"

let () =
  let ic = open_in Sys.argv.(1) in
  (try
    while true do
      let line = String.trim (input_line ic) in
      if line <> "" then begin
        let fields = Array.of_list (String.split_on_char ' ' line) in
        let r = try handle fields with e -> "RUNNER-EXCEPTION " ^ Printexc.to_string e in
        print_string fields.(1); print_char ' '; print_endline r
      end
    done
  with End_of_file -> ());
  close_in ic
