(* Runner for the extracted x509 models: reads C10 (V,H,N,M,L,K) and C09 (T) case lines, prints
   model observations. *)
open X509_model
open Conv

let z_of_int (i : int) : z =
  if i = 0 then Z0 else if i > 0 then Zpos (pos_of_int i) else Zneg (pos_of_int (- i))

let split_on (c : char) (s : string) : string list =
  if s = "-" || s = "" then [] else String.split_on_char c s

let hexlist (s : string) : n list list = List.map bytes_of_hex (split_on ',' s)
let zlist (s : string) : z list = List.map (fun x -> z_of_int (int_of_string x)) (split_on ',' s)
let b (s : string) : bool = s = "1"

let cert_of (s : string) : cert =
  match String.split_on_char '/' s with
  | [idx; v3; subj; iss; ski; aki; nb; na; bcv; isca; mpl; ku; perm; dns; ips; cn; eku; unk; crit; ent] ->
    { c_id = nat_of_int (int_of_string idx); c_v3 = b v3; c_subject = bytes_of_hex subj;
      c_issuer = bytes_of_hex iss; c_ski = bytes_of_hex ski; c_aki = bytes_of_hex aki;
      c_notbefore = z_of_int (int_of_string nb); c_notafter = z_of_int (int_of_string na);
      c_bcvalid = b bcv; c_isca = b isca; c_maxpathlen = z_of_int (int_of_string mpl);
      c_keyusage = n_of_int (int_of_string ku); c_permitted = hexlist perm; c_dnsnames = hexlist dns;
      c_ips = hexlist ips; c_cn = bytes_of_hex cn; c_eku = zlist eku; c_unknown_eku = b unk;
      c_unhandled_critical = b crit; c_entrust_spki = b ent }
  | _ -> failwith "bad cert record"

(* net.ParseIP by contract: the driver supplies the answers for the two strings the model can ask about *)
let parse_ip_of (host : n list) (pip1 : string) (pip2 : string) : n list -> n list option =
  let inner = match host with
    | _ :: t -> (match List.rev t with _ :: m -> Some (List.rev m) | [] -> None)
    | [] -> None in
  fun s ->
    if (match inner with Some i -> List.length host >= 3 && s = i && s <> host | None -> false)
    then (if pip2 = "-" then None else Some (bytes_of_hex pip2))
    else if s = host then (if pip1 = "-" then None else Some (bytes_of_hex pip1))
    else None

let no_rune_error (_ : n list) = false

let chain_str (ch : cert list) : string =
  String.concat "." (List.map (fun c -> string_of_int (int_of_nat c.c_id)) ch)

let handle (f : string array) : string =
  match f.(0) with
  | "V" ->
    let certs = Array.of_list (List.map cert_of (String.split_on_char ';' f.(2))) in
    let rows = Array.of_list (String.split_on_char ',' f.(3)) in
    let sig_ok (c : cert) (p : cert) : bool =
      let i = int_of_nat c.c_id and j = int_of_nat p.c_id in
      i < Array.length rows && j < String.length rows.(i) && rows.(i).[j] = '1' in
    let leaf = certs.(int_of_string f.(4)) in
    let pool s = List.fold_left (fun acc i -> addCert_model acc certs.(int_of_string i)) [] (split_on ',' s) in
    let roots = pool f.(5) and inters = pool f.(6) in
    let host = bytes_of_hex f.(8) in
    let opts = { o_dnsname = host; o_now = z_of_int (int_of_string f.(7)); o_keyusages = zlist f.(11) } in
    let pip = parse_ip_of host f.(9) f.(10) in
    let fuel = nat_of_int (List.length inters + 1) in
    (match verify_model sig_ok pip no_rune_error roots inters opts fuel leaf with
     | Ok chains ->
       let l = List.sort compare (List.map chain_str chains) in
       "ok " ^ (match l with [] -> "-" | _ -> String.concat "," l)
     | Err e ->
       let sc = int_of_nat (sigchecks_used sig_ok roots inters opts fuel leaf) in
       Printf.sprintf "err %d sc=%d" (int_of_nat e) sc
     | Panic -> "PANIC" | Hang -> "HANG")
  | "H" ->
    let c = cert_of f.(2) in
    let host = bytes_of_hex f.(3) in
    let pip = parse_ip_of host f.(4) f.(5) in
    if verifyHostname_model pip no_rune_error c host then "ok 1" else "ok 0"
  | "N" -> if matchNameConstraint_model (bytes_of_hex f.(2)) (bytes_of_hex f.(3)) then "ok 1" else "ok 0"
  | "M" -> if matchHostnames_model (bytes_of_hex f.(2)) (bytes_of_hex f.(3)) then "ok 1" else "ok 0"
  | "L" -> "ok " ^ hex_of_bytes (toLowerCaseASCII_model no_rune_error (bytes_of_hex f.(2)))
  | "K" ->
    let mk i s =
      match String.split_on_char '|' s with
      | [eku; unk] ->
        { c_id = nat_of_int i; c_v3 = true; c_subject = []; c_issuer = []; c_ski = []; c_aki = [];
          c_notbefore = Z0; c_notafter = Z0; c_bcvalid = false; c_isca = false; c_maxpathlen = Z0;
          c_keyusage = N0; c_permitted = []; c_dnsnames = []; c_ips = []; c_cn = [];
          c_eku = zlist eku; c_unknown_eku = b unk; c_unhandled_critical = false; c_entrust_spki = false }
      | _ -> failwith "bad K cert" in
    let chain = List.mapi mk (split_on ';' f.(2)) in
    if checkChainForKeyUsage_model chain (zlist f.(3)) then "ok 1" else "ok 0"
  | "P" | "Q" -> "SKIP"   (* C09 loaded signers / parsed parents: implementation-only cases judged by the check module's own EC and DER code *)
  | "Y" -> "SKIP"   (* C09 histories: an implementation-only case (verification at every point of a history of keys) *)
  | "T" ->
    (* C09: T id kind signer algo tseed mut -> ok <created> <verifies under the issuer> *)
    let k = (match f.(2) with "cert" -> 0 | "csr" -> 1 | "crl" -> 2 | "rl" -> 3 | _ -> failwith "bad kind") in
    let s = (match f.(3) with "sm2" -> 0 | "rsa" -> 1 | "p256" -> 2 | _ -> failwith "bad signer") in
    let a = int_of_string f.(4) in
    (* SignatureAlgorithm is an int; the model's algorithms are N: a negative value is in no table *)
    if a < 0 then "ok 0 -" else
    (match int_of_n (c09_lookup (n_of_int k) (n_of_int s) (n_of_int a)) with
     | 2 -> "ok 1 1"
     | 1 -> "ok 1 0"
     | _ -> "ok 0 -")
  | "E" ->
    (* C09 extension codecs: E id kind args -> ok <value> <fields parsed back> | err create | err parse | PANIC *)
    let hl (l : n list list) : string =
      match l with [] -> "-" | _ -> String.concat "," (List.map (fun x -> match x with [] -> "." | _ -> hex_of_bytes x) l) in
    let oids_of (s : string) : n list list =
      List.map (fun o -> List.map (fun a -> n_of_int (int_of_string a)) (String.split_on_char '.' o)) (split_on ',' s) in
    let oids_str (l : n list list) : string =
      match l with [] -> "-"
      | _ -> String.concat "," (List.map (fun o -> String.concat "." (List.map (fun a -> string_of_int (int_of_n a)) o)) l) in
    let ints_str (l : n list) : string =
      match l with [] -> "-" | _ -> String.concat "," (List.map (fun a -> string_of_int (int_of_n a)) l) in
    let finish (built : n list outcome) (parse : n list -> string outcome) : string =
      match built with
      | Panic -> "PANIC" | Hang -> "HANG" | Err _ -> "err create"
      | Ok v -> (match parse v with
                 | Ok s -> "ok " ^ hex_of_bytes v ^ " " ^ s
                 | Err _ -> "err parse" | Panic -> "PANIC" | Hang -> "HANG") in
    let omap f o = match o with Ok x -> Ok (f x) | Err e -> Err e | Panic -> Panic | Hang -> Hang in
    let elem_of (h : string) : n * n list =
      match read_tlv (bytes_of_hex h) with
      | Some ((id, c), _) -> (id, c)
      | None -> failwith "bad element" in
    let z_of_dec (s : string) : z =
      (* decimal string of any size -> Z, by Horner on binary Z *)
      let neg = String.length s > 0 && s.[0] = '-' in
      let digits = if neg then String.sub s 1 (String.length s - 1) else s in
      let ten = z_of_int 10 in
      let v = ref Z0 in
      String.iter (fun ch -> v := Z.add (Z.mul !v ten) (z_of_int (Char.code ch - 48))) digits;
      if neg then Z.opp !v else !v in
    let exts_of (s : string) : crl_ext list =
      List.map (fun e -> match String.split_on_char '!' e with
        | [o; c; v] -> { x_id = List.hd (oids_of o); x_crit = (c = "1"); x_val = bytes_of_hex v }
        | _ -> failwith "bad ext") (split_on '+' s) in
    (match f.(2) with
     | "tbsc" ->
       let nl s = List.map (fun x -> n_of_int (int_of_string x)) (split_on ',' s) in
       let bc = Array.of_list (String.split_on_char ',' f.(14)) in
       let fields = { f_keyusage = n_of_int (int_of_string f.(11)); f_ekus = nl f.(12); f_unknown_ekus = oids_of f.(13);
                      f_bcvalid = (bc.(0) = "1"); f_isca = (bc.(1) = "1"); f_maxpathlen = z_of_int (int_of_string bc.(2));
                      f_maxpathlenzero = (bc.(3) = "1"); f_ski = bytes_of_hex f.(15); f_aki = bytes_of_hex f.(16);
                      f_dns = hexlist f.(17); f_emails = hexlist f.(18); f_ips = hexlist f.(19); f_policies = oids_of f.(20);
                      f_permitted = hexlist f.(22); f_permitted_critical = (f.(21) = "1") } in
       (match build_tbs_cert_run (z_of_dec f.(3)) (elem_of f.(4)) (elem_of f.(5)) (elem_of f.(6)) (elem_of f.(7)) (elem_of f.(8))
                (os2ip (bytes_of_hex f.(9))) (os2ip (bytes_of_hex f.(10))) fields with
        | Ok v -> "ok " ^ hex_of_bytes v
        | Err _ -> "err create" | Panic -> "PANIC" | Hang -> "HANG")
     | "tbs" ->
       let rl = (f.(3) = "rl") in
       let ski = bytes_of_hex f.(8) in
       let entries = List.map (fun e -> match String.split_on_char ';' e with
         | [ser; tm; xs] -> { en_serial = z_of_dec ser; en_time = elem_of tm; en_exts = exts_of xs }
         | _ -> failwith "bad entry") (split_on ',' f.(10)) in
       let exts = if rl then revocation_list_exts ski (z_of_dec f.(9)) (exts_of f.(11)) else create_crl_exts ski in
       let t = { t_alg = elem_of f.(4); t_issuer = elem_of f.(5); t_this = elem_of f.(6);
                 t_next = (if f.(7) = "-" then None else Some (elem_of f.(7))); t_entries = entries; t_exts = exts } in
       let v = build_tbs_raw (not rl) t in
       (match parse_tbs_raw v with
        | Ok t' when t' = t -> "ok " ^ hex_of_bytes v
        | _ -> "ok " ^ hex_of_bytes v ^ " MODEL-ROUNDTRIP-FAILS")
     | "san" ->
       finish (Ok (marshalSANs_model (hexlist f.(3)) (hexlist f.(4)) (hexlist f.(5))))
         (fun v -> omap (fun ((d, e), i) -> hl d ^ " " ^ hl e ^ " " ^ hl i) (parseSANExtension_model v))
     | "eku" ->
       finish (build_eku (List.map (fun x -> n_of_int (int_of_string x)) (split_on ',' f.(3))) (oids_of f.(4)))
         (fun v -> omap (fun (k, u) -> ints_str k ^ " " ^ oids_str u) (parse_eku v))
     | "pol" -> finish (build_policies (oids_of f.(3))) (fun v -> omap oids_str (parse_policies v))
     | "nc" ->
       finish (build_name_constraints (hexlist f.(4)))
         (fun v -> omap (fun (d, c) -> (if c then "1" else "0") ^ " " ^ hl d) (parse_name_constraints (b f.(3)) v))
     | "ncx" ->
       finish (Ok (bytes_of_hex f.(4)))
         (fun v -> omap (fun (d, c) -> (if c then "1" else "0") ^ " " ^ hl d) (parse_name_constraints (b f.(3)) v))
     | "ski" -> finish (Ok (build_ski (bytes_of_hex f.(3)))) (fun v -> omap hex_of_bytes (parse_ski v))
     | "aki" -> finish (Ok (build_aki (bytes_of_hex f.(3)))) (fun v -> omap hex_of_bytes (parse_aki v))
     | _ -> "BADCASE")
  | _ -> "BADCASE"

let () = run_file Sys.argv.(1) handle
