(* Runner for the extracted SM3 specification and model: reads C04 case lines, prints observations.

   Case lines (see harness/cmd/c04/main.go for the encoding):
     I id -                        Size / BlockSize
     H id ops                      history on sm3.New(): ops = W:<hex> | S:<kind>:<hex> | R, comma separated
     N id key ops                  history on hmac.New(sm3.New, key)
     L id seed n                   one-shot digest of the first n bytes of stream(seed): spec and model
     G id seed lo hi               digests of all prefixes of length lo..hi-1 (model, incremental)
     P id chunks                   New, Write each chunk, Sum(nil)
     T id seed total chunk         total bytes of stream(seed) written in chunks of the given size
     M id key msg                  HMAC-SM3 (spec; model too)
     K id pw salt iter dklen       PBKDF2-HMAC-SM3 (spec; model too when iter <= 2)
     X id digest len tail p        white box: internal state set, then Write(p), Sum(nil)
     A id ops                      white box: history with the overlap flag after every Write
     B id -                        marshalable flag of the hash (false for sm3)
     F id secret label seed n      gmtls prf12(sm3.New): the op-level model prf12_sm3_ops
     C id key recs                 gmtls macSM3 / tls10MAC.MAC on one object: tls10MAC_run *)
open Sm3_model
open Conv

(* one shared value per byte, so a byte string costs one cons cell per byte *)
let btab : n array = Array.init 256 n_of_int
let bytes_of_hex (s : string) : n list =
  if s = "-" || s = "." || s = "" then [] else begin
    let len = String.length s / 2 in
    let rec go i acc =
      if i < 0 then acc else go (i - 1) (btab.(int_of_string ("0x" ^ String.sub s (2 * i) 2)) :: acc) in
    go (len - 1) []
  end

(* the byte stream shared with the Go driver and the Python predicate *)
let lcg_next (x : int) : int = (x * 1664525 + 1013904223) land 0xFFFFFFFF
let lcg_init (seed : int) : int = (seed * 2654435761 + 12345) land 0xFFFFFFFF
(* n bytes from state x; returns (bytes, new state) *)
let stream_take (x : int) (n : int) : n list * int =
  let a = Bytes.create n in
  let st = ref x in
  for i = 0 to n - 1 do
    st := lcg_next !st;
    Bytes.unsafe_set a i (Char.unsafe_chr ((!st lsr 24) land 0xff))
  done;
  let rec go i acc = if i < 0 then acc else go (i - 1) (btab.(Char.code (Bytes.unsafe_get a i)) :: acc) in
  (go (n - 1) [], !st)

let hexn (l : n list) : string =
  let b = Buffer.create 64 in
  List.iter (fun x -> Buffer.add_string b (Printf.sprintf "%02x" (int_of_n x land 0xff))) l;
  Buffer.contents b

(* hex text of an N that may exceed 63 bits *)
let hex_of_n (x : n) : string =
  let rec bits p = match p with XH -> [1] | XO q -> 0 :: bits q | XI q -> 1 :: bits q in
  match x with
  | N0 -> "0"
  | Npos p ->
    let bl = Array.of_list (bits p) in
    let nb = Array.length bl in
    let nd = (nb + 3) / 4 in
    let s = Bytes.make nd '0' in
    for d = 0 to nd - 1 do
      let v = ref 0 in
      for k = 3 downto 0 do
        let i = 4 * d + k in
        v := 2 * !v + (if i < nb then bl.(i) else 0)
      done;
      Bytes.set s (nd - 1 - d) "0123456789abcdef".[!v]
    done;
    Bytes.to_string s

let n_of_hexnum (s : string) : n =
  (* big-endian hex text of any length -> N *)
  let acc = ref N0 in
  String.iter (fun c ->
    let d = int_of_string ("0x" ^ String.make 1 c) in
    let a4 = (match !acc with N0 -> N0 | Npos p -> Npos (XO (XO (XO (XO p))))) in
    acc := N.add a4 (n_of_int d)) s;
  !acc

let parse_ops (s : string) : op list =
  List.map (fun f ->
    match String.split_on_char ':' f with
    | ["R"] -> OpReset
    | ["W"; h] -> OpWrite (bytes_of_hex h)
    | ["S"; _; h] -> OpSum (bytes_of_hex h)
    | _ -> failwith "bad op") (split_list s)

let show_out (o : out) : string =
  match o with
  | OutWrite n -> "w" ^ string_of_int (int_of_n n)
  | OutSum (Ok b) -> "s" ^ hexn b ^ "/1"
  | OutSum (Err _) -> "serr"
  | OutSum Panic -> "PANIC"
  | OutSum Hang -> "HANG"
  | OutReset -> "r"

let show_bytes (o : n list outcome) : string =
  match o with
  | Ok b -> "ok " ^ hexn b
  | Err _ -> "err"
  | Panic -> "PANIC"
  | Hang -> "HANG"

(* a history on any hash.Hash-like state machine: kind p = the previous Sum result as prefix; kind g<k> = prefix with
   k spare bytes: the heap-level model (C04_Sum_writes_only_spare_capacity) writes in place iff k >= Size *)
let run_history (stepf : 'st -> op -> 'st * out) (s0 : 'st) (ops : string) : string list =
  let rec go s last l acc =
    match l with
    | [] -> List.rev acc
    | o :: r ->
      (match String.split_on_char ':' o with
       | ["R"] -> let (s', out) = stepf s OpReset in go s' last r (show_out out :: acc)
       | ["W"; h] -> let (s', out) = stepf s (OpWrite (bytes_of_hex h)) in go s' last r (show_out out :: acc)
       | ["S"; kind; h] ->
         let pre = if kind = "p" then last else bytes_of_hex h in
         let (s', out) = stepf s (OpSum pre) in
         let last' = (match out with OutSum (Ok b) -> b | _ -> last) in
         let extra =
           if String.length kind > 1 && kind.[0] = 'g' then
             (if int_of_string (String.sub kind 1 (String.length kind - 1)) >= int_of_nat size then "/w1" else "/w0")
           else "" in
         go s' last' r ((show_out out ^ extra) :: acc)
       | _ -> failwith "bad op") in
  go s0 [] (split_list ops) []

let crash (outs : string list) : string option =
  if List.mem "PANIC" outs then Some "PANIC" else if List.mem "HANG" outs then Some "HANG" else None

let digest_of (s : sM3) : string =
  match sum s [] with Ok b -> hexn b | Err _ -> "err" | Panic -> "PANIC" | Hang -> "HANG"

let hexlist_of_shared (s : string) : n list list = List.map bytes_of_hex (split_list s)

let pat_len = 251
let max_model_stream = 4 * 1024 * 1024

let handle (f : string array) : string =
  match f.(0) with
  | "I" -> Printf.sprintf "ok %d %d" (int_of_nat size) (int_of_nat blockSize)
  | "B" -> if sm3_marshalable then "ok 1 1" else "ok 0 0"
  | "F" ->
    let n = int_of_string f.(5) in
    (match prf12_sm3_ops (nat_of_int n) (nat_of_int n) (bytes_of_hex f.(2)) (bytes_of_hex f.(3)) (bytes_of_hex f.(4)) with
     | Ok b -> "ok " ^ (if b = [] then "-" else hexn b)
     | Err _ -> "err" | Panic -> "PANIC" | Hang -> "HANG")
  | "C" ->
    (match macSM3 (bytes_of_hex f.(2)) with
     | Ok h ->
       let recs = List.map (fun r ->
         match String.split_on_char ':' r with
         | [sq; hd; dt; ex] ->
           (((bytes_of_hex sq, bytes_of_hex hd), bytes_of_hex dt), (if ex = "~" then None else Some (bytes_of_hex ex)))
         | _ -> failwith "bad record") (split_list f.(3)) in
       let outs = List.map (fun o -> match o with Ok b -> hexn b | Err _ -> "err" | Panic -> "PANIC" | Hang -> "HANG")
                    (tls10MAC_run h recs) in
       (match crash outs with Some c -> c | None -> "ok " ^ String.concat "," outs)
     | Err _ -> "err" | Panic -> "PANIC" | Hang -> "HANG")
  | "U" ->
    (* several live objects: each slot holds its own model state (sm3.New and x509.SM3.New give a fresh object) *)
    let tbl : (int, sM3) Hashtbl.t = Hashtbl.create 4 in
    let outs = List.map (fun o ->
      match String.split_on_char ':' o with
      | hd :: rest ->
        let c = hd.[0] and i = int_of_string (String.sub hd 1 (String.length hd - 1)) in
        if c = 'N' then (Hashtbl.replace tbl i init; "n") else begin
          let s = Hashtbl.find tbl i in
          let opv = (match c, rest with
            | 'W', [h] -> OpWrite (bytes_of_hex h)
            | 'S', [_; h] -> OpSum (bytes_of_hex h)
            | 'R', [] -> OpReset
            | _ -> failwith "bad op") in
          let (s', out) = step s opv in
          Hashtbl.replace tbl i s'; show_out out
        end
      | [] -> failwith "bad op") (split_list f.(2)) in
    (match crash outs with Some c -> c | None -> "ok " ^ String.concat "," outs)
  | "V" ->
    (match hmac_oneshot (bytes_of_hex f.(2)) (bytes_of_hex f.(3)) with
     | Ok b -> "ok " ^ hexn b | Err _ -> "err" | Panic -> "PANIC" | Hang -> "HANG")
  | "Q" ->
    (match pbkdf2_Key (bytes_of_hex f.(2)) (bytes_of_hex f.(3)) (nat_of_int (int_of_string f.(4))) (nat_of_int (int_of_string f.(5))) with
     | Ok b -> "ok " ^ (if b = [] then "-" else hexn b) | Err _ -> "err" | Panic -> "PANIC" | Hang -> "HANG")
  | "H" ->
    let outs = run_history step init f.(2) in
    (match crash outs with Some c -> c | None -> "ok " ^ String.concat "," outs)
  | "A" ->
    (* white box: the same history; the heap-level model (theorem C04_Write_never_keeps_or_writes_callers_array)
       says the object's buffer never overlaps the caller's: flag 0 after every Write *)
    let rec go s ops acc =
      match ops with
      | [] -> List.rev acc
      | o :: r ->
        let (s', out) = step s o in
        let t = (match out with OutWrite _ -> show_out out ^ "/0" | _ -> show_out out) in
        go s' r (t :: acc) in
    let outs = go init (parse_ops f.(2)) [] in
    (match crash outs with Some c -> c | None -> "ok " ^ String.concat "," outs)
  | "N" ->
    (match hmac_New (bytes_of_hex f.(2)) with
     | Ok h ->
       let outs = run_history hmac_step h f.(3) in
       (match crash outs with Some c -> c | None -> "ok " ^ String.concat "," outs)
     | Err _ -> "err" | Panic -> "PANIC" | Hang -> "HANG")
  | "L" ->
    let seed = int_of_string f.(2) and n = int_of_string f.(3) in
    let (m, _) = stream_take (lcg_init seed) n in
    let spec = hexn (sm3 m) in
    let fast = hexn (sm3_fast m) in
    if fast <> spec then "FAST-SPEC-DIFF " ^ spec ^ " " ^ fast
    else if n > 1024 then "ok " ^ spec ^ " " ^ spec   (* the model is run on every length by the G cases *)
    else
    (match sm3Sum m with
     | Ok b -> let d = hexn b in
       if d = spec then "ok " ^ d ^ " " ^ d else "MODEL-SPEC-DIFF " ^ spec ^ " " ^ d
     | Err _ -> "err" | Panic -> "PANIC" | Hang -> "HANG")
  | "G" ->
    let seed = int_of_string f.(2) and lo = int_of_string f.(3) and hi = int_of_string f.(4) in
    let (m, x) = stream_take (lcg_init seed) lo in
    let s = ref (fst (write init m)) in
    let x = ref x in
    let outs = ref [] in
    for _ = lo to hi - 1 do
      outs := digest_of !s :: !outs;
      let (b, x') = stream_take !x 1 in
      x := x';
      s := fst (write !s b)
    done;
    "ok " ^ String.concat "," (List.rev !outs)
  | "P" ->
    let s = List.fold_left (fun s c -> fst (write s c)) init (hexlist_of_shared f.(2)) in
    "ok " ^ digest_of s
  | "T" ->
    let seed = int_of_string f.(2) and total = int_of_string f.(3) and chunk = int_of_string f.(4) in
    if total > max_model_stream then "SKIP" else begin
      let pat = Array.of_list (fst (stream_take (lcg_init seed) pat_len)) in
      let s = ref init and pos = ref 0 in
      while !pos < total do
        let k = min chunk (total - !pos) in
        let rec go i acc = if i < 0 then acc else go (i - 1) (pat.((!pos + i) mod pat_len) :: acc) in
        s := fst (write !s (go (k - 1) []));
        pos := !pos + k
      done;
      "ok " ^ digest_of !s
    end
  | "M" ->
    let key = bytes_of_hex f.(2) and msg = bytes_of_hex f.(3) in
    let spec = hexn (hmac_sm3 key msg) in
    if hexn (hmac_sm3_fast key msg) <> spec then "FAST-SPEC-DIFF " ^ spec else
    (match hmac_oneshot key msg with
     | Ok b -> if hexn b = spec then "ok " ^ spec else "MODEL-SPEC-DIFF " ^ spec ^ " " ^ hexn b
     | Err _ -> "err" | Panic -> "PANIC" | Hang -> "HANG")
  | "K" ->
    let pw = bytes_of_hex f.(2) and salt = bytes_of_hex f.(3) in
    let iter = int_of_string f.(4) and dklen = int_of_string f.(5) in
    let spec = hexn (pbkdf2_hmac_sm3 pw salt (nat_of_int iter) (nat_of_int dklen)) in
    if iter > 2 then "ok " ^ (if spec = "" then "-" else spec)
    else (match pbkdf2_Key pw salt (nat_of_int iter) (nat_of_int dklen) with
     | Ok b -> if hexn b = spec then "ok " ^ (if spec = "" then "-" else spec) else "MODEL-SPEC-DIFF " ^ spec ^ " " ^ hexn b
     | Err _ -> "err" | Panic -> "PANIC" | Hang -> "HANG")
  | "X" ->
    let dg = List.map n_of_hexnum (split_list f.(2)) in
    let len = n_of_hexnum f.(3) in
    let s0 = { s_digest = dg; s_length = len; s_unhandleMsg = bytes_of_hex f.(4) } in
    let s1 = fst (write s0 (bytes_of_hex f.(5))) in
    (match sum s1 [] with
     | Ok b -> "ok " ^ hexn b ^ " " ^ hex_of_n s1.s_length ^ " " ^ (match s1.s_unhandleMsg with [] -> "-" | t -> hexn t)
     | Err _ -> "err" | Panic -> "PANIC" | Hang -> "HANG")
  | _ -> "BADCASE"


let () = run_file Sys.argv.(1) handle
