(* Runner for the extracted record-layer model: reads C07 case lines (white box: c07w, black box: c07),
   prints the model's observation per line.  The primitives are the extracted specifications:
   SM4 (SM4Spec), HMAC-SM3 (HMACSpec), GCM (GcmRef).  A "key" of the block cipher / AEAD is the
   list of expanded round keys. *)
open Rec_model
open Conv

let prims : prims =
  { p_bs = nat_of_int 16;
    p_enc = sm4_encrypt_rk;
    p_dec = sm4_decrypt_rk;
    p_macSize = nat_of_int 32;
    p_mac = hmac_sm3;
    p_overhead = nat_of_int 16;
    p_seal = (fun rk nonce ad pt -> gcm_seal (sm4_encrypt_rk rk) nonce ad pt);
    p_open = (fun rk nonce ad ct -> gcm_open (sm4_encrypt_rk rk) nonce ad ct) }

let version_gmssl = n_of_int 0x0101

let mk_hc suite key mackey iv seq : halfConn =
  let rk = sm4_round_keys (bytes_of_hex key) in
  match suite with
  | "cbc" -> { hc_err = false; hc_version = version_gmssl; hc_cipher = CipherCBC (rk, bytes_of_hex iv);
               hc_mac = Some (bytes_of_hex mackey); hc_seq = bytes_of_hex seq }
  | "gcm" -> { hc_err = false; hc_version = version_gmssl; hc_cipher = CipherAEAD (rk, bytes_of_hex iv);
               hc_mac = None; hc_seq = bytes_of_hex seq }
  | _ -> failwith "suite"

(* ---------- black box: the model replays the same writes and the same script with its own keys ----------
   S id suite dir pre writes script bufs.  Sender and receiver models start where the handshake leaves the
   record layer: sequence number 1 (Finished used 0), packetsSent 0, bytesSent below the 128 KiB boost
   threshold (the generator keeps the traffic of a case below it).  The record sizes, the number of bytes
   delivered and the final error flag do not depend on the key material. *)
let pseudo (seed : int) (len : int) : n list =
  let st = ref (seed * 2654435761 + 12345) in
  List.init len (fun _ -> st := (!st * 1103515245 + 12345) land 0x3fffffff; n_of_int ((!st lsr 12) land 255))

let hc_for suite (tag : int) seq : halfConn =
  let key = sm4_round_keys (pseudo (tag * 7 + 1) 16) in
  match suite with
  | "cbc" -> { hc_err = false; hc_version = version_gmssl; hc_cipher = CipherCBC (key, pseudo (tag * 7 + 2) 16);
               hc_mac = Some (pseudo (tag * 7 + 3) 32); hc_seq = seq }
  | _ -> { hc_err = false; hc_version = version_gmssl; hc_cipher = CipherAEAD (key, pseudo (tag * 7 + 4) 4);
           hc_mac = None; hc_seq = seq }

let seq_one = List.map n_of_int [0; 0; 0; 0; 0; 0; 0; 1]

let send suite (tag : int) (writes : n list list) : n list list =
  let total = List.fold_left (fun a w -> a + List.length w) 0 writes in
  let nrec_bound = total / 1100 + 3 * List.length writes + 4 in
  let c = { o_hc = hc_for suite tag seq_one; o_vers = version_gmssl; o_bytesSent = n_of_int 2500;
            o_packetsSent = n_of_int 0; o_dynDisabled = false; o_rand = pseudo (tag + 99) (16 * nrec_bound);
            o_closeNotifySent = false } in
  match write_calls prims (nat_of_int (nrec_bound + 8)) c writes with
  | Ok ((_, recs), false) -> recs
  | _ -> failwith "model sender failed"

let handle_s (f : string array) : string =
  let id = int_of_string f.(1) in
  let suite = f.(2) in
  let pre = int_of_string f.(4) in
  let writes = ints_of f.(5) in
  let script = split_list f.(6) in
  let salt = id mod 251 in
  let off = ref 0 in
  let wbytes = List.map (fun w ->
      let l = List.init w (fun j -> let i = !off + j in n_of_int ((i * 131 + (i lsr 8) + salt) land 255)) in
      off := !off + w; l) writes in
  let g = send suite 1 wbytes in
  let n = List.length g in
  let garr = Array.of_list g in
  let other = lazy (send suite 2 [List.init pre (fun i -> n_of_int ((i * 7 + 3) land 255))]) in
  let foreign = lazy (send suite 3 wbytes) in
  let used_o = ref false and used_c = ref false in
  let num s = int_of_string s in
  let parts t k = String.split_on_char '.' (String.sub t k (String.length t - k)) in
  let acts = List.concat_map (fun t ->
      let c0 = t.[0] in
      if c0 = 'i' then [Inject (bytes_of_hex (String.sub t 1 (String.length t - 1)))]
      else if c0 = 'o' then begin
        used_o := true;
        let o = Lazy.force other in
        if o = [] then [] else [ReplayOther (nat_of_int (num (String.sub t 1 (String.length t - 1)) mod List.length o))]
      end else if n = 0 then []
      else if c0 = 'c' then begin
        used_c := true;
        let c = Lazy.force foreign in
        if c = [] then [] else [ReplayForeign (nat_of_int (num (String.sub t 1 (String.length t - 1)) mod List.length c))]
      end else begin
        let k0 = if c0 = 'h' then 2 else 1 in
        let ps = parts t k0 in
        let j = num (List.hd ps) mod n in
        let len = List.length garr.(j) in
        let nj = nat_of_int j in
        match c0, ps with
        | 'g', _ -> [Deliver nj]
        | 'f', [_; pos; bit] -> [FlipBit (nj, nat_of_int (num pos mod len), n_of_int (num bit))]
        | 't', [_; k] -> [Truncate (nj, nat_of_int (min (num k) (len - 5)), false)]
        | 'T', [_; k] -> [Truncate (nj, nat_of_int (min (num k) (len - 5)), true)]
        | 'x', [_; k] -> [Extend (nj, List.init (num k) (fun m -> n_of_int ((37 * m + 11) land 255)), false)]
        | 'X', [_; k] ->
          let k = min (num k) (65535 - (len - 5)) in
          [Extend (nj, List.init (max k 0) (fun m -> n_of_int ((37 * m + 11) land 255)), true)]
        | 'h', [_; v] ->
          (match t.[1] with
           | 't' -> [SetType (nj, n_of_int (num v))]
           | 'v' -> [SetVersion (nj, n_of_int (num v))]
           | _ -> [SetLength (nj, n_of_int (num v))])
        | _ -> failwith ("bad emit " ^ t)
      end) script in
  let o = if !used_o then Lazy.force other else [] in
  let c = if !used_c then Lazy.force foreign else [] in
  let wire = apply_script g o c acts in
  let cin = { i_hc = hc_for suite 1 seq_one; i_vers = version_gmssl; i_raw = wire; i_input = None;
              i_warnCount = nat_of_int 0; i_alerts = nat_of_int 0; i_trace = [] } in
  let rounds = nat_of_int (List.length wire / 5 + 4) in
  let bufs = ints_of f.(7) in
  let total_plain = List.fold_left (+) 0 writes in
  let minb = List.fold_left min max_int bufs in
  let show out err c' =
    Printf.sprintf "ok %d %s %d %d %d" n
      (if g = [] then "-" else String.concat "," (List.map (fun r -> string_of_int (List.length r)) g))
      (List.length out) (if err then 1 else 0) (if int_of_nat c'.i_alerts > 0 then 1 else 0) in
  if bufs <> [] && total_plain / minb <= 3000 then begin
    (* the application calling Conn.Read with the given buffer sizes, cyclically, until the first error *)
    let nb = List.length bufs in
    let ncalls = total_plain / minb + 2 * List.length g + 8 in
    let barr = Array.of_list bufs in
    let bl = List.init ncalls (fun i -> nat_of_int barr.(i mod nb)) in
    match read_calls prims rounds cin bl with
    | Ok ((out, err), c') -> show out err c'
    | Panic -> "PANIC" | Hang -> "HANG" | Err _ -> "err"
  end else
    (* read-until-error at the level of readRecord (very small buffers on large records) *)
    match recv_all prims rounds rounds cin with
    | Ok (out, c') -> show out c'.i_hc.hc_err c'
    | Panic -> "PANIC" | Hang -> "HANG" | Err _ -> "err"

let handle (f : string array) : string =
  match f.(0) with
  | "P" ->
    let (n, g) = extractPadding (bytes_of_hex f.(2)) in
    Printf.sprintf "ok %d %d" (int_of_nat n) (int_of_n g)
  | "U" when int_of_string f.(2) > 1000000 -> "SKIP"   (* lengths are unary nat in the model *)
  | "U" ->
    Printf.sprintf "ok %d" (int_of_nat (roundUp (nat_of_int (int_of_string f.(2))) (nat_of_int (int_of_string f.(3)))))
  | "B" ->
    let (p, fin) = padToBlockSize (bytes_of_hex f.(2)) (nat_of_int (int_of_string f.(3))) in
    "ok " ^ hex_of_bytes p ^ " " ^ hex_of_bytes fin
  | "Q" ->
    let hc = { hc_err = false; hc_version = version_gmssl; hc_cipher = CipherNone; hc_mac = None;
               hc_seq = bytes_of_hex f.(2) } in
    (match incSeq hc with
     | Ok hc' -> "ok " ^ hex_of_bytes hc'.hc_seq
     | Panic -> "PANIC" | Hang -> "HANG" | Err _ -> "err")
  | "E" ->
    (* E id suite key mackey iv seq typ ver eiv data *)
    let hc = mk_hc f.(2) f.(3) f.(4) f.(5) f.(6) in
    let typ = int_of_string f.(7) in
    let ver = int_of_string ("0x" ^ f.(8)) in
    let eiv = bytes_of_hex f.(9) in
    let data = bytes_of_hex f.(10) in
    let m = List.length data in
    let hdr = List.map n_of_int [typ; (ver lsr 8) land 255; ver land 255; (m lsr 8) land 255; m land 255] in
    (match encrypt prims hc (hdr @ eiv @ data) (nat_of_int (List.length eiv)) with
     | Ok (hc', r) -> "ok " ^ hex_of_bytes r ^ " " ^ hex_of_bytes hc'.hc_seq
     | Panic -> "PANIC" | Hang -> "HANG" | Err _ -> "err")
  | "D" ->
    (* D id suite key mackey iv seq record label want *)
    let hc = mk_hc f.(2) f.(3) f.(4) f.(5) f.(6) in
    (match decrypt prims hc (bytes_of_hex f.(7)) with
     | Ok (hc', Some pt) -> "ok " ^ hex_of_bytes pt ^ " " ^ hex_of_bytes hc'.hc_seq
     | Ok (hc', None) -> "err " ^ hex_of_bytes hc'.hc_seq
     | Panic -> "PANIC" | Hang -> "HANG" | Err _ -> "err")
  | "S" -> handle_s f
  | _ -> "SKIP"

let () = run_file Sys.argv.(1) handle
