(* Runner for the extracted record-layer model: reads C07 case lines (white box: c07w, black box: c07),
   prints the model's observation per line.  The primitives are the extracted specifications:
   SM4 (SM4Spec), HMAC-SM3 (HMACSpec), GCM (GcmRef).  A "key" of the block cipher / AEAD is the
   list of expanded round keys. *)
open Rec_model
open Conv

(* the instance for which Rec/RecordSM4.v proves the premises on the primitives *)
let prims : prims = sm4_prims

let version_gmssl = n_of_int 0x0101

let mk_hc suite key mackey iv seq : halfConn =
  let rk = sm4_round_keys (bytes_of_hex key) in
  match suite with
  | "cbc" -> { hc_err = false; hc_version = version_gmssl; hc_cipher = CipherCBC (rk, bytes_of_hex iv);
               hc_mac = Some (bytes_of_hex mackey); hc_seq = bytes_of_hex seq }
  | "gcm" -> { hc_err = false; hc_version = version_gmssl; hc_cipher = CipherAEAD (rk, bytes_of_hex iv);
               hc_mac = None; hc_seq = bytes_of_hex seq }
  | _ -> failwith "suite"

(* ---------- black box: the model replays the same writes and the same script with its own keys ----------
   S id suite dir pre writes script bufs.  Sender and receiver models start where the handshake leaves the
   record layer: sequence number 1 (Finished used 0), packetsSent 0, bytesSent below the 128 KiB boost
   threshold (the generator keeps the traffic of a case below it).  The record sizes, the number of bytes
   delivered and the final error flag do not depend on the key material. *)
let pseudo (seed : int) (len : int) : n list =
  let st = ref (seed * 2654435761 + 12345) in
  List.init len (fun _ -> st := (!st * 1103515245 + 12345) land 0x3fffffff; n_of_int ((!st lsr 12) land 255))

let hc_for suite (tag : int) seq : halfConn =
  let key = sm4_round_keys (pseudo (tag * 7 + 1) 16) in
  match suite with
  | "cbc" -> { hc_err = false; hc_version = version_gmssl; hc_cipher = CipherCBC (key, pseudo (tag * 7 + 2) 16);
               hc_mac = Some (pseudo (tag * 7 + 3) 32); hc_seq = seq }
  | _ -> { hc_err = false; hc_version = version_gmssl; hc_cipher = CipherAEAD (key, pseudo (tag * 7 + 4) 4);
           hc_mac = None; hc_seq = seq }

let seq_one = List.map n_of_int [0; 0; 0; 0; 0; 0; 0; 1]

let send_c suite (tag : int) (writes : n list list) : connOut * n list list =
  let total = List.fold_left (fun a w -> a + List.length w) 0 writes in
  let nrec_bound = total / 1100 + 3 * List.length writes + 4 in
  let c = { o_hc = hc_for suite tag seq_one; o_vers = version_gmssl; o_bytesSent = n_of_int 2500;
            o_packetsSent = n_of_int 0; o_dynDisabled = false; o_rand = pseudo (tag + 99) (16 * nrec_bound);
            o_closeNotifySent = false } in
  match write_calls prims (nat_of_int (nrec_bound + 8)) c writes with
  | Ok ((c', recs), false) -> (c', recs)
  | _ -> failwith "model sender failed"

let send suite tag writes = snd (send_c suite tag writes)

(* ---------- close cases: C id suite dir writes bufs ----------------------------------------------------------
   the sender model writes, then sends close_notify (sendAlertLocked); the receiver model gets everything at
   once and Reads with the given buffer sizes until the first error *)
let stream_of (id : int) (writes : int list) (salt : int) : n list list =
  let off = ref 0 in
  List.map (fun w ->
      let l = List.init w (fun j -> let i = !off + j in n_of_int ((i * 131 + (i lsr 8) + salt) land 255)) in
      off := !off + w; l) writes

let handle_c (f : string array) : string =
  let id = int_of_string f.(1) in
  let suite = f.(2) in
  let writes = ints_of f.(4) in
  let bufs = ints_of f.(5) in
  let wbytes = stream_of id writes (id mod 251) in
  let (c', recs) = send_c suite 1 wbytes in
  match sendAlertLocked prims (nat_of_int 4) c' (n_of_int 0) with
  | Ok ((_, arecs), _) ->
    let all = recs @ arecs in
    let wire = List.concat all in
    let cin = { i_hc = hc_for suite 1 seq_one; i_vers = version_gmssl; i_raw = wire; i_input = None;
                i_warnCount = nat_of_int 0; i_alerts = []; i_trace = [] } in
    let total = List.fold_left (+) 0 writes in
    let minb = List.fold_left min max_int bufs in
    let nb = List.length bufs in
    let barr = Array.of_list bufs in
    let ncalls = total / minb + 2 * List.length all + 8 in
    let bl = List.init ncalls (fun i -> nat_of_int barr.(i mod nb)) in
    (match read_calls prims (nat_of_int (List.length all + 4)) cin bl with
     | Ok ((out, err), _) -> Printf.sprintf "ok %d %s %d" (List.length all) (hex_of_bytes out) (if err then 1 else 0)
     | Panic -> "PANIC" | Hang -> "HANG" | Err _ -> "err")
  | _ -> "err sender"

let handle_s (f : string array) : string =
  let id = int_of_string f.(1) in
  let suite = f.(2) in
  let pre = int_of_string f.(4) in
  let writes = ints_of f.(5) in
  let script = split_list f.(6) in
  let salt = id mod 251 in
  let off = ref 0 in
  let wbytes = List.map (fun w ->
      let l = List.init w (fun j -> let i = !off + j in n_of_int ((i * 131 + (i lsr 8) + salt) land 255)) in
      off := !off + w; l) writes in
  let g = send suite 1 wbytes in
  let n = List.length g in
  let garr = Array.of_list g in
  let other = lazy (send suite 2 [List.init pre (fun i -> n_of_int ((i * 7 + 3) land 255))]) in
  let foreign = lazy (send suite 3 wbytes) in
  let used_o = ref false and used_c = ref false in
  let num s = int_of_string s in
  let parts t k = String.split_on_char '.' (String.sub t k (String.length t - k)) in
  let acts = List.concat_map (fun t ->
      let c0 = t.[0] in
      if c0 = 'i' then [Inject (bytes_of_hex (String.sub t 1 (String.length t - 1)))]
      else if c0 = 'o' then begin
        used_o := true;
        let o = Lazy.force other in
        if o = [] then [] else [ReplayOther (nat_of_int (num (String.sub t 1 (String.length t - 1)) mod List.length o))]
      end else if n = 0 then []
      else if c0 = 'c' then begin
        used_c := true;
        let c = Lazy.force foreign in
        if c = [] then [] else [ReplayForeign (nat_of_int (num (String.sub t 1 (String.length t - 1)) mod List.length c))]
      end else begin
        let k0 = if c0 = 'h' then 2 else 1 in
        let ps = parts t k0 in
        let j = num (List.hd ps) mod n in
        let len = List.length garr.(j) in
        let nj = nat_of_int j in
        match c0, ps with
        | 'g', _ -> [Deliver nj]
        | 'f', [_; pos; bit] -> [FlipBit (nj, nat_of_int (num pos mod len), n_of_int (num bit))]
        | 't', [_; k] -> [Truncate (nj, nat_of_int (min (num k) (len - 5)), false)]
        | 'T', [_; k] -> [Truncate (nj, nat_of_int (min (num k) (len - 5)), true)]
        | 'x', [_; k] -> [Extend (nj, List.init (num k) (fun m -> n_of_int ((37 * m + 11) land 255)), false)]
        | 'X', [_; k] ->
          let k = min (num k) (65535 - (len - 5)) in
          [Extend (nj, List.init (max k 0) (fun m -> n_of_int ((37 * m + 11) land 255)), true)]
        | 'h', [_; v] ->
          (match t.[1] with
           | 't' -> [SetType (nj, n_of_int (num v))]
           | 'v' -> [SetVersion (nj, n_of_int (num v))]
           | _ -> [SetLength (nj, n_of_int (num v))])
        | _ -> failwith ("bad emit " ^ t)
      end) script in
  let o = if !used_o then Lazy.force other else [] in
  let c = if !used_c then Lazy.force foreign else [] in
  let wire = apply_script g o c acts in
  let cin = { i_hc = hc_for suite 1 seq_one; i_vers = version_gmssl; i_raw = wire; i_input = None;
              i_warnCount = nat_of_int 0; i_alerts = []; i_trace = [] } in
  let rounds = nat_of_int (List.length wire / 5 + 4) in
  let bufs = ints_of f.(7) in
  let total_plain = List.fold_left (+) 0 writes in
  let minb = List.fold_left min max_int bufs in
  let show out err c' =
    Printf.sprintf "ok %d %s %d %d %d" n
      (if g = [] then "-" else String.concat "," (List.map (fun r -> string_of_int (List.length r)) g))
      (List.length out) (if err then 1 else 0) (if c'.i_alerts <> [] then 1 else 0) in
  if bufs <> [] && total_plain / minb <= 3000 then begin
    (* the application calling Conn.Read with the given buffer sizes, cyclically, until the first error *)
    let nb = List.length bufs in
    let ncalls = total_plain / minb + 2 * List.length g + 8 in
    let barr = Array.of_list bufs in
    let bl = List.init ncalls (fun i -> nat_of_int barr.(i mod nb)) in
    match read_calls prims rounds cin bl with
    | Ok ((out, err), c') -> show out err c'
    | Panic -> "PANIC" | Hang -> "HANG" | Err _ -> "err"
  end else
    (* read-until-error at the level of readRecord (very small buffers on large records) *)
    match recv_all prims rounds rounds cin with
    | Ok (out, c') -> show out c'.i_hc.hc_err c'
    | Panic -> "PANIC" | Hang -> "HANG" | Err _ -> "err"

(* ---------- real captures: K id suite wC wS clientRandom serverRandom masterSecret recsC2S recsS2C --------------
   The key block is derived from the master secret as gmtls does (Agree/KeyModel.v keysFromMasterSecret over
   HMAC-SM3); then every record captured after ChangeCipherSpec is opened with the record-layer model: the
   Finished record under sequence number 0, then the application data records; the verify_data of both Finished
   messages is recomputed from the handshake messages captured in the clear (SM3 of the transcript, PRF with the
   finished labels: Agree/KeyModel.v finishedSum_bytes).  Output: the application bytes of both directions and
   whether the two verify_data values are the expected ones. *)
let handle_k (f : string array) : string =
  let suite = f.(2) in
  let cr = bytes_of_hex f.(5) and sr = bytes_of_hex f.(6) and ms = bytes_of_hex f.(7) in
  let (macLen, keyLen, ivLen) = if suite = "cbc" then (32, 16, 16) else (0, 16, 4) in
  match keysFromMasterSecret_model hmac_sm3 (nat_of_int 16) ms cr sr
          (nat_of_int macLen) (nat_of_int keyLen) (nat_of_int ivLen) with
  | Ok (((((cMAC, sMAC), cKey), sKey), cIV), sIV) ->
    let zero_seq = List.init 8 (fun _ -> n_of_int 0) in
    let mk key mac iv : halfConn =
      let rk = sm4_round_keys key in
      if suite = "cbc" then
        { hc_err = false; hc_version = version_gmssl; hc_cipher = CipherCBC (rk, iv); hc_mac = Some mac; hc_seq = zero_seq }
      else
        { hc_err = false; hc_version = version_gmssl; hc_cipher = CipherAEAD (rk, iv); hc_mac = None; hc_seq = zero_seq } in
    (* decode one direction: (verify_data of the Finished record, application bytes) *)
    let decode (hc0 : halfConn) (recs : n list list) : (n list * n list, string) result =
      let rec go hc j fin acc = function
        | [] -> Result.Ok (fin, List.concat (List.rev acc))
        | r :: rest ->
          (match decrypt prims hc r with
           | Ok (hc', Some pt) ->
             let typ = int_of_n (List.hd r) in
             if j = 0 then
               (* the Finished message: handshake type 20, length 12, 12 bytes of verify_data *)
               if typ = 22 && List.length pt = 16 && List.map int_of_n (List.filteri (fun i _ -> i < 4) pt) = [20; 0; 0; 12]
               then go hc' (j + 1) pt acc rest
               else Result.Error (Printf.sprintf "finished-shape-%d" j)
             else if typ = 23 then go hc' (j + 1) fin (pt :: acc) rest
             else Result.Error (Printf.sprintf "type-%d" j)
           | _ -> Result.Error (Printf.sprintf "rejected-%d" j)) in
      go hc0 0 [] [] recs in
    (* the handshake messages of one side, split behind the message of the given type *)
    let split_after (typ : int) (b : n list) : n list * n list =
      let a = Array.of_list b in
      let len = Array.length a in
      let rec go off =
        if off + 4 > len then len
        else
          let l = (int_of_n a.(off + 1) lsl 16) lor (int_of_n a.(off + 2) lsl 8) lor int_of_n a.(off + 3) in
          let next = min len (off + 4 + l) in
          if int_of_n a.(off) = typ then next else go next in
      let cut = go 0 in
      (Array.to_list (Array.sub a 0 cut), Array.to_list (Array.sub a cut (len - cut))) in
    (match decode (mk cKey cMAC cIV) (hexlist_of f.(8)), decode (mk sKey sMAC sIV) (hexlist_of f.(9)) with
     | Result.Ok (finC, a), Result.Ok (finS, b) ->
       (* verify_data = PRF(master_secret, finished_label, SM3(handshake_messages))[0..11]:
          ClientHello, the server's flight up to ServerHelloDone, the client's second flight; for the server's
          Finished additionally the client's Finished message and what the server sent after it (session ticket) *)
       let hsC = bytes_of_hex f.(10) and hsS = bytes_of_hex f.(11) in
       let (hello, flight3) = split_after 1 hsC in
       let (flight2, flight4) = split_after 14 hsS in
       let t1 = hello @ flight2 @ flight3 in
       let t2 = t1 @ finC @ flight4 in
       let verify client t =
         match finishedSum_bytes hmac_sm3 (nat_of_int 16) client ms (sm3 t) with
         | Ok v -> v | _ -> [] in
       let tail12 m = List.filteri (fun i _ -> i >= 4) m in
       let okC = (verify true t1 = tail12 finC) and okS = (verify false t2 = tail12 finS) in
       Printf.sprintf "ok %s %s %d %d" (hex_of_bytes a) (hex_of_bytes b) (if okC then 1 else 0) (if okS then 1 else 0)
     | Result.Error e, _ -> "err c2s-" ^ e
     | _, Result.Error e -> "err s2c-" ^ e)
  | _ -> "err keyblock"

let handle (f : string array) : string =
  match f.(0) with
  | "P" ->
    let (n, g) = extractPadding (bytes_of_hex f.(2)) in
    Printf.sprintf "ok %d %d" (int_of_nat n) (int_of_n g)
  | "U" when int_of_string f.(2) > 1000000 -> "SKIP"   (* lengths are unary nat in the model *)
  | "U" ->
    Printf.sprintf "ok %d" (int_of_nat (roundUp (nat_of_int (int_of_string f.(2))) (nat_of_int (int_of_string f.(3)))))
  | "B" ->
    let (p, fin) = padToBlockSize (bytes_of_hex f.(2)) (nat_of_int (int_of_string f.(3))) in
    "ok " ^ hex_of_bytes p ^ " " ^ hex_of_bytes fin
  | "Q" ->
    let hc = { hc_err = false; hc_version = version_gmssl; hc_cipher = CipherNone; hc_mac = None;
               hc_seq = bytes_of_hex f.(2) } in
    (match incSeq hc with
     | Ok hc' -> "ok " ^ hex_of_bytes hc'.hc_seq
     | Panic -> "PANIC" | Hang -> "HANG" | Err _ -> "err")
  | "E" ->
    (* E id suite key mackey iv seq typ ver eiv data *)
    let hc = mk_hc f.(2) f.(3) f.(4) f.(5) f.(6) in
    let typ = int_of_string f.(7) in
    let ver = int_of_string ("0x" ^ f.(8)) in
    let eiv = bytes_of_hex f.(9) in
    let data = bytes_of_hex f.(10) in
    let m = List.length data in
    let hdr = List.map n_of_int [typ; (ver lsr 8) land 255; ver land 255; (m lsr 8) land 255; m land 255] in
    (match encrypt prims hc (hdr @ eiv @ data) (nat_of_int (List.length eiv)) with
     | Ok (hc', r) -> "ok " ^ hex_of_bytes r ^ " " ^ hex_of_bytes hc'.hc_seq
     | Panic -> "PANIC" | Hang -> "HANG" | Err _ -> "err")
  | "D" when Array.length f > 10 && f.(10) = "nm" -> "SKIP"   (* implementation + predicate only (quick tier sampling) *)
  | "D" ->
    (* D id suite key mackey iv seq record label want *)
    let hc = mk_hc f.(2) f.(3) f.(4) f.(5) f.(6) in
    (match decrypt prims hc (bytes_of_hex f.(7)) with
     | Ok (hc', Some pt) -> "ok " ^ hex_of_bytes pt ^ " " ^ hex_of_bytes hc'.hc_seq
     | Ok (hc', None) -> "err " ^ hex_of_bytes hc'.hc_seq
     | Panic -> "PANIC" | Hang -> "HANG" | Err _ -> "err")
  | "S" -> handle_s f
  | "K" -> handle_k f
  | "C" -> handle_c f
  | "M" ->
    (* M id suite ver key mackey iv seq items: several records through one write / one read half connection *)
    let ver = n_of_int (int_of_string ("0x" ^ f.(3))) in
    let verb = bytes_of_hex f.(3) in
    let hc0 = { (mk_hc f.(2) f.(4) f.(5) f.(6) f.(7)) with hc_version = ver } in
    let rec go w r j recs pts = function
      | [] -> "ok " ^ String.concat "," (List.rev_map (fun x -> if x = [] then "." else hex_of_bytes x) recs |> List.rev |> List.rev)
              ^ " " ^ String.concat "," (List.rev_map (fun x -> if x = [] then "." else hex_of_bytes x) pts |> List.rev |> List.rev)
              ^ " " ^ hex_of_bytes w.hc_seq ^ " " ^ hex_of_bytes r.hc_seq
      | it :: rest ->
        (match String.split_on_char ':' it with
         | [typ; eiv; data] ->
           let eiv = bytes_of_hex eiv and data = bytes_of_hex data in
           let m = List.length data in
           let hdr = n_of_int (int_of_string typ) :: verb @ [n_of_int ((m lsr 8) land 255); n_of_int (m land 255)] in
           (match encrypt prims w (hdr @ eiv @ data) (nat_of_int (List.length eiv)) with
            | Ok (w', out) ->
              (match decrypt prims r out with
               | Ok (r', Some pt) -> go w' r' (j + 1) (out :: recs) (pt :: pts) rest
               | Ok (_, None) -> Printf.sprintf "err %d" j
               | Panic -> "PANIC" | Hang -> "HANG" | Err _ -> "err")
            | Panic -> "PANIC" | Hang -> "HANG" | Err _ -> "err")
         | _ -> "BADCASE") in
    let show l = String.concat "," (List.map (fun x -> if x = [] then "." else hex_of_bytes x) l) in
    ignore show;
    go hc0 hc0 0 [] [] (split_list f.(8))
  | "H" ->
    (* H id isClient vers haveVers seq nextSuite key mackey iv hand wire wants *)
    let vers = n_of_int (int_of_string ("0x" ^ f.(3))) in
    let hc = { hc_err = false; hc_version = vers; hc_cipher = CipherNone; hc_mac = None; hc_seq = bytes_of_hex f.(5) } in
    let next =
      if f.(6) = "-" then None
      else let h = mk_hc f.(6) f.(7) f.(8) f.(9) f.(5) in Some (h.hc_cipher, h.hc_mac) in
    let cin = { i_hc = hc; i_vers = vers; i_raw = bytes_of_hex f.(11); i_input = None;
                i_warnCount = nat_of_int 0; i_alerts = []; i_trace = [] } in
    let s0 = { s_in = cin; s_haveVers = (f.(4) = "1"); s_hand = bytes_of_hex f.(10); s_next = next } in
    let wants = List.map n_of_int (ints_of f.(12)) in
    (match readRecords_hs prims (nat_of_int 64) wants (nat_of_int 0) s0 with
     | Ok (failed, s') ->
       let c = s'.s_in in
       Printf.sprintf "ok %d %s %s %d %s"
         (match failed with Some i -> int_of_nat i | None -> -1)
         (hex_of_bytes s'.s_hand) (hex_of_bytes c.i_hc.hc_seq)
         (match c.i_hc.hc_cipher with CipherNone -> 0 | _ -> 1)
         (hex_of_bytes (List.rev c.i_alerts))
     | Panic -> "PANIC" | Hang -> "HANG" | Err _ -> "err")
  | _ -> "SKIP"

let () = run_file Sys.argv.(1) handle
