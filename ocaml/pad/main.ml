(* Runner for the extracted sm4/padding model: reads C19 case lines, prints model observations. *)
open Pad_model
open Conv

let sched_of (s : string) : (nat * bool) list =
  List.map (fun f ->
    match String.split_on_char ':' f with
    | [k; fl] -> (nat_of_int (int_of_string k), fl = "1")
    | _ -> failwith "bad sched") (split_list s)

let show_outcome (ok : 'a -> string) (o : 'a outcome) : string =
  match o with
  | Ok a -> ok a
  | Err _ -> "err"
  | Panic -> "PANIC"
  | Hang -> "HANG"

let handle (f : string array) : string =
  match f.(0) with
  | "R" ->
    let bs = nat_of_int (int_of_string f.(2)) in
    let sched = sched_of f.(4) in
    let fuel = nat_of_int (List.length sched + 2) in
    let p = new_reader { s_rem = bytes_of_hex f.(3); s_sched = sched } bs in
    show_outcome (fun (out, eof) -> "ok " ^ hex_of_bytes out ^ (if eof then " 1" else " 0"))
      (run_reader fuel p (List.map nat_of_int (ints_of f.(5))))
  | "W" ->
    let bs = nat_of_int (int_of_string f.(2)) in
    let chunks = hexlist_of f.(3) in
    (match run_writer bs chunks with
     | Ok d -> "ok " ^ hex_of_bytes d
     | Err _ -> "err " ^ hex_of_bytes (writer_emitted bs chunks)
     | Panic -> "PANIC" | Hang -> "HANG")
  | "E" | "D" ->
    let bsi = int_of_string f.(2) in
    let bs = nat_of_int bsi in
    let k = n_of_int (int_of_string f.(3)) in
    let iv = bytes_of_hex f.(4) in
    let data = bytes_of_hex f.(5) in
    let sched = sched_of f.(6) in
    let fuel = nat_of_int (List.length data / 1024 + List.length sched + 8) in
    let input = { s_rem = data; s_sched = sched } in
    let r =
      if f.(0) = "E" then p7_block_enc bs (toy_enc bs k) fuel iv input
      else p7_block_decrypt bs (toy_dec bs k) fuel iv input in
    show_outcome (fun out -> "ok " ^ hex_of_bytes out) r
  | "X" -> "ok 1 1"   (* predicate-only case: ciphertext = standard CBC of the padded data, and round trip *)
  | _ -> "BADCASE"

let () = run_file Sys.argv.(1) handle
