(* Runner for the extracted model of the SM4 mode helpers: reads C11 case lines, prints model observations. *)
open Sm4modes_model
open Conv

(* c, _ := NewCipher(key): the round keys are computed once per helper call *)
let e key = let rk = sm4_round_keys key in fun b -> sm4_encrypt_rk rk b
let d key = let rk = sm4_round_keys key in fun b -> sm4_decrypt_rk rk b

(* the helpers with [in] in the caller's heap *)
let helper_mem (mode : string) =
  match mode with
  | "ecb" -> sm4Ecb_mem e d
  | "cbc" -> sm4Cbc_mem e d
  | "cfb" -> sm4CFB_mem e
  | "ofb" -> sm4OFB_mem e
  | _ -> failwith "bad mode"

let helper (mode : string) =
  match mode with
  | "ecb" -> sm4Ecb e d
  | "cbc" -> sm4Cbc e d
  | "cfb" -> sm4CFB e
  | "ofb" -> sm4OFB e
  | _ -> failwith "bad mode"

let pkg_of (iv : string) = if iv = "-" then init_pkg else snd (setIV (bytes_of_hex iv) init_pkg)

(* in = arr[0:len] of one array with [cap] canary bytes behind it *)
let call_mem mode p key m canary dir =
  let arr = m @ canary in
  let s = { s_arr = O; s_off = O; s_len = nat_of_int (List.length m); s_cap = nat_of_int (List.length arr) } in
  (match helper_mem mode p [arr] key s dir with
   | Ok (h', o) -> (Ok o, array h' O = arr)
   | Err n -> (Err n, true) | Panic -> (Panic, true) | Hang -> (Hang, true))

let handle (f : string array) : string =
  match f.(0) with
  | "R" ->
    let mode = f.(2) and key = bytes_of_hex f.(3) and p = pkg_of f.(4) in
    let m = bytes_of_hex f.(5) and canary = bytes_of_hex f.(6) in
    (match call_mem mode p key m canary true with
     | (Ok ct, ok1) ->
       let ccan = bytes_of_hex f.(7) in
       (match call_mem mode p key ct ccan false with
        | (Ok pt, ok2) -> "ok " ^ hex_of_bytes ct ^ " " ^ hex_of_bytes pt ^ (if ok1 && ok2 then " 1" else " 0")
        | (Err _, _) -> "err" | (Panic, _) -> "PANIC" | (Hang, _) -> "HANG")
     | (Err _, _) -> "err" | (Panic, _) -> "PANIC" | (Hang, _) -> "HANG")
  | "D" ->
    let mode = f.(2) and key = bytes_of_hex f.(3) and p = pkg_of f.(4) in
    (match helper mode p key (bytes_of_hex f.(5)) false with
     | Ok o -> "ok " ^ hex_of_bytes o | Err _ -> "err" | Panic -> "PANIC" | Hang -> "HANG")
  | "S" ->
    let (r1, p1) = setIV (bytes_of_hex f.(2)) init_pkg in
    let (r2, p2) = setIV (bytes_of_hex f.(3)) p1 in
    let s = function Ok _ -> "ok" | Err _ -> "err" | Panic -> "PANIC" | Hang -> "HANG" in
    (match sm4Cbc e d p2 (bytes_of_hex f.(4)) (bytes_of_hex f.(5)) true with
     | Ok ct -> "ok " ^ s r1 ^ " " ^ s r2 ^ " " ^ hex_of_bytes ct
     | Err _ -> "err" | Panic -> "PANIC" | Hang -> "HANG")
  | "Q" ->
    (* a history: calls = fn:dir:key:iv|~:in ; "~" = no SetIV before this call *)
    let calls = List.map (fun c ->
      match String.split_on_char ':' c with
      | [fn; dir; key; iv; x] ->
        let fn = (match fn with "ecb" -> FnEcb | "cbc" -> FnCbc | "cfb" -> FnCFB | "ofb" -> FnOFB | _ -> failwith "bad fn") in
        { m_setiv = (if iv = "~" then None else Some (bytes_of_hex iv)); m_fn = fn; m_key = bytes_of_hex key;
          m_in = bytes_of_hex x; m_mode = (dir = "e") }
      | _ -> failwith "bad call") (split_list f.(2)) in
    let rs = modes_run e d init_pkg calls in
    "ok " ^ String.concat "," (List.map (fun (s, r) ->
        (match s with None -> "n" | Some (Ok _) -> "o" | Some _ -> "e") ^ "/" ^
        (match r with Ok o -> hex_of_bytes o | Err _ -> "err" | Panic -> "PANIC" | Hang -> "HANG")) rs) ^ " 1"
  | _ -> "BADCASE"

let () = run_file Sys.argv.(1) handle
