(* Runner for the extracted C06 models: handshake agreement (A cases) and the independent decoder (D cases). *)
open Agree_model
open Conv

let n = n_of_int
let hex4 (x : n) = Printf.sprintf "%04x" (int_of_n x)

let suites_of (s : string) : n list option =
  if s = "n" then None
  else Some (List.map (fun f -> n (int_of_string ("0x" ^ f))) (String.split_on_char '+' s))

let label_s (l : n list) : string =
  match List.map int_of_n l with
  | [] -> "-" | [11; 12] -> "gm" | [13] -> "rsa" | _ -> "?"
let label_c (l : n list) : string =
  match List.map int_of_n l with
  | [] -> "-" | [1] | [3] -> "t" | [2] | [4] -> "u" | _ -> "?"

(* digest of a decoded byte string, same shape as the driver's: length, two position-weighted sums, first bytes *)
let digest (l : n list) : string =
  let s1 = ref 0 and s2 = ref 0 and i = ref 0 in
  List.iter (fun x -> let v = int_of_n x in incr i; s1 := (!s1 + v) mod 65521; s2 := (!s2 + !i * v) mod 4294967291) l;
  let rec take k l = if k = 0 then [] else match l with [] -> [] | x :: t -> x :: take (k - 1) t in
  Printf.sprintf "%d:%d:%d:%s" !i !s1 !s2 (hex_of_bytes (take 16 l))

(* the EKM grid (the same in harness/cmd/c06 and checks/c06.py) *)
let bytes_of_string (s : string) : n list = List.init (String.length s) (fun i -> n (Char.code s.[i]))
let ekm_labels = List.map bytes_of_string ["a"; "EXPERIMENTAL verif c06"; "EXPORTER-verif-c06-" ^ String.make 51 'x']
let ekm_contexts : n list option list =
  [None; Some []; Some [n 0x5a]; Some (List.init 32 (fun i -> n ((i * 3 + 1) land 255)));
   Some (List.init 300 (fun i -> n ((i * 7 + 5) land 255)))]
let ekm_lengths = [1; 32; 33; 100]

let handle (f : string array) : string =
  match f.(0) with
  | "A" ->
    let peer = f.(11) in
    (* a standard-library server is a plain TLS server with static certificates *)
    let mode = if peer = "gs" then STLS else (match f.(2) with "gm" -> SGM | "auto" -> SAuto | "tls" -> STLS | _ -> failwith "mode") in
    let kind = match f.(3) with
      | "g" -> CG | "t10" -> CT (n 0x0301) | "t11" -> CT (n 0x0302) | "t12" -> CT (n 0x0303) | _ -> failwith "ckind" in
    let cc = match f.(8) with "n" -> 0 | "t" -> 1 | "u" -> 2 | _ -> failwith "ccert" in
    let a = { a_mode = mode; a_ckind = kind; a_csuites = suites_of f.(4); a_ssuites = suites_of f.(5);
              a_prefer = (f.(6) = "1"); a_auth = n (int_of_string f.(7)); a_ccert = n cc;
              a_callbacks = (if peer = "gs" then false else f.(9) = "1"); a_tickets = (f.(10) = "1");
              a_pool = (Array.length f < 19 || f.(15) = "1") } in
    let conns = if Array.length f < 19 then 1 else int_of_string f.(16) in
    let more =
      if conns <= 1 then "-"
      else
        let log = reconnect_log a in
        String.concat "" (List.filteri (fun i _ -> i >= 1 && i < conns)
          (List.map (fun r -> match r.r_cls with Resumed | Full -> "C" | Failed -> "E" | Crashed -> "P") log)) in
    (match honest_run a with
     | (Done rc, Done rs) ->
       Printf.sprintf "ok C %s %s 1 %s %s 1 %s" (hex4 rc.res_vers) (hex4 rc.res_suite) (label_s rc.res_peer) (label_c rs.res_peer) more
     | (Errored, Errored) -> "ok E"
     | (Done _, _) -> "ok 1c"
     | (_, Done _) -> "ok 1s"
     | _ -> "ok H")
  | "D" ->
    if f.(6) = "-" then "SKIP"
    else
      let suite = n (int_of_string ("0x" ^ f.(2))) in
      (match decode_connection suite (bytes_of_hex f.(6)) (bytes_of_hex f.(7)) (bytes_of_hex f.(8))
               (hexlist_of f.(9)) (hexlist_of f.(10)) with
       | Some (a, b) -> "ok " ^ digest a ^ " " ^ digest b
       | None -> "err")
  | "K" ->
    (* exported keying material of a GMSSL connection: the extracted model of ekmFromMasterSecret over HMAC-SM3,
       for every context of the grid (absent, empty, 1, 32, 300 bytes) at one label and one length of the grid,
       rotating with the case number (the extracted SM3 specification is slow; checks/c06.py recomputes the
       whole grid) *)
    if f.(2) <> "0101" then "SKIP"
    else
      let id = int_of_string f.(1) in
      let label = List.nth ekm_labels (id mod 3) and len = List.nth ekm_lengths (id mod 4) in
      let ms = bytes_of_hex f.(4) and cr = bytes_of_hex f.(5) and sr = bytes_of_hex f.(6) in
      let buf = Buffer.create 1200 in
      List.iter (fun ctx ->
          match gm_ekm (nat_of_int len) ms cr sr label ctx with
          | Some x -> Buffer.add_string buf (hex_of_bytes x)
          | None -> Buffer.add_string buf "!")
        ekm_contexts;
      "ok " ^ Buffer.contents buf
  | _ -> "BADCASE"

let () = run_file Sys.argv.(1) handle
