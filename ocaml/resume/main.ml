(* Runner for the extracted ticket / resumption models: reads C16 case lines, prints model observations. *)
open Resume_model
open Conv

let n = n_of_int
let hex4 (x : n) = Printf.sprintf "%04x" (int_of_n x)
let hexlist_out (l : n list list) : string =
  match l with
  | [] -> "-"
  | _ -> String.concat "," (List.map (fun c -> if c = [] then "." else hex_of_bytes c) l)

let show_state (s : sstate) : string =
  hex4 s.ss_vers ^ " " ^ hex4 s.ss_suite ^ " " ^ hex_of_bytes s.ss_ms ^ " " ^ hexlist_out s.ss_certs

let suites_of (s : string) : n list option =
  if s = "n" then None
  else if s = "" || s = "-" then Some []
  else Some (List.map (fun f -> n (int_of_string ("0x" ^ f))) (String.split_on_char '+' s))

let keys_of (s : string) : n list = List.map (fun f -> n (int_of_string f)) (String.split_on_char '+' s)

let server_of (kind : string) (first_key : int) : scfg =
  let m = match kind with "gm" -> SGM | "auto" -> SAuto | "tls" -> STLS | _ -> failwith "server kind" in
  { s_mode = m; s_suites = None; s_prefer = false; s_auth = n 0; s_disabled = false; s_keys = [n first_key] }

let client_of kind suites ccert name cache : ccfg =
  let k = match kind with
    | "g" -> CG | "t10" -> CT (n 0x0301) | "t11" -> CT (n 0x0302) | "t12" -> CT (n 0x0303) | _ -> failwith "client kind" in
  let c = match ccert with "n" -> 0 | "t" -> 1 | "u" -> 2 | _ -> failwith "ccert" in
  { c_kind = k; c_suites = suites_of suites; c_cert = n c; c_name = n (int_of_string name); c_cache = (cache = "1") }

let op_of (s : string) : hop =
  match String.split_on_char '/' s with
  | ["c"; srv; kind; suites; ccert; name; cache] -> Connect (nat_of_int (int_of_string srv), client_of kind suites ccert name cache)
  | ["r"; srv; ks] -> RotateKeys (nat_of_int (int_of_string srv), keys_of ks)
  | ["s"; srv; su] -> ChangeSuites (nat_of_int (int_of_string srv), suites_of su)
  | ["a"; srv; a] -> ChangeClientAuth (nat_of_int (int_of_string srv), n (int_of_string a))
  | ["d"; srv; b] -> DisableTickets (nat_of_int (int_of_string srv), b = "1")
  | ["fv"; name; v] -> ForgeVers (n (int_of_string name), n (int_of_string ("0x" ^ v)))
  | ["fs"; name; v] -> ForgeSuite (n (int_of_string name), n (int_of_string ("0x" ^ v)))
  | ["ft"; name] -> TamperTicket (n (int_of_string name))
  | _ -> failwith ("bad op " ^ s)

let cls_str = function Resumed -> "R" | Full -> "F" | Failed -> "E" | Crashed -> "P"

let offer_str (o : term_tag ticket option) : string =
  match o with
  | None -> "-"
  | Some t -> (match t.tk_tag with None -> "x" | Some _ -> string_of_int (int_of_n t.tk_iv))

let tok (r : term_tag crec) : string =
  match r.r_cls with
  | Resumed | Full ->
    Printf.sprintf "%s,%s,%s,%d,%s,%d" (cls_str r.r_cls) (hex4 r.r_vers) (hex4 r.r_suite) (int_of_n r.r_ms)
      (offer_str r.r_offer) (if r.r_stored then 1 else 0)
  | c -> cls_str c

let fixed_state (ncerts : int) : sstate =
  let rep b k = List.init k (fun _ -> n b) in
  { ss_vers = n 0x0303; ss_suite = n 0x2f; ss_ms = rep 0xa5 48;
    ss_certs = List.init ncerts (fun i -> rep (0x30 + i) (20 + 11 * i)); ss_old = false }

let handle (f : string array) : string =
  match f.(0) with
  | "M" ->
    let st = { ss_vers = n (int_of_string ("0x" ^ f.(2))); ss_suite = n (int_of_string ("0x" ^ f.(3)));
               ss_ms = bytes_of_hex f.(4); ss_certs = hexlist_of f.(5); ss_old = false } in
    let b = marshal st in
    (match unmarshal b with
     | Ok s -> "ok " ^ hex_of_bytes b ^ " " ^ show_state s
     | Err _ -> "ok " ^ hex_of_bytes b ^ " err"
     | Panic -> "PANIC" | Hang -> "HANG")
  | "U" ->
    (match unmarshal (bytes_of_hex f.(2)) with
     | Ok s -> "ok " ^ show_state s
     | Err _ -> "err" | Panic -> "PANIC" | Hang -> "HANG")
  | "T" ->
    let keys = keys_of f.(2) in
    let st = { st_vers = n 0x0303; st_suite = n 0x2f; st_ms = n 0; st_certs = n (int_of_string f.(5)) } in
    let t = seal term_mac (n (int_of_string f.(3))) (n 0) st in
    let t = if f.(6) = "-" then t else { t with tk_tag = term_junk } in
    (match decrypt_term (f.(4) = "1") keys t with
     | Some (_, old) -> "ok " ^ (if old then "1" else "0") ^ " 1"
     | None -> "err")
  | "S" ->
    let l = 64 + List.length (marshal (fixed_state (int_of_string f.(2)))) in
    Printf.sprintf "ok %d 0 -" (l * 255 + l)
  | "L" ->
    let ops = List.map (fun o ->
        if o.[0] = 'p' then
          (match String.split_on_char ':' (String.sub o 1 (String.length o - 1)) with
           | [k; v] -> LPut (n (int_of_string k), n (int_of_string v))
           | _ -> failwith "bad put")
        else LGet (n (int_of_string (String.sub o 1 (String.length o - 1))))) (split_list f.(3)) in
    let (c, outs) = lru_run (lru_new (nat_of_int (int_of_string f.(2)))) ops in
    let gets = List.filter_map (fun o -> match o with
        | None -> None
        | Some None -> Some "n"
        | Some (Some v) -> Some (string_of_int (int_of_n v))) outs in
    let j l = if l = [] then "-" else String.concat "," l in
    let dump = List.map (fun (k, v) -> string_of_int (int_of_n k) ^ ":" ^ string_of_int (int_of_n v)) c.l_q in
    let mk = List.sort compare (List.map (fun k -> string_of_int (int_of_n k)) c.l_m) in
    Printf.sprintf "ok %d %s %s %s" (int_of_nat c.l_cap) (j gets) (j dump) (j mk)
  | "H" ->
    let kinds = String.split_on_char ',' f.(3) in
    let srvs = List.mapi (fun i k -> server_of k (i + 1)) kinds in
    let cap = nat_of_int (int_of_string f.(2)) in
    (* k/src/dst: Config.Clone() - configuration dst becomes a copy of every field of configuration src (same kind):
       the hops that set keys, suites, policy and the disabled flag of dst to src's current values *)
    let ops = List.fold_left (fun acc s ->
        match String.split_on_char '/' s with
        | ["k"; src; dst] ->
          let h = hrun_term cap srvs acc in
          let c = List.nth h.h_srv (int_of_string src) in
          let d = nat_of_int (int_of_string dst) in
          acc @ [RotateKeys (d, c.s_keys); ChangeSuites (d, c.s_suites); ChangeClientAuth (d, c.s_auth); DisableTickets (d, c.s_disabled)]
        | _ -> acc @ [op_of s]) [] (String.split_on_char ';' f.(4)) in
    let h = hrun_term cap srvs ops in
    (match h.h_log with
     | [] -> "ok -"
     | l -> "ok " ^ String.concat ";" (List.map tok l))
  | "X" ->
    let srv = { (server_of f.(2) 1) with s_suites = suites_of f.(4); s_auth = n (int_of_string f.(5)) } in
    let c = client_of f.(3) f.(4) f.(6) "0" "1" in
    let ops = [Connect (O, c)] @ (if f.(7) = "-" then [] else [TamperTicket (n 0)]) @ [Connect (O, c)] in
    let h = hrun_term (nat_of_int 4) [srv] ops in
    (match h.h_log with
     | [r1; r2] ->
       if r1.r_cls <> Full || not r1.r_stored then "ok " ^ cls_str r1.r_cls ^ " - 0"
       else "ok F " ^ cls_str r2.r_cls ^ " 0"
     | _ -> "BADCASE")
  | "B" ->
    (* key blocks of an original and a resumed connection: for GMSSL the key derivation of Agree/KeyModel.v over
       HMAC-SM3 with the generated lengths (what C16_resumed_record_protection is about); the other versions are
       recomputed by checks/c16.py only *)
    if f.(2) <> "0101" then "SKIP"
    else
      (match lookup_row (n_of_int (int_of_string ("0x" ^ f.(3)))) with
       | None -> "err suite"
       | Some (((mac, key), iv), _) ->
         let ms = bytes_of_hex f.(4) in
         let blk cr sr =
           let (((((a, b), c), d), e), g) = gm_key_block ms (bytes_of_hex cr) (bytes_of_hex sr) mac key iv in
           hex_of_bytes (a @ b @ c @ d @ e @ g) in
         Printf.sprintf "ok %d %d %d %s %s" (int_of_nat mac) (int_of_nat key) (int_of_nat iv) (blk f.(5) f.(6)) (blk f.(7) f.(8)))
  | _ -> "BADCASE"

let () = run_file Sys.argv.(1) handle
