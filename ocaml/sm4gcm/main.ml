(* Runner for the extracted model of sm4/sm4_gcm.go: reads C12 case lines, prints model observations. *)
open Sm4gcm_model
open Conv

let e = sm4_encrypt_block

let fail = function Err _ -> "err" | Panic -> "PANIC" | Hang -> "HANG" | Ok _ -> "?"

let handle (f : string array) : string =
  match f.(0) with
  | "G" ->
    let key = bytes_of_hex f.(2) and iv = bytes_of_hex f.(3) and a = bytes_of_hex f.(4) and p = bytes_of_hex f.(5) in
    let can_iv = bytes_of_hex f.(6) and can_a = bytes_of_hex f.(7) and can_p = bytes_of_hex f.(8) in
    (* the caller's heap: key, and IV / A / P (then C) in front of their canaries; slices with that spare capacity *)
    let sl i l can = { s_arr = nat_of_int i; s_off = O; s_len = nat_of_int (List.length l);
                       s_cap = nat_of_int (List.length l + List.length can) } in
    let rec take n l = if n = 0 then [] else (match l with [] -> [] | x :: r -> x :: take (n - 1) r) in
    let call x mode =
      let h = [key; iv @ can_iv; a @ can_a; x @ can_p] in
      (match sm4GCM_mem e h (sl 0 key []) (sl 1 iv can_iv) (sl 3 x can_p) (sl 2 a can_a) mode with
       | Ok (h', r) -> Ok (r, take 4 h' = h)
       | Err n -> Err n | Panic -> Panic | Hang -> Hang) in
    (match call p true with
     | Ok ((c, t), m1) ->
       (match call c false with
        | Ok ((p', t'), m2) ->
          (* Sm4GCM with a 16-byte key IS GCMEncrypt / GCMDecrypt (definitional in the model, Sm4GCM_spec): the two are
             evaluated separately for every fourth case only *)
          let direct = (int_of_string f.(1)) mod 4 <> 0 ||
            (match gCMEncrypt e key iv p a, gCMDecrypt e key iv c a with
             | Ok (c2, t2), Ok (p3, t3) -> c2 = c && t2 = t && p3 = p' && t3 = t'
             | _ -> false) in
          String.concat " " ["ok"; hex_of_bytes c; hex_of_bytes t; hex_of_bytes p'; hex_of_bytes t';
                             (if m1 && m2 then "1" else "0"); (if direct then "1" else "0")]
        | r -> fail r)
     | r -> fail r)
  | "T" ->
    (* what the property says the TLS suites compute: GCM-AE with IV = implicit || explicit, record = C || T *)
    let steps = List.map (fun st ->
      match String.split_on_char ':' st with
      | [_; key; fixed; explicit; aad; pt] ->
        (bytes_of_hex key, bytes_of_hex fixed @ bytes_of_hex explicit, bytes_of_hex aad, bytes_of_hex pt)
      | _ -> failwith "bad step") (split_list f.(2)) in
    let rec go acc = function
      | [] -> "ok " ^ String.concat "," (List.rev acc)
      | (key, iv, aad, pt) :: rest ->
        (match sm4GCM e key iv pt aad true with
         | Ok (c, t) -> go ((hex_of_bytes (c @ t) ^ "/1/1") :: acc) rest
         | r -> fail r) in
    go [] steps
  | "B" -> "SKIP"   (* 64 KiB cases of the quick tier: checked against crypto/cipher and the python GCM only *)
  | "V" ->
    let key = bytes_of_hex f.(2) and iv = bytes_of_hex f.(3) and a = bytes_of_hex f.(4) and c = bytes_of_hex f.(5) in
    (match sm4GCM e key iv c a false with
     | Ok (p, t) -> "ok " ^ hex_of_bytes t ^ " " ^ hex_of_bytes p
     | r -> fail r)
  | "Q" ->
    (* a history of calls; every call line gives the VALUES of key, iv, a, x at the time of the call *)
    let calls = List.map (fun c ->
      match String.split_on_char ':' c with
      | [fn; key; iv; a; x] ->
        let fn = (match fn with "S1" -> FnSm4GCM true | "S0" -> FnSm4GCM false | "E" -> FnGCMEncrypt
                              | "D" -> FnGCMDecrypt | "H" -> FnGetH | _ -> failwith "bad fn") in
        { c_fn = fn; c_key = bytes_of_hex key; c_iv = bytes_of_hex iv; c_in = bytes_of_hex x; c_a = bytes_of_hex a }
      | _ -> failwith "bad call") (split_list f.(2)) in
    (match gcm_run e () calls with
     | Ok rs -> "ok " ^ String.concat "," (List.map (function
                   | RPair (x, t) -> hex_of_bytes x ^ "/" ^ hex_of_bytes t
                   | RBlock h -> hex_of_bytes h) rs) ^ " 1"
     | r -> fail r)
  | _ -> "BADCASE"

let () = run_file Sys.argv.(1) handle
