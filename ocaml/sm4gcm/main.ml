(* Runner for the extracted model of sm4/sm4_gcm.go: reads C12 case lines, prints model observations. *)
open Sm4gcm_model
open Conv

let e = sm4_encrypt_block

let fail = function Err _ -> "err" | Panic -> "PANIC" | Hang -> "HANG" | Ok _ -> "?"

let handle (f : string array) : string =
  match f.(0) with
  | "G" ->
    let key = bytes_of_hex f.(2) and iv = bytes_of_hex f.(3) and a = bytes_of_hex f.(4) and p = bytes_of_hex f.(5) in
    (match sm4GCM e key iv p a true with
     | Ok (c, t) ->
       (match sm4GCM e key iv c a false with
        | Ok (p', t') ->
          let direct =
            (match gCMEncrypt e key iv p a, gCMDecrypt e key iv c a with
             | Ok (c2, t2), Ok (p3, t3) -> c2 = c && t2 = t && p3 = p' && t3 = t'
             | _ -> false) in
          String.concat " " ["ok"; hex_of_bytes c; hex_of_bytes t; hex_of_bytes p'; hex_of_bytes t'; "1"; (if direct then "1" else "0")]
        | r -> fail r)
     | r -> fail r)
  | "V" ->
    let key = bytes_of_hex f.(2) and iv = bytes_of_hex f.(3) and a = bytes_of_hex f.(4) and c = bytes_of_hex f.(5) in
    (match sm4GCM e key iv c a false with
     | Ok (p, t) -> "ok " ^ hex_of_bytes t ^ " " ^ hex_of_bytes p
     | r -> fail r)
  | _ -> "BADCASE"

let () = run_file Sys.argv.(1) handle
