(* Runner for the extracted decoder models of C18: reads case lines, prints model observations.
   Ops without a model (D ...) print SKIP. *)
open Dec_model
open Conv

let show (ok : 'a -> string) (o : 'a outcome) : string =
  match o with
  | Ok a -> ok a
  | Err _ -> "err"
  | Panic -> "PANIC"
  | Hang -> "HANG"

(* big-endian minimal byte string of an N (big.Int.Bytes) *)
let rec bits_of_pos = function
  | XH -> [true]
  | XO p -> false :: bits_of_pos p
  | XI p -> true :: bits_of_pos p
let min_hex_of_n (x : n) : string =
  match x with
  | N0 -> "-"
  | Npos p ->
    let bits = Array.of_list (bits_of_pos p) in
    let nbytes = (Array.length bits + 7) / 8 in
    let b = Buffer.create 64 in
    for i = nbytes - 1 downto 0 do
      let v = ref 0 in
      for j = 7 downto 0 do
        let k = 8 * i + j in
        v := 2 * !v + (if k < Array.length bits && bits.(k) then 1 else 0)
      done;
      Buffer.add_string b (Printf.sprintf "%02x" !v)
    done;
    Buffer.contents b

let rec strip = function N0 :: r -> strip r | l -> l
let min_hex (l : n list) : string = hex_of_bytes (strip l)

let hexlist_str (l : n list list) : string =
  match l with
  | [] -> "-"
  | _ -> String.concat "," (List.map (fun x -> match x with [] -> "." | _ -> hex_of_bytes x) l)

let pass_or_err o = show (fun _ -> "pass") o

(* signed hex of a Z (magnitude, minimal bytes) *)
let hex_of_z (x : z) : string =
  match x with
  | Z0 -> "0"
  | Zpos p -> min_hex_of_n (Npos p)
  | Zneg p -> "m" ^ min_hex_of_n (Npos p)

let oid_str (l : n list) : string = String.concat "." (List.map (fun x -> string_of_int (int_of_n x)) l)

(* canonical rendering of a decoded ASN.1 value (the Go driver renders its structs the same way) *)
let rec render (v : value) : string =
  match v with
  | VInt x -> hex_of_z x
  | VBytes b -> hex_of_bytes b
  | VBits (b, n) -> hex_of_bytes b ^ "/" ^ string_of_int (int_of_nat n)
  | VOID o -> oid_str o
  | VRaw (c, t, comp, b, full) ->
    Printf.sprintf "%d.%d.%d.%s.%s" (int_of_n c) (int_of_n t) (if comp then 1 else 0) (hex_of_bytes b) (hex_of_bytes full)
  | VStruct (_, fs) -> "(" ^ String.concat "," (List.map render fs) ^ ")"
  | VBool b -> if b then "T" else "F"
  | VTime (g, t) -> (if g then "G" else "U") ^ hex_of_bytes t
  | VStr (tag, t) -> Printf.sprintf "s%d.%s" (int_of_n tag) (hex_of_bytes t)
  | VNil -> "nil"
  | VSeq vs -> "[" ^ String.concat "," (List.map render vs) ^ "]"
  | VAbsent -> "~"

let unmarshal_show k b =
  show (fun ((v, rest), _) -> "ok " ^ render v ^ " " ^ hex_of_bytes rest) (unmarshal k noParams b)

let handle (f : string array) : string =
  match f.(0) with
  | "BER" ->
    let b = bytes_of_hex f.(2) in
    show (fun out -> "ok " ^ hex_of_bytes out) (ber2der_budget (n_of_int (List.length b + 1)) b)
  | "UNP" -> show (fun out -> "ok " ^ hex_of_bytes out) (unpad (bytes_of_hex f.(3)) (nat_of_int (int_of_string f.(2))))
  | "PAD" -> show (fun out -> "ok " ^ hex_of_bytes out) (pad (bytes_of_hex f.(3)) (nat_of_int (int_of_string f.(2))))
  | "SDG" -> pass_or_err (decrypt_gate (fun _ _ -> true) (nat_of_int (int_of_string f.(2))) (bytes_of_hex f.(3)))
  | "CUM" ->
    if f.(3) = "asn1err" then "err"
    else show (fun out -> "ok " ^ hex_of_bytes out)
        (cipherUnmarshal_post (f.(4) = "1") (f.(5) = "1") (bytes_of_hex f.(6)) (bytes_of_hex f.(7))
           (bytes_of_hex f.(8)) (bytes_of_hex f.(9)))
  | "CMA" ->
    show (fun (((x, y), h), c) -> Printf.sprintf "ok %s %s %s %s" (min_hex x) (min_hex y) (hex_of_bytes h) (hex_of_bytes c))
      (cipherMarshal_gate (bytes_of_hex f.(2)))
  | "DCP" -> show (fun x -> "pass " ^ min_hex_of_n x) (decompress_gate (bytes_of_hex f.(2)))
  | "P8E" ->
    if f.(4) = "asn1err" then "err"
    else pass_or_err (pkcs8_encrypted_post (f.(5) = "1") (f.(6) = "1") (f.(7) = "1") (bytes_of_hex f.(8))
                        (List.init (int_of_string f.(9)) (fun _ -> N0)) (nat_of_int (int_of_string f.(10))))
  | "SKP" ->
    if f.(3) = "asn1err" then "err"
    else show (fun d -> "ok " ^ hex_of_bytes d) (parseSm2PrivateKey_post (bytes_of_hex f.(4)))
  | "HPU" -> show (fun (x, y) -> Printf.sprintf "ok %s %s" (min_hex x) (min_hex y)) (readPublicKeyFromHex (bytes_of_hex f.(2)))
  | "HPR" -> show (fun k -> "ok " ^ min_hex_of_n k) (readPrivateKeyFromHex (bytes_of_hex f.(2)))
  | "SSU" ->
    show (fun s -> Printf.sprintf "ok %d %d %s %s" (int_of_n s.ss_vers) (int_of_n s.ss_cipherSuite)
                     (hex_of_bytes s.ss_masterSecret) (hexlist_str s.ss_certificates))
      (sessionState_unmarshal (bytes_of_hex f.(2)))
  | "CRQ" ->
    show (fun (t, cas) -> Printf.sprintf "ok %s %s" (hex_of_bytes t) (hexlist_str cas))
      (certificateRequestMsgGM_unmarshal (bytes_of_hex f.(2)))
  | "KXC" -> pass_or_err (ecc_processClientKeyExchange_gate (bytes_of_hex f.(2)))
  | "KXS" -> pass_or_err (ecc_processServerKeyExchange_gate (bytes_of_hex f.(2)))
  | "KXE" -> pass_or_err (ecdhe_processServerKeyExchange_gate (fun _ -> true) (bytes_of_hex f.(2)))
  | "A1S" -> show (fun (r, s) -> "ok " ^ hex_of_z r ^ " " ^ hex_of_z s) (signDataToSignDigit (bytes_of_hex f.(2)))
  | "A1C" -> show (fun out -> "ok " ^ hex_of_bytes out) (cipherUnmarshal (bytes_of_hex f.(2)))
  | "A1X" -> unmarshal_show certOuterSchema (bytes_of_hex f.(2))
  | "A1T1" -> unmarshal_show t1Schema (bytes_of_hex f.(2))
  | "A1T2" -> unmarshal_show t2Schema (bytes_of_hex f.(2))
  | "A1G" ->
    (* encoding/asn1.Unmarshal into the Go type named f.(2): the schema the translator read from its declaration *)
    let name = bytes_of_hex f.(2) in
    (match List.find_opt (fun (n, _) -> n = name) gen_asn1_schemas with
     | None -> "SKIP"
     | Some (_, k) -> show (fun ((_, rest), _) -> "ok " ^ hex_of_bytes rest) (unmarshal k noParams (bytes_of_hex f.(3))))
  | "D" | "LAD" | "COLD" -> "SKIP"
  | _ -> "BADCASE"

let () = run_file Sys.argv.(1) handle
