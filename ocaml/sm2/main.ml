(* Runner for the extracted SM2 model (coq/SM2/SM2Model.v): reads C01 / C02 / C13 case lines, prints
   the model's observation for each.  The extraction maps positive/N/Z to zarith big integers
   (ExtrOcamlZBigInt), so the generic conv.ml (inductive N) is not used; the few conversions needed
   are here.  Formats: /verif/harness/cmd/c01, c02, c13 (header comments). *)
module ZZ = Z   (* zarith, before the extracted module shadows the name *)
open Sm2_model

type z = Big_int_Z.big_int

let rec nat_of_int (i : int) : nat =
  let rec go acc i = if i <= 0 then acc else go (S acc) (i - 1) in go O i

let bytes_of_hex (s : string) : z list =
  if s = "-" || s = "." || s = "" then [] else begin
    let len = String.length s / 2 in
    let rec go i acc =
      if i < 0 then acc
      else go (i - 1) (Big_int_Z.big_int_of_int (int_of_string ("0x" ^ String.sub s (2 * i) 2)) :: acc) in
    go (len - 1) []
  end

let hex_of_bytes (l : z list) : string =
  match l with
  | [] -> "-"
  | _ ->
    let b = Buffer.create 64 in
    List.iter (fun x -> Buffer.add_string b (Printf.sprintf "%02x" ((Big_int_Z.int_of_big_int x) land 0xff))) l;
    Buffer.contents b

(* integers: lower-case hex, leading 'n' for negative numbers *)
let z_of_str (s : string) : z =
  if String.length s > 0 && s.[0] = 'n' then ZZ.neg (ZZ.of_string_base 16 (String.sub s 1 (String.length s - 1)))
  else ZZ.of_string_base 16 s

let str_of_z (x : z) : string =
  if ZZ.sign x < 0 then "n" ^ ZZ.format "%x" (ZZ.neg x) else ZZ.format "%x" x

let show (ok : 'a -> string) (o : 'a outcome) : string =
  match o with
  | Ok a -> ok a
  | Err _ -> "err"
  | Panic -> "PANIC"
  | Hang -> "HANG"

(* fuel for the retry loops: one pass per 40-byte nonce plus one *)
let fuel_for (rho : z list) : nat = nat_of_int (List.length rho / 40 + 1)

let consumed (rho : z list) (rest : z list) : string = string_of_int (List.length rho - List.length rest)

let b2s b = if b then "ok 1" else "ok 0"

let handle (f : string array) : string =
  match f.(0) with
  (* ---- C01 ---- *)
  | "S" ->
    let pr = key_of (z_of_str f.(2)) in
    let uid = bytes_of_hex f.(3) and msg = bytes_of_hex f.(4) and rho = bytes_of_hex f.(5) in
    show (fun ((r, s), rest) -> "ok " ^ str_of_z r ^ " " ^ str_of_z s ^ " " ^ consumed rho rest)
      (sm2Sign (fuel_for rho) pr msg uid rho)
  | "C" ->
    (* concurrent leg: the model predicts every goroutine from its own stream alone - m successive
       Sm2Sign calls on one reader, each continuing where the previous one stopped *)
    let d = z_of_str f.(2) in
    let g = int_of_string f.(3) and m = int_of_string f.(4) in
    let split s = if s = "-" || s = "" then [] else List.map (fun x -> if x = "." then [] else bytes_of_hex x) (String.split_on_char ',' s) in
    let streams = Array.of_list (split f.(5)) and msgs = Array.of_list (split f.(6)) in
    let one j =
      let pr = key_of d in
      let rho0 = streams.(j) in
      let rec go i rho acc =
        if i = m then Some (List.rev acc, rho)
        else match sm2Sign (fuel_for rho) pr msgs.(j * m + i) [] rho with
          | Ok ((r, s), rest) -> go (i + 1) rest ((str_of_z r ^ "." ^ str_of_z s) :: acc)
          | _ -> None in
      match go 0 rho0 [] with
      | Some (l, rest) -> String.concat "," l ^ "/" ^ consumed rho0 rest
      | None -> "err" in
    "ok " ^ String.concat " " (List.init g one)
  | "G" ->
    let pr = key_of (z_of_str f.(2)) in
    let msg = bytes_of_hex f.(3) and rho = bytes_of_hex f.(4) in
    show (fun (sg, rest) -> "ok " ^ hex_of_bytes sg ^ " " ^ consumed rho rest) (sign (fuel_for rho) pr rho msg)
  | "V" ->
    let pub = (z_of_str f.(2), z_of_str f.(3)) in
    b2s (sm2Verify pub (bytes_of_hex f.(5)) (bytes_of_hex f.(4)) (z_of_str f.(6)) (z_of_str f.(7)))
  | "H" ->
    let pub = (z_of_str f.(2), z_of_str f.(3)) in
    b2s (verify pub (bytes_of_hex f.(4)) (z_of_str f.(5)) (z_of_str f.(6)))
  | "P" ->
    let pub = (z_of_str f.(2), z_of_str f.(3)) in
    b2s (publicKey_Verify pub (bytes_of_hex f.(4)) (bytes_of_hex f.(5)))
  | "Y" ->
    (* histories on reused buffers: the model is stateless, every step is computed from the bytes of that step alone *)
    let ds = [| z_of_str f.(3); z_of_str f.(4) |] in
    let steps = String.split_on_char ',' f.(5) in
    let sigs = ref [] in   (* reversed list of (r,s) option *)
    let outs = List.map (fun st ->
      match String.split_on_char '.' st with
      | [kind; k; uid; msg; extra] ->
        let pr = key_of ds.(int_of_string k) in
        let uid = bytes_of_hex uid and msg = bytes_of_hex msg in
        let (o, sg) =
          (match kind with
           | "s" ->
             let rho = bytes_of_hex extra in
             (match sm2Sign (fuel_for rho) pr msg uid rho with
              | Ok ((r, s), _) -> (str_of_z r ^ "." ^ str_of_z s, Some (r, s))
              | _ -> ("err", None))
           | "v" ->
             let j = int_of_string extra in
             let l = List.rev !sigs in
             (match (if j >= 0 && j < List.length l then List.nth l j else None) with
              | Some (r, s) -> ((if sm2Verify pr.pub msg uid r s then "1" else "0"), None)
              | None -> ("0", None))
           | _ ->
             (match sm3Digest pr.pub msg uid with
              | Ok d -> (hex_of_bytes d, None)
              | _ -> ("err", None))) in
        sigs := sg :: !sigs; o
      | _ -> "BADSTEP") steps in
    "ok " ^ String.concat "," outs
  | "W" ->
    (* consumer leg of C01: gmtls verifyHandshakeSignature (kinds s, e) and x509 CheckSignature (kind x) *)
    let pub = (z_of_str f.(3), z_of_str f.(4)) in
    let msg = bytes_of_hex f.(5) and sg = bytes_of_hex f.(6) in
    b2s (match f.(2) with
         | "s" -> verifyHandshakeSignature_sm2 pub msg sg
         | "e" -> verifyHandshakeSignature_ecdsa pub msg sg
         | _ -> x509_checkSignature_sm2 pub msg sg)
  | "D" when Array.length f = 6 ->
    let pub = (z_of_str f.(2), z_of_str f.(3)) in
    show (fun d -> "ok " ^ hex_of_bytes d) (sm3Digest pub (bytes_of_hex f.(5)) (bytes_of_hex f.(4)))
  (* ---- C02 ---- *)
  | "E" ->
    let pub = (z_of_str f.(2), z_of_str f.(3)) in
    let mode = ZZ.of_string f.(4) and msg = bytes_of_hex f.(5) and rho = bytes_of_hex f.(6) in
    show (fun (c, rest) -> "ok " ^ hex_of_bytes c ^ " " ^ consumed rho rest) (encrypt (fuel_for rho) pub msg rho mode)
  | "EA" ->
    let pub = (z_of_str f.(2), z_of_str f.(3)) in
    let msg = bytes_of_hex f.(4) and rho = bytes_of_hex f.(5) in
    show (fun (c, rest) -> "ok " ^ hex_of_bytes c ^ " " ^ consumed rho rest) (encryptAsn1 (fuel_for rho) pub msg rho)
  | "D" ->
    let pr = key_of (z_of_str f.(2)) in
    show (fun m -> "ok " ^ hex_of_bytes m) (decrypt pr (bytes_of_hex f.(4)) (ZZ.of_string f.(3)))
  | "DA" ->
    let pr = key_of (z_of_str f.(2)) in
    show (fun m -> "ok " ^ hex_of_bytes m) (decryptAsn1 pr (bytes_of_hex f.(3)))
  | "DP" ->
    let pr = key_of (z_of_str f.(2)) in
    show (fun m -> "ok " ^ hex_of_bytes m) (privateKey_Decrypt pr (bytes_of_hex f.(3)))
  | "T" ->
    (* consumer leg of C02: eccKeyAgreementGM.processClientKeyExchange *)
    let pr = key_of (z_of_str f.(2)) in
    show (fun m -> "ok " ^ hex_of_bytes m) (processClientKeyExchange pr (bytes_of_hex f.(3)))
  | "Q" ->
    (* consumer leg of C02: PKCS#7 enveloped data, key transport by SM2: the content comes out iff the
       wrapped key decrypts (the symmetric layer belongs to C17) *)
    let pr = key_of (z_of_str f.(2)) in
    (match decrypt pr (bytes_of_hex f.(4)) (ZZ.of_string f.(3)) with
     | Ok _ -> "ok " ^ f.(5)
     | Err _ -> "err" | Panic -> "PANIC" | Hang -> "HANG")
  | "M" -> show (fun m -> "ok " ^ hex_of_bytes m) (cipherMarshal (bytes_of_hex f.(2)))
  | "U" -> show (fun m -> "ok " ^ hex_of_bytes m) (cipherUnmarshal (bytes_of_hex f.(2)))
  (* ---- C13 ---- *)
  | "K" ->
    let klen = ZZ.of_string f.(3) in
    let ida = bytes_of_hex f.(4) and idb = bytes_of_hex f.(5) in
    let pri = key_of (z_of_str f.(6)) in
    let pub = (z_of_str f.(7), z_of_str f.(8)) in
    let rpri = key_of (z_of_str f.(9)) in
    let rpub = (z_of_str f.(10), z_of_str f.(11)) in
    let kx = if f.(2) = "A" then keyExchangeA else keyExchangeB in
    show (fun ((k, s1), s2) -> "ok " ^ hex_of_bytes k ^ " " ^ hex_of_bytes s1 ^ " " ^ hex_of_bytes s2)
      (kx klen ida idb pri pub rpri rpub)
  | _ -> "SKIP"

let run_file (path : string) (f : string array -> string) : unit =
  let ic = open_in path in
  (try
    while true do
      let line = String.trim (input_line ic) in
      if line <> "" then begin
        let fields = Array.of_list (String.split_on_char ' ' line) in
        let r = try f fields with e -> "RUNNER-EXCEPTION " ^ Printexc.to_string e in
        print_string fields.(1); print_char ' '; print_endline r
      end
    done
  with End_of_file -> ());
  close_in ic

let () = run_file Sys.argv.(1) handle
