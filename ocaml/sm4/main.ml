(* Runner for the extracted SM4 block model: reads C05 case lines, prints model observations. *)
open Sm4_model
open Conv

let show (ok : 'a -> string) (o : 'a outcome) : string =
  match o with
  | Ok a -> ok a
  | Err _ -> "err"
  | Panic -> "PANIC"
  | Hang -> "HANG"

let bind o f = match o with Ok a -> f a | Err e -> Err e | Panic -> Panic | Hang -> Hang

let handle (f : string array) : string =
  match f.(0) with
  | "E" | "D" ->
    let key = bytes_of_hex f.(2) and blk = bytes_of_hex f.(3) in
    show (fun (_, out) -> "ok " ^ hex_of_bytes out)
      (bind (newCipher key) (fun c -> if f.(0) = "E" then encrypt c zero_r blk else decrypt c zero_r blk))
  | "H" ->
    let key = bytes_of_hex f.(2) in
    let ops = List.map (fun s -> (s.[0] = 'd', bytes_of_hex (String.sub s 1 (String.length s - 1)))) (split_list f.(3)) in
    show (fun outs -> "ok " ^ String.concat "," (List.map hex_of_bytes outs))
      (bind (newCipher key) (fun c -> run_history c ops))
  | "N" ->
    (* NewCipher read the key VALUES; what the caller writes into its key buffer afterwards is not an input of the object *)
    let key = bytes_of_hex f.(2) in
    let ops = List.map (fun s -> (s.[0] = 'd', bytes_of_hex (String.sub s 1 (String.length s - 1)))) (split_list f.(4)) in
    show (fun outs -> "ok " ^ String.concat "," (List.map hex_of_bytes outs) ^ " " ^ f.(3))
      (bind (newCipher key) (fun c -> run_history c ops))
  | "A" ->
    let key = bytes_of_hex f.(2) in
    let mem = bytes_of_hex f.(4) in
    let doff = nat_of_int (int_of_string f.(5)) and soff = nat_of_int (int_of_string f.(6)) in
    show (fun m -> "ok " ^ hex_of_bytes m)
      (bind (newCipher key) (fun c -> crypt_mem c mem doff soff (f.(3) = "d")))
  | "K" ->
    show (fun c -> "ok " ^ string_of_int (int_of_n (blockSize_method c))) (newCipher (bytes_of_hex f.(2)))
  | "M" ->
    let key = bytes_of_hex f.(2) and blk = bytes_of_hex f.(3) in
    let n = int_of_string f.(4) in
    (* the loop is driven from here so that no unary nat of size n is built *)
    (match newCipher key with
     | Ok c ->
       let rec go i buf = if i = 0 then "ok " ^ hex_of_bytes buf else
         (match encrypt c buf buf with Ok (_, b) -> go (i - 1) b | Err _ -> "err" | Panic -> "PANIC" | Hang -> "HANG") in
       go n blk
     | Err _ -> "err" | Panic -> "PANIC" | Hang -> "HANG")
  | _ -> "BADCASE"

let () = run_file Sys.argv.(1) handle
