(* Runner for the extracted handshake models (coq/HS): reads C15 / C08 case lines, prints model observations.
   Case kinds: S (scripted peer against one endpoint), H (honest client against honest server), V (version gate),
   PK / PS / PR / PH (byte-level parsers), A (C08 attack scripts, see harness/cmd/c08). *)
open Hs_model
open Conv

let n = n_of_int
let hexn (s : string) : n = n_of_int (int_of_string ("0x" ^ s))

(* ---- the certificates and keys of /repo/gmtls/websvr/certs as terms ---------------------------------- *)
let kIND_SM2 = n 1 and kIND_RSA = n 2 and kIND_ECDSA = n 3
let k_sig = n 101 and k_enc = n 102 and k_auth = n 103 and k_rsa = n 104 and k_rsaauth = n 105
and k_ca = n 106 and k_p256 = n 107 and k_other = n 199
let c_sig = TCert (n 1, kIND_SM2, n 1, k_sig)
let c_enc = TCert (n 2, kIND_SM2, n 2, k_enc)
let c_auth = TCert (n 3, kIND_SM2, n 1, k_auth)
let c_rsa = TCert (n 4, kIND_RSA, n 3, k_rsa)
let c_rsaauth = TCert (n 5, kIND_RSA, n 3, k_rsaauth)
let c_ca = TCert (n 6, kIND_SM2, n 0, k_ca)
let c_p256 = TCert (n 7, kIND_ECDSA, n 1, k_p256)
let cert_of_name = function
  | "sig" -> c_sig | "enc" -> c_enc | "auth" -> c_auth | "rsa" -> c_rsa | "rsaauth" -> c_rsaauth
  | "ca" -> c_ca | "p256" -> c_p256 | "bad" -> TJunk (n 1)
  | s -> failwith ("unknown certificate " ^ s)

(* certificates for which Verify(RootCAs={SM2_CA,RSA_CA}, ServerName "localhost", 2025) returns a chain *)
let server_trusted = [c_sig; c_enc; c_rsa; c_rsaauth]
(* certificates for which Verify(ClientCAs={SM2_CA,RSA_CA}, EKU clientAuth) returns a chain *)
let client_trusted = [c_sig; c_enc; c_auth; c_rsa; c_rsaauth; c_ca]

(* randomness of the victim / of the peer *)
let r_client = n 11 and r_pms = n 12 and r_sid = n 13 and r_ceph = n 14
let r_server = n 21 and r_seph = n 22 and r_fresh = n 23 and ticket_key = n 200
let peer_cr = TRand (n 31) and peer_sr = TRand (n 32)

(* ---- cfg field ----------------------------------------------------------------------------------------- *)
let parse_cfg (s : string) : (string * string) list =
  List.map (fun kv -> match String.index_opt kv '=' with
    | Some i -> (String.sub kv 0 i, String.sub kv (i + 1) (String.length kv - i - 1))
    | None -> (kv, "")) (String.split_on_char ',' s)
let get cfg k = try List.assoc k cfg with Not_found -> "0"
let flag cfg k = get cfg k = "1"
let suites_of (s : string) : n list =
  if s = "-" || s = "" then [] else List.map hexn (String.split_on_char '.' s)

let in_table tbl id = match find_suite tbl id with Some _ -> true | None -> false
let tls12_only id = match find_suite cipherSuites id with Some s -> s.su_tls12 | None -> false
let ltn a b = int_of_n a < int_of_n b

(* hello.cipherSuites as makeClientHelloGM / makeClientHello build it *)
let client_suites gm maxv (su : string) : n list =
  let configured = if su = "d" then (if gm then default_gm_suite_ids else default_tls_suite_ids) else suites_of su in
  if gm then List.filter (in_table gmCipherSuites) configured
  else List.filter (fun id -> in_table cipherSuites id && not (ltn maxv (n 771) && tls12_only id)) configured

let client_config gm cfg session (rr, rp, rs, re) : cconfig =
  let maxv = let m = get cfg "mv" in if m = "0" || m = "" then n 771 else hexn m in
  { c_gm = gm; c_maxv = maxv; c_suites = client_suites gm maxv (get cfg "su"); c_verify = flag cfg "vf";
    c_trusted = server_trusted;
    c_cert = (if flag cfg "cc" then Some (if gm then (c_auth, k_auth) else (c_rsaauth, k_rsaauth)) else None);
    c_cache = flag cfg "tk"; c_session = session; c_rand = rr; c_pms = rp; c_sid = rs; c_eph = re }

let server_config mode cfg ~(own_suites : bool) : sconfig =
  { s_mode = mode;
    s_suites = (if own_suites && get cfg "su" <> "d" then Some (suites_of (get cfg "su")) else None);
    s_prefer_server = false; s_auth = n (int_of_string (get cfg "auth"));
    s_client_trusted = client_trusted;
    s_gm_certs = (match mode with TLSOnly -> [] | _ -> [(c_sig, k_sig); (c_enc, k_enc)]);
    s_tls_cert = (match mode with GMOnly -> None | _ -> Some (c_rsa, k_rsa));
    s_tickets = flag cfg "tk"; s_ticket_key = ticket_key; s_npn = flag cfg "np";
    s_rand = r_server; s_eph = r_seph; s_fresh = r_fresh }

let mode_of_role = function
  | "sg" -> GMOnly | "sa" -> AutoSwitch | "st" -> TLSOnly | r -> failwith ("bad server role " ^ r)

(* ---- abstract script tokens ------------------------------------------------------------------------------ *)
let has (flags : string) (c : char) = String.contains flags c

(* victim_cr / victim_sr: the randoms a genuine signature is made over; enc_key: the key a genuine
   ClientKeyExchange is encrypted to *)
let input_of_token ~(cr : term) ~(sr : term) ~(ckx_key : n) (tok : string) : input =
  let f = Array.of_list (String.split_on_char ',' tok) in
  match f.(0) with
  | "CH" ->
    let fl = f.(3) in
    IHs (MClientHello { ch_vers = hexn f.(1); ch_random = peer_cr; ch_session_id = TNil; ch_suites = suites_of f.(2);
      ch_comp_null = has fl 'c'; ch_reneg_nonempty = has fl 'R'; ch_ticket_supported = has fl 'T'; ch_ticket = TNil;
      ch_npn = has fl 'N'; ch_alpn = has fl 'A'; ch_elliptic_ok = has fl 'E'; ch_ocsp = has fl 'O' })
  | "SH" ->
    let fl = f.(3) in
    IHs (MServerHello { sh_vers = hexn f.(1); sh_random = peer_sr; sh_session_id = TNil; sh_suite = hexn f.(2);
      sh_comp_null = has fl 'c'; sh_reneg_nonempty = has fl 'R'; sh_ticket_supported = has fl 'T';
      sh_npn = has fl 'N'; sh_alpn = has fl 'A'; sh_ocsp = has fl 'O' })
  | "CERT" ->
    IHs (MCertificate (if f.(1) = "-" then [] else List.map cert_of_name (String.split_on_char '.' f.(1))))
  | "SKX" ->
    let sg = match f.(2) with
      | "good" -> TSig (k_sig, skx_payload cr sr c_enc)
      | "rnd" -> TSig (k_sig, skx_payload (TRand (n 98)) (TRand (n 99)) c_enc)
      | "enc2" -> TSig (k_sig, skx_payload cr sr c_sig)
      | "key2" -> TSig (k_auth, skx_payload cr sr c_enc)
      | _ -> TJunk (n 7) in
    IHs (MServerKeyExchange (f.(1) = "ok", TNil, sg))
  | "CR" -> IHs MCertificateRequest
  | "SHD" -> IHs MServerHelloDone
  | "CKX" ->
    let ct = match f.(2) with
      | "good" -> TEnc (TPub ckx_key, TPMS (n 77))
      | "key2" -> TEnc (TPub k_other, TPMS (n 77))
      | "short" -> TEnc (TPub ckx_key, TJunk (n 47))
      | _ -> TJunk (n 8) in
    IHs (MClientKeyExchange (f.(1) = "ok", ct))
  | "CV" -> IHs (MCertificateVerify (true, TJunk (n 9)))
  | "FIN" -> IHs (MFinished (TJunk (n 10)))
  | "NST" -> IHs (MNewSessionTicket (TJunk (n 11)))
  | "CST" -> IHs MCertificateStatus
  | "NPN" -> IHs MNextProtocol
  | "HRQ" -> IHs MHelloRequest
  | "MAL" -> IHsMalformed (n (int_of_string f.(1)))
  | "UNK" -> IHsUnknown
  | "LONG" -> IHsTooLong
  | "CCS" -> ICCS true
  | "CCSB" -> ICCS false
  | "AL" -> IAlert (n (int_of_string f.(1)), n (int_of_string f.(2)))
  | "ALB" -> IAlertBad
  | "APP" -> IAppData
  | "REC" -> IBadRecord
  | "EOF" -> IEOF
  | t -> failwith ("unknown token " ^ t)

let tokens (s : string) : string list = if s = "-" || s = "" then [] else String.split_on_char ';' s

let show_result = function
  | RComplete _ -> "ok" | RError -> "err" | RPanic -> "PANIC" | RHang -> "HANG" | RWaiting _ -> "WAIT"

(* the first ClientHello token decides which key a "good" ClientKeyExchange is for (auto-switch server) *)
let first_ch_is_gm (toks : string list) : bool =
  match List.filter (fun t -> String.length t > 3 && String.sub t 0 3 = "CH,") toks with
  | t :: _ -> (match String.split_on_char ',' t with _ :: v :: _ -> v = "0101" | _ -> true)
  | [] -> true

let run_script (role : string) (cfgs : string) (script : string) : string =
  let cfg = parse_cfg cfgs in
  let toks = tokens script in
  match role with
  | "cg" | "ct" ->
    let c = client_config (role = "cg") cfg None (r_client, r_pms, r_sid, r_ceph) in
    let ins = List.map (input_of_token ~cr:(TRand r_client) ~sr:peer_sr ~ckx_key:k_enc) toks @ [IEOF] in
    show_result (client_run c ins)
  | _ ->
    let mode = mode_of_role role in
    let s = server_config mode cfg ~own_suites:true in
    let key = match mode with GMOnly -> k_enc | TLSOnly -> k_rsa | AutoSwitch -> if first_ch_is_gm toks then k_enc else k_rsa in
    let ins = List.map (input_of_token ~cr:peer_cr ~sr:(TRand r_server) ~ckx_key:key) toks @ [IEOF] in
    show_result (server_run s ins)

(* ---- honest pairs -------------------------------------------------------------------------------------------- *)
let show_pstat = function PDone -> "ok" | PFailed -> "err" | PCrashed -> "PANIC" | PRunning -> "HANG"

let run_pair (pair : string) (cfgs : string) : string =
  let cfg = parse_cfg cfgs in
  let gm = pair.[0] = 'g' in
  let mode = match pair.[1] with 'g' -> GMOnly | 'a' -> AutoSwitch | _ -> TLSOnly in
  let scfg = server_config mode cfg ~own_suites:false in
  let c1 = client_config gm cfg None (r_client, r_pms, r_sid, r_ceph) in
  let ((cst, cstat), (sst, sstat)) = pair_run c1 scfg in
  if not (flag cfg "rs") then
    Printf.sprintf "%s %s %d" (show_pstat cstat) (show_pstat sstat) (if cst.cs_resumed then 1 else 0)
  else begin
    (* second connection with the session the first one left in the client's cache *)
    let session =
      match cstat, sstat with
      | PDone, PDone when sst.ss_ticket ->
        Some ((encryptTicket ticket_key (session_state sst.ss_vers sst.ss_suite sst.ss_master sst.ss_peer), sst.ss_suite),
              cst.cs_master)
      | _ -> None in
    let c2 = client_config gm cfg session (n 41, n 42, n 43, n 44) in
    let scfg2 = { scfg with s_rand = n 51; s_eph = n 52; s_fresh = n 53 } in
    let ((cst2, cstat2), (_, sstat2)) = pair_run c2 scfg2 in
    Printf.sprintf "%s %s %d" (show_pstat cstat2) (show_pstat sstat2) (if cst2.cs_resumed then 1 else 0)
  end

(* ---- version gate ---------------------------------------------------------------------------------------------- *)
let hex4 (x : n) = Printf.sprintf "%04x" (int_of_n x)

let rec run_vgate (role : string) (vers : string) (suiteset : string) : string = run_vgate_c role vers suiteset "00"
and run_vgate_c (role : string) (vers : string) (suiteset : string) (comp : string) : string =
  let mode = mode_of_role role in
  let cfg = parse_cfg "auth=0,su=d,cc=0,vf=0,tk=0,np=0" in
  let s = server_config mode cfg ~own_suites:false in
  let gmids = [hexn "e013"; hexn "e053"] and tlsids = [hexn "002f"; hexn "c02f"; hexn "c013"; hexn "009c"] in
  let suites = match suiteset with "gm" -> gmids | "tls" -> tlsids | _ -> gmids @ tlsids in
  let ch = { ch_vers = hexn vers; ch_random = peer_cr; ch_session_id = TNil; ch_suites = suites;
             ch_comp_null = comp_offers_null (bytes_of_hex comp);
             ch_reneg_nonempty = false; ch_ticket_supported = false; ch_ticket = TNil; ch_npn = false; ch_alpn = false;
             ch_elliptic_ok = true; ch_ocsp = false } in
  let (st, _) = server_step s server_init (IHs (MClientHello ch)) in
  let rec find = function
    | OHs (MServerHello sh) :: _ -> Printf.sprintf "acc %s %s" (hex4 sh.sh_vers) (hex4 sh.sh_suite)
    | _ :: r -> find r
    | [] -> "rej" in
  find st.ss_out

(* ---- C08: attack scripts at term level ------------------------------------------------------------------------- *)
(* certificates of the driver's untrusted CA *)
let k_usig = n 111 and k_uenc = n 112 and k_uauth = n 113
let c_usig = TCert (n 11, kIND_SM2, n 1, k_usig)
let c_uenc = TCert (n 12, kIND_SM2, n 2, k_uenc)
let c_uauth = TCert (n 13, kIND_SM2, n 1, k_uauth)

let id_t (i : input) : input list = [i]

let c08_client ~suite ~cert ~trusted : cconfig =
  { c_gm = true; c_maxv = n 771; c_suites = [hexn suite]; c_verify = true; c_trusted = trusted; c_cert = cert;
    c_cache = false; c_session = None; c_rand = r_client; c_pms = r_pms; c_sid = r_sid; c_eph = r_ceph }

let c08_server ~auth ~certs ~client_trusted : sconfig =
  { s_mode = GMOnly; s_suites = None; s_prefer_server = false; s_auth = n auth; s_client_trusted = client_trusted;
    s_gm_certs = certs; s_tls_cert = None; s_tickets = false; s_ticket_key = ticket_key; s_npn = false;
    s_rand = r_server; s_eph = r_seph; s_fresh = r_fresh }

let genuine = [(c_sig, k_sig); (c_enc, k_enc)]
let cr_t = TRand r_client and sr_t = TRand r_server

(* malicious server against the verifying client model *)
let run_as_gm (suite : string) (attack : string) (cfgs : string) : string =
  let cfg = parse_cfg cfgs in
  let cert = if flag cfg "cc" then Some (c_auth, k_auth) else None in
  let auth = if flag cfg "cr" then 1 else 0 in
  let ends_with suf = let ls = String.length suf and la = String.length attack in la > ls && String.sub attack (la - ls) ls = suf in
  let trusted = match attack with
    | "expired" | "notyet" | "wrongname" -> []
    | _ when ends_with "_enc" && not (attack = "untrusted_enc" || attack = "mimic_root_enc" || attack = "rsa_enc") -> [c_sig]   (* the encryption certificate alone fails Verify *)
    | _ when ends_with "_sig" && not (attack = "untrusted_sig" || attack = "mimic_root_sig" || attack = "rsa_sig") -> [c_enc]   (* the signing certificate alone *)
    | _ -> [c_sig; c_enc] in
  let certs = match attack with
    | "sigkey" -> [(c_sig, k_other); (c_enc, k_enc)]
    | "enckey" -> [(c_sig, k_sig); (c_enc, k_other)]
    | "untrusted" | "mimic_root" -> [(c_usig, k_usig); (c_uenc, k_uenc)]      (* mimic_*: not issued by the CA, whatever names they copy *)
    | "untrusted_sig" | "mimic_root_sig" -> [(c_usig, k_usig); (c_enc, k_enc)]
    | "untrusted_enc" | "mimic_root_enc" -> [(c_sig, k_sig); (c_uenc, k_uenc)]
    | "rsa" -> [(c_rsa, k_rsa); (c_rsa, k_rsa)]
    | "rsa_enc" -> [(c_sig, k_sig); (c_rsa, k_rsa)]
    | "rsa_sig" -> [(c_rsa, k_rsa); (c_enc, k_enc)]
    | "swapped_roles" -> [(c_enc, k_enc); (c_sig, k_sig)]
    | "threecerts" -> genuine @ [(c_ca, k_ca)]
    | _ -> genuine in
  let skx sg = [IHs (MServerKeyExchange (true, TNil, sg))] in
  let ts (i : input) : input list =
    match attack, i with
    | "swapped", IHs (MCertificate [a; b]) -> [IHs (MCertificate [b; a])]
    | "onecert", IHs (MCertificate (a :: _)) -> [IHs (MCertificate [a])]
    | "skx_rnd", IHs (MServerKeyExchange _) -> skx (TSig (k_sig, skx_payload (TRand (n 98)) (TRand (n 99)) c_enc))
    | "skx_cr", IHs (MServerKeyExchange _) -> skx (TSig (k_sig, skx_payload (TRand (n 98)) sr_t c_enc))
    | "skx_sr", IHs (MServerKeyExchange _) -> skx (TSig (k_sig, skx_payload cr_t (TRand (n 99)) c_enc))
    | "skx_enc2", IHs (MServerKeyExchange _) -> skx (TSig (k_sig, skx_payload cr_t sr_t c_sig))
    | "skx_key2", IHs (MServerKeyExchange _) -> skx (TSig (k_auth, skx_payload cr_t sr_t c_enc))
    | "skx_enckey", IHs (MServerKeyExchange _) -> skx (TSig (k_enc, skx_payload cr_t sr_t c_enc))   (* the holder of the ENCRYPTION key signs *)
    | "skx_omit", IHs (MServerKeyExchange _) -> []
    | "skx_junk", IHs (MServerKeyExchange _) -> skx (TJunk (n 7))
    | "skx_len", IHs (MServerKeyExchange (_, p, sg)) -> [IHs (MServerKeyExchange (false, p, sg))]
    | ("fin_bad" | "fin_label"), IHs (MFinished _) -> [IHs (MFinished (TJunk (n 10)))]
    | _ -> [i] in
  let c = c08_client ~suite ~cert ~trusted in
  let s = c08_server ~auth ~certs ~client_trusted:[c_auth] in
  let ((_, cstat), _) = pair_run_t id_t ts c s in
  show_pstat cstat

(* replace every occurrence of the term o by n *)
let rec subst_term (o : term) (nw : term) (t : term) : term =
  if term_eqb t o then nw else
  match t with
  | TPair (a, b) -> TPair (subst_term o nw a, subst_term o nw b)
  | TEnc (a, b) -> TEnc (subst_term o nw a, subst_term o nw b)
  | TSig (k, p) -> TSig (k, subst_term o nw p)
  | TPRF (a, b, c) -> TPRF (subst_term o nw a, subst_term o nw b, subst_term o nw c)
  | THash a -> THash (subst_term o nw a)
  | _ -> t

(* malicious client against the server model *)
let run_ac_gm (suite : string) (attack : string) (auth : string) : string =
  let cert = match attack with
    | "honest_nocert" | "nocertmsg" -> None
    | "untrusted_cert" | "mimic_root_cert" -> Some (c_uauth, k_uauth)   (* not issued by the client CA, whatever names it copies *)
    | "chain_key2" -> Some (c_auth, k_uauth)                            (* the leaf of someone else, the attacker's own key *)
    | _ -> Some (c_auth, k_auth) in
  let client_trusted = match attack with "expired_cert" -> [] | _ -> [c_auth] in
  (* chain_*: the Certificate message carries [leaf; attacker's certificate]; what the client signs and MACs afterwards
     covers the message as sent *)
  let one = enc_hmsg (MCertificate [c_auth]) and two = enc_hmsg (MCertificate [c_auth; c_uauth]) in
  let chain = (attack = "chain_honest" || attack = "chain_key2") in
  let tc (i : input) : input list =
    match attack, i with
    | _, IHs (MCertificate [c]) when chain && term_eqb c c_auth -> [IHs (MCertificate [c_auth; c_uauth])]
    | _, IHs (MCertificateVerify (a, sg)) when chain -> [IHs (MCertificateVerify (a, subst_term one two sg))]
    | _, IHs (MFinished vd) when chain -> [IHs (MFinished (subst_term one two vd))]
    | "nocertmsg", IHs (MCertificate _) -> []
    | "cv_omit", IHs (MCertificateVerify _) -> []
    | "cv_key2", IHs (MCertificateVerify (a, TSig (_, p))) -> [IHs (MCertificateVerify (a, TSig (k_other, p)))]
    | "cv_junk", IHs (MCertificateVerify (a, _)) -> [IHs (MCertificateVerify (a, TJunk (n 9)))]
    | "cv_replay", IHs (MCertificateVerify (a, _)) -> [IHs (MCertificateVerify (a, TSig (k_auth, THash (TJunk (n 5)))))]
    | "cv_early", IHs (MCertificateVerify (a, _)) -> [IHs (MCertificateVerify (a, TSig (k_auth, THash (TJunk (n 6)))))]
    | "ckx_key2", IHs (MClientKeyExchange (l, _)) -> [IHs (MClientKeyExchange (l, TEnc (TPub k_other, TPMS (n 77))))]
    | "ckx_replay", IHs (MClientKeyExchange (l, _)) -> [IHs (MClientKeyExchange (l, TEnc (TPub k_enc, TPMS (n 88))))]
    | ("fin_bad" | "fin_label"), IHs (MFinished _) -> [IHs (MFinished (TJunk (n 10)))]
    | _ -> [i] in
  let c = { (c08_client ~suite ~cert ~trusted:[c_sig; c_enc]) with c_verify = false } in
  let s = c08_server ~auth:(int_of_string auth) ~certs:genuine ~client_trusted in
  let (_, (_, sstat)) = pair_run_t tc id_t c s in
  show_pstat sstat

(* ---- C08 on the standard-TLS path: the same catalogue against the TLS client / server models ------------------------ *)
let k_ursa = n 114 and k_urauth = n 115
let c_ursa = TCert (n 14, kIND_RSA, n 3, k_ursa)
let c_urauth = TCert (n 15, kIND_RSA, n 3, k_urauth)
let is_gm_suite (suite : string) = (suite = "e013" || suite = "e053" || suite = "e011" || suite = "e051")

let tls_client ~suite ~cert ~trusted ~verify : cconfig =
  { c_gm = false; c_maxv = n 771; c_suites = [hexn suite]; c_verify = verify; c_trusted = trusted; c_cert = cert;
    c_cache = false; c_session = None; c_rand = r_client; c_pms = r_pms; c_sid = r_sid; c_eph = r_ceph }
let tls_server ~auth ~cert ~client_trusted : sconfig =
  { (c08_server ~auth ~certs:[] ~client_trusted) with s_mode = TLSOnly; s_tls_cert = Some cert }

let run_as_tls (suite : string) (attack : string) (cfgs : string) : string =
  let cfg = parse_cfg cfgs in
  let cert = if flag cfg "cc" then Some (c_rsaauth, k_rsaauth) else None in
  let auth = if flag cfg "cr" then 1 else 0 in
  let trusted = match attack with "expired" | "notyet" | "wrongname" -> [] | _ -> [c_rsa] in
  let scert = match attack with
    | "sigkey" -> (c_rsa, k_other) | "untrusted" | "mimic_root" -> (c_ursa, k_ursa) | "sm2cert" -> (c_sig, k_sig) | _ -> (c_rsa, k_rsa) in
  let ts (i : input) : input list =
    match attack, i with
    | "skx_rnd", IHs (MServerKeyExchange (l, p, _)) -> [IHs (MServerKeyExchange (l, p, TSig (k_rsa, skx_payload (TRand (n 98)) (TRand (n 99)) p)))]
    | "skx_cr", IHs (MServerKeyExchange (l, p, _)) -> [IHs (MServerKeyExchange (l, p, TSig (k_rsa, skx_payload (TRand (n 98)) sr_t p)))]
    | "skx_sr", IHs (MServerKeyExchange (l, p, _)) -> [IHs (MServerKeyExchange (l, p, TSig (k_rsa, skx_payload cr_t (TRand (n 99)) p)))]
    | "skx_key2", IHs (MServerKeyExchange (l, p, _)) -> [IHs (MServerKeyExchange (l, p, TSig (k_other, skx_payload cr_t sr_t p)))]
    | "skx_omit", IHs (MServerKeyExchange _) -> []
    | "skx_junk", IHs (MServerKeyExchange (l, p, _)) -> [IHs (MServerKeyExchange (l, p, TJunk (n 7)))]
    | "skx_junk", IHs (MCertificate _) when (suite = "002f" || suite = "009c") ->      (* RSA key exchange: the flight has no ServerKeyExchange *)
      [i; IHs (MServerKeyExchange (true, TJunk (n 7), TJunk (n 7)))]
    | "skx_unexpected", IHs (MCertificate _) ->
      [i; IHs (MServerKeyExchange (true, TPub r_seph, TSig (k_rsa, skx_payload cr_t sr_t (TPub r_seph))))]
    | ("fin_bad" | "fin_label"), IHs (MFinished _) -> [IHs (MFinished (TJunk (n 10)))]
    | _ -> [i] in
  let c = tls_client ~suite ~cert ~trusted ~verify:true in
  let s = tls_server ~auth ~cert:scert ~client_trusted:[c_rsaauth] in
  let ((_, cstat), _) = pair_run_t id_t ts c s in
  show_pstat cstat

let run_ac_tls (suite : string) (attack : string) (auth : string) : string =
  let cert = match attack with
    | "honest_nocert" | "nocertmsg" -> None
    | "untrusted_cert" | "mimic_root_cert" -> Some (c_urauth, k_urauth)
    | "chain_key2" -> Some (c_rsaauth, k_urauth)
    | _ -> Some (c_rsaauth, k_rsaauth) in
  let client_trusted = match attack with "expired_cert" -> [] | _ -> [c_rsaauth] in
  let one = enc_hmsg (MCertificate [c_rsaauth]) and two = enc_hmsg (MCertificate [c_rsaauth; c_urauth]) in
  let chain = (attack = "chain_honest" || attack = "chain_key2") in
  let tc (i : input) : input list =
    match attack, i with
    | _, IHs (MCertificate [c]) when chain && term_eqb c c_rsaauth -> [IHs (MCertificate [c_rsaauth; c_urauth])]
    | _, IHs (MCertificateVerify (a, sg)) when chain -> [IHs (MCertificateVerify (a, subst_term one two sg))]
    | _, IHs (MFinished vd) when chain -> [IHs (MFinished (subst_term one two vd))]
    | "nocertmsg", IHs (MCertificate _) -> []
    | "cv_omit", IHs (MCertificateVerify _) -> []
    | "cv_key2", IHs (MCertificateVerify (a, TSig (_, p))) -> [IHs (MCertificateVerify (a, TSig (k_other, p)))]
    | "cv_junk", IHs (MCertificateVerify (a, _)) -> [IHs (MCertificateVerify (a, TJunk (n 9)))]
    | ("cv_replay" | "cv_early"), IHs (MCertificateVerify (a, _)) -> [IHs (MCertificateVerify (a, TSig (k_rsaauth, THash (TJunk (n 5)))))]
    | "ckx_key2", IHs (MClientKeyExchange (l, _)) -> [IHs (MClientKeyExchange (l, TEnc (TPub k_other, TPMS (n 77))))]
    | "ckx_replay", IHs (MClientKeyExchange (l, _)) -> [IHs (MClientKeyExchange (l, TEnc (TPub k_rsa, TPMS (n 88))))]
    | ("fin_bad" | "fin_label"), IHs (MFinished _) -> [IHs (MFinished (TJunk (n 10)))]
    | _ -> [i] in
  let c = tls_client ~suite ~cert ~trusted:[c_rsa] ~verify:false in
  let s = tls_server ~auth:(int_of_string auth) ~cert:(c_rsa, k_rsa) ~client_trusted in
  let (_, (_, sstat)) = pair_run_t tc id_t c s in
  show_pstat sstat

let run_as suite attack cfgs = if is_gm_suite suite then run_as_gm suite attack cfgs else run_as_tls suite attack cfgs
let run_ac suite attack auth = if is_gm_suite suite then run_ac_gm suite attack auth else run_ac_tls suite attack auth

(* AV: honest pairs; VerifiedChains is set on the client iff it completed with verification on, on the server iff it
   completed under VerifyClientCertIfGiven / RequireAndVerifyClientCert with a certificate presented *)
let run_av (suite : string) (vf : string) (auth : string) (cc : string) : string =
  let a = int_of_string auth in
  let (c, s) =
    if is_gm_suite suite then
      ({ (c08_client ~suite ~cert:(if cc = "1" then Some (c_auth, k_auth) else None) ~trusted:[c_sig; c_enc]) with c_verify = (vf = "1") },
       c08_server ~auth:a ~certs:genuine ~client_trusted:[c_auth])
    else
      (tls_client ~suite ~cert:(if cc = "1" then Some (c_rsaauth, k_rsaauth) else None) ~trusted:[c_rsa] ~verify:(vf = "1"),
       tls_server ~auth:a ~cert:(c_rsa, k_rsa) ~client_trusted:[c_rsaauth]) in
  let ((_, cstat), (_, sstat)) = pair_run_t id_t id_t c s in
  let cvc = (cstat = PDone && vf = "1") and svc = (sstat = PDone && a >= 3 && cc = "1") in
  Printf.sprintf "%s %s %d %d" (show_pstat cstat) (show_pstat sstat) (if cvc then 1 else 0) (if svc then 1 else 0)

(* AH: two connections of one client configuration; the models have no state shared between connections, so the second
   connection is judged on its own *)
let rec run_ah (suite : string) (scenario : string) : string =
  if String.length scenario > 5 && String.sub scenario 0 5 = "cache" then run_ah_cache suite scenario
  else if String.length scenario > 7 && String.sub scenario 0 7 = "resume_" then run_ah_resume suite scenario
  else run_ah_ca suite scenario
(* C08 round-6 closure: resume_<change>_a<auth>: a GMSSL client with a session cache, servers with tickets on sharing the
   ticket key; connection 2 is run with the session connection 1 left behind against the server configuration as it is
   THEN (s_client_trusted = the certificates Verify accepts under the current Time / ClientCAs; s_auth = current policy).
   obs: <s1> <s2> <c2> <server resumed 2> <server VerifiedChains 2> *)
and run_ah_resume (suite : string) (scenario : string) : string =
  let (change, a1) = match String.split_on_char '_' scenario with
    | [_; ch; a] when String.length a = 2 -> (ch, int_of_string (String.sub a 1 1))
    | _ -> failwith ("bad resume scenario " ^ scenario) in
  let cfg = parse_cfg (Printf.sprintf "auth=%d,su=%s,cc=1,vf=1,tk=1,np=0" a1 suite) in
  let cert1 = match change with "tighten" -> Some (c_uauth, k_uauth) | "refused" -> None | _ -> Some (c_auth, k_auth) in
  let cert2 = match change with "refused" -> Some (c_uauth, k_uauth) | _ -> cert1 in
  let a2 = match change with "tighten" -> a1 + 2 | "refused" -> 4 | _ -> a1 in
  let trusted2 = match change with "expired" | "newca" -> [] | _ -> [c_auth] in
  let s1 = { (server_config GMOnly cfg ~own_suites:false) with s_client_trusted = [c_auth] } in
  let c1 = { (client_config true cfg None (r_client, r_pms, r_sid, r_ceph)) with c_cert = cert1 } in
  let ((cst, cstat), (sst, sstat)) = pair_run c1 s1 in
  let session =
    match cstat, sstat with
    | PDone, PDone when sst.ss_ticket ->
      Some ((encryptTicket ticket_key (session_state sst.ss_vers sst.ss_suite sst.ss_master sst.ss_peer), sst.ss_suite),
            cst.cs_master)
    | _ -> None in
  let c2 = { (client_config true cfg session (n 41, n 42, n 43, n 44)) with c_cert = cert2 } in
  let s2 = { s1 with s_auth = n a2; s_client_trusted = trusted2; s_rand = n 51; s_eph = n 52; s_fresh = n 53 } in
  let ((_, cstat2), (sst2, sstat2)) = pair_run c2 s2 in
  let has2 = (match cert2 with Some _ -> true | None -> false) in
  Printf.sprintf "%s %s %s %d %d" (show_pstat sstat) (show_pstat sstat2) (show_pstat cstat2)
    (if sstat2 = PDone && sst2.ss_resumed then 1 else 0) (if sstat2 = PDone && a2 >= 3 && has2 then 1 else 0)
(* three connections sharing a session cache: the first full, the second resumed; the third asks for a name - the models
   have no cache keyed by name: a session is offered only for the identity it was established with, so the third is a
   full handshake judged on its own: the certificate is not valid for the other name *)
and run_ah_cache (suite : string) (scenario : string) : string =
  let cfgs = "cc=0,cr=0" in
  let ok1 = run_as_tls suite "honest" cfgs in
  if scenario = "cache_same" then Printf.sprintf "%s %s %s 1 1" ok1 ok1 ok1
  else Printf.sprintf "%s %s %s 1 0" ok1 ok1 (run_as_tls suite "wrongname" cfgs)
and run_ah_ca (suite : string) (scenario : string) : string =
  let cfgs = "cc=0,cr=0" in
  let (a1, a2) = match scenario with
    | "ca_inject" -> ("skx_junk", "untrusted")
    | "ca_inject_ok_first" -> ("threecerts", "untrusted")
    | "untrusted_only" -> ("honest", "untrusted")
    | _ -> ("honest", "honest") in
  run_as_gm suite a1 cfgs ^ " " ^ run_as_gm suite a2 cfgs

(* man in the middle between the two honest models: one field of one message rewritten *)
let hs_type = function
  | "CH" -> 1 | "SH" -> 2 | "CERT" | "CCERT" -> 11 | "SKX" -> 12 | "CR" -> 13 | "SHD" -> 14 | "CV" -> 15 | "CKX" -> 16
  | "CFIN" | "SFIN" -> 20 | _ -> 0

let is_msg (name : string) (i : input) : bool =
  match name, i with
  | "CH", IHs (MClientHello _) | "SH", IHs (MServerHello _) | ("CERT" | "CCERT"), IHs (MCertificate _)
  | "SKX", IHs (MServerKeyExchange _) | "CR", IHs MCertificateRequest | "SHD", IHs MServerHelloDone
  | "CKX", IHs (MClientKeyExchange _) | "CV", IHs (MCertificateVerify _) | "CCS", ICCS _
  | ("CFIN" | "SFIN"), IHs (MFinished _) -> true
  | _ -> false

let starts_with (s : string) (p : string) = String.length s >= String.length p && String.sub s 0 (String.length p) = p

let tamper_field (name : string) (field : string) (i : input) : input list =
  let mal = [IHsMalformed (n (hs_type name))] in
  let replace_nth l k x = List.mapi (fun j y -> if j = k then x else y) l in
  match i with
  | ICCS _ -> [ICCS false]
  | IHs m ->
    if field = "type" || field = "len3" then mal
    else (match m with
      | MClientHello ch ->
        (match field with
         | "vers" -> [IHs (MClientHello { ch with ch_vers = n 256 })]
         | "random" -> [IHs (MClientHello { ch with ch_random = TRand (n 999) })]
         | "sid" -> [IHs (MClientHello { ch with ch_session_id = TJunk (n 3) })]
         | "suites" -> [IHs (MClientHello { ch with ch_suites = [n 1] })]
         | "comp" -> [IHs (MClientHello { ch with ch_comp_null = false })]
         | "ext" -> [IHs (MClientHello { ch with ch_ocsp = not ch.ch_ocsp })]
         | _ -> mal)
      | MServerHello sh ->
        (match field with
         | "vers" -> [IHs (MServerHello { sh with sh_vers = n 256 })]
         | "random" -> [IHs (MServerHello { sh with sh_random = TRand (n 998) })]
         | "sid" -> [IHs (MServerHello { sh with sh_session_id = TJunk (n 3) })]
         | "suite" -> [IHs (MServerHello { sh with sh_suite = n 1 })]
         | "comp" -> [IHs (MServerHello { sh with sh_comp_null = false })]
         | "ext" -> [IHs (MServerHello { sh with sh_ocsp = not sh.sh_ocsp })]
         | _ -> mal)
      | MCertificate l ->
        if starts_with field "certlen" || field = "listlen" then mal
        else if starts_with field "cert" then
          let k = int_of_string (String.sub field 4 (String.length field - 4)) in
          [IHs (MCertificate (replace_nth l k (TJunk (n 1))))]
        else mal
      | MServerKeyExchange (l, p, sg) ->
        if field = "siglen" then [IHs (MServerKeyExchange (false, p, sg))] else [IHs (MServerKeyExchange (l, p, TJunk (n 7)))]
      | MClientKeyExchange (l, ct) ->
        if field = "ctlen" then [IHs (MClientKeyExchange (false, ct))] else [IHs (MClientKeyExchange (l, TJunk (n 8)))]
      | MCertificateVerify (a, sg) ->
        if field = "siglen" then mal else [IHs (MCertificateVerify (a, TJunk (n 9)))]
      | MFinished _ -> [IHs (MFinished (TJunk (n 10)))]
      | _ -> mal)
  | _ -> [i]

let run_am (suite : string) (auth : string) (cc : string) (dir : string) (msg : string) (field : string) : string =
  let cert = if cc = "1" then Some (c_auth, k_auth) else None in
  let c = c08_client ~suite ~cert ~trusted:[c_sig; c_enc] in
  let s = c08_server ~auth:(int_of_string auth) ~certs:genuine ~client_trusted:[c_auth] in
  let t (i : input) = if is_msg msg i then tamper_field msg field i else [i] in
  let tc = if dir = "c2s" then t else id_t and ts = if dir = "s2c" then t else id_t in
  let ((cst, cstat), (sst, sstat)) = pair_run_t tc ts c s in
  let same = match cstat, sstat with
    | PDone, PDone -> if term_eqb (tlist cst.cs_tr) (tlist sst.ss_tr) && term_eqb cst.cs_master sst.ss_master then "1" else "0"
    | _ -> "-" in
  Printf.sprintf "%s %s %s" (show_pstat cstat) (show_pstat sstat) same

(* ---- C15 R cases: an honest peer model whose flights are re-packed into records ------------------------------------ *)
let msg_name_c2s (o : output) : string = match o with
  | OCCS -> "CCS"
  | OHs (MClientHello _) -> "CH" | OHs (MCertificate _) -> "CCERT" | OHs (MClientKeyExchange _) -> "CKX"
  | OHs (MCertificateVerify _) -> "CV" | OHs (MFinished _) -> "FIN" | _ -> "?"
let msg_name_s2c (o : output) : string = match o with
  | OCCS -> "CCS"
  | OHs (MServerHello _) -> "SH" | OHs (MCertificate _) -> "CERT" | OHs (MServerKeyExchange _) -> "SKX"
  | OHs MCertificateRequest -> "CR" | OHs MServerHelloDone -> "SHD" | OHs (MNewSessionTicket _) -> "NST"
  | OHs (MFinished _) -> "FIN" | _ -> "?"

(* one flight "A+B|C|D" over the attacker's outputs -> records; names without a message are skipped *)
let protect_plus (s : string) : string =
  (* the tokens CKXL+1 / CKXH+1 contain the coalescing sign *)
  let b = Buffer.create (String.length s) in
  let n = String.length s in
  let i = ref 0 in
  while !i < n do
    if !i + 6 <= n && (String.sub s !i 6 = "CKXL+1" || String.sub s !i 6 = "CKXH+1")
    then (Buffer.add_string b (String.sub s !i 4); Buffer.add_string b "p1"; i := !i + 6)
    else (Buffer.add_char b s.[!i]; incr i)
  done; Buffer.contents b

let pack_flight (name_of : output -> string) (outs : output list) (flight0 : string) : record list =
  let flight = protect_plus flight0 in
  let find nm = List.find_opt (fun o -> name_of o = nm) outs in
  List.concat_map (fun recs ->
      let names = String.split_on_char '+' recs in
      if names = ["CCS"] then (match find "CCS" with Some _ -> [RCCS true] | None -> [RCCS true])
      else if names = ["HR"] then [RHs [HMsg MHelloRequest]]        (* a HelloRequest in a handshake record of its own *)
      else if names = ["HX"] then [RHs [HUnknown]]                  (* a handshake record with an unknown message type *)
      else
        let ckx_variant nm =
          (* CKXT<n>: trailing bytes the inner length does not cover; CKXL+1 / CKXL-1: inner length off by one: the length
             logic refuses.  CKXH+1: one more byte with BOTH lengths one longer - consistent length fields; the SM2
             ciphertext decoding (sm2.CipherUnmarshal, encoding/asn1) ignores what follows the ASN.1 structure, so this
             is the same ciphertext to the key agreement (observation; the decoder's leniency belongs to C02 / C18) *)
          match find "CKX" with
          | Some (OHs (MClientKeyExchange (_, ct))) ->
            if nm = "CKXHp1" then [HMsg (MClientKeyExchange (true, ct))] else [HMsg (MClientKeyExchange (false, ct))]
          | _ -> [] in
        let items = List.concat_map (fun nm ->
            if String.length nm > 3 && String.sub nm 0 3 = "CKX" then ckx_variant nm
            else match find nm with Some (OHs m) -> [HMsg m] | _ -> []) names in
        if items = [] then [] else [RHs items])
    (String.split_on_char '|' flight)

let flights (packing : string) : string list = String.split_on_char '/' packing
let nth_flight fl k = try List.nth fl k with _ -> ""

let run_r (victim : string) (suite : string) (cfgs : string) (chv : string) (packing : string) : string =
  let cfg = parse_cfg cfgs in
  let fl = flights packing in
  let tls = (victim = "st" || victim = "ct") in
  let cert = if flag cfg "cc" then Some (c_auth, k_auth) else None in
  (* the two honest models: GMSSL, or standard TLS with the one RSA-key-exchange suite of the case *)
  let ccfg =
    if tls then
      { c_gm = false; c_maxv = hexn chv; c_suites = [hexn suite]; c_verify = true; c_trusted = server_trusted; c_cert = None;
        c_cache = flag cfg "tk"; c_session = None; c_rand = r_client; c_pms = r_pms; c_sid = r_sid; c_eph = r_ceph }
    else { (c08_client ~suite ~cert ~trusted:[c_sig; c_enc]) with c_cache = flag cfg "tk" } in
  let auth = if victim = "sg" || victim = "sa" || victim = "st" then int_of_string (get cfg "auth") else (if flag cfg "cr" then 1 else 0) in
  let scfg =
    { (c08_server ~auth ~certs:(if tls then [] else genuine) ~client_trusted:[c_auth]) with
      s_tickets = flag cfg "tk";
      s_mode = (match victim with "sa" -> AutoSwitch | "st" | "ct" -> TLSOnly | _ -> GMOnly);
      s_tls_cert = (if tls then Some (c_rsa, k_rsa) else None) } in
  match victim with
  | "sg" | "sa" | "st" ->
    let c0 = client_init ccfg in
    (* first flight: the ClientHello, with the scripted client_version *)
    let outs0 = List.map (fun o -> match o with
        | OHs (MClientHello ch) ->
          OHs (MClientHello { ch with ch_vers = hexn chv;
                                      ch_comp_null = (if List.mem_assoc "cm" cfg then comp_offers_null (bytes_of_hex (get cfg "cm"))
                                                      else ch.ch_comp_null) })
        | o -> o) c0.cs_out in
    let ((s1, lo1), sstat1) = rfeed (server_step scfg) server_wants_ccs server_init false PRunning
        (pack_flight msg_name_c2s outs0 (nth_flight fl 0)) in
    (match sstat1 with
     | PRunning ->
       let (c1, cstat1) = feed (client_step ccfg) { c0 with cs_out = [] } PRunning (List.map to_input s1.ss_out) in
       (match cstat1 with
        | PRunning ->
          let ((_, _), sstat2) = rfeed (server_step scfg) server_wants_ccs { s1 with ss_out = [] } lo1 PRunning
              (pack_flight msg_name_c2s c1.cs_out (nth_flight fl 1) @ [REOF]) in
          show_pstat sstat2
        | _ -> "err")    (* the scripted client gives up: the server sees the stream end *)
     | st -> show_pstat st)
  | _ ->
    let c0 = client_init ccfg in
    let (s1, sstat1) = feed (server_step scfg) server_init PRunning (List.map to_input c0.cs_out) in
    (match sstat1 with
     | PRunning ->
       let ((c1, lo1), cstat1) = rfeed (client_step ccfg) client_wants_ccs { c0 with cs_out = [] } false PRunning
           (pack_flight msg_name_s2c s1.ss_out (nth_flight fl 0)) in
       (match cstat1 with
        | PRunning ->
          let (s2, sstat2) = feed (server_step scfg) { s1 with ss_out = [] } PRunning (List.map to_input c1.cs_out) in
          (match sstat2 with
           | PDone | PRunning ->
             let ((_, _), cstat2) = rfeed (client_step ccfg) client_wants_ccs { c1 with cs_out = [] } lo1 PRunning
                 (pack_flight msg_name_s2c s2.ss_out (nth_flight fl 1) @ [REOF]) in
             show_pstat cstat2
           | _ -> "err")
        | st -> show_pstat st)
     | _ -> "err")

(* ---- C08 AN cases: server-name matching ------------------------------------------------------------------------------ *)
let bytes_of_string (s : string) : n list = List.init (String.length s) (fun i -> n (Char.code s.[i]))

let run_an (suite : string) (pattern : string) (servername : string) : string =
  let ok = match_hostnames (bytes_of_string pattern) (bytes_of_string servername) in
  (* both GM certificates carry the name: Verify returns a chain for them iff the name matches *)
  let c = c08_client ~suite ~cert:None ~trusted:(if ok then [c_sig; c_enc] else []) in
  let s = c08_server ~auth:0 ~certs:genuine ~client_trusted:[c_auth] in
  let ((_, cstat), _) = pair_run_t id_t id_t c s in
  show_pstat cstat

(* ---- parsers ------------------------------------------------------------------------------------------------------ *)
let hexlist_dot (l : n list list) : string =
  match l with
  | [] -> "-"
  | _ -> String.concat "," (List.map (fun x -> if x = [] then "." else hex_of_bytes x) l)

let recs_of (s : string) : n list list =
  if s = "-" || s = "" then [] else List.map (fun x -> if x = "." then [] else bytes_of_hex x) (String.split_on_char ',' s)

(* ---- PM cases: the byte-level models of the handshake_messages.go parsers, field by field -------------------------- *)
let u16list_dot (l : n list) : string =
  match l with [] -> "-" | _ -> String.concat "." (List.map (fun x -> Printf.sprintf "%04x" (int_of_n x)) l)
let b01 (b : bool) : string = if b then "1" else "0"
let hex2 (x : n) = Printf.sprintf "%02x" (int_of_n x)

let pm_out (show : 'a -> string list) (o : 'a outcome) : string =
  match o with
  | Ok r -> String.concat " " ("ok" :: show r)
  | Err _ -> "err" | Panic -> "PANIC" | Hang -> "HANG"

let run_pm (typ : string) (flag : string) (hex : string) : string =
  let data = bytes_of_hex hex in
  let fl = (flag = "1") in
  match int_of_string typ with
  | 1 ->
    pm_out (fun m ->
      [hex4 m.f_vers; hex_of_bytes m.f_random; hex_of_bytes m.f_sid; u16list_dot m.f_suites; hex_of_bytes m.f_comp;
       b01 m.f_npn; hex_of_bytes m.f_sni; b01 m.f_ocsp; u16list_dot m.f_curves; hex_of_bytes m.f_points;
       b01 m.f_ticket_supported; hex_of_bytes m.f_ticket; u16list_dot m.f_sigalgs; b01 m.f_reneg_supported;
       hex_of_bytes m.f_reneg; hexlist_dot m.f_alpn; b01 m.f_scts]) (clientHello_unmarshal data)
  | 2 ->
    pm_out (fun m ->
      [hex4 m.g_vers; hex_of_bytes m.g_random; hex_of_bytes m.g_sid; hex4 m.g_suite; hex2 m.g_comp;
       b01 m.g_npn; hexlist_dot m.g_protos; b01 m.g_ocsp; b01 m.g_ticket; b01 m.g_reneg_supported;
       hex_of_bytes m.g_reneg; hex_of_bytes m.g_alpn; hexlist_dot m.g_scts]) (serverHello_unmarshal data)
  | 4 -> pm_out (fun t -> [hex_of_bytes t]) (newSessionTicket_unmarshal data)
  | 11 -> pm_out (fun l -> [hexlist_dot l]) (certificate_unmarshal data)
  | 12 -> pm_out (fun k -> [hex_of_bytes k]) (serverKeyExchange_unmarshal data)
  | 13 -> pm_out (fun ((types, algs), cas) -> [hex_of_bytes types; u16list_dot algs; hexlist_dot cas])
            (certificateRequest_unmarshal fl data)
  | 14 -> pm_out (fun _ -> []) (serverHelloDone_unmarshal data)
  | 15 -> pm_out (fun (alg, sg) -> [hex4 alg; hex_of_bytes sg]) (certificateVerify_unmarshal fl data)
  | 16 -> pm_out (fun c -> [hex_of_bytes c]) (clientKeyExchange_unmarshal data)
  | 20 -> pm_out (fun v -> [hex_of_bytes v]) (finished_unmarshal data)
  | 22 -> pm_out (fun (t, r) -> [hex2 t; hex_of_bytes r]) (certificateStatus_unmarshal data)
  | 67 -> pm_out (fun p -> [hex_of_bytes p]) (nextProto_unmarshal data)
  | _ -> "SKIP"

(* ---- PW cases: the marshal models, and unmarshal (marshal m) printed back -------------------------------------------- *)
let u16list_of (s : string) : n list =
  if s = "-" || s = "" then [] else List.map hexn (String.split_on_char '.' s)
let strs_of = recs_of
let bool_of (s : string) = (s = "1")

(* the canonical field strings of each type, as run_pm prints them *)
let pm_fields (typ : string) (fl : bool) (data : n list) : string =
  match typ with
  | "13g" ->
    (match certificateRequestMsgGM_unmarshal (nat_of_int (List.length data)) data with
     | Ok (types, cas) -> "ok " ^ hex_of_bytes types ^ " " ^ hexlist_dot cas
     | Err _ -> "err" | Panic -> "PANIC" | Hang -> "HANG")
  | _ -> run_pm typ (if fl then "1" else "0") (hex_of_bytes data)

let run_pw (f : string array) : string =
  let typ = f.(2) and fl = (f.(3) = "1") in
  let a i = if 5 + i < Array.length f then f.(5 + i) else "-" in
  let out =
    match typ with
    | "1" ->
      Some (clientHello_marshal
        { f_vers = hexn (a 0); f_random = bytes_of_hex (a 1); f_sid = bytes_of_hex (a 2); f_suites = u16list_of (a 3);
          f_comp = bytes_of_hex (a 4); f_npn = bool_of (a 5); f_sni = bytes_of_hex (a 6); f_ocsp = bool_of (a 7);
          f_curves = u16list_of (a 8); f_points = bytes_of_hex (a 9); f_ticket_supported = bool_of (a 10);
          f_ticket = bytes_of_hex (a 11); f_sigalgs = u16list_of (a 12); f_reneg_supported = bool_of (a 13);
          f_reneg = bytes_of_hex (a 14); f_alpn = strs_of (a 15); f_scts = bool_of (a 16) })
    | "2" ->
      Some (serverHello_marshal
        { g_vers = hexn (a 0); g_random = bytes_of_hex (a 1); g_sid = bytes_of_hex (a 2); g_suite = hexn (a 3);
          g_comp = hexn (a 4); g_npn = bool_of (a 5); g_protos = strs_of (a 6); g_ocsp = bool_of (a 7);
          g_ticket = bool_of (a 8); g_reneg_supported = bool_of (a 9); g_reneg = bytes_of_hex (a 10);
          g_alpn = bytes_of_hex (a 11); g_scts = strs_of (a 12) })
    | "4" -> Some (newSessionTicket_marshal (bytes_of_hex (a 0)))
    | "11" -> Some (certificate_marshal (strs_of (a 0)))
    | "12" -> Some (serverKeyExchange_marshal (bytes_of_hex (a 0)))
    | "13" -> Some (certificateRequest_marshal fl (bytes_of_hex (a 0)) (u16list_of (a 1)) (strs_of (a 2)))
    | "13g" -> Some (certificateRequestGM_marshal (bytes_of_hex (a 0)) (strs_of (a 1)))
    | "14" -> Some serverHelloDone_marshal
    | "15" -> Some (certificateVerify_marshal fl (hexn (a 0)) (bytes_of_hex (a 1)))
    | "16" -> Some (clientKeyExchange_marshal (bytes_of_hex (a 0)))
    | "20" -> Some (finished_marshal (bytes_of_hex (a 0)))
    | "22" -> Some (certificateStatus_marshal (hexn (a 0)) (bytes_of_hex (a 1)))
    | "67" -> Some (nextProto_marshal (bytes_of_hex (a 0)))
    | _ -> None in
  match out with
  | None -> "SKIP"
  | Some bytes ->
    let nf = Array.length f - 5 in
    let want = String.concat " " ("ok" :: Array.to_list (Array.sub f 5 (max nf 0))) in
    let got = pm_fields typ fl bytes in
    hex_of_bytes bytes ^ " " ^ (if got = want then "1" else "0")

(* ---- C08 PA / PD cases: gmtls/auth.go decision logic ----------------------------------------------------------- *)
let run_pa (pk : string) (peer : string) (ours : string) (vers : string) : string =
  let k = match pk with "rsa" -> PK_RSA | "ecdsa" -> PK_ECDSA | "sm2" -> PK_SM2 | _ -> PK_Other in
  match pickSignatureAlgorithm k (u16list_of peer) (u16list_of ours) (hexn vers) with
  | Ok ((alg, st), h) -> Printf.sprintf "ok %s %d %d" (hex4 alg) (int_of_n st) (int_of_n h)
  | Err _ -> "err" | Panic -> "PANIC" | Hang -> "HANG"

let show_digest = function
  | D_MD5SHA1 -> "md5sha1" | D_SHA1 -> "sha1" | D_SHA256 -> "sha256" | D_SHA384 -> "sha384" | D_SHA512 -> "sha512"
  | D_SM3 -> "sm3" | D_SSL30 -> "ssl30"

let run_pd (f : string array) : string =
  let out o = match o with Ok d -> show_digest d | Err _ -> "err" | Panic -> "PANIC" | Hang -> "HANG" in
  match f.(2) with
  | "cc" -> out (hashForClientCertificate (hexn f.(3)) (n (int_of_string f.(5))) (n (int_of_string f.(6))))
  | "skx" -> out (hashForServerKeyExchange (hexn f.(3)) (n (int_of_string f.(5))) (n (int_of_string f.(6))))
  | "gmcc" -> show_digest gm_client_certificate_verify_digest
  | _ -> "SKIP"

(* ---- C15 PE cases: ecdheKeyAgreement.processServerKeyExchange at byte level ------------------------------------- *)
let run_pe (f : string array) : string =
  let vers = hexn f.(2) and is_rsa = (f.(3) = "1") in
  let k = match f.(4) with "rsa" -> PK_RSA | "ecdsa" -> PK_ECDSA | "sm2" -> PK_SM2 | _ -> PK_Other in
  let algs = u16list_of f.(5) and pt = (f.(6) = "1") in
  let key = bytes_of_hex (if Array.length f > 7 then f.(7) else "-") in
  match ecdhe_processServerKeyExchange vers is_rsa k algs (fun _ -> pt) key with
  | Ok _ -> "any"          (* the length logic passes: the outcome is the signature check's *)
  | Err _ -> "err" | Panic -> "PANIC" | Hang -> "HANG"

let handle (f : string array) : string =
  match f.(0) with
  | "S" -> run_script f.(2) f.(3) f.(4)
  | "H" -> run_pair f.(2) f.(3)
  | "V" -> run_vgate f.(2) f.(3) f.(4)
  | "VC" -> run_vgate_c f.(2) f.(3) f.(4) f.(5)
  | "VG" -> run_vgate f.(2) f.(3) f.(4)       (* callbacks that return nil do not change the gate *)
  | "R" -> run_r f.(2) f.(3) f.(4) f.(5) f.(6)
  | "AN" -> run_an f.(2) f.(4) f.(5)
  | "AS" -> run_as f.(2) f.(3) f.(4)
  | "AC" -> run_ac f.(2) f.(3) f.(4)
  | "AM" -> run_am f.(2) f.(3) f.(4) f.(5) f.(6) f.(8)
  | "AV" -> run_av f.(2) f.(3) f.(4) f.(5)
  | "AH" -> run_ah f.(2) f.(3)
  | "PA" -> run_pa f.(2) f.(3) f.(4) f.(5)
  | "PD" -> run_pd f
  | "PE" -> run_pe f
  | "PW" -> run_pw f
  | "PM" -> run_pm f.(2) f.(3) (if Array.length f > 4 then f.(4) else "-")
  | "PK" ->
    (match ecc_ckx_prefix (bytes_of_hex f.(2)) with
     | Ok _ -> if f.(3) = "1" then "ok" else "any"
     | Err _ -> "err" | Panic -> "PANIC" | Hang -> "HANG")
  | "PS" ->
    (match ecc_skx_prefix (bytes_of_hex f.(2)) with
     | Ok _ -> if f.(3) = "1" then "ok" else "any"
     | Err _ -> "err" | Panic -> "PANIC" | Hang -> "HANG")
  | "PR" ->
    let data = bytes_of_hex f.(2) in
    (match certificateRequestMsgGM_unmarshal (nat_of_int (List.length data)) data with
     | Ok (types, cas) -> "ok " ^ hex_of_bytes types ^ " " ^ hexlist_dot cas
     | Err _ -> "err" | Panic -> "PANIC" | Hang -> "HANG")
  | "PH" ->
    (* the driver delivers hand0 as a first record of its own *)
    let h0 = bytes_of_hex f.(2) in
    let hand = [] and recs = (if h0 = [] then [] else [h0]) @ recs_of f.(3) in
    let total = List.length hand + List.fold_left (fun a r -> a + List.length r) 0 recs in
    (match read_handshakes (nat_of_int (total + 1)) hand recs [] with
     | Ok (msgs, e) ->
       (* the model covers the length logic; which bodies the stdlib-derived unmarshal functions accept is
          outside it: beyond the first message whose type is not Finished (20: any body is accepted) the
          prediction is "any" *)
       let rec prefix = function
         | (t, l) :: r when int_of_n t = 20 -> let (p, all20) = prefix r in ((t, l) :: p, all20)
         | [] -> ([], true)
         | _ -> ([], false) in
       let (pre, all20) = prefix msgs in
       let ms = match pre with
         | [] -> "-"
         | _ -> String.concat "," (List.map (fun (t, l) -> Printf.sprintf "%d:%d" (int_of_n t) (int_of_nat l)) pre) in
       ms ^ " " ^ (if not all20 then "any" else if int_of_nat e = 1 then "eof" else "err")
     | Err _ -> "err" | Panic -> "PANIC" | Hang -> "HANG")
  | _ -> "SKIP"

let () = run_file Sys.argv.(1) handle
