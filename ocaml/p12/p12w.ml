(* Re-export of the number types of the extracted module for conv.ml (the extraction also defines a type
   called "string" - Coq's - which must not shadow OCaml's in conv.ml). *)
type nat = P12_model.nat = O | S of nat
type positive = P12_model.positive = XI of positive | XO of positive | XH
type n = P12_model.n = N0 | Npos of positive
