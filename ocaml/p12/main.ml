(* Runner for the extracted models of C17: PKCS#12 primitives (RC2, BMPString, PKCS#12 KDF) and the
   signed-data verification logic (Verify of P7/P7Model.v over pieces decoded by the library). *)
open P12w
open Conv
module M = P12_model

let show (ok : 'a -> string) (o : 'a M.outcome) : string =
  match o with
  | M.Ok a -> ok a
  | M.Err _ -> "err"
  | M.Panic -> "PANIC"
  | M.Hang -> "HANG"

let z_of_int (i : int) : M.z =
  if i = 0 then M.Z0 else if i > 0 then M.Zpos (pos_of_int i) else M.Zneg (pos_of_int (- i))

let ints_str (l : n list) : string =
  match l with [] -> "-" | _ -> String.concat "," (List.map (fun x -> string_of_int (int_of_n x)) l)

(* OCaml string -> Coq string *)
let coq_string (s : string) : M.string =
  let rec go i acc =
    if i < 0 then acc
    else
      let c = Char.code s.[i] in
      let b k = (c lsr k) land 1 = 1 in
      go (i - 1) (M.String (M.Ascii (b 0, b 1, b 2, b 3, b 4, b 5, b 6, b 7), acc)) in
  go (String.length s - 1) M.EmptyString
let ocaml_string (s : M.string) : string =
  let b = Buffer.create 16 in
  let rec go = function
    | M.EmptyString -> ()
    | M.String (M.Ascii (b0, b1, b2, b3, b4, b5, b6, b7), r) ->
      let v x k = if x then 1 lsl k else 0 in
      Buffer.add_char b (Char.chr (v b0 0 + v b1 1 + v b2 2 + v b3 3 + v b4 4 + v b5 5 + v b6 6 + v b7 7));
      go r in
  go s; Buffer.contents b

(* [-]hex magnitude -> Z *)
let z_of_hex (s : string) : M.z =
  let neg = String.length s > 0 && s.[0] = '-' in
  let h = if neg then String.sub s 1 (String.length s - 1) else s in
  let bits = ref [] in   (* most significant first *)
  String.iter (fun c ->
      let v = int_of_string ("0x" ^ String.make 1 c) in
      for k = 3 downto 0 do bits := ((v lsr k) land 1 = 1) :: !bits done) h;
  (* !bits is least significant first now *)
  let rec strip_top l = match List.rev l with | false :: r -> strip_top (List.rev r) | _ -> l in
  let lsb = strip_top !bits in
  let rec pos = function
    | [] -> None
    | [true] -> Some XH
    | b :: r -> (match pos r with None -> if b then Some XH else None | Some p -> Some (if b then XI p else XO p)) in
  match pos lsb with
  | None -> M.Z0
  | Some p -> if neg then M.Zneg p else M.Zpos p

let oid_of (s : string) : n list =
  if s = "-" || s = "" then [] else List.map (fun x -> n_of_int (int_of_string x)) (String.split_on_char '.' s)

let split c s = if s = "-" || s = "" then [] else String.split_on_char c s

let handle (f : string array) : string =
  match f.(0) with
  | "RC2" ->
    let blk = bytes_of_hex f.(5) in
    (match M.rc2_New (bytes_of_hex f.(3)) (n_of_int (int_of_string f.(4))) with
     | M.Ok k -> show (fun out -> "ok " ^ hex_of_bytes out) (if f.(2) = "e" then M.rc2_encrypt k blk else M.rc2_decrypt k blk)
     | M.Err _ -> "err" | M.Panic -> "PANIC" | M.Hang -> "HANG")
  | "BMP" -> show (fun b -> "ok " ^ hex_of_bytes b) (M.bmpString (List.map n_of_int (ints_of f.(2))))
  | "BMD" -> show (fun s -> "ok " ^ ints_str s) (M.decodeBMPString (bytes_of_hex f.(2)))
  | "KDF" ->
    let v = nat_of_int (int_of_string f.(2)) in
    show (fun k -> "ok " ^ hex_of_bytes k)
      (M.pbkdf_model (M.toy_hash (nat_of_int 20)) (nat_of_int 20) v (bytes_of_hex f.(3)) (bytes_of_hex f.(4))
         (z_of_int (int_of_string f.(5))) (n_of_int (int_of_string f.(6))) (nat_of_int (int_of_string f.(7))))
  | "VER" ->
    if f.(4) = "PARSEERR" then "SKIP" else begin
      let content = bytes_of_hex f.(4) in
      (* certificates: index -> (serial, issuer) *)
      let certs = Array.of_list (List.map (fun c ->
          match String.split_on_char ':' c with
          | [s; i] -> (z_of_hex s, bytes_of_hex i)
          | _ -> failwith "bad cert") (split ',' f.(5))) in
      let hashes = List.map (fun h -> match String.split_on_char ':' h with
          | [name; v] -> (name, bytes_of_hex v) | _ -> failwith "bad hash") (split ',' f.(6)) in
      (* signers *)
      let parsed = List.map (fun s ->
          match String.split_on_char '|' s with
          | [serial; issuer; dig; enc; sg; marsh; attrs; verd] ->
            let attrs' = List.map (fun a -> match String.split_on_char '~' a with
                | [t; v; o] -> ({ M.at_type = oid_of t; M.at_value = bytes_of_hex v }, (if o = "N" then None else Some (bytes_of_hex o)))
                | _ -> failwith "bad attr") (split '+' attrs) in
            let verd' = List.map (fun e -> match String.split_on_char '=' e with
                | [a; bits] -> (a, bits) | _ -> failwith "bad verdict") (split '/' verd) in
            ({ M.si_ias = { M.ias_issuer = bytes_of_hex issuer; M.ias_serial = z_of_hex serial };
               M.si_digestAlg = oid_of dig; M.si_attrs = List.map fst attrs'; M.si_digestEncAlg = oid_of enc;
               M.si_encryptedDigest = bytes_of_hex sg },
             (if marsh = "E" then None else Some (bytes_of_hex marsh)), attrs', verd')
          | _ -> failwith "bad signer") (split ';' f.(7)) in
      let signers = List.map (fun (s, _, _, _) -> s) parsed in
      let hash_sum name _ = (try List.assoc (ocaml_string name) hashes with Not_found -> []) in
      (* asn1.Unmarshal(value, &[]byte): looked up by the value bytes among all attributes *)
      let parse_octets v =
        let rec find = function
          | [] -> None
          | (_, _, attrs, _) :: r ->
            (match List.find_opt (fun (a, _) -> a.M.at_value = v) attrs with
             | Some (_, o) -> o
             | None -> find r) in
        find parsed in
      let marshal attrs =
        (match List.find_opt (fun (s, _, _, _) -> s.M.si_attrs = attrs) parsed with
         | Some (_, Some m, _, _) -> M.Ok m
         | _ -> M.Err O) in
      let check c algo _signed sg =
        (match List.find_opt (fun (s, _, _, _) -> s.M.si_encryptedDigest = sg) parsed with
         | Some (_, _, _, verd) ->
           (match List.assoc_opt (ocaml_string algo) verd with
            | Some bits -> c < String.length bits && bits.[c] = '1'
            | None -> false)
         | None -> false) in
      let p7 = { M.p7_content = content; M.p7_certificates = List.init (Array.length certs) (fun i -> i); M.p7_signers = signers } in
      show (fun () -> "ok")
        (M.verify (fun c -> fst certs.(c)) (fun c -> snd certs.(c)) hash_sum parse_octets marshal check p7)
    end
  | "SGN" ->
    (* the signer info AddSigner builds: SGN id sm2|rsa sha1 sm3 time extras(oid~value+...) *)
    let extra = List.map (fun a -> match String.split_on_char '~' a with
        | [t; v] -> { M.at_type = oid_of t; M.at_value = bytes_of_hex v }
        | _ -> failwith "bad attr") (split '+' f.(6)) in
    let oid_str o = String.concat "." (List.map (fun x -> string_of_int (int_of_n x)) o) in
    show (fun s ->
        Printf.sprintf "ok %s %s %s" (oid_str s.M.si_digestAlg) (oid_str s.M.si_digestEncAlg)
          (String.concat "+" (List.map (fun a -> oid_str a.M.at_type ^ "~" ^ hex_of_bytes a.M.at_value) s.M.si_attrs)))
      (M.sgn_model (f.(2) = "sm2") (bytes_of_hex f.(3)) (bytes_of_hex f.(4)) (bytes_of_hex f.(5)) extra)
  | "SEL" ->
    (* recipient selection: Decrypt of P7Model over the rewritten recipient list; the wrapped key of an entry is
       modelled by its verdict ([1]: opens with our key, [0]: does not); identity content cipher over pad(content) *)
    let content = bytes_of_hex f.(4) in
    let ident s = match String.split_on_char ':' s with
      | serial :: issuer :: rest -> (z_of_hex serial, bytes_of_hex issuer, rest)
      | _ -> failwith "bad ident" in
    let (cs, ci, _) = ident f.(5) in
    let recips = List.map (fun e ->
        let (s, i, rest) = ident e in
        { M.ri_ias = { M.ias_issuer = i; M.ias_serial = s };
          M.ri_encryptedKey = [if rest = ["K"] then n_of_int 1 else N0] }) (split ',' f.(6)) in
    (match M.pad content (nat_of_int 8) with
     | M.Ok padded ->
       let env = { M.ed_recipients = recips;
                   M.ed_eci = { M.e_alg = M.DESCBC; M.e_params = List.init 8 (fun _ -> N0); M.e_icvlen = O; M.e_content = padded } } in
       let unwrap () k = if k = [n_of_int 1] then M.Ok k else M.Err O in
       show (fun out -> if out = content then "ok" else "diff")
         (M.decrypt (fun () -> cs) (fun () -> ci) unwrap (fun _ _ ct -> ct) (fun _ _ _ -> None) (fun _ _ -> true) env () ())
     | _ -> "BADCASE")
  | "E" | "S" | "P" | "PC" | "PF" | "SC" | "EC" | "K" | "PW" | "PL" | "KDS" -> "SKIP"
  | _ -> "BADCASE"

let () = run_file Sys.argv.(1) handle
