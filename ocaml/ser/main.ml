(* Runner for the extracted serialisation models (coq/Ser/SerModel.v): reads C14 case lines, prints the
   model's observation for each (formats: header of /verif/harness/cmd/c14/main.go).  The extraction maps
   positive/N/Z to zarith big integers (ExtrOcamlZBigInt), so the generic conv.ml is not used. *)
module ZZ = Z
open Ser_model

type z = Big_int_Z.big_int

let nat_of_int (i : int) : nat =
  let rec go acc i = if i <= 0 then acc else go (S acc) (i - 1) in go O i

let bytes_of_hex (s : string) : z list =
  if s = "-" || s = "." || s = "" then [] else begin
    let len = String.length s / 2 in
    let rec go i acc =
      if i < 0 then acc
      else go (i - 1) (Big_int_Z.big_int_of_int (int_of_string ("0x" ^ String.sub s (2 * i) 2)) :: acc) in
    go (len - 1) []
  end

let hex_of_bytes (l : z list) : string =
  match l with
  | [] -> "-"
  | _ ->
    let b = Buffer.create 64 in
    List.iter (fun x -> Buffer.add_string b (Printf.sprintf "%02x" ((Big_int_Z.int_of_big_int x) land 0xff))) l;
    Buffer.contents b

let z_of_str (s : string) : z = ZZ.of_string_base 16 s
let str_of_z (x : z) : string = ZZ.format "%x" x

let dummy_base (_ : z) : z * z = (ZZ.zero, ZZ.zero)

let cert_of (s : string) : certk =
  match String.split_on_char ':' s with
  | ["rsa"; n] -> CRsa (z_of_str n)
  | ["ec"; cu; x; y] -> CEc (nat_of_int (int_of_string cu), z_of_str x, z_of_str y)
  | ["other"] -> COther
  | _ -> CBad

let key_of (s : string) : keyk =
  match String.split_on_char ':' s with
  | ["rsa"; n] -> KRsa (z_of_str n)
  | ["sm2"; x; y] -> KSm2 (z_of_str x, z_of_str y)
  | ["ecdsa"; cu; x; y] -> KEcdsa (nat_of_int (int_of_string cu), z_of_str x, z_of_str y)
  | _ -> KBad

let b2s b = if b then "ok 1" else "ok 0"

(* LP cases: a file is a comma list of blocks LABEL/content/ref *)
let label_of (s : string) : plabel =
  if s = "CERTIFICATE" then LCert
  else if s = "PRIVATE_KEY" then LPrivKey
  else if String.length s > 12 && String.sub s (String.length s - 12) 12 = "_PRIVATE_KEY" then LSuffixPrivKey
  else LOtherLabel

let content_of (s : string) : pcontent =
  let kv = match String.index_opt s '=' with
    | Some i -> (String.sub s 0 i, String.sub s (i + 1) (String.length s - i - 1))
    | None -> (s, "") in
  match kv with
  | ("cert", d) -> PCert (cert_of d)
  | ("p1rsa", n) -> PPkcs1Rsa (z_of_str n)
  | ("p8rsa", n) -> PPkcs8Rsa (z_of_str n)
  | ("p8ec", d) -> (match String.split_on_char ':' d with
                    | [cu; x; y] -> PPkcs8Ecdsa (nat_of_int (int_of_string cu), z_of_str x, z_of_str y) | _ -> PJunk)
  | ("p8sm2", d) -> (match String.split_on_char ':' d with [x; y] -> PPkcs8Sm2 (z_of_str x, z_of_str y) | _ -> PJunk)
  | ("p8other", _) -> PPkcs8Other
  | ("sec1", _) -> PSec1
  | ("enc", _) -> PEncrypted
  | _ -> PJunk

let pemfile_of (s : string) : (plabel * pcontent) list =
  if s = "-" then [] else
  List.map (fun b -> match String.split_on_char '/' b with
    | l :: c :: _ -> (label_of l, content_of c)
    | _ -> (LOtherLabel, PJunk)) (String.split_on_char ',' s)

let handle (f : string array) : string =
  match f.(0) with
  | "HP" ->
    let s = writePrivateKeyToHex (z_of_str f.(2)) in
    "ok " ^ hex_of_bytes s ^ (match readPrivateKeyFromHex s with Ok d -> " ok " ^ str_of_z d | _ -> " err")
  | "HR" ->
    (match readPrivateKeyFromHex (bytes_of_hex f.(2)) with Ok d -> "ok " ^ str_of_z d | _ -> "err")
  | "HQ" ->
    let s = writePublicKeyToHex (z_of_str f.(2)) (z_of_str f.(3)) in
    "ok " ^ hex_of_bytes s ^
    (match readPublicKeyFromHex s with Ok (x, y) -> " ok " ^ str_of_z x ^ " " ^ str_of_z y | _ -> " err")
  | "HS" ->
    (match readPublicKeyFromHex (bytes_of_hex f.(2)) with Ok (x, y) -> "ok " ^ str_of_z x ^ " " ^ str_of_z y | _ -> "err")
  | "CP" ->
    let c = compress (z_of_str f.(2)) (z_of_str f.(3)) in
    "ok " ^ hex_of_bytes c ^
    (match decompress_sm2 c with Some (x, y) -> " ok " ^ str_of_z x ^ " " ^ str_of_z y | None -> " nil")
  | "CD" ->
    (match decompress_sm2 (bytes_of_hex f.(2)) with Some (x, y) -> "ok " ^ str_of_z x ^ " " ^ str_of_z y | None -> "nil")
  | "SG" ->
    let der = signDigitToSignData (z_of_str f.(2)) (z_of_str f.(3)) in
    "ok " ^ hex_of_bytes der ^
    (match signDataToSignDigit der with Ok (r, s) -> " ok " ^ str_of_z r ^ " " ^ str_of_z s | _ -> " err")
  | "SD" ->
    (match signDataToSignDigit (bytes_of_hex f.(2)) with
     | Ok (r, s) -> "ok " ^ str_of_z r ^ " " ^ str_of_z s
     | Err (S (S (S O))) -> "neg"
     | _ -> "err")
  | "CM" ->
    (match cipherMarshal (bytes_of_hex f.(2)) with
     | Ok der ->
       "ok " ^ hex_of_bytes der ^ (match cipherUnmarshal der with Ok d -> " ok " ^ hex_of_bytes d | _ -> " err")
     | _ -> "err")
  | "CU" ->
    (match cipherUnmarshal (bytes_of_hex f.(2)) with Ok d -> "ok " ^ hex_of_bytes d | _ -> "err")
  | "P8" ->
    let der = marshalSm2UnecryptedPrivateKey (z_of_str f.(2)) (z_of_str f.(3)) (z_of_str f.(4)) in
    "ok " ^ hex_of_bytes der ^
    (match parsePKCS8UnecryptedPrivateKey dummy_base der with Ok ((d, _), _) -> " ok " ^ str_of_z d | _ -> " err")
  | "PK" | "PS" ->
    (match parseSm2PrivateKey dummy_base (bytes_of_hex f.(2)) with Ok ((d, _), _) -> "ok " ^ str_of_z d | _ -> "err")
  | "FK" ->   (* model: ParseSm2PrivateKey on the scalar octets; the base-point multiplication is handed the scalar it is given *)
    (match parseSm2PrivateKey (fun sc -> (sc, sc)) (bytes_of_hex f.(7)) with
     | Ok ((d, fed), _) -> "ok " ^ str_of_z d ^ " " ^ str_of_z fed
     | _ -> "err")
  | "PX" ->
    (match parseSm2PublicKey (marshalSm2PublicKey (z_of_str f.(2)) (z_of_str f.(3))) with
     | Some (x, y) -> "ok " ^ str_of_z x ^ " " ^ str_of_z y ^ " 1"
     | None -> "err")
  | "PM" | "PW" | "EA" -> "SKIP"   (* PEM armour, PBKDF2 and AES are abstract in the model: predicate only *)
  | "LD" ->
    let c1 = cert_of f.(7) and k1 = key_of f.(8) in
    (match f.(2) with
     | "X509KeyPair" | "LoadX509KeyPair" -> b2s (x509KeyPair c1 k1)
     | "GMX509KeyPairsSingle" | "LoadGMX509KeyPair" -> b2s (gMX509KeyPairsSingle c1 k1)
     | "GMX509KeyPairs" | "LoadGMX509KeyPairs" -> b2s (gMX509KeyPairs c1 k1 (cert_of f.(9)) (key_of f.(10)))
     | _ -> "BADCASE")
  | "LP" ->
    (match f.(2) with
     | "X509KeyPair" -> b2s (x509KeyPair_pem (pemfile_of f.(3)) (pemfile_of f.(4)))
     | "GMX509KeyPairsSingle" -> b2s (gMX509KeyPairsSingle_pem (pemfile_of f.(3)) (pemfile_of f.(4)))
     | "GMX509KeyPairs" -> b2s (gMX509KeyPairs_pem (pemfile_of f.(3)) (pemfile_of f.(4)) (pemfile_of f.(5)) (pemfile_of f.(6)))
     | _ -> "BADCASE")
  | _ -> "BADCASE"

let () =
  let ic = open_in Sys.argv.(1) in
  (try
    while true do
      let line = String.trim (input_line ic) in
      if line <> "" then begin
        let fields = Array.of_list (String.split_on_char ' ' line) in
        let r = try handle fields with e -> "RUNNER-EXCEPTION " ^ Printexc.to_string e in
        print_string fields.(1); print_char ' '; print_endline r
      end
    done
  with End_of_file -> ());
  close_in ic
