#!/usr/bin/env python3
"""Orchestrator of the gmsm verification framework (see DESIGN.md).

  ./verif.py setup                         build everything from files on disk (offline)
  ./verif.py check C19 [--tier quick|thorough]
  ./verif.py replay <replay.json>
  ./verif.py manifest                      regenerate MANIFEST.json from checks/*.py

A check (a) regenerates coq/Gen/*.v from /repo's working tree (translator), (b) builds the Coq
targets of the property (full .vo, proofs re-checked against the regenerated tables), (c) builds the Go
drivers against /repo with -tags verif, runs them, runs the extracted Coq model on the same cases,
compares projected observables (correspondence) and evaluates the property predicate on what the
implementation returned, (d) prints the verdict and writes evidence/<id>.json.

Only the python standard library is used.
"""
import sys, os, re, json, time, subprocess, importlib.util, fcntl, shutil, hashlib, glob, concurrent.futures

ROOT = os.path.dirname(os.path.abspath(__file__))
COQ = os.path.join(ROOT, "coq")
OCAML = os.path.join(ROOT, "ocaml")
HARNESS = os.path.join(ROOT, "harness")
WORK = os.path.join(ROOT, "work")
EVID = os.path.join(ROOT, "evidence")
# the tree under verification.  VERIF_REPO lets tools/seeded.py run a check against a scratch copy of /repo
# (with a seeded change applied) without disturbing /repo; registered commands never set it.
REPO = os.environ.get("VERIF_REPO", "/repo")
ALT = REPO != "/repo"
NPROC = os.cpu_count() or 4

GOENV = dict(os.environ, GOFLAGS="-mod=mod", GOPROXY="off", GOSUMDB="off", GOTOOLCHAIN="local",
             CGO_ENABLED=os.environ.get("CGO_ENABLED", "1"))

HYGIENE_RE = re.compile(
    r"\bAdmitted\b|\badmit\b|\bAxiom\b|\bAxioms\b(?!:)|\bParameter\b|\bParameters\b|\bConjecture\b|Unset\s+Guard|"
    r"bypass_check|type-in-type|impredicative-set|Admit\s+Obligations|native_compute|Unset\s+Universe\s+Checking|"
    r"Unset\s+Positivity")


def log(*a):
    print(*a, flush=True)


def sh(cmd, cwd=None, env=None, timeout=None, capture=True):
    """run a command, return (rc, output)"""
    try:
        p = subprocess.run(cmd, cwd=cwd, env=env, timeout=timeout, shell=isinstance(cmd, str),
                           stdout=subprocess.PIPE if capture else None,
                           stderr=subprocess.STDOUT if capture else None)
        return p.returncode, (p.stdout.decode("utf-8", "replace") if capture else "")
    except subprocess.TimeoutExpired as e:
        out = e.stdout.decode("utf-8", "replace") if e.stdout else ""
        return 124, out + "\n[timeout after %ss]" % timeout


class Lock:
    """serialise builds that share output directories (coq/, ocaml/_build, harness/bin)"""
    def __init__(self, name):
        os.makedirs(WORK, exist_ok=True)
        self.path = os.path.join(WORK, "." + name + ".lock")
    def __enter__(self):
        self.f = open(self.path, "w")
        fcntl.flock(self.f, fcntl.LOCK_EX)
        return self
    def __exit__(self, *a):
        fcntl.flock(self.f, fcntl.LOCK_UN)
        self.f.close()


# ------------------------------------------------------------------------------------------------
# check modules

def load_checks():
    mods = {}
    for path in sorted(glob.glob(os.path.join(ROOT, "checks", "c*.py"))):
        name = os.path.basename(path)[:-3]
        spec = importlib.util.spec_from_file_location("checks." + name, path)
        m = importlib.util.module_from_spec(spec)
        spec.loader.exec_module(m)
        mods[m.ID] = m
    return mods


# ------------------------------------------------------------------------------------------------
# Coq

def write_if_changed(path, text):
    old = None
    if os.path.exists(path):
        with open(path) as f:
            old = f.read()
    if old != text:
        with open(path, "w") as f:
            f.write(text)
        return True
    return False


def coq_project():
    """_CoqProject lists every .v under coq/ except Extract/ (extraction is run separately)"""
    files = []
    for d, _, fs in os.walk(COQ):
        rel = os.path.relpath(d, COQ)
        if rel.startswith("Extract") or rel.startswith("."):
            continue
        for f in fs:
            if f.endswith(".v") and not f.startswith("."):
                files.append(os.path.normpath(os.path.join(rel, f)))
    files.sort()
    text = "-Q . GmsmVerif\n" + "\n".join(files) + "\n"
    changed = write_if_changed(os.path.join(COQ, "_CoqProject"), text)
    if changed or not os.path.exists(os.path.join(COQ, "Makefile")):
        rc, out = sh(["coq_makefile", "-f", "_CoqProject", "-o", "Makefile"], cwd=COQ)
        if rc != 0:
            raise RuntimeError("coq_makefile failed:\n" + out)


# no single .v file may run longer than this (the longest legitimate one takes < 3 min on a quiet machine); a runaway
# conversion then fails its own file instead of holding the coq lock until the whole build times out
COQC_CAP = "COQC=timeout 2400 coqc"


def coq_make(targets, timeout=1500):
    """full .vo build of the given targets; returns (ok, output)"""
    coq_project()
    rc, out = sh(["make", "-j%d" % NPROC, COQC_CAP] + targets, cwd=COQ, timeout=timeout)
    return rc == 0, out


REQ_RE = re.compile(r"From\s+GmsmVerif\s+Require\s+(?:Import\s+|Export\s+)?([^.]*(?:\.[A-Za-z_][^.\s]*)*[^.]*)\.(?:\s|$)", re.S)


def coq_deps(prop_file):
    """the .v files (relative to coq/) that prop_file depends on, transitively (GmsmVerif modules only)"""
    seen, todo = set(), [prop_file]
    while todo:
        f = todo.pop()
        if f in seen:
            continue
        seen.add(f)
        path = os.path.join(COQ, f)
        if not os.path.exists(path):
            continue
        with open(path, errors="replace") as fh:
            text = re.sub(r"\(\*.*?\*\)", "", fh.read(), flags=re.S)
        names = []
        for m in re.finditer(r"From\s+GmsmVerif\s+Require\s+(?:Import|Export)?\s*((?:[A-Za-z_][A-Za-z0-9_']*(?:\.[A-Za-z_][A-Za-z0-9_']*)*\s*)+)\.", text):
            names += m.group(1).split()
        for m in re.finditer(r"Require\s+(?:Import|Export)?\s*((?:GmsmVerif\.[A-Za-z0-9_'.]+\s*)+)\.", text):
            names += [n[len("GmsmVerif."):] for n in m.group(1).split()]
        for n in names:
            todo.append(n.replace(".", "/") + ".v")
    return sorted(seen)


def coq_hygiene(files=None):
    """no Admitted/admit/Axiom/... in the given files (default: the whole development); comments are
    scanned too, so that a plain grep over the development stays clean"""
    bad = []
    if files is None:
        files = []
        for d, _, fs in os.walk(COQ):
            for f in fs:
                if f.endswith(".v"):
                    files.append(os.path.relpath(os.path.join(d, f), COQ))
    for rel in sorted(files):
        p = os.path.join(COQ, rel)
        if not os.path.exists(p):
            continue
        with open(p, errors="replace") as fh:
            for i, line in enumerate(fh, 1):
                if HYGIENE_RE.search(line):
                    bad.append("coq/%s:%d: %s" % (rel, i, line.strip()[:120]))
    return bad


THEOREM_RE = re.compile(r"^\s*(Theorem|Lemma|Corollary)\s+([A-Za-z0-9_']+)", re.M)
PRINT_RE = re.compile(r"^\s*Print Assumptions\s+([A-Za-z0-9_'.]+)\s*\.", re.M)


def props_theorems(prop_file):
    with open(os.path.join(COQ, prop_file)) as f:
        text = f.read()
    # strip comments (non-nested is enough for our files)
    text = re.sub(r"\(\*.*?\*\)", "", text, flags=re.S)
    return [m.group(2) for m in THEOREM_RE.finditer(text)], [m.group(1) for m in PRINT_RE.finditer(text)]


def parse_assumptions(out, printed):
    """coqc prints, per Print Assumptions, either 'Closed under the global context' or
    'Axioms:' followed by indented lines.  Returns {theorem: [axioms]} in file order."""
    blocks = []
    cur = None
    for line in out.splitlines():
        if line.startswith("Closed under the global context"):
            blocks.append([])
            cur = None
        elif line.startswith("Axioms:"):
            cur = []
            blocks.append(cur)
        elif cur is not None and (line.startswith(" ") or line.startswith("\t")) and line.strip():
            s = line.strip()
            if re.match(r"^[A-Za-z_][A-Za-z0-9_'.]*\s*:", s):
                cur.append(s.split(":")[0].strip())
            # continuation lines of a type are ignored
        elif cur is not None and not line.strip():
            pass
        elif cur is not None and not line.startswith(" "):
            cur = None
    res = {}
    for i, name in enumerate(printed):
        res[name] = blocks[i] if i < len(blocks) else None
    return res


def build_props(prop_file, extra_targets=(), timeout=1500):
    """(re)compile Props/Cnn.v so that its Print Assumptions output is captured in this run"""
    vo = prop_file[:-2] + ".vo"
    with Lock("coq"):
        for ext in (".vo", ".vos", ".vok", ".glob"):
            try:
                os.remove(os.path.join(COQ, prop_file[:-2] + ext))
            except FileNotFoundError:
                pass
        ok, out = coq_make([vo] + list(extra_targets), timeout=timeout)
    return ok, out


def failing_coq_file(out):
    m = re.search(r'File "\./([^"]+)", line (\d+)', out)
    if not m:
        return None
    where = "%s:%s" % (m.group(1), m.group(2))
    # name the statement the failing line belongs to (last Theorem/Lemma/... that starts at or before it)
    try:
        name = None
        with open(os.path.join(COQ, m.group(1)), encoding="utf-8", errors="replace") as f:
            for i, line in enumerate(f, 1):
                if i > int(m.group(2)):
                    break
                mm = re.match(r"\s*(?:Local\s+|Global\s+)?(Theorem|Lemma|Corollary|Proposition|Fact|Remark|Example|Definition|Fixpoint|Instance)\s+([A-Za-z0-9_']+)", line)
                if mm:
                    name = "%s %s" % (mm.group(1), mm.group(2))
        if name:
            where += " (%s)" % name
    except OSError:
        pass
    return where


# ------------------------------------------------------------------------------------------------
# extraction + OCaml runners

def build_runner(rdir, extract_v, module, copy_to=None):
    """coqc the extraction file inside ocaml/<rdir>, regenerate conv.ml, dune build"""
    d = os.path.join(OCAML, rdir)
    with Lock("ocaml"):
        # the extraction file is compiled outside make: bring its dependencies up to date and extract under the
        # Coq build lock, so that nobody recompiles a dependency in between ("inconsistent assumptions")
        deps = [f[:-2] + ".vo" for f in coq_deps(extract_v) if f != extract_v]
        with Lock("coq"):
            if deps:
                okm, outm = coq_make(deps, timeout=3000)
                if not okm:
                    return None, "dependencies of %s do not build:\n%s" % (extract_v, outm[-3000:])
            rc, out = sh(["coqc", "-Q", COQ, "GmsmVerif", os.path.join(COQ, extract_v)], cwd=d, timeout=900)
        if rc != 0:
            return None, "extraction failed:\n" + out[-3000:]
        with open(os.path.join(OCAML, "conv.ml.tmpl")) as f:
            tmpl = f.read()
        write_if_changed(os.path.join(d, "conv.ml"), tmpl.replace("MODEL", module))
        rc, out = sh(["dune", "build", "./%s/main.exe" % rdir], cwd=OCAML, timeout=900)
        if rc != 0:
            return None, "dune build failed:\n" + out[-3000:]
        exe = os.path.join(OCAML, "_build", "default", rdir, "main.exe")
        if copy_to:
            # several checks share a runner directory: run a private copy, taken under the build lock
            dst = os.path.join(copy_to, "runner-%s.exe" % rdir)
            shutil.copyfile(exe, dst)
            os.chmod(dst, 0o755)
            exe = dst
    return exe, ""


def run_runner(exe, cases_path, out_path, shards=None, timeout=3000):
    with open(cases_path) as f:
        lines = [l for l in f if l.strip()]
    k = shards or NPROC
    k = max(1, min(k, len(lines)))
    parts = [[] for _ in range(k)]
    for i, l in enumerate(lines):
        parts[i % k].append(l)
    tmpd = os.path.dirname(out_path)
    def one(i):
        p = os.path.join(tmpd, ".shard%d_%d.txt" % (os.getpid(), i))   # two runs of one check may overlap
        with open(p, "w") as f:
            f.writelines(parts[i])
        rc, out = sh([exe, p], timeout=timeout)
        os.remove(p)
        return rc, out
    res = {}
    with concurrent.futures.ThreadPoolExecutor(max_workers=k) as ex:
        for rc, out in ex.map(one, range(k)):
            if rc != 0:
                return False, "runner exit %d: %s" % (rc, out[-2000:])
            for l in out.splitlines():
                if l.strip():
                    i, _, rest = l.partition(" ")
                    res[i] = rest
    with open(out_path, "w") as f:
        for l in lines:
            cid = l.split(" ")[1]
            f.write("%s %s\n" % (cid, res.get(cid, "RUNNER-MISSING")))
    return True, ""


# ------------------------------------------------------------------------------------------------
# Go drivers

def build_driver(name, tags="verif"):
    with Lock("go"):
        try:
            shutil.copyfile(os.path.join(REPO, "go.sum"), os.path.join(HARNESS, "go.sum"))
        except OSError:
            pass
        os.makedirs(os.path.join(HARNESS, "bin"), exist_ok=True)
        extra, outname = [], "bin/" + name
        if ALT:
            with open(os.path.join(HARNESS, "go.mod")) as f:
                mod = f.read().replace("=> /repo", "=> " + REPO)
            write_if_changed(os.path.join(HARNESS, "alt.mod"), mod)
            try:
                shutil.copyfile(os.path.join(REPO, "go.sum"), os.path.join(HARNESS, "alt.sum"))
            except OSError:
                pass
            extra, outname = ["-modfile=alt.mod"], "bin/alt-" + name
        rc, out = sh(["go", "build"] + extra + ["-tags", tags, "-o", outname, "./cmd/" + name], cwd=HARNESS, env=GOENV,
                     timeout=1200)
    if rc != 0:
        return None, out[-4000:]
    return os.path.join(HARNESS, outname), ""


def read_obs(path):
    d = {}
    with open(path) as f:
        for l in f:
            l = l.rstrip("\n")
            if not l.strip():
                continue
            i, _, rest = l.partition(" ")
            d[i] = rest
    return d


def read_cases(path):
    out = []
    with open(path) as f:
        for l in f:
            l = l.rstrip("\n")
            if l.strip():
                out.append(l)
    return out


# ------------------------------------------------------------------------------------------------
# known findings

def known_findings():
    """KNOWN_FINDINGS.txt:  'finding: property=Cnn id=<slug> <text>'  and  'fixed: property=Cnn <commit> <text>'.
    A finding suppresses exactly the failures its matcher (checks/cnn.py FINDING_MATCHERS[slug]) accepts."""
    res = {"finding": [], "fixed": []}
    p = os.path.join(ROOT, "KNOWN_FINDINGS.txt")
    if not os.path.exists(p):
        return res
    with open(p) as f:
        for l in f:
            l = l.strip()
            if not l or l.startswith("#"):
                continue
            m = re.match(r"^(finding|fixed):\s+property=(C\d+)\s+(.*)$", l)
            if not m:
                continue
            kind, prop, rest = m.groups()
            ent = {"property": prop, "text": rest}
            mi = re.match(r"id=(\S+)\s+(.*)$", rest)
            if mi:
                ent["id"], ent["text"] = mi.group(1), mi.group(2)
            res[kind].append(ent)
    return res


# ------------------------------------------------------------------------------------------------
# the check

def trunc(s, n=400):
    return s if len(s) <= n else s[:n] + "...(%d chars)" % len(s)


def check(pid, tier, seed):
    mods = load_checks()
    if pid not in mods:
        log("unknown property", pid)
        return 2
    # two runs of one check would share work/<id>/: serialise them (different checks run concurrently)
    with Lock("check-" + ("alt-" if ALT else "") + pid.lower()):
        return check_locked(pid, tier, seed, mods)


def check_locked(pid, tier, seed, mods):
    t0 = time.time()
    m = mods[pid]
    wd = os.path.join(WORK, ("alt-" if ALT else "") + pid.lower())
    os.makedirs(wd, exist_ok=True)
    os.makedirs(EVID, exist_ok=True)
    for old in glob.glob(os.path.join(wd, "replay_*.json")):
        os.remove(old)

    problems = []       # (kind, message, replay-dict)  kind: 'input' (concrete failing input) | 'unproved'
    known_seen = []
    notes = []
    kf = known_findings()
    my_findings = [e for e in kf["finding"] if e["property"] == pid]
    matchers = getattr(m, "FINDING_MATCHERS", {})

    # ---- (a) translator -------------------------------------------------------------------------
    gen_info = None
    if getattr(m, "GEN", None):
        exe, err = build_driver("gen")
        if exe is None:
            problems.append(("unproved", "translator does not build against the tree", {"kind": "build", "what": "harness/cmd/gen", "output": err}))
        else:
            rc, out = sh([exe] + list(m.GEN) + ["--repo", REPO, "--out", os.path.join(COQ, "Gen")], timeout=300)
            gen_info = out.strip().splitlines()[-5:]
            if rc != 0:
                problems.append(("unproved", "translator cannot regenerate %s from the source" % ",".join(m.GEN),
                                 {"kind": "translator", "what": ",".join(m.GEN), "output": out[-3000:]}))

    # ---- (b) proofs --------------------------------------------------------------------------------
    theorems, printed = props_theorems(m.PROPS)
    ok, out = build_props(m.PROPS, getattr(m, "COQ_EXTRA_TARGETS", ()), timeout=getattr(m, "COQ_TIMEOUT", 1500))
    assumptions = parse_assumptions(out, printed) if ok else {}
    proofs_ok = ok
    if any(p[2].get("kind") in ("build", "translator") and "gen" in str(p[2].get("what", "")) + p[1] for p in problems):
        # the tables were not regenerated from this tree: whatever compiled was proved about stale tables
        proofs_ok = False
    thm_status = []
    if ok:
        for t in theorems:
            thm_status.append({"name": t, "status": "checked", "assumptions": assumptions.get(t)})
        unprinted = [t for t in theorems if t not in printed]
        if unprinted:
            notes.append("theorems without Print Assumptions: " + ",".join(unprinted))
    else:
        where = failing_coq_file(out)
        if "[timeout after" in out and not where:
            where = "build timed out (not a broken proof: the machine was too slow or the limit too low)"
        for t in theorems:
            thm_status.append({"name": t, "status": "not-checked", "assumptions": None})
        problems.append(("unproved", "Coq build of %s failed at %s" % (m.PROPS, where),
                         {"kind": "proof", "what": where or m.PROPS, "output": out[-3000:]}))
    bad = coq_hygiene(coq_deps(m.PROPS))   # the files this property's theorems depend on
    if bad:
        proofs_ok = False
        problems.append(("unproved", "hygiene gate: forbidden vernacular in the development",
                         {"kind": "hygiene", "what": bad[:20]}))
    axioms_used = sorted({a for t in thm_status for a in (t["assumptions"] or [])})

    # thorough: re-check the compiled property file and everything it depends on with the independent checker
    coqchk_info = None
    if tier == "thorough" and ok and not os.environ.get("VERIF_NO_COQCHK"):
        modname = "GmsmVerif." + m.PROPS[:-2].replace("/", ".")
        tchk = time.time()
        # snapshot the compiled files under the build lock, then check the snapshot without holding it
        snap = os.path.join(wd, "coqchk_vo")
        shutil.rmtree(snap, ignore_errors=True)
        with Lock("coq"):
            for rel in coq_deps(m.PROPS):
                src = os.path.join(COQ, rel[:-2] + ".vo")
                if os.path.exists(src):
                    dst = os.path.join(snap, rel[:-2] + ".vo")
                    os.makedirs(os.path.dirname(dst), exist_ok=True)
                    shutil.copyfile(src, dst)
        rc, out = sh(["coqchk", "-silent", "-o", "-Q", snap, "GmsmVerif", modname], cwd=wd, timeout=5400)
        shutil.rmtree(snap, ignore_errors=True)
        summ = out[out.find("CONTEXT SUMMARY"):] if "CONTEXT SUMMARY" in out else out[-1500:]
        def section(title):
            mm = re.search(r"\* " + re.escape(title) + r":(.*?)(?:\n\* |\Z)", summ, re.S)
            body = mm.group(1).strip() if mm else "?"
            return [] if body == "<none>" else [l.strip() for l in body.splitlines() if l.strip()]
        coqchk_info = {"cmd": "coqchk -silent -o -Q <snapshot of the .vo files Props depends on> GmsmVerif " + modname, "exit": rc, "wall_s": round(time.time() - tchk, 1),
                       "axioms": section("Axioms"), "type_in_type": section("Constants/Inductives relying on type-in-type"),
                       "unsafe_fixpoints": section("Constants/Inductives relying on unsafe (co)fixpoints"),
                       "assumed_positivity": section("Inductives whose positivity is assumed")}
        if rc != 0:
            proofs_ok = False
            problems.append(("unproved", "coqchk rejects " + modname, {"kind": "proof", "what": "coqchk " + modname, "output": out[-3000:]}))

    # ---- (c) correspondence + predicate ----------------------------------------------------------
    legs_ev = []
    total_cases = 0
    distinct = set()
    samples = []
    mismatches = 0
    pred_fail = 0
    stats = {}
    for leg in m.LEGS:
        lname = leg["driver"]
        exe, err = build_driver(lname, leg.get("tags", "verif"))
        if exe is None:
            problems.append(("unproved", "driver %s does not build against the tree" % lname,
                             {"kind": "build", "what": "harness/cmd/" + lname, "output": err}))
            legs_ev.append({"driver": lname, "built": False})
            continue
        runner = None
        if leg.get("runner"):
            rdir, extract_v, module = leg["runner"]
            runner, err = build_runner(rdir, extract_v, module, copy_to=wd)
            if runner is None:
                # the model does not compile/extract: proofs are broken anyway; predicate still runs
                if proofs_ok:
                    problems.append(("unproved", "model runner %s does not build" % rdir,
                                     {"kind": "build", "what": "ocaml/" + rdir, "output": err}))
                notes.append("runner %s unavailable: %s" % (rdir, err[:200]))
        # case files: corpus first, then generated
        batches = []
        for cp in sorted(glob.glob(os.path.join(ROOT, "corpus", pid.lower(), lname + "_*.cases"))):
            obs = os.path.join(wd, "obs_" + os.path.basename(cp) + ".txt")
            rc, out = sh([exe, "run", cp, obs], env=GOENV, timeout=leg.get("timeout", 3000))
            if rc != 0:
                problems.append(("unproved", "driver %s failed on corpus %s" % (lname, os.path.basename(cp)),
                                 {"kind": "driver", "what": lname, "output": out[-3000:]}))
                continue
            batches.append((cp, obs, "corpus"))
        cases = os.path.join(wd, lname + "_cases.txt")
        obs = os.path.join(wd, lname + "_impl.txt")
        tgen = time.time()
        rc, out = sh([exe, "gen", str(seed), tier, cases, obs], env=GOENV, timeout=leg.get("timeout", 3000))
        for l in out.splitlines():
            if l.startswith("hx:") and len(notes) < 40:
                notes.append("%s: %s" % (lname, l[:200]))     # e.g. cases re-run alone after a missed deadline
        if rc != 0:
            problems.append(("unproved", "driver %s failed" % lname, {"kind": "driver", "what": lname, "output": out[-3000:]}))
        else:
            batches.append((cases, obs, "generated"))
        leg_ev = {"driver": lname, "built": True, "runner": leg["runner"][0] if leg.get("runner") else None,
                  "driver_s": round(time.time() - tgen, 2), "cases": 0, "mismatches": 0, "predicate_failures": 0}
        for cpath, opath, origin in batches:
            clines = read_cases(cpath)
            impl = read_obs(opath)
            model = {}
            if runner:
                mpath = os.path.join(wd, "model_" + os.path.basename(cpath) + ".out")
                tr = time.time()
                okr, err = run_runner(runner, cpath, mpath)
                leg_ev["runner_s"] = round(leg_ev.get("runner_s", 0) + time.time() - tr, 2)
                if not okr:
                    problems.append(("unproved", "model runner failed: " + err[:300], {"kind": "runner", "what": leg["runner"][0], "output": err}))
                else:
                    model = read_obs(mpath)
            for line in clines:
                f = line.split(" ")
                cid = f[1]
                io = impl.get(cid)
                total_cases += 1
                leg_ev["cases"] += 1
                key = f[0] + " " + " ".join(f[2:])
                if m.nontrivial(f):
                    distinct.add(hashlib.sha1(key.encode()).hexdigest())
                cls = m.classify(f, io.split(" ") if io else []) if hasattr(m, "classify") else f[0]
                stats[cls] = stats.get(cls, 0) + 1
                if len(samples) < 6 and (total_cases % 97 == 1):
                    samples.append({"case": trunc(line, 300), "impl": trunc(io or "", 200)})
                if io is None:
                    problems.append(("unproved", "driver produced no observation for case " + cid, {"kind": "driver", "what": lname, "case": line}))
                    continue
                okp, why = m.predicate(f, io.split(" "))
                mo = model.get(cid) if runner else None
                agree = True
                if mo is not None and not mo.startswith("SKIP"):
                    agree = m.same(f, io.split(" "), mo.split(" ")) if hasattr(m, "same") else (io == mo)
                if okp and agree:
                    continue
                # a failure: is it a listed finding?
                hit = None
                for e in my_findings:
                    fn = matchers.get(e.get("id"))
                    if fn and fn(f, io.split(" ")):
                        hit = e
                        break
                if hit:
                    known_seen.append(hit)
                    continue
                rp = {"kind": "case", "property": pid, "driver": lname, "origin": origin, "case": line,
                      "impl": io, "model": mo, "predicate_ok": okp, "why": why}
                if not okp:
                    pred_fail += 1
                    leg_ev["predicate_failures"] += 1
                    problems.append(("input", "property predicate fails on the implementation: " + why, rp))
                else:
                    mismatches += 1
                    leg_ev["mismatches"] += 1
                    rp["correspondence"] = "model %s (proved against the spec in %s) and /repo disagree" % (leg["runner"][0], m.PROPS)
                    # the model is proved to meet the spec; a disagreement on a projected observable is a
                    # behaviour the theorems do not cover
                    problems.append(("unproved", "correspondence broken (model vs implementation) on case " + cid, rp))
        legs_ev.append(leg_ev)

    # extra, property-specific steps (e.g. go test -race for C20)
    if hasattr(m, "extra"):
        for kind, msg, rp in m.extra(tier, seed, wd, sh, GOENV) or []:
            problems.append((kind, msg, rp))

    # ---- verdict ------------------------------------------------------------------------------------
    rc = 0
    seen_ids = set()
    for e in known_seen:
        if e.get("id") in seen_ids:
            continue
        seen_ids.add(e.get("id"))
        log("KNOWN-FINDING: property=%s %s" % (pid, e["text"]))
    # findings listed but declared 'static' (not found by a generated case) are still printed
    for e in my_findings:
        if e.get("id") not in seen_ids and e.get("id") in getattr(m, "STATIC_FINDINGS", ()):
            log("KNOWN-FINDING: property=%s %s" % (pid, e["text"]))
            seen_ids.add(e.get("id"))
    inputs = [p for p in problems if p[0] == "input"]
    unproved = [p for p in problems if p[0] == "unproved"]
    shown = 0
    if inputs:
        rc = 1
        for i, (_, msg, rp) in enumerate(inputs[:5]):
            path = os.path.join(wd, "replay_%d.json" % i)
            rp["message"] = msg
            if unproved:
                rp["also_unproved"] = [u[1] for u in unproved[:5]]
            with open(path, "w") as f:
                json.dump(rp, f, indent=1)
            log("VIOLATION property=%s replay=%s" % (pid, path))
            shown += 1
    elif unproved:
        rc = 1
        path = os.path.join(wd, "replay_unproved.json")
        with open(path, "w") as f:
            json.dump({"kind": "unproved", "property": pid,
                       "message": "the property is no longer shown to hold; no failing input was found among %d cases" % total_cases,
                       "broken": [{"message": msg, **rp} for _, msg, rp in unproved[:10]]}, f, indent=1)
        log("VIOLATION property=%s replay=%s no-failing-input-found" % (pid, path))
    for _, msg, _ in problems[:8]:
        log("  - " + trunc(msg, 300))

    # ---- evidence -----------------------------------------------------------------------------------
    discharged = sum(1 for t in thm_status if t["status"] == "checked") if proofs_ok else 0
    ev = {
        "property_id": pid, "tier": tier, "seed": seed, "level": "proof",
        "coverage": {
            "obligations": len(theorems), "discharged": discharged,
            "checker_cmd": "make -C coq %s (coqc 8.16.1, full .vo build; coq/_CoqProject generated by verif.py)%s" % (m.PROPS[:-2] + ".vo", "; " + coqchk_info["cmd"] if coqchk_info else ""),
            "trusted_base": list(getattr(m, "TRUSTED_BASE", [])) +
                            ["Coq 8.16.1 kernel incl. vm_compute; no native_compute; no kernel flag changed",
                             "axioms reported by Print Assumptions over all property theorems: " + (", ".join(axioms_used) if axioms_used else "none (Closed under the global context)")],
            "theorems": thm_status,
            "evaluations": total_cases, "distinct_nontrivial": len(distinct),
            "rule": getattr(m, "RULE", ""),
            "samples": samples or [{"note": "no case was generated"}],
            "generator_stats": stats,
            "correspondence": {"legs": legs_ev, "mismatches": mismatches, "predicate_failures": pred_fail},
            "known_findings_seen": sorted(seen_ids),
            "coqchk": coqchk_info,
            "translator": gen_info,
            "notes": notes,
        },
        "assumptions": list(getattr(m, "ASSUMPTIONS", [])),
        "wall_s": round(time.time() - t0, 2),
        "violations": len(inputs) + (1 if (unproved and not inputs) else 0),
    }
    if hasattr(m, "evidence_extra"):
        # measured, property-specific coverage fields (e.g. independently decoded records); must not override the standard keys
        try:
            for k, v in (m.evidence_extra(wd) or {}).items():
                ev["coverage"].setdefault(k, v)
        except Exception as e:    # never let evidence decoration break a verdict
            ev["coverage"]["notes"].append("evidence_extra failed: %r" % (e,))
    with open(os.path.join(wd if ALT else EVID, pid + ".json"), "w") as f:   # evidence/ only from runs against /repo
        json.dump(ev, f, indent=1)
    log("%s %s: theorems %d/%d, cases %d (distinct non-trivial %d), mismatches %d, predicate failures %d, %.1fs -> %s"
        % (pid, tier, discharged, len(theorems), total_cases, len(distinct), mismatches, pred_fail, time.time() - t0,
           "OK" if rc == 0 else "VIOLATION"))
    return rc


# ------------------------------------------------------------------------------------------------

def replay(path):
    with open(path) as f:
        rp = json.load(f)
    mods = load_checks()
    pid = rp["property"]
    m = mods[pid]
    if rp.get("kind") != "case":
        log("replay: this file records a broken proof / build, not an input:")
        log(json.dumps(rp, indent=1)[:4000])
        log("re-running the quick check of", pid)
        return check(pid, "quick", int(os.environ.get("VERIF_SEED", "1")))
    leg = [l for l in m.LEGS if l["driver"] == rp["driver"]][0]
    wd = os.path.join(WORK, pid.lower())
    os.makedirs(wd, exist_ok=True)
    if getattr(m, "GEN", None):
        # the model must be the one of the tree that is replayed on: regenerate the tables it is built from
        gexe, err = build_driver("gen")
        if gexe is None:
            log("translator does not build:", err)
            return 1
        rc, out = sh([gexe] + list(m.GEN) + ["--repo", REPO, "--out", os.path.join(COQ, "Gen")], timeout=300)
        if rc != 0:
            log("translator cannot regenerate %s from the source:" % ",".join(m.GEN), out[-2000:])
            return 1
    exe, err = build_driver(leg["driver"], leg.get("tags", "verif"))
    if exe is None:
        log("driver does not build:", err)
        return 1
    cp = os.path.join(wd, "replay_case.txt")
    with open(cp, "w") as f:
        f.write(rp["case"] + "\n")
    op = os.path.join(wd, "replay_obs.txt")
    sh([exe, "run", cp, op], env=GOENV, timeout=600)
    impl = read_obs(op)
    f_ = rp["case"].split(" ")
    io = impl.get(f_[1], "")
    log("case :", trunc(rp["case"], 1000))
    log("impl :", trunc(io, 1000))
    mo = None
    if leg.get("runner"):
        runner, err = build_runner(*leg["runner"])
        if runner:
            mp = os.path.join(wd, "replay_model.txt")
            run_runner(runner, cp, mp, shards=1)
            mo = read_obs(mp).get(f_[1])
            log("model:", trunc(mo or "", 1000))
    okp, why = m.predicate(f_, io.split(" "))
    agree = True
    if mo is not None and not mo.startswith("SKIP"):
        agree = m.same(f_, io.split(" "), mo.split(" ")) if hasattr(m, "same") else (io == mo)
    log("predicate:", "holds" if okp else "FAILS: " + why, "| correspondence:", "agrees" if agree else "DISAGREES")
    if okp and agree:
        log("replay: not reproduced on the current tree")
        return 0
    log("VIOLATION property=%s replay=%s" % (pid, path))
    return 1


def ready_ids(mods):
    ready_path = os.path.join(ROOT, "checks", "ready.txt")
    return set(open(ready_path).read().split()) if os.path.exists(ready_path) else set(mods)


def setup():
    t0 = time.time()
    mods = load_checks()
    # only the integrated checks (checks/ready.txt) are built: a family that is still being written must not
    # be able to break the setup of the others
    mods = {k: v for k, v in mods.items() if k in ready_ids(mods)}
    os.makedirs(WORK, exist_ok=True)
    # translator first (Gen/*.v are inputs of the Coq build)
    gens = sorted({g for m in mods.values() for g in (getattr(m, "GEN", None) or [])})
    if gens:
        exe, err = build_driver("gen")
        if exe is None:
            log("setup: translator does not build:\n" + err)
            return 1
        rc, out = sh([exe] + gens + ["--repo", REPO, "--out", os.path.join(COQ, "Gen")], timeout=600)
        log(out.strip()[-2000:])
        if rc != 0:
            return 1
    targets = sorted({m.PROPS[:-2] + ".vo" for m in mods.values()} |
                     {t for m in mods.values() for t in getattr(m, "COQ_EXTRA_TARGETS", ())})
    with Lock("coq"):
        coq_project()
        rc, out = sh(["make", "-j%d" % NPROC, COQC_CAP] + targets, cwd=COQ, timeout=7200)
    log("\n".join(l for l in out.splitlines() if not l.startswith("COQC") and not l.startswith("COQDEP") and "Closed under" not in l)[-4000:])
    if rc != 0:
        log("setup: Coq build failed")
        return 1
    bad = coq_hygiene(sorted({f for m in mods.values() for f in coq_deps(m.PROPS)}))
    if bad:
        log("setup: hygiene gate: forbidden vernacular in the development:\n  " + "\n  ".join(bad[:30]))
        return 1
    for m in mods.values():
        for leg in m.LEGS:
            exe, err = build_driver(leg["driver"], leg.get("tags", "verif"))
            if exe is None:
                log("setup: driver %s does not build:\n%s" % (leg["driver"], err))
                return 1
            if leg.get("runner"):
                r, err = build_runner(*leg["runner"])
                if r is None:
                    log("setup: runner %s: %s" % (leg["runner"][0], err))
                    return 1
    log("setup done in %.0fs" % (time.time() - t0))
    return 0


def manifest():
    mods = load_checks()
    with open(os.path.join(ROOT, "properties.jsonl")) as f:
        all_ids = [json.loads(l)["id"] for l in f if l.strip()]
    checks = []
    # checks/ready.txt: the properties whose check has been integrated (run on the unchanged tree, reviewed,
    # committed); a check module that is still being built is not claimed yet
    mods = {k: v for k, v in mods.items() if k in ready_ids(mods)}
    for pid in all_ids:
        if pid not in mods:
            continue
        m = mods[pid]
        checks.append({
            "property_id": pid,
            "quick_cmd": "./verif.py check %s --tier quick" % pid,
            "thorough_cmd": "./verif.py check %s --tier thorough" % pid,
            "evidence_file": "/verif/evidence/%s.json" % pid,
            "replay_cmd_template": "./verif.py replay {path}",
            "engine": "coq+" + "+".join(sorted({l["driver"] for l in m.LEGS})),
            "level_claimed": {"category": "proof", "text": m.LEVEL_TEXT, "design_ref": "DESIGN.md section 6 " + pid},
            "level_note": m.LEVEL_NOTE,
            "technique": m.TECHNIQUE,
        })
    na_path = os.path.join(ROOT, "checks", "not_applicable.json")
    na = json.load(open(na_path)) if os.path.exists(na_path) else {}
    not_app = [{"property_id": pid, "reason": na.get(pid, "check not built yet (work in progress; see DESIGN.md section 9)")}
               for pid in all_ids if pid not in mods]
    hooks_path = os.path.join(ROOT, "MANIFEST.hooks")
    src_commits = []
    if os.path.exists(hooks_path):
        for l in open(hooks_path):
            mm = re.match(r"^commit\s+([0-9a-f]{7,40})", l.strip())
            if mm:
                src_commits.append(mm.group(1))
    man = {
        "version": 1,
        "setup_cmd": "./verif.py setup",
        "hooks": {
            "guard": "verif",
            "enable": "go build -tags verif (the harness module replaces github.com/tjfoc/gmsm by /repo)",
            "baseline_off_cmd": "cd /repo && GOFLAGS=-mod=mod GOPROXY=off go test -vet=off -count=1 -timeout 25m ./...",
            "source_commits": src_commits,
            "add_only": True,
        },
        "engines": [
            {"name": "coq", "path": "/verif/coq", "serves_properties": [c["property_id"] for c in checks],
             "kind_free_text": "Coq 8.16.1 development: Spec / Model / Proofs / Props per family; Gen/ regenerated from /repo by the translator"},
            {"name": "harness", "path": "/verif/harness", "serves_properties": [c["property_id"] for c in checks],
             "kind_free_text": "Go module (replace => /repo, -tags verif): translator cmd/gen and one correspondence driver per property"},
            {"name": "ocaml", "path": "/verif/ocaml", "serves_properties": [c["property_id"] for c in checks],
             "kind_free_text": "dune project: runners around the OCaml extraction of the Coq models"},
        ],
        "checks": checks,
        "not_applicable": not_app,
        "notes": "Every check: regenerate Gen/ from /repo, rebuild the property's Coq targets, rebuild drivers against /repo, "
                 "run correspondence + property predicate, write evidence.  See DESIGN.md.",
    }
    write_if_changed(os.path.join(ROOT, "MANIFEST.json"), json.dumps(man, indent=1) + "\n")
    log("MANIFEST.json: %d checks, %d not claimed" % (len(checks), len(not_app)))
    return 0


def main(argv):
    if len(argv) < 2:
        print(__doc__)
        return 2
    cmd = argv[1]
    if cmd == "setup":
        return setup()
    if cmd == "manifest":
        return manifest()
    if cmd == "check":
        pid = argv[2]
        tier = os.environ.get("VERIF_TIER", "quick")
        if "--tier" in argv:
            tier = argv[argv.index("--tier") + 1]
        if tier not in ("quick", "thorough"):
            tier = "quick"
        seed = int(os.environ.get("VERIF_SEED", "1") or "1")
        return check(pid, tier, seed)
    if cmd == "replay":
        return replay(argv[2])
    print(__doc__)
    return 2


if __name__ == "__main__":
    os.chdir(ROOT)
    sys.exit(main(sys.argv))
