package sm4

import (
	"sync"
	"testing"
)

// D51: SetIV wrote the package variable IV with no synchronisation while Sm4Cbc/Sm4CFB/Sm4OFB read it.
// Run with -race: fails (DATA RACE) before the fix, passes after it.
func TestD51SetIVRace(t *testing.T) {
	key := []byte("1234567890abcdef")
	ivs := [][]byte{make([]byte, 16), []byte("abcdefghijklmnop"), []byte("ABCDEFGHIJKLMNOP")}
	var wg sync.WaitGroup
	stop := make(chan struct{})
	wg.Add(1)
	go func() {
		defer wg.Done()
		for i := 0; ; i++ {
			select {
			case <-stop:
				return
			default:
			}
			if err := SetIV(ivs[i%len(ivs)]); err != nil {
				t.Error(err)
				return
			}
		}
	}()
	var wg2 sync.WaitGroup
	for g := 0; g < 4; g++ {
		wg2.Add(1)
		go func(g int) {
			defer wg2.Done()
			msg := []byte("some message of arbitrary length..")
			for i := 0; i < 300; i++ {
				var err error
				switch (g + i) % 3 {
				case 0:
					_, err = Sm4Cbc(key, msg, true)
				case 1:
					_, err = Sm4CFB(key, msg, true)
				default:
					_, err = Sm4OFB(key, msg, true)
				}
				if err != nil {
					t.Error(err)
					return
				}
			}
		}(g)
	}
	wg2.Wait()
	close(stop)
	wg.Wait()
}
