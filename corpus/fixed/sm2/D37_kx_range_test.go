package sm2

import (
	"crypto/rand"
	"math/big"
	"testing"
)

func TestKeyExchangeEphemeralRange(t *testing.T) {
	c := P256Sm2()
	p := c.Params().P
	// the curve point with x = 0, shifted by p: (p, sqrt(b))
	y := new(big.Int).ModSqrt(c.Params().B, p)
	if y == nil || !c.IsOnCurve(big.NewInt(0), y) {
		t.Fatal("no point with x = 0")
	}
	priA, _ := GenerateKey(rand.Reader)
	priB, _ := GenerateKey(rand.Reader)
	rB, _ := GenerateKey(rand.Reader)
	bad := &PublicKey{Curve: c, X: new(big.Int).Set(p), Y: y}
	good := &PublicKey{Curve: c, X: big.NewInt(0), Y: y}
	if _, _, _, err := KeyExchangeB(16, []byte("A"), []byte("B"), priB, &priA.PublicKey, rB, good); err != nil {
		t.Fatalf("canonical ephemeral rejected: %v", err)
	}
	if _, _, _, err := KeyExchangeB(16, []byte("A"), []byte("B"), priB, &priA.PublicKey, rB, bad); err == nil {
		t.Errorf("KeyExchangeB accepted an ephemeral value with x = p")
	}
	if _, _, _, err := KeyExchangeA(16, []byte("A"), []byte("B"), priA, &priB.PublicKey, rB, bad); err == nil {
		t.Errorf("KeyExchangeA accepted an ephemeral value with x = p")
	}
}
