package sm2

import (
	"bytes"
	"crypto/rand"
	"fmt"
	"math/big"
	"testing"
)

func decompressNoPanic(t *testing.T, name string, in []byte) (pub *PublicKey, panicked bool) {
	t.Helper()
	defer func() {
		if r := recover(); r != nil {
			t.Errorf("%s: Decompress panicked: %v", name, r)
			panicked = true
		}
	}()
	return Decompress(in), false
}

// D7: Decompress must return nil (not panic) on every invalid input.
func TestD07DecompressInvalid(t *testing.T) {
	P256Sm2()
	p := sm2P256.P
	// find small x for which x^3+ax+b is a non-residue / a residue
	var nonRes, res *big.Int
	a := new(big.Int).Sub(p, big.NewInt(3))
	for i := int64(1); i < 200 && (nonRes == nil || res == nil); i++ {
		x := big.NewInt(i)
		r := new(big.Int).Exp(x, big.NewInt(3), p)
		r.Add(r, new(big.Int).Mul(a, x))
		r.Add(r, sm2P256.B)
		r.Mod(r, p)
		if new(big.Int).ModSqrt(r, p) == nil {
			if nonRes == nil {
				nonRes = x
			}
		} else if res == nil {
			res = x
		}
	}
	enc := func(tag byte, x *big.Int) []byte {
		b := x.Bytes()
		out := append([]byte{tag}, make([]byte, 32-len(b))...)
		return append(out, b...)
	}
	good, _ := GenerateKey(rand.Reader)
	gc := Compress(&good.PublicKey)

	invalid := map[string][]byte{
		"nil":                  nil,
		"empty":                {},
		"tag only":             {1},
		"32 bytes":             gc[:32],
		"34 bytes":             append(append([]byte{}, gc...), 0),
		"65 bytes":             make([]byte, 65),
		"non-residue tag 0":    enc(0, nonRes),
		"non-residue tag 1":    enc(1, nonRes),
		"x = p":                enc(0, p),
		"x = p + residue":      enc(0, new(big.Int).Add(p, res)),
		"x = 2^256-1":          enc(1, new(big.Int).Sub(new(big.Int).Lsh(big.NewInt(1), 256), big.NewInt(1))),
		"bad tag 4":            append([]byte{4}, gc[1:]...),
		"bad tag 0xff":         append([]byte{0xff}, gc[1:]...),
	}
	for name, in := range invalid {
		pub, panicked := decompressNoPanic(t, name, in)
		if !panicked && pub != nil {
			t.Errorf("%s: Decompress(%x) = (%x,%x), want nil", name, in, pub.X, pub.Y)
		}
	}

	// valid inputs still work: residue x with both parities, and round trips
	for tag := byte(0); tag <= 1; tag++ {
		pub, _ := decompressNoPanic(t, "residue", enc(tag, res))
		if pub == nil {
			t.Errorf("valid x=%v tag %d rejected", res, tag)
			continue
		}
		if !pub.Curve.IsOnCurve(pub.X, pub.Y) || pub.X.Cmp(res) != 0 || pub.Y.Bit(0) != uint(tag) {
			t.Errorf("x=%v tag %d: wrong point (%x,%x)", res, tag, pub.X, pub.Y)
		}
	}
	for i := 0; i < 50; i++ {
		k, err := GenerateKey(rand.Reader)
		if err != nil {
			t.Fatal(err)
		}
		c := Compress(&k.PublicKey)
		pub, _ := decompressNoPanic(t, fmt.Sprintf("roundtrip %d", i), c)
		if pub == nil || pub.X.Cmp(k.X) != 0 || pub.Y.Cmp(k.Y) != 0 {
			t.Errorf("round trip %d failed", i)
		}
		if pub != nil && !bytes.Equal(Compress(pub), c) {
			t.Errorf("recompress %d differs", i)
		}
	}
}
