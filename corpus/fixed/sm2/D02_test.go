package sm2

import (
	"math/big"
	"testing"
)

// D2: Add(P,P) must return 2P, Add(P,-P) must return (0,0), Add(O,P)=Add(P,O)=P.
// D3: ScalarMult(G, n-6) must return -6G (the wNAF tail hits the doubling case).
func TestD02AddEqualPoints(t *testing.T) {
	c := P256Sm2()
	p := c.Params()
	gx, gy := p.Gx, p.Gy

	dx, dy := c.Double(gx, gy)
	ax, ay := c.Add(gx, gy, gx, gy)
	if ax.Cmp(dx) != 0 || ay.Cmp(dy) != 0 {
		t.Errorf("Add(G,G) = (%x,%x), want 2G = (%x,%x)", ax, ay, dx, dy)
	}
	if !c.IsOnCurve(ax, ay) || ax.Sign() == 0 {
		t.Errorf("Add(G,G) is not a finite curve point")
	}
	// inputs must not be modified
	if gx.Cmp(p.Gx) != 0 || gy.Cmp(p.Gy) != 0 {
		t.Errorf("Add modified its inputs")
	}

	// some other point, P = 7G, 2P = 14G
	px, py := c.ScalarBaseMult([]byte{7})
	wx, wy := c.ScalarBaseMult([]byte{14})
	ax, ay = c.Add(px, py, px, py)
	if ax.Cmp(wx) != 0 || ay.Cmp(wy) != 0 {
		t.Errorf("Add(7G,7G) = (%x,%x), want 14G = (%x,%x)", ax, ay, wx, wy)
	}

	// P + (-P) = O = (0,0)
	ny := new(big.Int).Sub(p.P, py)
	ax, ay = c.Add(px, py, px, ny)
	if ax.Sign() != 0 || ay.Sign() != 0 {
		t.Errorf("Add(P,-P) = (%x,%x), want (0,0)", ax, ay)
	}

	// O + P = P + O = P, O + O = O
	zero := new(big.Int)
	ax, ay = c.Add(zero, zero, px, py)
	if ax.Cmp(px) != 0 || ay.Cmp(py) != 0 {
		t.Errorf("Add(O,P) = (%x,%x), want P", ax, ay)
	}
	ax, ay = c.Add(px, py, zero, zero)
	if ax.Cmp(px) != 0 || ay.Cmp(py) != 0 {
		t.Errorf("Add(P,O) = (%x,%x), want P", ax, ay)
	}
	ax, ay = c.Add(zero, zero, zero, zero)
	if ax.Sign() != 0 || ay.Sign() != 0 {
		t.Errorf("Add(O,O) = (%x,%x), want (0,0)", ax, ay)
	}
}

func TestD03ScalarMultNearOrder(t *testing.T) {
	c := P256Sm2()
	p := c.Params()
	for d := int64(1); d <= 40; d++ {
		k := new(big.Int).Sub(p.N, big.NewInt(d))
		x, y := c.ScalarMult(p.Gx, p.Gy, k.Bytes())
		// expected: -(dG)
		wx, wy := c.ScalarBaseMult(big.NewInt(d).Bytes())
		wy = new(big.Int).Sub(p.P, wy)
		if x.Cmp(wx) != 0 || y.Cmp(wy) != 0 {
			t.Errorf("ScalarMult(G, n-%d) = (%x,%x), want (%x,%x)", d, x, y, wx, wy)
		}
		bx, by := c.ScalarBaseMult(k.Bytes())
		if bx.Cmp(wx) != 0 || by.Cmp(wy) != 0 {
			t.Errorf("ScalarBaseMult(n-%d) = (%x,%x), want (%x,%x)", d, bx, by, wx, wy)
		}
	}
	// cross-check ScalarMult against ScalarBaseMult and repeated Add for small k
	ax, ay := new(big.Int), new(big.Int)
	for k := int64(1); k <= 70; k++ {
		ax, ay = c.Add(ax, ay, p.Gx, p.Gy)
		sx, sy := c.ScalarMult(p.Gx, p.Gy, big.NewInt(k).Bytes())
		bx, by := c.ScalarBaseMult(big.NewInt(k).Bytes())
		if sx.Cmp(bx) != 0 || sy.Cmp(by) != 0 {
			t.Errorf("ScalarMult(G,%d) != ScalarBaseMult(%d)", k, k)
		}
		if ax.Cmp(bx) != 0 || ay.Cmp(by) != 0 {
			t.Fatalf("G added %d times = (%x,%x) != ScalarBaseMult(%d) = (%x,%x)", k, ax, ay, k, bx, by)
		}
	}
}
