package sm2

import (
	"math/big"
	"testing"
)

func hexInt(s string) *big.Int { v, _ := new(big.Int).SetString(s, 16); return v }

// a point of the curve (checked with integers below) on which the field arithmetic went wrong
func TestReduceDegreeBorrow(t *testing.T) {
	c := P256Sm2()
	p := c.Params().P
	x := hexInt("824200017b9bfffd03440001fdbdfffe822200007c9bfffd858400037bbbfffd")
	y := hexInt("9d192cd7226c8b0f4e63188da072e66d3ef940f339ba552f4d65b20b3ea7227e")
	lhs := new(big.Int).Mul(y, y)
	lhs.Mod(lhs, p)
	rhs := new(big.Int).Exp(x, big.NewInt(3), p)
	rhs.Sub(rhs, new(big.Int).Mul(big.NewInt(3), x))
	rhs.Add(rhs, c.Params().B)
	rhs.Mod(rhs, p)
	if lhs.Cmp(rhs) != 0 {
		t.Fatal("witness is not on the curve")
	}
	if !c.IsOnCurve(x, y) {
		t.Errorf("IsOnCurve rejects a point of the curve")
	}
	dx, dy := c.Double(x, y)
	if dx.Cmp(hexInt("3128c64f1019492e43fc2e2531df0547cddd330a48b94f6a60561ed0ca8b2391")) != 0 ||
		dy.Cmp(hexInt("5549cf3003f1544cf3836551e9f61bea19ec3294bd26184143cfd7aab68e0b61")) != 0 {
		t.Errorf("Double gives %x %x", dx, dy)
	}
	// limb level: Square of limbs 0,0,1fffffff,0,... against integers
	var a, sq sm2P256FieldElement
	a[2] = 0x1fffffff
	sm2P256Square(&sq, &a)
	av := sm2P256ToBig(&a)
	want := new(big.Int).Mul(av, av)
	want.Mod(want, p)
	if got := sm2P256ToBig(&sq); got.Cmp(want) != 0 {
		t.Errorf("Square: got %x want %x", got, want)
	}
}
