package sm2

import (
	"bytes"
	"math/big"
	"testing"
)

// D29: ScalarBaseMult must accept scalars of any byte length and return [k mod n]G.
func TestD29ScalarBaseMultLongScalar(t *testing.T) {
	c := P256Sm2()
	p := c.Params()
	check := func(name string, k []byte) {
		defer func() {
			if r := recover(); r != nil {
				t.Errorf("%s: ScalarBaseMult panicked: %v", name, r)
			}
		}()
		red := new(big.Int).Mod(new(big.Int).SetBytes(k), p.N)
		wx, wy := c.ScalarMult(p.Gx, p.Gy, red.Bytes())
		x, y := c.ScalarBaseMult(k)
		if x.Cmp(wx) != 0 || y.Cmp(wy) != 0 {
			t.Errorf("%s: ScalarBaseMult = (%x,%x), want (%x,%x)", name, x, y, wx, wy)
		}
	}
	k33 := make([]byte, 33)
	k33[32] = 5
	check("33 bytes 00..05", k33)
	k40 := append(make([]byte, 8), bytes.Repeat([]byte{0x7f}, 32)...)
	check("40 bytes, 8 leading zeros", k40)
	nm1 := new(big.Int).Sub(p.N, big.NewInt(1))
	check("00 || n-1", append([]byte{0}, nm1.Bytes()...))
	check("00 || n", append([]byte{0}, p.N.Bytes()...))
	check("00 00 || n+7", append([]byte{0, 0}, new(big.Int).Add(p.N, big.NewInt(7)).Bytes()...))
	check("40 bytes of ff", bytes.Repeat([]byte{0xff}, 40))
	check("64 zero bytes", make([]byte, 64))
	check("empty", []byte{})
	check("nil", nil)
	check("short", []byte{1, 2, 3})
	check("32 bytes", bytes.Repeat([]byte{0x11}, 32))
}
