package x509

import (
	"crypto/rand"
	"math/big"
	"testing"

	"github.com/tjfoc/gmsm/sm2"
)

func keyFromD(d *big.Int) *sm2.PrivateKey {
	c := sm2.P256Sm2()
	k := new(sm2.PrivateKey)
	k.Curve = c
	k.D = new(big.Int).Set(d)
	k.X, k.Y = c.ScalarBaseMult(d.Bytes())
	return k
}

// D8: WritePrivateKeyToHex must always emit 64 hex digits so that
// ReadPrivateKeyFromHex(WritePrivateKeyToHex(k)) == k for every key.
func TestD08PrivateKeyHexRoundTrip(t *testing.T) {
	ds := []*big.Int{}
	for i := int64(1); i <= 20; i++ {
		ds = append(ds, big.NewInt(i)) // many leading zero bytes, odd/even nibble counts
	}
	ds = append(ds, big.NewInt(0x123))                            // 3 nibbles
	ds = append(ds, new(big.Int).Lsh(big.NewInt(0xabc), 240))     // 63 nibbles: top nibble zero
	ds = append(ds, new(big.Int).Lsh(big.NewInt(0xab), 240))      // 62 nibbles: top byte zero
	ds = append(ds, new(big.Int).Lsh(big.NewInt(1), 255))         // full length
	for i := 0; i < 64; i++ {
		k, err := sm2.GenerateKey(rand.Reader)
		if err != nil {
			t.Fatal(err)
		}
		ds = append(ds, k.D)
	}
	for _, d := range ds {
		k := keyFromD(d)
		h := WritePrivateKeyToHex(k)
		if len(h) != 64 {
			t.Errorf("D=%x: WritePrivateKeyToHex gives %d hex digits (%q), want 64", d, len(h), h)
		}
		k2, err := ReadPrivateKeyFromHex(h)
		if err != nil {
			t.Errorf("D=%x: ReadPrivateKeyFromHex(%q): %v", d, h, err)
			continue
		}
		if k2.D.Cmp(k.D) != 0 || k2.X.Cmp(k.X) != 0 || k2.Y.Cmp(k.Y) != 0 {
			t.Errorf("D=%x: round trip gives D=%x", d, k2.D)
		}
	}
}

// Same class for the public key: X or Y with leading zero bytes.
func TestD08PublicKeyHexRoundTrip(t *testing.T) {
	var haveX, haveY bool
	n := 0
	for i := int64(1); i < 5000 && !(haveX && haveY && n > 50); i++ {
		k := keyFromD(big.NewInt(i))
		shortX := len(k.X.Bytes()) < 32
		shortY := len(k.Y.Bytes()) < 32
		nibX := k.X.BitLen() <= 252
		nibY := k.Y.BitLen() <= 252
		if !(shortX || shortY || nibX || nibY) && n > 50 {
			continue
		}
		n++
		haveX = haveX || shortX
		haveY = haveY || shortY
		h := WritePublicKeyToHex(&k.PublicKey)
		if len(h) != 130 {
			t.Errorf("d=%d: WritePublicKeyToHex gives %d hex digits, want 130", i, len(h))
		}
		p, err := ReadPublicKeyFromHex(h)
		if err != nil {
			t.Errorf("d=%d (X %d bytes, Y %d bytes): ReadPublicKeyFromHex: %v", i, len(k.X.Bytes()), len(k.Y.Bytes()), err)
			continue
		}
		if p.X.Cmp(k.X) != 0 || p.Y.Cmp(k.Y) != 0 {
			t.Errorf("d=%d: public key round trip mismatch", i)
		}
		// without the 04 prefix as well
		p, err = ReadPublicKeyFromHex(h[2:])
		if err != nil || p.X.Cmp(k.X) != 0 || p.Y.Cmp(k.Y) != 0 {
			t.Errorf("d=%d: public key round trip (no prefix) mismatch: %v", i, err)
		}
	}
	if !haveX || !haveY {
		t.Fatalf("did not find keys with short X (%v) and short Y (%v)", haveX, haveY)
	}
	t.Logf("checked %d keys, including X and Y with leading zero bytes", n)
}
