package sm2

import (
	"bytes"
	"crypto/rand"
	"math/big"
	"testing"

	"github.com/tjfoc/gmsm/sm3"
)

func pad32(b []byte) []byte {
	if len(b) >= 32 {
		return b
	}
	return append(make([]byte, 32-len(b)), b...)
}

// forge builds a ciphertext whose C1 is the (arbitrary) pair (x,y), consistent
// with what Decrypt computes when it does not validate C1.
func forgeD06(priv *PrivateKey, x, y *big.Int, msg []byte, mode int) []byte {
	c := priv.Curve
	x2, y2 := c.ScalarMult(x, y, priv.D.Bytes())
	x2b, y2b := pad32(x2.Bytes()), pad32(y2.Bytes())
	ks, _ := kdf(len(msg), x2b, y2b)
	c2 := make([]byte, len(msg))
	for i := range msg {
		c2[i] = msg[i] ^ ks[i]
	}
	c3 := sm3.Sm3Sum(BytesCombine(x2b, msg, y2b))
	out := []byte{0x04}
	out = append(out, pad32(x.Bytes())...)
	out = append(out, pad32(y.Bytes())...)
	if mode == C1C2C3 {
		out = append(out, c2...)
		out = append(out, c3...)
	} else {
		out = append(out, c3...)
		out = append(out, c2...)
	}
	return out
}

// D6: Decrypt must reject a C1 that is not a point of the SM2 curve.
func TestD06DecryptRejectsOffCurveC1(t *testing.T) {
	priv, err := GenerateKey(rand.Reader)
	if err != nil {
		t.Fatal(err)
	}
	msg := []byte("invalid curve oracle")
	curve := priv.Curve
	pts := [][2]*big.Int{
		{big.NewInt(0), big.NewInt(0)},
		{big.NewInt(1), big.NewInt(1)},
		{big.NewInt(2), big.NewInt(3)},
		{new(big.Int).Set(curve.Params().Gx), new(big.Int).Add(curve.Params().Gy, big.NewInt(1))},
	}
	for _, mode := range []int{C1C3C2, C1C2C3} {
		for _, p := range pts {
			if curve.IsOnCurve(p[0], p[1]) {
				t.Fatalf("test point (%v,%v) unexpectedly on curve", p[0], p[1])
			}
			ct := forgeD06(priv, p[0], p[1], msg, mode)
			pt, err := Decrypt(priv, ct, mode)
			if err == nil {
				t.Errorf("mode %d: C1=(%v,%v) not on curve but Decrypt succeeded (plaintext ok: %v)",
					mode, p[0], p[1], bytes.Equal(pt, msg))
			}
		}
		// sanity: the forging helper produces valid ciphertexts for on-curve C1
		gx, gy := curve.ScalarBaseMult([]byte{9})
		ct := forgeD06(priv, gx, gy, msg, mode)
		pt, err := Decrypt(priv, ct, mode)
		if err != nil || !bytes.Equal(pt, msg) {
			t.Errorf("mode %d: valid C1 rejected: %v", mode, err)
		}
		// and ordinary round trip still works
		ct, err = Encrypt(&priv.PublicKey, msg, rand.Reader, mode)
		if err != nil {
			t.Fatal(err)
		}
		pt, err = Decrypt(priv, ct, mode)
		if err != nil || !bytes.Equal(pt, msg) {
			t.Errorf("mode %d: round trip failed: %v", mode, err)
		}
	}
}
