package sm2

import (
	"bytes"
	"crypto/rand"
	"math/big"
	"testing"

	"github.com/tjfoc/gmsm/sm3"
)

func TestDecryptPCByte(t *testing.T) {
	priv, _ := GenerateKey(rand.Reader)
	for _, mode := range []int{C1C3C2, C1C2C3} {
		ct, err := Encrypt(&priv.PublicKey, []byte("attack at dawn"), rand.Reader, mode)
		if err != nil {
			t.Fatal(err)
		}
		if pt, err := Decrypt(priv, ct, mode); err != nil || !bytes.Equal(pt, []byte("attack at dawn")) {
			t.Fatalf("valid ciphertext rejected: %v", err)
		}
		for _, b := range []byte{0x00, 0x02, 0x03, 0x05, 0xff} {
			bad := append([]byte{}, ct...)
			bad[0] = b
			if _, err := Decrypt(priv, bad, mode); err == nil {
				t.Errorf("mode %d: first byte %#x accepted", mode, b)
			}
		}
	}
}

func TestDecryptCoordinateRange(t *testing.T) {
	d, _ := new(big.Int).SetString("1234567890abcdef1234567890abcdef1234567890abcdef1234567890abcdef", 16)
	priv := new(PrivateKey)
	priv.Curve = P256Sm2()
	priv.D = d
	priv.X, priv.Y = priv.Curve.ScalarBaseMult(d.Bytes())
	params := priv.Curve.Params()
	p := params.P
	a := new(big.Int).Sub(p, big.NewInt(3))
	// a curve point with a tiny x, so that x+p still fits in 32 bytes
	var x, y *big.Int
	for i := int64(1); i < 100; i++ {
		x = big.NewInt(i)
		rhs := new(big.Int).Exp(x, big.NewInt(3), p)
		rhs.Add(rhs, new(big.Int).Mul(a, x))
		rhs.Add(rhs, params.B)
		rhs.Mod(rhs, p)
		if y = new(big.Int).ModSqrt(rhs, p); y != nil {
			break
		}
	}
	if y == nil || !priv.Curve.IsOnCurve(x, y) {
		t.Fatal("no small point found")
	}
	pad := func(v *big.Int) []byte { b := v.Bytes(); return append(make([]byte, 32-len(b)), b...) }
	msg := []byte("attack at dawn")
	x2, y2 := priv.Curve.ScalarMult(x, y, d.Bytes())
	key, _ := kdf(len(msg), pad(x2), pad(y2))
	c2 := make([]byte, len(msg))
	for i := range msg {
		c2[i] = msg[i] ^ key[i]
	}
	h := sm3.Sm3Sum(append(append(pad(x2), msg...), pad(y2)...))
	forge := func(cx *big.Int) []byte {
		ct := []byte{4}
		ct = append(ct, pad(cx)...)
		ct = append(ct, pad(y)...)
		ct = append(ct, h...)
		return append(ct, c2...)
	}
	if pt, err := Decrypt(priv, forge(x), C1C3C2); err != nil || !bytes.Equal(pt, msg) {
		t.Fatalf("canonical ciphertext rejected: %v", err)
	}
	if _, err := Decrypt(priv, forge(new(big.Int).Add(x, p)), C1C3C2); err == nil {
		t.Errorf("C1 with x >= p accepted (second encoding of the same ciphertext)")
	}
}
