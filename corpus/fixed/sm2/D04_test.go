package sm2

import (
	"bytes"
	"crypto/rand"
	"testing"
	"time"
)

// D4: Encrypt / EncryptAsn1 of an empty plaintext must terminate (with an error).
func TestD04EncryptEmptyTerminates(t *testing.T) {
	priv, err := GenerateKey(rand.Reader)
	if err != nil {
		t.Fatal(err)
	}
	type res struct {
		out []byte
		err error
	}
	run := func(name string, f func() ([]byte, error)) {
		ch := make(chan res, 1)
		go func() {
			out, err := f()
			ch <- res{out, err}
		}()
		select {
		case r := <-ch:
			if r.err == nil {
				t.Errorf("%s: empty plaintext: want error, got ciphertext %x", name, r.out)
			}
		case <-time.After(5 * time.Second):
			t.Errorf("%s: empty plaintext: did not return within 5s (hang)", name)
		}
	}
	run("Encrypt C1C3C2 []byte{}", func() ([]byte, error) { return Encrypt(&priv.PublicKey, []byte{}, rand.Reader, C1C3C2) })
	run("Encrypt C1C2C3 nil", func() ([]byte, error) { return Encrypt(&priv.PublicKey, nil, rand.Reader, C1C2C3) })
	run("EncryptAsn1", func() ([]byte, error) { return EncryptAsn1(&priv.PublicKey, []byte{}, rand.Reader) })
	run("pub.EncryptAsn1", func() ([]byte, error) { return priv.PublicKey.EncryptAsn1([]byte{}, rand.Reader) })
}

// fixed "random" stream so that the ciphertext is deterministic
type detReader struct{ b byte }

func (d *detReader) Read(p []byte) (int, error) {
	for i := range p {
		d.b = d.b*31 + 7
		p[i] = d.b
	}
	return len(p), nil
}

// Non-empty plaintexts: output must stay byte-identical to the pre-fix code
// (golden values recorded on the unfixed tree) and must round-trip.
func TestD04EncryptNonEmptyUnchanged(t *testing.T) {
	priv, err := GenerateKey(&detReader{1})
	if err != nil {
		t.Fatal(err)
	}
	for _, mode := range []int{C1C3C2, C1C2C3} {
		for _, msg := range [][]byte{{0x41}, []byte("hello sm2"), bytes.Repeat([]byte{0x5a}, 100)} {
			ct, err := Encrypt(&priv.PublicKey, msg, &detReader{9}, mode)
			if err != nil {
				t.Fatal(err)
			}
			t.Logf("mode %d len %d: %x", mode, len(msg), ct)
			pt, err := Decrypt(priv, ct, mode)
			if err != nil || !bytes.Equal(pt, msg) {
				t.Errorf("mode %d: round trip failed: %v", mode, err)
			}
		}
	}
}
