package sm2

import (
	"bytes"
	"crypto/rand"
	"encoding/asn1"
	"fmt"
	"math/big"
	"testing"
)

func noPanic(t *testing.T, name string, f func() error, wantErr bool) {
	t.Helper()
	defer func() {
		if r := recover(); r != nil {
			t.Errorf("%s: panic: %v", name, r)
		}
	}()
	err := f()
	if wantErr && err == nil {
		t.Errorf("%s: want error, got nil", name)
	}
	if !wantErr && err != nil {
		t.Errorf("%s: unexpected error %v", name, err)
	}
}

// D5: Decrypt must return an error (not panic) on truncated ciphertexts.
func TestD05DecryptShortInput(t *testing.T) {
	priv, err := GenerateKey(rand.Reader)
	if err != nil {
		t.Fatal(err)
	}
	for _, mode := range []int{C1C3C2, C1C2C3, 7} {
		good, err := Encrypt(&priv.PublicKey, []byte{0x42}, rand.Reader, mode)
		if err != nil {
			t.Fatal(err)
		}
		if len(good) != 98 {
			t.Fatalf("unexpected ciphertext length %d", len(good))
		}
		noPanic(t, fmt.Sprintf("mode %d full", mode), func() error {
			pt, err := Decrypt(priv, good, mode)
			if err == nil && !bytes.Equal(pt, []byte{0x42}) {
				return fmt.Errorf("wrong plaintext %x", pt)
			}
			return err
		}, false)
		for n := 0; n < 98; n++ {
			in := make([]byte, n) // exact capacity, so that over-slicing panics
			copy(in, good)
			noPanic(t, fmt.Sprintf("mode %d len %d", mode, n), func() error {
				_, err := Decrypt(priv, in, mode)
				return err
			}, true)
		}
		noPanic(t, fmt.Sprintf("mode %d nil", mode), func() error {
			_, err := Decrypt(priv, nil, mode)
			return err
		}, true)
		// crypto.Decrypter entry point
		noPanic(t, "priv.Decrypt short", func() error {
			_, err := priv.Decrypt(nil, append([]byte(nil), good[:50]...), nil)
			return err
		}, true)
	}
}

// Same class for the ASN.1 entry points.
func TestD05DecryptAsn1Garbage(t *testing.T) {
	priv, err := GenerateKey(rand.Reader)
	if err != nil {
		t.Fatal(err)
	}
	msg := []byte("asn1 message")
	good, err := EncryptAsn1(&priv.PublicKey, msg, rand.Reader)
	if err != nil {
		t.Fatal(err)
	}
	noPanic(t, "good", func() error {
		pt, err := DecryptAsn1(priv, good)
		if err == nil && !bytes.Equal(pt, msg) {
			return fmt.Errorf("wrong plaintext")
		}
		return err
	}, false)
	for n := 0; n < len(good); n++ {
		in := make([]byte, n)
		copy(in, good)
		noPanic(t, fmt.Sprintf("truncated to %d", n), func() error {
			_, err := DecryptAsn1(priv, in)
			return err
		}, true)
		noPanic(t, fmt.Sprintf("CipherUnmarshal truncated to %d", n), func() error {
			_, err := CipherUnmarshal(in)
			return err
		}, true)
	}
	mk := func(x, y *big.Int, h, c []byte) []byte {
		b, err := asn1.Marshal(sm2Cipher{x, y, h, c})
		if err != nil {
			t.Fatal(err)
		}
		return b
	}
	h32 := make([]byte, 32)
	big40 := new(big.Int).Lsh(big.NewInt(1), 300)
	cases := map[string][]byte{
		"empty":            {},
		"garbage":          {0xde, 0xad, 0xbe, 0xef},
		"empty sequence":   {0x30, 0x00},
		"one integer":      {0x30, 0x03, 0x02, 0x01, 0x01},
		"empty hash+ct":    mk(big.NewInt(1), big.NewInt(2), nil, nil),
		"short hash":       mk(big.NewInt(1), big.NewInt(2), []byte{1, 2, 3}, []byte{4}),
		"long hash":        mk(big.NewInt(1), big.NewInt(2), make([]byte, 40), []byte{4}),
		"empty ciphertext": mk(big.NewInt(1), big.NewInt(2), h32, nil),
		"negative x":       mk(big.NewInt(-5), big.NewInt(2), h32, []byte{4}),
		"oversized x":      mk(big40, big.NewInt(2), h32, []byte{4}),
		"oversized y":      mk(big.NewInt(1), big40, h32, []byte{4}),
		"zero point":       mk(big.NewInt(0), big.NewInt(0), h32, []byte{4}),
	}
	for name, in := range cases {
		in := in
		noPanic(t, "DecryptAsn1 "+name, func() error {
			_, err := DecryptAsn1(priv, in)
			return err
		}, true)
		noPanic(t, "priv.DecryptAsn1 "+name, func() error {
			_, err := priv.DecryptAsn1(in)
			return err
		}, true)
	}
	// CipherUnmarshal must itself reject structurally invalid fields
	for _, name := range []string{"empty", "garbage", "empty sequence", "one integer", "short hash", "long hash", "negative x", "oversized x", "oversized y"} {
		in := cases[name]
		noPanic(t, "CipherUnmarshal "+name, func() error {
			_, err := CipherUnmarshal(in)
			return err
		}, true)
	}
	// CipherMarshal on short input
	for _, n := range []int{0, 1, 33, 65, 96} {
		in := make([]byte, n)
		noPanic(t, fmt.Sprintf("CipherMarshal len %d", n), func() error {
			_, err := CipherMarshal(in)
			return err
		}, true)
	}
}
