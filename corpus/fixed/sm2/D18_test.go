package sm2

import (
	"bytes"
	"crypto/rand"
	"encoding/hex"
	"math/big"
	"strings"
	"testing"

	"github.com/tjfoc/gmsm/sm3"
)

func d18Key(d *big.Int) *PrivateKey {
	c := P256Sm2()
	k := new(PrivateKey)
	k.Curve = c
	k.D = new(big.Int).Set(d)
	k.X, k.Y = c.ScalarBaseMult(d.Bytes())
	return k
}

func d18Hex(s string) []byte {
	b, err := hex.DecodeString(strings.ReplaceAll(s, " ", ""))
	if err != nil {
		panic(err)
	}
	return b
}

func fb(x *big.Int) []byte { return x.FillBytes(make([]byte, 32)) }

// Independent reference for GM/T 0003.3 from the initiator's point of view:
//   x1~ = 2^127 + (x1 & (2^127-1)), tA = dA + x1~ rA mod n
//   U = [tA](PB + [x2~]RB), K = KDF(xU||yU||ZA||ZB, klen)
//   S1 = H(02||yU||H(xU||ZA||ZB||x1||y1||x2||y2)), S2 = H(03||...)
// with (x1,y1)=RA (initiator), (x2,y2)=RB (responder), all coordinates 32 bytes.
func d18Ref(klen int, ida, idb []byte, da, ra *PrivateKey, pb, rb *PublicKey) (k, s1, s2 []byte, vx, vy *big.Int) {
	c := P256Sm2()
	n := c.Params().N
	w127 := new(big.Int).Lsh(big.NewInt(1), 127)
	mask := new(big.Int).Sub(w127, big.NewInt(1))
	hat := func(x *big.Int) *big.Int {
		r := new(big.Int).And(x, mask)
		return r.Add(r, w127)
	}
	ta := new(big.Int).Mul(hat(ra.X), ra.D)
	ta.Add(ta, da.D).Mod(ta, n)
	tx, ty := c.ScalarMult(rb.X, rb.Y, hat(rb.X).Bytes())
	ux, uy := c.Add(pb.X, pb.Y, tx, ty)
	vx, vy = c.ScalarMult(ux, uy, ta.Bytes())
	za, _ := ZA(&da.PublicKey, ida)
	zb, _ := ZA(pb, idb)
	// KDF
	var ks []byte
	for ct := uint32(1); len(ks) < klen; ct++ {
		h := sm3.New()
		h.Write(fb(vx))
		h.Write(fb(vy))
		h.Write(za)
		h.Write(zb)
		h.Write([]byte{byte(ct >> 24), byte(ct >> 16), byte(ct >> 8), byte(ct)})
		ks = h.Sum(ks)
	}
	k = ks[:klen]
	inner := sm3.Sm3Sum(BytesCombine(fb(vx), za, zb, fb(ra.X), fb(ra.Y), fb(rb.X), fb(rb.Y)))
	s1 = sm3.Sm3Sum(BytesCombine([]byte{2}, fb(vy), inner))
	s2 = sm3.Sm3Sum(BytesCombine([]byte{3}, fb(vy), inner))
	return
}

var d18ID = []byte("1234567812345678")

func d18Check(t *testing.T, name string, da, db, ra, rb *PrivateKey, ida, idb []byte) {
	t.Helper()
	wk, ws1, ws2, _, _ := d18Ref(16, ida, idb, da, ra, &db.PublicKey, &rb.PublicKey)
	kb, sb, s2b, err := KeyExchangeB(16, ida, idb, db, &da.PublicKey, rb, &ra.PublicKey)
	if err != nil {
		t.Errorf("%s: KeyExchangeB: %v", name, err)
		return
	}
	ka, s1a, sa, err := KeyExchangeA(16, ida, idb, da, &db.PublicKey, ra, &rb.PublicKey)
	if err != nil {
		t.Errorf("%s: KeyExchangeA: %v", name, err)
		return
	}
	if !bytes.Equal(ka, kb) || !bytes.Equal(s1a, sb) || !bytes.Equal(sa, s2b) {
		t.Errorf("%s: A and B disagree", name)
	}
	if !bytes.Equal(ka, wk) {
		t.Errorf("%s: K  = %x, want %x", name, ka, wk)
	}
	if !bytes.Equal(s1a, ws1) {
		t.Errorf("%s: S1 = %x, want %x", name, s1a, ws1)
	}
	if !bytes.Equal(sa, ws2) {
		t.Errorf("%s: S2 = %x, want %x", name, sa, ws2)
	}
}

// GM/T 0003.5-2012 key exchange example on the recommended curve.
func TestD18AnnexVector(t *testing.T) {
	da := d18Key(new(big.Int).SetBytes(d18Hex("81EB26E9 41BB5AF1 6DF11649 5F906952 72AE2CD6 3D6C4AE1 678418BE 48230029")))
	db := d18Key(new(big.Int).SetBytes(d18Hex("78512991 7D45A9EA 5437A593 56B82338 EAADDA6C EB199088 F14AE10D EFA229B5")))
	ra := d18Key(new(big.Int).SetBytes(d18Hex("D4DE1547 4DB74D06 491C440D 305E0124 00990F3E 390C7E87 153C12DB 2EA60BB3")))
	rb := d18Key(new(big.Int).SetBytes(d18Hex("7E071248 14B30948 9125EAED 10111316 4EBF0F34 58C5BD88 335C1F9D 596243D6")))
	wantK := d18Hex("6C893473 54DE2484 C60B4AB1 FDE4C6E5")
	wantS1 := d18Hex("D3A0FE15 DEE185CE AE907A6B 595CC32A 266ED7B3 367E9983 A896DC32 FA20F8EB") // S1 = SB
	wantS2 := d18Hex("18C7894B 3816DF16 CF07B05C 5EC0BEF5 D655D58F 779CC1B4 00A4F388 4644DB88") // S2 = SA

	rk, rs1, rs2, _, _ := d18Ref(16, d18ID, d18ID, da, ra, &db.PublicKey, &rb.PublicKey)
	if !bytes.Equal(rk, wantK) || !bytes.Equal(rs1, wantS1) || !bytes.Equal(rs2, wantS2) {
		t.Fatalf("reference implementation does not reproduce the standard's example:\nK %x\nS1 %x\nS2 %x", rk, rs1, rs2)
	}
	kb, sb, s2, err := KeyExchangeB(16, d18ID, d18ID, db, &da.PublicKey, rb, &ra.PublicKey)
	if err != nil {
		t.Fatal(err)
	}
	ka, s1, sa, err := KeyExchangeA(16, d18ID, d18ID, da, &db.PublicKey, ra, &rb.PublicKey)
	if err != nil {
		t.Fatal(err)
	}
	if !bytes.Equal(ka, wantK) || !bytes.Equal(kb, wantK) {
		t.Errorf("K: A %x B %x want %x", ka, kb, wantK)
	}
	if !bytes.Equal(s1, wantS1) || !bytes.Equal(sb, wantS1) {
		t.Errorf("S1/SB: A %x B %x want %x", s1, sb, wantS1)
	}
	if !bytes.Equal(sa, wantS2) || !bytes.Equal(s2, wantS2) {
		t.Errorf("SA/S2: A %x B %x want %x", sa, s2, wantS2)
	}
}

func d18Rand(t *testing.T) *PrivateKey {
	k, err := GenerateKey(rand.Reader)
	if err != nil {
		t.Fatal(err)
	}
	return k
}

// find a key whose public X (wantX) or Y has a leading zero byte
func d18ShortCoord(t *testing.T, wantX bool) *PrivateKey {
	for i := 0; i < 100000; i++ {
		k := d18Rand(t)
		if wantX && len(k.X.Bytes()) < 32 || !wantX && len(k.Y.Bytes()) < 32 {
			return k
		}
	}
	t.Fatal("no key with short coordinate found")
	return nil
}

func TestD18RandomAndLeadingZeros(t *testing.T) {
	for i := 0; i < 20; i++ {
		d18Check(t, "random", d18Rand(t), d18Rand(t), d18Rand(t), d18Rand(t), []byte("Alice"), []byte("Bob, a longer id"))
	}
	d18Check(t, "RA.X short", d18Rand(t), d18Rand(t), d18ShortCoord(t, true), d18Rand(t), d18ID, d18ID)
	d18Check(t, "RA.Y short", d18Rand(t), d18Rand(t), d18ShortCoord(t, false), d18Rand(t), d18ID, d18ID)
	d18Check(t, "RB.X short", d18Rand(t), d18Rand(t), d18Rand(t), d18ShortCoord(t, true), d18ID, d18ID)
	d18Check(t, "RB.Y short", d18Rand(t), d18Rand(t), d18Rand(t), d18ShortCoord(t, false), d18ID, d18ID)
	d18Check(t, "PA.X short", d18ShortCoord(t, true), d18Rand(t), d18Rand(t), d18Rand(t), d18ID, d18ID)
	d18Check(t, "PB.Y short", d18Rand(t), d18ShortCoord(t, false), d18Rand(t), d18Rand(t), d18ID, d18ID)
	// V with a short x, and V with a short y
	da, db, ra := d18Rand(t), d18Rand(t), d18Rand(t)
	var gotX, gotY bool
	for i := 0; i < 20000 && !(gotX && gotY); i++ {
		rb := d18Rand(t)
		_, _, _, vx, vy := d18Ref(16, d18ID, d18ID, da, ra, &db.PublicKey, &rb.PublicKey)
		if !gotX && len(vx.Bytes()) < 32 {
			gotX = true
			d18Check(t, "V.x short", da, db, ra, rb, d18ID, d18ID)
		}
		if !gotY && len(vy.Bytes()) < 32 {
			gotY = true
			d18Check(t, "V.y short", da, db, ra, rb, d18ID, d18ID)
		}
	}
	if !gotX || !gotY {
		t.Fatal("did not find V with short coordinates")
	}
}

func TestD18Errors(t *testing.T) {
	c := P256Sm2()
	n := c.Params().N
	da, db, ra, rb := d18Rand(t), d18Rand(t), d18Rand(t), d18Rand(t)

	// peer's ephemeral point not on the curve
	bad := &PublicKey{Curve: c, X: new(big.Int).Set(ra.X), Y: new(big.Int).Add(ra.Y, big.NewInt(1))}
	if k, _, _, err := KeyExchangeB(16, d18ID, d18ID, db, &da.PublicKey, rb, bad); err == nil {
		t.Errorf("B: RA not on curve accepted, k=%x", k)
	}
	if k, _, _, err := KeyExchangeA(16, d18ID, d18ID, da, &db.PublicKey, ra, bad); err == nil {
		t.Errorf("A: RB not on curve accepted, k=%x", k)
	}
	inf := &PublicKey{Curve: c, X: new(big.Int), Y: new(big.Int)}
	if k, _, _, err := KeyExchangeB(16, d18ID, d18ID, db, &da.PublicKey, rb, inf); err == nil {
		t.Errorf("B: RA = (0,0) accepted, k=%x", k)
	}

	// V = O: choose the peer's static key PA = -[x1~]RA, so PA + [x1~]RA = O
	hat := keXHat(ra.X)
	dEvil := new(big.Int).Mul(hat, ra.D)
	dEvil.Neg(dEvil).Mod(dEvil, n)
	evil := d18Key(dEvil)
	sx, sy := c.ScalarMult(ra.X, ra.Y, hat.Bytes())
	if ux, uy := c.Add(evil.X, evil.Y, sx, sy); ux.Sign() != 0 || uy.Sign() != 0 {
		t.Fatalf("construction failed: PA + [x1~]RA = (%x,%x)", ux, uy)
	}
	k, s1, s2, err := KeyExchangeB(16, d18ID, d18ID, db, &evil.PublicKey, rb, &ra.PublicKey)
	if err == nil {
		t.Errorf("B: V is the point at infinity but no error; k=%x s1=%x s2=%x", k, s1, s2)
	}
	if k != nil || s1 != nil || s2 != nil {
		t.Errorf("B: V infinite: results must be nil, got k=%x s1=%x s2=%x", k, s1, s2)
	}
}
