package gmtls

import (
	"io"
	"net"
	"testing"
	"time"

	"github.com/tjfoc/gmsm/x509"
	"io/ioutil"
)

func TestGMOnlyServerWithCertificateCallbacks(t *testing.T) {
	sig, err := LoadX509KeyPair("websvr/certs/sm2_sign_cert.cer", "websvr/certs/sm2_sign_key.pem")
	if err != nil {
		t.Fatal(err)
	}
	enc, err := LoadX509KeyPair("websvr/certs/sm2_enc_cert.cer", "websvr/certs/sm2_enc_key.pem")
	if err != nil {
		t.Fatal(err)
	}
	pool := x509.NewCertPool()
	ca, _ := ioutil.ReadFile("websvr/certs/SM2_CA.cer")
	pool.AppendCertsFromPEM(ca)
	srvCfg := &Config{
		GMSupport:        &GMSupport{},
		GetCertificate:   func(*ClientHelloInfo) (*Certificate, error) { return &sig, nil },
		GetKECertificate: func(*ClientHelloInfo) (*Certificate, error) { return &enc, nil },
	}
	ln, err := net.Listen("tcp", "127.0.0.1:0")
	if err != nil {
		t.Fatal(err)
	}
	defer ln.Close()
	res := make(chan error, 1)
	go func() {
		c, err := ln.Accept()
		if err != nil {
			res <- err
			return
		}
		defer c.Close()
		c.SetDeadline(time.Now().Add(5 * time.Second))
		s := Server(c, srvCfg)
		if err := s.Handshake(); err != nil {
			res <- err
			return
		}
		buf := make([]byte, 4)
		if _, err := io.ReadFull(s, buf); err != nil {
			res <- err
			return
		}
		s.Write(buf)
		res <- nil
	}()
	raw, err := net.Dial("tcp", ln.Addr().String())
	if err != nil {
		t.Fatal(err)
	}
	defer raw.Close()
	raw.SetDeadline(time.Now().Add(5 * time.Second))
	c := Client(raw, &Config{GMSupport: &GMSupport{}, RootCAs: pool, ServerName: "localhost"})
	if err := c.Handshake(); err != nil {
		t.Errorf("client: %v", err)
	} else {
		c.Write([]byte("ping"))
		buf := make([]byte, 4)
		if _, err := io.ReadFull(c, buf); err != nil || string(buf) != "ping" {
			t.Errorf("echo: %v", err)
		}
	}
	if err := <-res; err != nil {
		t.Errorf("server: %v", err)
	}
}

type scriptedConn struct{ net.Conn }

func TestTLSClientRSAKxNonRSACert(t *testing.T) {
	// a TLS server that selects an RSA key-exchange suite but presents an SM2 certificate
	sig, err := LoadX509KeyPair("websvr/certs/sm2_sign_cert.cer", "websvr/certs/sm2_sign_key.pem")
	if err != nil {
		t.Fatal(err)
	}
	var priv interface{} = nil
	_ = priv
	ka := rsaKeyAgreement{}
	cert, err := x509.ParseCertificate(sig.Certificate[0])
	if err != nil {
		t.Fatal(err)
	}
	defer func() {
		if e := recover(); e != nil {
			t.Errorf("generateClientKeyExchange panicked: %v", e)
		}
	}()
	if _, _, err := ka.generateClientKeyExchange(&Config{}, &clientHelloMsg{vers: VersionTLS12}, cert); err == nil {
		t.Errorf("RSA key exchange accepted a non-RSA certificate")
	}
}
