package gmtls

// D20 (additional sites of the same classes)
//
//  e1: eccKeyAgreementGM.processServerKeyExchange decodes the 2-byte signature
//      length as byte<<8|byte (high byte lost), like processClientKeyExchange.
//  e2: an auto-switch (GMSSL/TLS) server configured with Certificates but
//      without GetKECertificate calls the nil GetKECertificate func as soon as
//      a GMSSL ClientHello arrives (Config.getEKCertificate, which implements
//      the documented fallback to Certificates[1], is never used).

import (
	"fmt"
	"io"
	"net"
	"strings"
	"testing"
	"time"

	"github.com/tjfoc/gmsm/x509"
)

func TestD20e1ServerKeyExchangeLength(t *testing.T) {
	sig, err := LoadX509KeyPair("websvr/certs/sm2_sign_cert.cer", "websvr/certs/sm2_sign_key.pem")
	if err != nil {
		t.Fatal(err)
	}
	enc, err := LoadX509KeyPair("websvr/certs/sm2_enc_cert.cer", "websvr/certs/sm2_enc_key.pem")
	if err != nil {
		t.Fatal(err)
	}
	sigX509, _ := x509.ParseCertificate(sig.Certificate[0])
	encX509, _ := x509.ParseCertificate(enc.Certificate[0])
	hello := &clientHelloMsg{vers: VersionGMSSL, random: make([]byte, 32)}
	serverHello := &serverHelloMsg{vers: VersionGMSSL, random: make([]byte, 32)}

	ska := &eccKeyAgreementGM{version: VersionGMSSL}
	skx, err := ska.generateServerKeyExchange(&Config{}, &sig, &enc, hello, serverHello)
	if err != nil {
		t.Fatal(err)
	}
	cka := func() *eccKeyAgreementGM { return &eccKeyAgreementGM{version: VersionGMSSL, encipherCert: encX509} }
	if err := cka().processServerKeyExchange(&Config{}, hello, serverHello, sigX509, skx); err != nil {
		t.Fatalf("genuine ServerKeyExchange rejected: %v", err)
	}
	lying := &serverKeyExchangeMsg{key: append([]byte{}, skx.key...)}
	lying.key[0] = 0x01 // claims 256 more bytes than present
	if err := cka().processServerKeyExchange(&Config{}, hello, serverHello, sigX509, lying); err == nil {
		t.Errorf("D20e1: ServerKeyExchange with %d signature bytes and length prefix %#x accepted", len(lying.key)-2, int(lying.key[0])<<8|int(lying.key[1]))
	}
	for _, k := range [][]byte{nil, {0}, {0, 0}, {0, 1}} {
		func() {
			defer func() {
				if r := recover(); r != nil {
					t.Errorf("D20e1: panic on key %x: %v", k, r)
				}
			}()
			if err := cka().processServerKeyExchange(&Config{}, hello, serverHello, sigX509, &serverKeyExchangeMsg{key: k}); err == nil {
				t.Errorf("D20e1: key %x accepted", k)
			}
		}()
	}
}

func TestD20e2AutoSwitchWithoutGetKECertificate(t *testing.T) {
	sig, err := LoadX509KeyPair("websvr/certs/sm2_sign_cert.cer", "websvr/certs/sm2_sign_key.pem")
	if err != nil {
		t.Fatal(err)
	}
	enc, err := LoadX509KeyPair("websvr/certs/sm2_enc_cert.cer", "websvr/certs/sm2_enc_key.pem")
	if err != nil {
		t.Fatal(err)
	}
	support := NewGMSupport()
	support.EnableMixMode()
	// Documented in Config.GetKECertificate: when it is nil, Certificates[1]
	// is the key-exchange (encryption) certificate.
	serverCfg := &Config{GMSupport: support, Certificates: []Certificate{sig, enc}}

	ln, err := net.Listen("tcp", "127.0.0.1:0")
	if err != nil {
		t.Fatal(err)
	}
	defer ln.Close()
	done := make(chan error, 1)
	go func() {
		var err error
		defer func() {
			if r := recover(); r != nil {
				err = fmt.Errorf("PANIC in server: %v", r)
			}
			done <- err
		}()
		raw, e := ln.Accept()
		if e != nil {
			err = e
			return
		}
		defer raw.Close()
		raw.SetDeadline(time.Now().Add(3 * time.Second))
		srv := Server(raw, serverCfg)
		if err = srv.Handshake(); err != nil {
			return
		}
		buf := make([]byte, 5)
		if _, err = io.ReadFull(srv, buf); err != nil {
			return
		}
		_, err = srv.Write(buf)
	}()
	raw, err := net.Dial("tcp", ln.Addr().String())
	if err != nil {
		t.Fatal(err)
	}
	defer raw.Close()
	raw.SetDeadline(time.Now().Add(3 * time.Second))
	cli := Client(raw, &Config{GMSupport: &GMSupport{}, InsecureSkipVerify: true})
	cerr := cli.Handshake()
	if cerr == nil {
		cli.Write([]byte("hello"))
		buf := make([]byte, 5)
		_, cerr = io.ReadFull(cli, buf)
	}
	raw.Close()
	serr := <-done
	t.Logf("client: %v, server: %v", cerr, serr)
	if serr != nil && strings.HasPrefix(serr.Error(), "PANIC") {
		t.Fatalf("D20e2: %v", serr)
	}
	if cerr != nil || serr != nil {
		t.Errorf("D20e2: GMSSL handshake against auto-switch server with Certificates[1] as encryption certificate failed: client=%v server=%v", cerr, serr)
	}
}
