package gmtls

// D20(d): the GM client must not dereference a failed type assertion when a
// certificate sent by the server carries a non-EC (e.g. RSA) public key.

import (
	"crypto/rand"
	"fmt"
	"net"
	"strings"
	"testing"
	"time"

	"github.com/tjfoc/gmsm/sm2"
	"github.com/tjfoc/gmsm/x509"
)

func d20dDial(t *testing.T, serverCfg *Config) (cerr error) {
	ln, err := net.Listen("tcp", "127.0.0.1:0")
	if err != nil {
		t.Fatal(err)
	}
	defer ln.Close()
	done := make(chan struct{})
	go func() {
		defer close(done)
		defer func() { recover() }()
		raw, e := ln.Accept()
		if e != nil {
			return
		}
		defer raw.Close()
		raw.SetDeadline(time.Now().Add(3 * time.Second))
		Server(raw, serverCfg).Handshake()
	}()
	raw, err := net.Dial("tcp", ln.Addr().String())
	if err != nil {
		t.Fatal(err)
	}
	raw.SetDeadline(time.Now().Add(3 * time.Second))
	func() {
		defer func() {
			if r := recover(); r != nil {
				cerr = fmt.Errorf("PANIC in client: %v", r)
			}
		}()
		cerr = Client(raw, &Config{GMSupport: &GMSupport{}, InsecureSkipVerify: true}).Handshake()
	}()
	raw.Close()
	<-done
	return cerr
}

func TestD20dNonECServerCertificate(t *testing.T) {
	rsaCert, err := LoadX509KeyPair("websvr/certs/rsa_sign.cer", "websvr/certs/rsa_sign_key.pem")
	if err != nil {
		t.Fatal(err)
	}
	sig, err := LoadX509KeyPair("websvr/certs/sm2_sign_cert.cer", "websvr/certs/sm2_sign_key.pem")
	if err != nil {
		t.Fatal(err)
	}
	enc, err := LoadX509KeyPair("websvr/certs/sm2_enc_cert.cer", "websvr/certs/sm2_enc_key.pem")
	if err != nil {
		t.Fatal(err)
	}
	someKey, err := sm2.GenerateKey(rand.Reader)
	if err != nil {
		t.Fatal(err)
	}

	// Server presents an RSA certificate as signing certificate ...
	rsaAsSign := Certificate{Certificate: rsaCert.Certificate, PrivateKey: someKey}
	cerr := d20dDial(t, &Config{GMSupport: &GMSupport{}, Certificates: []Certificate{rsaAsSign, enc}})
	t.Logf("RSA signing certificate: client: %v", cerr)
	if cerr == nil || strings.HasPrefix(cerr.Error(), "PANIC") {
		t.Errorf("D20d: RSA certificate in position 0: %v", cerr)
	}
	// ... or as encryption certificate.
	rsaAsEnc := Certificate{Certificate: rsaCert.Certificate, PrivateKey: enc.PrivateKey}
	cerr = d20dDial(t, &Config{GMSupport: &GMSupport{}, Certificates: []Certificate{sig, rsaAsEnc}})
	t.Logf("RSA encryption certificate: client: %v", cerr)
	if cerr == nil || strings.HasPrefix(cerr.Error(), "PANIC") {
		t.Errorf("D20d: RSA certificate in position 1: %v", cerr)
	}

	// The key agreement methods themselves.
	rsaX509, err := x509.ParseCertificate(rsaCert.Certificate[0])
	if err != nil {
		t.Fatal(err)
	}
	encX509, err := x509.ParseCertificate(enc.Certificate[0])
	if err != nil {
		t.Fatal(err)
	}
	hello := &clientHelloMsg{vers: VersionGMSSL, random: make([]byte, 32)}
	serverHello := &serverHelloMsg{vers: VersionGMSSL, random: make([]byte, 32)}
	func() {
		defer func() {
			if r := recover(); r != nil {
				t.Errorf("D20d: eccKeyAgreementGM.processServerKeyExchange with an RSA signing certificate: panic: %v", r)
			}
		}()
		ka := &eccKeyAgreementGM{version: VersionGMSSL, encipherCert: encX509}
		skx := &serverKeyExchangeMsg{key: []byte{0, 3, 0x30, 0x01, 0x00}}
		if err := ka.processServerKeyExchange(&Config{}, hello, serverHello, rsaX509, skx); err == nil {
			t.Errorf("D20d: processServerKeyExchange accepted an RSA certificate")
		}
	}()
	func() {
		defer func() {
			if r := recover(); r != nil {
				t.Errorf("D20d: eccKeyAgreementGM.generateClientKeyExchange with an RSA encryption certificate: panic: %v", r)
			}
		}()
		ka := &eccKeyAgreementGM{version: VersionGMSSL, encipherCert: rsaX509}
		if _, _, err := ka.generateClientKeyExchange(&Config{}, hello, rsaX509); err == nil {
			t.Errorf("D20d: generateClientKeyExchange accepted an RSA certificate")
		}
	}()
}
