package gmtls

import (
	"sync"
	"testing"
)

// run with -race: first use of a Config (Clone -> serverInit) concurrent with a key rotation
func TestConfigFirstUseVsRotation(t *testing.T) {
	for round := 0; round < 2000; round++ {
		cfg := &Config{}
		var wg sync.WaitGroup
		wg.Add(3)
		go func() { defer wg.Done(); cfg.SetSessionTicketKeys([][32]byte{{9}}) }()
		go func() { defer wg.Done(); cfg.Clone() }()
		go func() { defer wg.Done(); cfg.Clone() }()
		wg.Wait()
		want := ticketKeyFromBytes([32]byte{9})
		got := cfg.ticketKeys()
		if len(got) != 1 || got[0].keyName != want.keyName {
			t.Fatalf("round %d: rotation lost: %d keys", round, len(got))
		}
	}
}
