package gmtls

// D20(b): eccKeyAgreementGM.processClientKeyExchange must validate the
// 2-byte length prefix of the ClientKeyExchange body without panicking and
// must decode it as a 16-bit big-endian integer.

import (
	"bytes"
	"crypto/rand"
	"fmt"
	"io"
	"net"
	"testing"
	"time"

	"github.com/tjfoc/gmsm/x509"
)

func d20bCall(ka *eccKeyAgreementGM, cfg *Config, enc *Certificate, body []byte) (pms []byte, err error, panicked interface{}) {
	defer func() {
		if r := recover(); r != nil {
			panicked = r
		}
	}()
	pms, err = ka.processClientKeyExchange(cfg, enc, &clientKeyExchangeMsg{ciphertext: body}, VersionGMSSL)
	return
}

func TestD20bClientKeyExchangeLength(t *testing.T) {
	enc, err := LoadX509KeyPair("websvr/certs/sm2_enc_cert.cer", "websvr/certs/sm2_enc_key.pem")
	if err != nil {
		t.Fatal(err)
	}
	encX509, err := x509.ParseCertificate(enc.Certificate[0])
	if err != nil {
		t.Fatal(err)
	}
	cfg := &Config{}

	// Short bodies.
	for _, body := range [][]byte{nil, {}, {0}, {1}, {0xff}, {0, 0}, {0, 1}, {0, 1, 7}} {
		ka := &eccKeyAgreementGM{version: VersionGMSSL}
		pms, err, p := d20bCall(ka, cfg, &enc, body)
		if p != nil {
			t.Errorf("D20b: %d-byte ClientKeyExchange body %x: panic: %v", len(body), body, p)
			continue
		}
		if err == nil {
			t.Errorf("D20b: %d-byte body %x accepted (pms %x)", len(body), body, pms)
		}
	}

	// A genuine ClientKeyExchange produced by the client side.
	cka := &eccKeyAgreementGM{version: VersionGMSSL, encipherCert: encX509}
	hello := &clientHelloMsg{vers: VersionGMSSL, random: make([]byte, 32)}
	wantPMS, ckx, err := cka.generateClientKeyExchange(&Config{}, hello, encX509)
	if err != nil {
		t.Fatal(err)
	}
	good := ckx.ciphertext
	if len(good) >= 2+256 {
		t.Fatalf("unexpected: genuine body is %d bytes", len(good))
	}
	pms, err, p := d20bCall(&eccKeyAgreementGM{version: VersionGMSSL}, cfg, &enc, good)
	if p != nil || err != nil || !bytes.Equal(pms, wantPMS) {
		t.Fatalf("genuine ClientKeyExchange not accepted: err=%v panic=%v", err, p)
	}

	// Same body, but the length prefix claims 256 bytes more than there are:
	// prefix 0x01,L with L == len-2.  b0<<8 computed on a byte drops b0.
	lying := append([]byte{}, good...)
	lying[0] = 0x01
	pms, err, p = d20bCall(&eccKeyAgreementGM{version: VersionGMSSL}, cfg, &enc, lying)
	if p != nil {
		t.Errorf("D20b: panic on inconsistent length prefix: %v", p)
	} else if err == nil {
		t.Errorf("D20b: body of %d bytes with length prefix %#x accepted (high length byte ignored)", len(lying)-2, int(lying[0])<<8|int(lying[1]))
	}

	// A body longer than 255 bytes with a CORRECT 16-bit prefix (the SM2
	// ciphertext followed by padding, which sm2.CipherUnmarshal ignores) must
	// pass the length check.
	long := append([]byte{}, good[2:]...)
	long = append(long, make([]byte, 300-len(long))...)
	long = append([]byte{byte(len(long) >> 8), byte(len(long))}, long...)
	pms, err, p = d20bCall(&eccKeyAgreementGM{version: VersionGMSSL}, cfg, &enc, long)
	if p != nil {
		t.Errorf("D20b: panic on 300-byte body: %v", p)
	} else if err == errClientKeyExchange {
		t.Errorf("D20b: 300-byte body with correct length prefix 0x012c rejected by the length check: %v", err)
	} else {
		t.Logf("300-byte body: err=%v pmsOK=%v", err, bytes.Equal(pms, wantPMS))
	}
}

// The same over the wire: a scripted GMSSL client sends a 1-byte
// ClientKeyExchange body to a real server.
func TestD20bShortClientKeyExchangeOnWire(t *testing.T) {
	sig, err := LoadX509KeyPair("websvr/certs/sm2_sign_cert.cer", "websvr/certs/sm2_sign_key.pem")
	if err != nil {
		t.Fatal(err)
	}
	enc, err := LoadX509KeyPair("websvr/certs/sm2_enc_cert.cer", "websvr/certs/sm2_enc_key.pem")
	if err != nil {
		t.Fatal(err)
	}
	serverCfg := &Config{GMSupport: &GMSupport{}, Certificates: []Certificate{sig, enc}}

	for _, body := range [][]byte{{}, {0}, {0, 5}} {
		ln, err := net.Listen("tcp", "127.0.0.1:0")
		if err != nil {
			t.Fatal(err)
		}
		done := make(chan error, 1)
		go func() {
			var err error
			defer func() {
				if r := recover(); r != nil {
					err = fmt.Errorf("PANIC in server: %v", r)
				}
				done <- err
			}()
			raw, e := ln.Accept()
			if e != nil {
				err = e
				return
			}
			defer raw.Close()
			raw.SetDeadline(time.Now().Add(5 * time.Second))
			err = Server(raw, serverCfg).Handshake()
			if err == nil {
				err = fmt.Errorf("server handshake unexpectedly succeeded")
			}
		}()

		raw, err := net.Dial("tcp", ln.Addr().String())
		if err != nil {
			t.Fatal(err)
		}
		raw.SetDeadline(time.Now().Add(5 * time.Second))
		c := Client(raw, &Config{GMSupport: &GMSupport{}, InsecureSkipVerify: true})
		c.vers = VersionGMSSL
		hello := &clientHelloMsg{vers: VersionGMSSL, compressionMethods: []uint8{compressionNone},
			random: make([]byte, 32), cipherSuites: []uint16{GMTLS_SM2_WITH_SM4_SM3}}
		io.ReadFull(rand.Reader, hello.random)
		c.in.Lock()
		if _, err := c.writeRecord(recordTypeHandshake, hello.marshal()); err != nil {
			t.Fatal(err)
		}
		for {
			msg, err := c.readHandshake()
			if err != nil {
				t.Fatalf("scripted client: %v", err)
			}
			if _, ok := msg.(*serverHelloDoneMsg); ok {
				break
			}
		}
		ckx := &clientKeyExchangeMsg{ciphertext: body}
		if _, err := c.writeRecord(recordTypeHandshake, ckx.marshal()); err != nil {
			t.Fatal(err)
		}
		c.in.Unlock()
		serr := <-done
		raw.Close()
		ln.Close()
		t.Logf("body %x: server: %v", body, serr)
		if serr != nil && len(serr.Error()) > 5 && serr.Error()[:5] == "PANIC" {
			t.Errorf("D20b: %d-byte ClientKeyExchange body crashed the server: %v", len(body), serr)
		}
	}
}
