package gmtls

// D19: the GMSSL client must not accept a handshake without ServerKeyExchange.
//
// The rogue server below owns the genuine signing certificate, the genuine
// encryption certificate and the encryption private key, but NOT the signing
// private key.  It runs the normal GM server handshake except that it never
// sends (nor hashes) a ServerKeyExchange message.  A verifying client
// (RootCAs set, InsecureSkipVerify=false) must refuse to complete the
// handshake, because nothing proved possession of the signing key.

import (
	"crypto/rand"
	"fmt"
	"io"
	"io/ioutil"
	"net"
	"sync/atomic"
	"testing"
	"time"

	"github.com/tjfoc/gmsm/sm2"
	"github.com/tjfoc/gmsm/x509"
)

// d19ServerHandshakeNoSKX is serverHandshakeGM + doFullHandshake with the
// ServerKeyExchange step removed (no client auth, no OCSP).
func d19ServerHandshakeNoSKX(c *Conn) (err error) {
	defer func() {
		if r := recover(); r != nil {
			err = fmt.Errorf("server panic: %v", r)
		}
	}()
	c.handshakeMutex.Lock()
	defer c.handshakeMutex.Unlock()
	c.in.Lock()
	defer c.in.Unlock()

	c.config.serverInitOnce.Do(func() { c.config.serverInit(nil) })
	hs := serverHandshakeStateGM{c: c}
	isResume, err := hs.readClientHello()
	if err != nil {
		return err
	}
	if isResume {
		return fmt.Errorf("unexpected resumption")
	}
	c.buffering = true

	// --- doFullHandshake without ServerKeyExchange ---
	hs.hello.ticketSupported = false
	hs.hello.cipherSuite = hs.suite.id
	hs.finishedHash = newFinishedHashGM(hs.suite)
	hs.finishedHash.discardHandshakeBuffer()
	hs.finishedHash.Write(hs.clientHello.marshal())
	hs.finishedHash.Write(hs.hello.marshal())
	if _, err := c.writeRecord(recordTypeHandshake, hs.hello.marshal()); err != nil {
		return err
	}
	certMsg := new(certificateMsg)
	for i := 0; i < len(hs.cert); i++ {
		certMsg.certificates = append(certMsg.certificates, hs.cert[i].Certificate...)
	}
	hs.finishedHash.Write(certMsg.marshal())
	if _, err := c.writeRecord(recordTypeHandshake, certMsg.marshal()); err != nil {
		return err
	}
	keyAgreement := hs.suite.ka(c.vers)
	// (ServerKeyExchange deliberately omitted)
	helloDone := new(serverHelloDoneMsg)
	hs.finishedHash.Write(helloDone.marshal())
	if _, err := c.writeRecord(recordTypeHandshake, helloDone.marshal()); err != nil {
		return err
	}
	if _, err := c.flush(); err != nil {
		return err
	}
	msg, err := c.readHandshake()
	if err != nil {
		return err
	}
	ckx, ok := msg.(*clientKeyExchangeMsg)
	if !ok {
		return fmt.Errorf("expected ClientKeyExchange, got %T", msg)
	}
	hs.finishedHash.Write(ckx.marshal())
	preMasterSecret, err := keyAgreement.processClientKeyExchange(c.config, &hs.cert[1], ckx, c.vers)
	if err != nil {
		return err
	}
	hs.masterSecret = masterFromPreMasterSecret(c.vers, hs.suite, preMasterSecret, hs.clientHello.random, hs.hello.random)
	// --- end doFullHandshake ---

	if err := hs.establishKeys(); err != nil {
		return err
	}
	if err := hs.readFinished(c.clientFinished[:]); err != nil {
		return err
	}
	c.clientFinishedIsFirst = true
	c.buffering = true
	if err := hs.sendFinished(nil); err != nil {
		return err
	}
	if _, err := c.flush(); err != nil {
		return err
	}
	atomic.StoreUint32(&c.handshakeStatus, 1)
	c.handshakes++
	return nil
}

func TestD19ClientRequiresServerKeyExchange(t *testing.T) {
	sigCert, err := LoadX509KeyPair("websvr/certs/sm2_sign_cert.cer", "websvr/certs/sm2_sign_key.pem")
	if err != nil {
		t.Fatal(err)
	}
	encCert, err := LoadX509KeyPair("websvr/certs/sm2_enc_cert.cer", "websvr/certs/sm2_enc_key.pem")
	if err != nil {
		t.Fatal(err)
	}
	// The attacker does not have the signing key: replace it by an unrelated one.
	unrelated, err := sm2.GenerateKey(rand.Reader)
	if err != nil {
		t.Fatal(err)
	}
	sigCert.PrivateKey = unrelated

	pool := x509.NewCertPool()
	ca, err := ioutil.ReadFile("websvr/certs/SM2_CA.cer")
	if err != nil {
		t.Fatal(err)
	}
	if !pool.AppendCertsFromPEM(ca) {
		t.Fatal("cannot load CA")
	}

	serverCfg := &Config{GMSupport: &GMSupport{}, Certificates: []Certificate{sigCert, encCert}, SessionTicketsDisabled: true}
	clientCfg := &Config{GMSupport: &GMSupport{}, RootCAs: pool, ServerName: "localhost",
		CipherSuites: []uint16{GMTLS_SM2_WITH_SM4_SM3}}

	run := func(serverHandshake func(*Conn) error) (clientErr, serverErr error, echoed bool) {
		ln, err := net.Listen("tcp", "127.0.0.1:0")
		if err != nil {
			t.Fatal(err)
		}
		defer ln.Close()
		done := make(chan error, 1)
		go func() {
			raw, err := ln.Accept()
			if err != nil {
				done <- err
				return
			}
			defer raw.Close()
			raw.SetDeadline(time.Now().Add(5 * time.Second))
			srv := Server(raw, serverCfg)
			if err := serverHandshake(srv); err != nil {
				done <- err
				return
			}
			buf := make([]byte, 5)
			if _, err := io.ReadFull(srv, buf); err != nil {
				done <- err
				return
			}
			_, err = srv.Write(buf)
			done <- err
		}()
		raw, err := net.Dial("tcp", ln.Addr().String())
		if err != nil {
			t.Fatal(err)
		}
		defer raw.Close()
		raw.SetDeadline(time.Now().Add(5 * time.Second))
		cli := Client(raw, clientCfg)
		clientErr = cli.Handshake()
		if clientErr == nil {
			if _, err := cli.Write([]byte("hello")); err == nil {
				buf := make([]byte, 5)
				if _, err := io.ReadFull(cli, buf); err == nil && string(buf) == "hello" {
					echoed = true
				}
			}
		}
		raw.Close()
		serverErr = <-done
		return
	}

	// Sanity: the in-test server flow with the genuine keys and the regular
	// handshake works against the verifying client.
	goodSig, _ := LoadX509KeyPair("websvr/certs/sm2_sign_cert.cer", "websvr/certs/sm2_sign_key.pem")
	serverCfg.Certificates[0] = goodSig
	cerr, serr, echoed := run(func(c *Conn) error { return c.Handshake() })
	if cerr != nil || serr != nil || !echoed {
		t.Fatalf("sanity handshake failed: client=%v server=%v echoed=%v", cerr, serr, echoed)
	}
	serverCfg.Certificates[0] = sigCert

	// A server with the wrong signing key and the regular flow is rejected
	// (signature in ServerKeyExchange does not verify).
	cerr, _, _ = run(func(c *Conn) error { return c.Handshake() })
	if cerr == nil {
		t.Fatalf("client accepted a ServerKeyExchange signed by an unrelated key")
	}

	// The same server simply omitting ServerKeyExchange must be rejected too.
	cerr, serr, echoed = run(d19ServerHandshakeNoSKX)
	if cerr == nil {
		t.Fatalf("D19: client completed a GMSSL handshake without ServerKeyExchange (server err=%v, data echoed=%v): server never proved possession of the signing key", serr, echoed)
	}
	t.Logf("client rejected missing ServerKeyExchange: %v (server: %v)", cerr, serr)
}
