package gmtls

// D21: GMSSL session resumption.  Two sequential connections from a client
// with a session cache: the second one must be a resumed session on both
// sides, with data flowing and without a server crash, whether the configs
// carry an explicit CipherSuites list or nil.

import (
	"fmt"
	"io"
	"io/ioutil"
	"net"
	"strings"
	"testing"
	"time"

	"github.com/tjfoc/gmsm/x509"
)

type d21Result struct {
	cerr, serr       error
	cstate, sstate   ConnectionState
	echoed           bool
}

func d21Connect(t *testing.T, serverCfg, clientCfg *Config) (r d21Result) {
	ln, err := net.Listen("tcp", "127.0.0.1:0")
	if err != nil {
		t.Fatal(err)
	}
	defer ln.Close()
	type sres struct {
		err   error
		state ConnectionState
	}
	done := make(chan sres, 1)
	go func() {
		var res sres
		defer func() {
			if r := recover(); r != nil {
				res.err = fmt.Errorf("PANIC in server: %v", r)
			}
			done <- res
		}()
		raw, e := ln.Accept()
		if e != nil {
			res.err = e
			return
		}
		defer raw.Close()
		raw.SetDeadline(time.Now().Add(3 * time.Second))
		srv := Server(raw, serverCfg)
		if res.err = srv.Handshake(); res.err != nil {
			return
		}
		res.state = srv.ConnectionState()
		buf := make([]byte, 5)
		if _, res.err = io.ReadFull(srv, buf); res.err != nil {
			return
		}
		_, res.err = srv.Write(buf)
	}()
	raw, err := net.Dial("tcp", ln.Addr().String())
	if err != nil {
		t.Fatal(err)
	}
	defer raw.Close()
	raw.SetDeadline(time.Now().Add(3 * time.Second))
	cli := Client(raw, clientCfg)
	if r.cerr = cli.Handshake(); r.cerr == nil {
		r.cstate = cli.ConnectionState()
		if _, r.cerr = cli.Write([]byte("hello")); r.cerr == nil {
			buf := make([]byte, 5)
			if _, r.cerr = io.ReadFull(cli, buf); r.cerr == nil {
				r.echoed = string(buf) == "hello"
			}
		}
	}
	raw.Close()
	s := <-done
	r.serr, r.sstate = s.err, s.state
	return
}

func TestD21GMResumption(t *testing.T) {
	sig, err := LoadX509KeyPair("websvr/certs/sm2_sign_cert.cer", "websvr/certs/sm2_sign_key.pem")
	if err != nil {
		t.Fatal(err)
	}
	enc, err := LoadX509KeyPair("websvr/certs/sm2_enc_cert.cer", "websvr/certs/sm2_enc_key.pem")
	if err != nil {
		t.Fatal(err)
	}
	rsaCert, err := LoadX509KeyPair("websvr/certs/rsa_sign.cer", "websvr/certs/rsa_sign_key.pem")
	if err != nil {
		t.Fatal(err)
	}

	type variant struct {
		name                       string
		serverSuites, clientSuites []uint16
	}
	explicit := []uint16{GMTLS_SM2_WITH_SM4_SM3}
	gcm := []uint16{GMTLS_ECC_SM4_GCM_SM3}
	variants := []variant{
		{"client explicit, server nil", nil, explicit},
		{"client nil, server nil", nil, nil},
		{"client explicit, server explicit", explicit, explicit},
		{"client nil, server explicit", explicit, nil},
		{"GCM both explicit", gcm, gcm},
	}
	for _, mode := range []string{"GMSSLOnly", "AutoSwitch"} {
		for _, v := range variants {
			var serverCfg *Config
			if mode == "GMSSLOnly" {
				serverCfg = &Config{GMSupport: &GMSupport{}, Certificates: []Certificate{sig, enc}}
			} else {
				serverCfg, err = NewBasicAutoSwitchConfig(&sig, &enc, &rsaCert)
				if err != nil {
					t.Fatal(err)
				}
			}
			serverCfg.CipherSuites = v.serverSuites
			clientCfg := &Config{GMSupport: &GMSupport{}, InsecureSkipVerify: true,
				CipherSuites: v.clientSuites, ClientSessionCache: NewLRUClientSessionCache(8),
				// the listener port changes between connections; key the
				// session cache by name
				ServerName: "localhost"}
			what := mode + ", " + v.name

			r1 := d21Connect(t, serverCfg, clientCfg)
			if r1.cerr != nil || r1.serr != nil || !r1.echoed {
				t.Errorf("D21 %s: first connection failed: client=%v server=%v", what, r1.cerr, r1.serr)
				continue
			}
			if r1.cstate.DidResume || r1.sstate.DidResume {
				t.Errorf("D21 %s: first connection claims resumption", what)
			}
			for i := 2; i <= 3; i++ {
				r := d21Connect(t, serverCfg, clientCfg)
				if r.serr != nil && strings.HasPrefix(r.serr.Error(), "PANIC") {
					t.Errorf("D21 %s: connection %d: %v (client: %v)", what, i, r.serr, r.cerr)
					break
				}
				if r.cerr != nil || r.serr != nil || !r.echoed {
					t.Errorf("D21 %s: connection %d failed: client=%v server=%v", what, i, r.cerr, r.serr)
					break
				}
				if !r.cstate.DidResume || !r.sstate.DidResume {
					t.Errorf("D21 %s: connection %d was not resumed: client DidResume=%v server DidResume=%v", what, i, r.cstate.DidResume, r.sstate.DidResume)
				}
				if r.cstate.CipherSuite != r1.cstate.CipherSuite || r.sstate.CipherSuite != r1.cstate.CipherSuite {
					t.Errorf("D21 %s: connection %d: cipher suite changed: %#x/%#x vs %#x", what, i, r.cstate.CipherSuite, r.sstate.CipherSuite, r1.cstate.CipherSuite)
				}
			}
		}
	}

	// Resumption with client authentication (certificates travel in the ticket).
	{
		auth, err := LoadX509KeyPair("websvr/certs/sm2_auth_cert.cer", "websvr/certs/sm2_auth_key.pem")
		if err != nil {
			t.Fatal(err)
		}
		pool := x509.NewCertPool()
		ca, err := ioutil.ReadFile("websvr/certs/SM2_CA.cer")
		if err != nil {
			t.Fatal(err)
		}
		pool.AppendCertsFromPEM(ca)
		serverCfg := &Config{GMSupport: &GMSupport{}, Certificates: []Certificate{sig, enc}, ClientAuth: RequireAndVerifyClientCert, ClientCAs: pool}
		clientCfg := &Config{GMSupport: &GMSupport{}, RootCAs: pool, ServerName: "localhost", Certificates: []Certificate{auth}, ClientSessionCache: NewLRUClientSessionCache(8)}
		r1 := d21Connect(t, serverCfg, clientCfg)
		r2 := d21Connect(t, serverCfg, clientCfg)
		if r1.cerr != nil || r1.serr != nil || r2.cerr != nil || r2.serr != nil || !r2.echoed {
			t.Errorf("D21 mutual auth: %v %v / %v %v", r1.cerr, r1.serr, r2.cerr, r2.serr)
		} else if !r2.cstate.DidResume || !r2.sstate.DidResume || len(r2.sstate.PeerCertificates) == 0 {
			t.Errorf("D21 mutual auth: second connection not resumed (%v/%v) or client certificate lost (%d)", r2.cstate.DidResume, r2.sstate.DidResume, len(r2.sstate.PeerCertificates))
		}
	}

	// A ticket must NOT resume when the server no longer allows the suite.
	serverCfg := &Config{GMSupport: &GMSupport{}, Certificates: []Certificate{sig, enc}, CipherSuites: []uint16{GMTLS_SM2_WITH_SM4_SM3, GMTLS_ECC_SM4_GCM_SM3}}
	clientCfg := &Config{GMSupport: &GMSupport{}, InsecureSkipVerify: true, ServerName: "localhost",
		CipherSuites: []uint16{GMTLS_SM2_WITH_SM4_SM3, GMTLS_ECC_SM4_GCM_SM3}, ClientSessionCache: NewLRUClientSessionCache(8)}
	r1 := d21Connect(t, serverCfg, clientCfg)
	if r1.cerr != nil || r1.serr != nil || r1.cstate.CipherSuite != GMTLS_SM2_WITH_SM4_SM3 {
		t.Fatalf("setup: %v %v %#x", r1.cerr, r1.serr, r1.cstate.CipherSuite)
	}
	serverCfg2 := serverCfg.Clone()
	serverCfg2.CipherSuites = []uint16{GMTLS_ECC_SM4_GCM_SM3}
	r2 := d21Connect(t, serverCfg2, clientCfg)
	if r2.cerr != nil || r2.serr != nil || !r2.echoed {
		t.Errorf("D21: connection after server suite change failed: client=%v server=%v", r2.cerr, r2.serr)
	} else if r2.cstate.DidResume || r2.sstate.DidResume || r2.cstate.CipherSuite != GMTLS_ECC_SM4_GCM_SM3 {
		t.Errorf("D21: session with a suite the server no longer allows was resumed (suite %#x, resume %v/%v)", r2.cstate.CipherSuite, r2.cstate.DidResume, r2.sstate.DidResume)
	}
}
