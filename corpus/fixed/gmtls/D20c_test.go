package gmtls

// D20(c): a ClientHello carrying a version number that is no protocol
// version of this package (0x0102..0x02ff), or VersionGMSSL sent to a server
// without GM support, must be answered with an error / protocol_version
// alert, never with a panic ("unknown version").

import (
	"crypto/rand"
	"fmt"
	"io"
	"net"
	"strings"
	"testing"
	"time"

	"github.com/tjfoc/gmsm/x509"
)

// d20cProbe sends a hand-made ClientHello (record layer written by hand) and,
// when the server goes on to ServerHelloDone, a genuine GM ClientKeyExchange
// when gmCKX is set.  It returns what the server's Handshake() returned.
func d20cProbe(t *testing.T, serverCfg *Config, vers uint16, suites []uint16, gmCKX bool) (serr error) {
	ln, err := net.Listen("tcp", "127.0.0.1:0")
	if err != nil {
		t.Fatal(err)
	}
	defer ln.Close()
	done := make(chan error, 1)
	go func() {
		var err error
		defer func() {
			if r := recover(); r != nil {
				err = fmt.Errorf("PANIC in server: %v", r)
			}
			done <- err
		}()
		raw, e := ln.Accept()
		if e != nil {
			err = e
			return
		}
		defer raw.Close()
		raw.SetDeadline(time.Now().Add(3 * time.Second))
		err = Server(raw, serverCfg).Handshake()
	}()

	raw, err := net.Dial("tcp", ln.Addr().String())
	if err != nil {
		t.Fatal(err)
	}
	defer raw.Close()
	raw.SetDeadline(time.Now().Add(3 * time.Second))

	hello := &clientHelloMsg{vers: vers, compressionMethods: []uint8{compressionNone},
		random: make([]byte, 32), cipherSuites: suites,
		supportedCurves: []CurveID{CurveP256}, supportedPoints: []uint8{pointFormatUncompressed}}
	io.ReadFull(rand.Reader, hello.random)
	body := hello.marshal()
	rec := append([]byte{byte(recordTypeHandshake), 0x03, 0x01, byte(len(body) >> 8), byte(len(body))}, body...)
	if _, err := raw.Write(rec); err != nil {
		t.Fatal(err)
	}

	if gmCKX {
		// Read the server flight with a Conn in client role, then send a
		// well-formed GM ClientKeyExchange so the server reaches the PRF.
		c := Client(raw, &Config{GMSupport: &GMSupport{}, InsecureSkipVerify: true})
		c.in.Lock()
		var encCert *x509.Certificate
		for {
			msg, err := c.readHandshake()
			if err != nil {
				break
			}
			if cm, ok := msg.(*certificateMsg); ok && len(cm.certificates) >= 2 {
				encCert, _ = x509.ParseCertificate(cm.certificates[1])
			}
			if _, ok := msg.(*serverHelloDoneMsg); ok {
				ka := &eccKeyAgreementGM{version: vers, encipherCert: encCert}
				_, ckx, err := ka.generateClientKeyExchange(c.config, hello, encCert)
				if err != nil {
					t.Fatal(err)
				}
				m := ckx.marshal()
				raw.Write(append([]byte{byte(recordTypeHandshake), byte(vers >> 8), byte(vers), byte(len(m) >> 8), byte(len(m))}, m...))
				break
			}
		}
		c.in.Unlock()
	}
	select {
	case serr = <-done:
	case <-time.After(5 * time.Second):
		serr = fmt.Errorf("server hung")
	}
	return serr
}

func d20cCheck(t *testing.T, what string, serr error) {
	t.Logf("%s: server: %v", what, serr)
	if serr == nil {
		t.Errorf("D20c %s: server handshake succeeded?!", what)
	} else if strings.HasPrefix(serr.Error(), "PANIC") || strings.Contains(serr.Error(), "hung") {
		t.Errorf("D20c %s: %v", what, serr)
	}
}

func TestD20cUnknownClientHelloVersion(t *testing.T) {
	rsaCert, err := LoadX509KeyPair("websvr/certs/rsa_sign.cer", "websvr/certs/rsa_sign_key.pem")
	if err != nil {
		t.Fatal(err)
	}
	sig, err := LoadX509KeyPair("websvr/certs/sm2_sign_cert.cer", "websvr/certs/sm2_sign_key.pem")
	if err != nil {
		t.Fatal(err)
	}
	enc, err := LoadX509KeyPair("websvr/certs/sm2_enc_cert.cer", "websvr/certs/sm2_enc_key.pem")
	if err != nil {
		t.Fatal(err)
	}
	tlsSuites := []uint16{TLS_RSA_WITH_AES_128_CBC_SHA, TLS_ECDHE_RSA_WITH_AES_128_CBC_SHA, TLS_RSA_WITH_AES_128_GCM_SHA256}
	gmSuites := []uint16{GMTLS_SM2_WITH_SM4_SM3}

	// TLS-only server.
	tlsOnly := &Config{Certificates: []Certificate{rsaCert}}
	for _, v := range []uint16{0x0200, 0x0102, 0x02ff, VersionGMSSL} {
		d20cCheck(t, fmt.Sprintf("TLS-only server, ClientHello version %#04x", v), d20cProbe(t, tlsOnly, v, tlsSuites, false))
	}

	// GMSSL-only server: a crafted client with a bogus version, a GM suite
	// and a well-formed ClientKeyExchange.
	gmOnly := &Config{GMSupport: &GMSupport{}, Certificates: []Certificate{sig, enc}}
	for _, v := range []uint16{0x0200, 0x0102, 0x02ff} {
		d20cCheck(t, fmt.Sprintf("GMSSL-only server, ClientHello version %#04x", v), d20cProbe(t, gmOnly, v, gmSuites, true))
	}

	// Auto-switch server.
	auto, err := NewBasicAutoSwitchConfig(&sig, &enc, &rsaCert)
	if err != nil {
		t.Fatal(err)
	}
	for _, v := range []uint16{0x0200, 0x0102, 0x02ff} {
		d20cCheck(t, fmt.Sprintf("auto-switch server, ClientHello version %#04x", v), d20cProbe(t, auto, v, append(gmSuites, tlsSuites...), true))
	}
}

// mutualVersion itself: only versions the configuration really implements.
func TestD20cMutualVersion(t *testing.T) {
	tlsOnly := &Config{}
	gmOnly := &Config{GMSupport: NewGMSupport()}
	mix := &Config{GMSupport: NewGMSupport()}
	mix.GMSupport.EnableMixMode()

	type tc struct {
		cfg  *Config
		name string
		in   uint16
		want uint16
		ok   bool
	}
	cases := []tc{
		{tlsOnly, "tls", 0x0100, 0, false},
		{tlsOnly, "tls", VersionGMSSL, 0, false},
		{tlsOnly, "tls", 0x0102, 0, false},
		{tlsOnly, "tls", 0x0200, 0, false},
		{tlsOnly, "tls", 0x02ff, 0, false},
		{tlsOnly, "tls", VersionSSL30, VersionSSL30, true},
		{tlsOnly, "tls", VersionTLS10, VersionTLS10, true},
		{tlsOnly, "tls", VersionTLS11, VersionTLS11, true},
		{tlsOnly, "tls", VersionTLS12, VersionTLS12, true},
		{tlsOnly, "tls", 0x0304, VersionTLS12, true},
		{gmOnly, "gm", VersionGMSSL, VersionGMSSL, true},
		{gmOnly, "gm", 0x0102, 0, false},
		{gmOnly, "gm", 0x0200, 0, false},
		{mix, "mix", VersionGMSSL, VersionGMSSL, true},
		{mix, "mix", 0x0200, 0, false},
		{mix, "mix", VersionTLS12, VersionTLS12, true},
		{mix, "mix", 0x0304, VersionTLS12, true},
	}
	for _, c := range cases {
		got, ok := c.cfg.mutualVersion(c.in)
		if ok != c.ok || (ok && got != c.want) {
			t.Errorf("D20c mutualVersion[%s](%#04x) = %#04x,%v; want %#04x,%v", c.name, c.in, got, ok, c.want, c.ok)
		}
	}
}
