package gmtls

// D28: the GM key-pair loaders must accept the repository's own matching
// SM2 certificates/keys and reject every mismatching combination, including
// a wrong encryption key (which GMX509KeyPairs never even read).

import (
	"io"
	"io/ioutil"
	"net"
	"os"
	"path/filepath"
	"testing"
	"time"

	"github.com/tjfoc/gmsm/sm2"
	"github.com/tjfoc/gmsm/x509"
)

const d28Dir = "websvr/certs/"

func d28Read(t *testing.T, name string) []byte {
	b, err := ioutil.ReadFile(d28Dir + name)
	if err != nil {
		t.Fatal(err)
	}
	return b
}

func TestD28GMKeyPairLoaders(t *testing.T) {
	signCert, signKey := d28Read(t, "sm2_sign_cert.cer"), d28Read(t, "sm2_sign_key.pem")
	encCert, encKey := d28Read(t, "sm2_enc_cert.cer"), d28Read(t, "sm2_enc_key.pem")
	authCert, authKey := d28Read(t, "sm2_auth_cert.cer"), d28Read(t, "sm2_auth_key.pem")
	rsaCert, rsaKey := d28Read(t, "rsa_sign.cer"), d28Read(t, "rsa_sign_key.pem")

	// ---- pair loaders: X509KeyPair, GMX509KeyPairsSingle (+ file variants)
	type pairLoader struct {
		name string
		f    func(cert, key []byte) (Certificate, error)
	}
	viaFiles := func(load func(c, k string) (Certificate, error)) func(cert, key []byte) (Certificate, error) {
		return func(cert, key []byte) (Certificate, error) {
			dir, err := ioutil.TempDir("", "d28")
			if err != nil {
				t.Fatal(err)
			}
			defer os.RemoveAll(dir)
			cf, kf := filepath.Join(dir, "c.pem"), filepath.Join(dir, "k.pem")
			ioutil.WriteFile(cf, cert, 0600)
			ioutil.WriteFile(kf, key, 0600)
			return load(cf, kf)
		}
	}
	pairLoaders := []pairLoader{
		{"X509KeyPair", X509KeyPair},
		{"GMX509KeyPairsSingle", GMX509KeyPairsSingle},
		{"LoadX509KeyPair", viaFiles(LoadX509KeyPair)},
		{"LoadGMX509KeyPair", viaFiles(LoadGMX509KeyPair)},
	}
	type pairCase struct {
		name      string
		cert, key []byte
		ok        bool
	}
	pairCases := []pairCase{
		{"sign/sign", signCert, signKey, true},
		{"enc/enc", encCert, encKey, true},
		{"auth/auth", authCert, authKey, true},
		{"rsa/rsa", rsaCert, rsaKey, true},
		{"sign cert/enc key", signCert, encKey, false},
		{"enc cert/sign key", encCert, signKey, false},
		{"sign cert/auth key", signCert, authKey, false},
		{"sign cert/rsa key", signCert, rsaKey, false},
		{"rsa cert/sign key", rsaCert, signKey, false},
		{"sign cert/sign cert", signCert, signCert, false},
		{"sign key/sign key", signKey, signKey, false},
	}
	for _, l := range pairLoaders {
		for _, c := range pairCases {
			cert, err := l.f(c.cert, c.key)
			if c.ok && err != nil {
				t.Errorf("D28 %s(%s): matching pair rejected: %v", l.name, c.name, err)
			} else if !c.ok && err == nil {
				t.Errorf("D28 %s(%s): mismatching pair accepted", l.name, c.name)
			} else if c.ok && (len(cert.Certificate) != 1 || cert.PrivateKey == nil) {
				t.Errorf("D28 %s(%s): unexpected result: %d certs, key %T", l.name, c.name, len(cert.Certificate), cert.PrivateKey)
			}
		}
	}

	// ---- double loaders: GMX509KeyPairs, LoadGMX509KeyPairs
	type dblLoader struct {
		name string
		f    func(sc, sk, ec, ek []byte) (Certificate, error)
	}
	dblLoaders := []dblLoader{
		{"GMX509KeyPairs", GMX509KeyPairs},
		{"LoadGMX509KeyPairs", func(sc, sk, ec, ek []byte) (Certificate, error) {
			dir, err := ioutil.TempDir("", "d28")
			if err != nil {
				t.Fatal(err)
			}
			defer os.RemoveAll(dir)
			names := []string{"sc", "sk", "ec", "ek"}
			for i, b := range [][]byte{sc, sk, ec, ek} {
				names[i] = filepath.Join(dir, names[i])
				ioutil.WriteFile(names[i], b, 0600)
			}
			return LoadGMX509KeyPairs(names[0], names[1], names[2], names[3])
		}},
	}
	type dblCase struct {
		name           string
		sc, sk, ec, ek []byte
		ok             bool
	}
	dblCases := []dblCase{
		{"all matching", signCert, signKey, encCert, encKey, true},
		{"keys swapped", signCert, encKey, encCert, signKey, false},
		{"certs swapped", encCert, signKey, signCert, encKey, false},
		{"enc key = sign key", signCert, signKey, encCert, signKey, false},
		{"enc key = unrelated key", signCert, signKey, encCert, authKey, false},
		{"sign key = enc key", signCert, encKey, encCert, encKey, false},
		{"sign key = unrelated key", signCert, authKey, encCert, encKey, false},
		{"enc key is a certificate", signCert, signKey, encCert, encCert, false},
		{"enc key empty", signCert, signKey, encCert, nil, false},
		{"enc key garbage", signCert, signKey, encCert, []byte("garbage"), false},
		{"enc key is RSA", signCert, signKey, encCert, rsaKey, false},
	}
	signPriv, err := x509.ReadPrivateKeyFromPem(signKey, nil)
	if err != nil {
		t.Fatal(err)
	}
	for _, l := range dblLoaders {
		for _, c := range dblCases {
			cert, err := l.f(c.sc, c.sk, c.ec, c.ek)
			if c.ok && err != nil {
				t.Errorf("D28 %s(%s): matching pairs rejected: %v", l.name, c.name, err)
				continue
			}
			if !c.ok {
				if err == nil {
					t.Errorf("D28 %s(%s): mismatching input accepted", l.name, c.name)
				}
				continue
			}
			// Result layout: Certificate[0] = signing cert, [1] = encryption
			// cert, PrivateKey = signing key.
			if len(cert.Certificate) != 2 {
				t.Errorf("D28 %s: expected 2 certificates, got %d", l.name, len(cert.Certificate))
				continue
			}
			c0, err0 := x509.ParseCertificate(cert.Certificate[0])
			c1, err1 := x509.ParseCertificate(cert.Certificate[1])
			if err0 != nil || err1 != nil {
				t.Errorf("D28 %s: %v %v", l.name, err0, err1)
				continue
			}
			if c0.KeyUsage&x509.KeyUsageDigitalSignature == 0 || c1.KeyUsage&(x509.KeyUsageKeyEncipherment|x509.KeyUsageDataEncipherment) == 0 {
				t.Errorf("D28 %s: certificate order is not [sign, enc]", l.name)
			}
			priv, ok := cert.PrivateKey.(*sm2.PrivateKey)
			if !ok || priv.D.Cmp(signPriv.D) != 0 {
				t.Errorf("D28 %s: PrivateKey is not the signing key (%T)", l.name, cert.PrivateKey)
			}
		}
	}

	// The result of GMX509KeyPairs stays usable the way it is consumed: as a
	// GM client certificate (sign cert + enc cert, signing key) against a
	// server whose Certificates[0]/[1] come from the pair loaders.
	pair, err := GMX509KeyPairs(signCert, signKey, encCert, encKey)
	if err != nil {
		t.Errorf("D28: cannot run the handshake check: %v", err)
		return
	}
	srvSig, _ := GMX509KeyPairsSingle(signCert, signKey)
	srvEnc, _ := GMX509KeyPairsSingle(encCert, encKey)
	serverCfg := &Config{GMSupport: &GMSupport{}, Certificates: []Certificate{srvSig, srvEnc}, ClientAuth: RequireAnyClientCert}
	clientCfg := &Config{GMSupport: &GMSupport{}, InsecureSkipVerify: true, Certificates: []Certificate{pair}}
	ln, err := net.Listen("tcp", "127.0.0.1:0")
	if err != nil {
		t.Fatal(err)
	}
	defer ln.Close()
	type sres struct {
		err   error
		peers int
	}
	done := make(chan sres, 1)
	go func() {
		var r sres
		defer func() { done <- r }()
		raw, e := ln.Accept()
		if e != nil {
			r.err = e
			return
		}
		defer raw.Close()
		raw.SetDeadline(time.Now().Add(3 * time.Second))
		srv := Server(raw, serverCfg)
		if r.err = srv.Handshake(); r.err == nil {
			r.peers = len(srv.ConnectionState().PeerCertificates)
			_, r.err = srv.Write([]byte("hello"))
		}
	}()
	raw, err := net.Dial("tcp", ln.Addr().String())
	if err != nil {
		t.Fatal(err)
	}
	defer raw.Close()
	raw.SetDeadline(time.Now().Add(3 * time.Second))
	cli := Client(raw, clientCfg)
	buf := make([]byte, 5)
	_, cerr := io.ReadFull(cli, buf)
	r := <-done
	if cerr != nil || r.err != nil || r.peers != 2 || string(buf) != "hello" {
		t.Errorf("D28: handshake with loader results failed: client=%v server=%v peer certs=%d", cerr, r.err, r.peers)
	}
}
