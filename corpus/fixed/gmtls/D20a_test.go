package gmtls

// D20(a): a client offering GMTLS_ECDHE_SM2_WITH_SM4_SM3 (0xe011) must not
// crash the GMSSL server (the ECDHE-SM2 server key agreement is a panic("")
// stub), and the client side of the same key agreement must not panic on a
// ServerKeyExchange naming a curve it does not know / a point on another
// curve.

import (
	"crypto/rand"
	"fmt"
	"io"
	"net"
	"testing"
	"time"

	"github.com/tjfoc/gmsm/sm2"
	"github.com/tjfoc/gmsm/x509"
)

func d20aServerCerts(t *testing.T) (sig, enc, rsa Certificate) {
	var err error
	if sig, err = LoadX509KeyPair("websvr/certs/sm2_sign_cert.cer", "websvr/certs/sm2_sign_key.pem"); err != nil {
		t.Fatal(err)
	}
	if enc, err = LoadX509KeyPair("websvr/certs/sm2_enc_cert.cer", "websvr/certs/sm2_enc_key.pem"); err != nil {
		t.Fatal(err)
	}
	if rsa, err = LoadX509KeyPair("websvr/certs/rsa_sign.cer", "websvr/certs/rsa_sign_key.pem"); err != nil {
		t.Fatal(err)
	}
	return
}

// d20aRun runs one connection; returns client error, server error (a server
// panic is converted to an error starting with "PANIC"), and whether 5 bytes
// were echoed.
func d20aRun(t *testing.T, serverCfg, clientCfg *Config) (cerr, serr error, echoed bool) {
	ln, err := net.Listen("tcp", "127.0.0.1:0")
	if err != nil {
		t.Fatal(err)
	}
	defer ln.Close()
	done := make(chan error, 1)
	go func() {
		var err error
		defer func() {
			if r := recover(); r != nil {
				err = fmt.Errorf("PANIC in server: %q", fmt.Sprint(r))
			}
			done <- err
		}()
		raw, e := ln.Accept()
		if e != nil {
			err = e
			return
		}
		defer raw.Close()
		raw.SetDeadline(time.Now().Add(5 * time.Second))
		srv := Server(raw, serverCfg)
		if err = srv.Handshake(); err != nil {
			return
		}
		buf := make([]byte, 5)
		if _, err = io.ReadFull(srv, buf); err != nil {
			return
		}
		_, err = srv.Write(buf)
	}()
	raw, err := net.Dial("tcp", ln.Addr().String())
	if err != nil {
		t.Fatal(err)
	}
	defer raw.Close()
	raw.SetDeadline(time.Now().Add(5 * time.Second))
	func() {
		defer func() {
			if r := recover(); r != nil {
				cerr = fmt.Errorf("PANIC in client: %q", fmt.Sprint(r))
			}
		}()
		cli := Client(raw, clientCfg)
		if cerr = cli.Handshake(); cerr != nil {
			return
		}
		if _, cerr = cli.Write([]byte("hello")); cerr != nil {
			return
		}
		buf := make([]byte, 5)
		if _, cerr = io.ReadFull(cli, buf); cerr == nil {
			echoed = string(buf) == "hello"
		}
	}()
	raw.Close()
	serr = <-done
	return
}

func d20aIsPanic(err error) bool {
	return err != nil && len(err.Error()) >= 5 && err.Error()[:5] == "PANIC"
}

func TestD20aECDHEOnlyClientDoesNotCrashServer(t *testing.T) {
	sig, enc, rsa := d20aServerCerts(t)
	auto, err := NewBasicAutoSwitchConfig(&sig, &enc, &rsa)
	if err != nil {
		t.Fatal(err)
	}
	servers := map[string]*Config{
		"GMSSLOnly":  {GMSupport: &GMSupport{}, Certificates: []Certificate{sig, enc}},
		"AutoSwitch": auto,
	}
	for name, serverCfg := range servers {
		for _, suite := range []uint16{GMTLS_ECDHE_SM2_WITH_SM4_SM3, GMTLS_ECDHE_SM4_GCM_SM3} {
			clientCfg := &Config{GMSupport: &GMSupport{}, InsecureSkipVerify: true, CipherSuites: []uint16{suite}}
			cerr, serr, echoed := d20aRun(t, serverCfg, clientCfg)
			t.Logf("%s suite %#04x: client=%v server=%v", name, suite, cerr, serr)
			if d20aIsPanic(serr) || d20aIsPanic(cerr) {
				t.Errorf("D20a %s suite %#04x: %v / %v", name, suite, serr, cerr)
				continue
			}
			if cerr == nil || serr == nil || echoed {
				t.Errorf("D20a %s suite %#04x: handshake with an unimplemented key agreement must fail on both sides: client=%v server=%v", name, suite, cerr, serr)
			}
		}

		// The client prefers ECDHE but also offers ECC: the server must not
		// pick the suite it cannot serve; the handshake succeeds with ECC.
		clientCfg := &Config{GMSupport: &GMSupport{}, InsecureSkipVerify: true,
			CipherSuites: []uint16{GMTLS_ECDHE_SM2_WITH_SM4_SM3, GMTLS_SM2_WITH_SM4_SM3}}
		cerr, serr, echoed := d20aRun(t, serverCfg, clientCfg)
		if cerr != nil || serr != nil || !echoed {
			t.Errorf("D20a %s: client offering [ECDHE, ECC]: expected a working ECC handshake, got client=%v server=%v echoed=%v", name, cerr, serr, echoed)
		}
	}
}

// Client side of the ECDHE-SM2 key agreement, driven directly: a correctly
// signed ServerKeyExchange naming (1) an unknown curve id, (2) P-256 with a
// point that is on the SM2 curve only.
func TestD20aECDHEClientKeyAgreementDoesNotPanic(t *testing.T) {
	sig, _, _ := d20aServerCerts(t)
	signCert, err := x509.ParseCertificate(sig.Certificate[0])
	if err != nil {
		t.Fatal(err)
	}
	priv := sig.PrivateKey.(*sm2.PrivateKey)
	eph, err := sm2.GenerateKey(rand.Reader)
	if err != nil {
		t.Fatal(err)
	}
	point := append([]byte{4}, append(leftPad32(eph.X.Bytes()), leftPad32(eph.Y.Bytes())...)...)

	for _, curveID := range []CurveID{0x00f9 /* sm2p256v1 in other GM stacks */, 0x9999, CurveP256, CurveP384} {
		hello := &clientHelloMsg{vers: VersionGMSSL, random: make([]byte, 32)}
		serverHello := &serverHelloMsg{vers: VersionGMSSL, random: make([]byte, 32)}
		params := append([]byte{3, byte(curveID >> 8), byte(curveID), byte(len(point))}, point...)
		digest := sha1Hash([][]byte{hello.random, serverHello.random, params})
		sigBytes, err := priv.Sign(rand.Reader, digest, nil)
		if err != nil {
			t.Fatal(err)
		}
		skx := &serverKeyExchangeMsg{key: append(append([]byte{}, params...), append([]byte{byte(len(sigBytes) >> 8), byte(len(sigBytes))}, sigBytes...)...)}

		func() {
			defer func() {
				if r := recover(); r != nil {
					t.Errorf("D20a: ECDHE-SM2 client key agreement panicked for curve id %#04x: %v", uint16(curveID), r)
				}
			}()
			ka := &ecdheKeyAgreementGM{version: VersionGMSSL}
			if err := ka.processServerKeyExchange(&Config{}, hello, serverHello, signCert, skx); err != nil {
				t.Logf("curve %#04x: processServerKeyExchange: %v", uint16(curveID), err)
				return
			}
			_, _, err := ka.generateClientKeyExchange(&Config{}, hello, signCert)
			t.Logf("curve %#04x: generateClientKeyExchange: err=%v", uint16(curveID), err)
			if err == nil {
				t.Errorf("D20a: curve id %#04x with a point of the SM2 curve was accepted", uint16(curveID))
			}
		}()
	}
}

func leftPad32(b []byte) []byte {
	out := make([]byte, 32)
	copy(out[32-len(b):], b)
	return out
}
