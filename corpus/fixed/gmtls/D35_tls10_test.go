package gmtls

import (
	"io"
	"net"
	"testing"
	"time"
)

func TestTLS10And11Handshake(t *testing.T) {
	cert, err := LoadX509KeyPair("websvr/certs/rsa_sign.cer", "websvr/certs/rsa_sign_key.pem")
	if err != nil {
		t.Fatal(err)
	}
	for _, v := range []uint16{VersionTLS10, VersionTLS11, VersionTLS12} {
		ln, err := net.Listen("tcp", "127.0.0.1:0")
		if err != nil {
			t.Fatal(err)
		}
		res := make(chan string, 1)
		go func() {
			defer func() {
				if e := recover(); e != nil {
					res <- "server PANIC"
				}
			}()
			c, err := ln.Accept()
			if err != nil {
				res <- err.Error()
				return
			}
			defer c.Close()
			c.SetDeadline(time.Now().Add(5 * time.Second))
			s := Server(c, &Config{Certificates: []Certificate{cert}})
			if err := s.Handshake(); err != nil {
				res <- "server: " + err.Error()
				return
			}
			buf := make([]byte, 4)
			if _, err := io.ReadFull(s, buf); err != nil {
				res <- "server read: " + err.Error()
				return
			}
			s.Write(buf)
			res <- "ok"
		}()
		func() {
			defer func() {
				if e := recover(); e != nil {
					t.Errorf("version %#x: client PANIC: %v", v, e)
				}
			}()
			raw, err := net.Dial("tcp", ln.Addr().String())
			if err != nil {
				t.Fatal(err)
			}
			defer raw.Close()
			raw.SetDeadline(time.Now().Add(5 * time.Second))
			c := Client(raw, &Config{InsecureSkipVerify: true, MinVersion: v, MaxVersion: v, CipherSuites: []uint16{TLS_RSA_WITH_AES_128_CBC_SHA}})
			if err := c.Handshake(); err != nil {
				t.Errorf("version %#x: client: %v", v, err)
				return
			}
			c.Write([]byte("ping"))
			buf := make([]byte, 4)
			if _, err := io.ReadFull(c, buf); err != nil || string(buf) != "ping" {
				t.Errorf("version %#x: echo failed: %v", v, err)
			}
			if c.ConnectionState().Version != v {
				t.Errorf("version %#x: negotiated %#x", v, c.ConnectionState().Version)
			}
		}()
		select {
		case r := <-res:
			if r != "ok" {
				t.Errorf("version %#x: %s", v, r)
			}
		case <-time.After(6 * time.Second):
			t.Errorf("version %#x: server did not finish", v)
		}
		ln.Close()
	}
}
