package pkcs12

// P4: ToPEM fails on a bundle with an SM2 key ("unknown elliptic curve").

import (
	"bytes"
	"crypto/x509/pkix"
	"encoding/pem"
	"math/big"
	"testing"
	"time"

	"github.com/tjfoc/gmsm/sm2"
	gx509 "github.com/tjfoc/gmsm/x509"
)

func TestP04_ToPEMSM2(t *testing.T) {
	key, err := sm2.GenerateKey(nil)
	if err != nil {
		t.Fatal(err)
	}
	tmpl := &gx509.Certificate{
		SerialNumber:       big.NewInt(404),
		Subject:            pkix.Name{CommonName: "p4 sm2"},
		NotBefore:          time.Now().Add(-time.Hour),
		NotAfter:           time.Now().Add(time.Hour),
		SignatureAlgorithm: gx509.SM2WithSM3,
	}
	der, err := gx509.CreateCertificate(tmpl, tmpl, &key.PublicKey, key)
	if err != nil {
		t.Fatal(err)
	}
	cert, err := gx509.ParseCertificate(der)
	if err != nil {
		t.Fatal(err)
	}
	pfx, err := Encode(key, cert, nil, "pw")
	if err != nil {
		t.Fatal(err)
	}
	blocks, err := ToPEM(pfx, "pw")
	if err != nil {
		t.Fatalf("ToPEM: %v", err)
	}
	var sawKey, sawCert bool
	for _, b := range blocks {
		switch b.Type {
		case "CERTIFICATE":
			sawCert = bytes.Equal(b.Bytes, cert.Raw)
		case "PRIVATE KEY":
			// headers (localKeyId) are not part of the key; encode the bare block
			got, err := gx509.ReadPrivateKeyFromPem(pem.EncodeToMemory(&pem.Block{Type: b.Type, Bytes: b.Bytes}), nil)
			if err != nil {
				t.Fatalf("ReadPrivateKeyFromPem: %v", err)
			}
			sawKey = got.D.Cmp(key.D) == 0 && got.X.Cmp(key.X) == 0 && got.Y.Cmp(key.Y) == 0
		}
	}
	if !sawKey || !sawCert {
		t.Fatalf("key recovered: %v, certificate recovered: %v", sawKey, sawCert)
	}
}
