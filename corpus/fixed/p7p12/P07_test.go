package x509

// P7: parseSignedData ignores the error of asn1.Unmarshal(data, &sd).
// Question: can that make Verify report success on a zero-valued or
// half-parsed structure?  Answer on the current tree: no, Verify returns
// "pkcs7: Message has no signers" whenever the signer infos were not parsed.
// (ParsePKCS7 itself returns a nil error for such input; logged below.)

import (
	"encoding/asn1"
	"math/big"
	"testing"
	"time"

	"crypto/x509/pkix"

	"github.com/tjfoc/gmsm/sm2"
)

func p7Wrap(t *testing.T, inner []byte) []byte {
	out, err := asn1.Marshal(contentInfo{
		ContentType: oidSignedData,
		Content:     asn1.RawValue{Class: 2, Tag: 0, Bytes: inner, IsCompound: true},
	})
	if err != nil {
		t.Fatal(err)
	}
	return out
}

func p7MustNotVerify(t *testing.T, what string, der []byte) {
	t.Helper()
	p7, err := ParsePKCS7(der)
	if err != nil {
		t.Logf("%s: ParsePKCS7 error: %v", what, err)
		return
	}
	t.Logf("%s: ParsePKCS7 returned a nil error; %d signers, %d certificates, content %q", what, len(p7.Signers), len(p7.Certificates), p7.Content)
	if err := p7.Verify(); err == nil {
		t.Errorf("%s: Verify reported success", what)
	} else {
		t.Logf("%s: Verify: %v", what, err)
	}
}

func TestP07_VerifyNeverSucceedsWithoutSigners(t *testing.T) {
	// garbage instead of a SignedData
	p7MustNotVerify(t, "garbage", p7Wrap(t, []byte{0x30, 0x03, 0x02, 0x01}))
	p7MustNotVerify(t, "empty sequence", p7Wrap(t, []byte{0x30, 0x00}))
	p7MustNotVerify(t, "octet string", p7Wrap(t, []byte{0x04, 0x02, 0x41, 0x42}))

	// a well-formed SignedData with zero signers
	deg, err := DegenerateCertificate(nil)
	if err != nil {
		t.Fatal(err)
	}
	p7MustNotVerify(t, "degenerate (zero signers)", deg)

	// a valid SM2-signed object whose signer infos are damaged so that the
	// (ignored) Unmarshal error occurs after content and certificates were read
	key, err := sm2.GenerateKey(nil)
	if err != nil {
		t.Fatal(err)
	}
	tmpl := &Certificate{
		SerialNumber:       big.NewInt(77),
		Subject:            pkix.Name{CommonName: "p7"},
		NotBefore:          time.Now().Add(-time.Hour),
		NotAfter:           time.Now().Add(time.Hour),
		SignatureAlgorithm: SM2WithSM3,
	}
	cder, err := CreateCertificate(tmpl, tmpl, &key.PublicKey, key)
	if err != nil {
		t.Fatal(err)
	}
	cert, err := ParseCertificate(cder)
	if err != nil {
		t.Fatal(err)
	}
	rawCerts, _ := marshalCertificateBytes(cert.Raw)
	content, _ := asn1.Marshal([]byte("payload"))
	sd := signedData{
		Version:                    1,
		DigestAlgorithmIdentifiers: []pkix.AlgorithmIdentifier{{Algorithm: oidSM3}},
		ContentInfo:                contentInfo{ContentType: oidData, Content: asn1.RawValue{Class: 2, Tag: 0, Bytes: content, IsCompound: true}},
		Certificates:               rawCerts,
		SignerInfos: []signerInfo{{
			Version:                   1,
			IssuerAndSerialNumber:     issuerAndSerial{IssuerName: asn1.RawValue{FullBytes: cert.RawIssuer}, SerialNumber: cert.SerialNumber},
			DigestAlgorithm:           pkix.AlgorithmIdentifier{Algorithm: oidSM3},
			DigestEncryptionAlgorithm: pkix.AlgorithmIdentifier{Algorithm: oidSM3withSM2},
			EncryptedDigest:           []byte{1, 2, 3},
		}},
	}
	inner, err := asn1.Marshal(sd)
	if err != nil {
		t.Fatal(err)
	}
	p7MustNotVerify(t, "bad signature (control)", p7Wrap(t, inner))
	// turn the trailing OCTET STRING 04 03 01 02 03 into an invalid element
	damaged := append([]byte{}, inner...)
	damaged[len(damaged)-5] = 0x02 // INTEGER where an OCTET STRING is required
	p7MustNotVerify(t, "damaged signer info", p7Wrap(t, damaged))
	// trailing bytes after the SignedData inside the [0] wrapper
	p7MustNotVerify(t, "trailing garbage", p7Wrap(t, append(append([]byte{}, inner...), 0x05, 0x00)))
}
