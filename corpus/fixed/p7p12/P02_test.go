package pkcs12

// P2: Decode fails on every bundle whose certificate carries an SM2 key,
// because it parses the certificate bag with crypto/x509.

import (
	"crypto/x509/pkix"
	"math/big"
	"testing"
	"time"

	"github.com/tjfoc/gmsm/sm2"
	gx509 "github.com/tjfoc/gmsm/x509"
)

func p2SM2Cert(t *testing.T) (*gx509.Certificate, *sm2.PrivateKey) {
	key, err := sm2.GenerateKey(nil)
	if err != nil {
		t.Fatal(err)
	}
	tmpl := &gx509.Certificate{
		SerialNumber:       big.NewInt(202),
		Subject:            pkix.Name{CommonName: "p2 sm2"},
		NotBefore:          time.Now().Add(-time.Hour),
		NotAfter:           time.Now().Add(time.Hour),
		SignatureAlgorithm: gx509.SM2WithSM3,
	}
	der, err := gx509.CreateCertificate(tmpl, tmpl, &key.PublicKey, key)
	if err != nil {
		t.Fatal(err)
	}
	cert, err := gx509.ParseCertificate(der)
	if err != nil {
		t.Fatal(err)
	}
	return cert, key
}

func TestP02_DecodeSM2Bundle(t *testing.T) {
	cert, key := p2SM2Cert(t)
	pfx, err := Encode(key, cert, nil, "pw")
	if err != nil {
		t.Fatal(err)
	}
	if _, _, err := DecodeAll(pfx, "pw"); err != nil {
		t.Fatalf("DecodeAll: %v", err)
	}
	if _, _, err := Decode(pfx, "pw"); err != nil {
		t.Fatalf("Decode: %v", err)
	}
}
