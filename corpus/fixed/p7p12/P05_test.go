package x509

// P5: Decrypt / DecryptSM2 / PKCS7Encrypt / PKCS7EncryptSM2 panic on a key or
// certificate of the other type (unchecked type assertions), and on a nil
// certificate.

import (
	"bytes"
	"crypto/rand"
	"crypto/rsa"
	stdx509 "crypto/x509"
	"crypto/x509/pkix"
	"math/big"
	"testing"
	"time"

	"github.com/tjfoc/gmsm/sm2"
)

func p5RSACert(t *testing.T) (*Certificate, *rsa.PrivateKey) {
	key, err := rsa.GenerateKey(rand.Reader, 2048)
	if err != nil {
		t.Fatal(err)
	}
	tmpl := &stdx509.Certificate{
		SerialNumber: big.NewInt(51),
		Subject:      pkix.Name{CommonName: "p5 rsa"},
		NotBefore:    time.Now().Add(-time.Hour),
		NotAfter:     time.Now().Add(time.Hour),
	}
	der, err := stdx509.CreateCertificate(rand.Reader, tmpl, tmpl, &key.PublicKey, key)
	if err != nil {
		t.Fatal(err)
	}
	cert, err := ParseCertificate(der)
	if err != nil {
		t.Fatal(err)
	}
	return cert, key
}

func p5SM2Cert(t *testing.T) (*Certificate, *sm2.PrivateKey) {
	key, err := sm2.GenerateKey(nil)
	if err != nil {
		t.Fatal(err)
	}
	tmpl := &Certificate{
		SerialNumber:       big.NewInt(52),
		Subject:            pkix.Name{CommonName: "p5 sm2"},
		NotBefore:          time.Now().Add(-time.Hour),
		NotAfter:           time.Now().Add(time.Hour),
		SignatureAlgorithm: SM2WithSM3,
	}
	der, err := CreateCertificate(tmpl, tmpl, &key.PublicKey, key)
	if err != nil {
		t.Fatal(err)
	}
	cert, err := ParseCertificate(der)
	if err != nil {
		t.Fatal(err)
	}
	return cert, key
}

// call f; report a panic as a test failure; require an error
func p5MustError(t *testing.T, what string, f func() error) {
	t.Helper()
	defer func() {
		if r := recover(); r != nil {
			t.Errorf("%s: panic: %v", what, r)
		}
	}()
	if err := f(); err == nil {
		t.Errorf("%s: no error", what)
	}
}

func TestP05_NoPanicOnOtherKeyType(t *testing.T) {
	rc, rk := p5RSACert(t)
	sc, sk := p5SM2Cert(t)
	content := []byte("enveloped content")

	rsaEnv, err := PKCS7Encrypt(content, []*Certificate{rc})
	if err != nil {
		t.Fatal(err)
	}
	sm2Env, err := PKCS7EncryptSM2(content, []*Certificate{sc}, sm2.C1C3C2)
	if err != nil {
		t.Fatal(err)
	}
	rp7, err := ParsePKCS7(rsaEnv)
	if err != nil {
		t.Fatal(err)
	}
	sp7, err := ParsePKCS7(sm2Env)
	if err != nil {
		t.Fatal(err)
	}
	// the right holder recovers the content
	if got, err := rp7.Decrypt(rc, rk); err != nil || !bytes.Equal(got, content) {
		t.Fatalf("RSA recipient: %v", err)
	}
	if got, err := sp7.DecryptSM2(sc, sk, sm2.C1C3C2); err != nil || !bytes.Equal(got, content) {
		t.Fatalf("SM2 recipient: %v", err)
	}

	p5MustError(t, "Decrypt with an SM2 key", func() error { _, err := rp7.Decrypt(rc, sk); return err })
	p5MustError(t, "Decrypt with a nil key", func() error { _, err := rp7.Decrypt(rc, nil); return err })
	p5MustError(t, "DecryptSM2 with an RSA key", func() error { _, err := sp7.DecryptSM2(sc, rk, sm2.C1C3C2); return err })
	p5MustError(t, "DecryptSM2 with a nil key", func() error { _, err := sp7.DecryptSM2(sc, nil, sm2.C1C3C2); return err })
	p5MustError(t, "Decrypt with a nil certificate", func() error { _, err := rp7.Decrypt(nil, rk); return err })
	p5MustError(t, "DecryptSM2 with a nil certificate", func() error { _, err := sp7.DecryptSM2(nil, sk, sm2.C1C3C2); return err })
	p5MustError(t, "PKCS7Encrypt for an SM2 certificate", func() error { _, err := PKCS7Encrypt(content, []*Certificate{sc}); return err })
	p5MustError(t, "PKCS7EncryptSM2 for an RSA certificate", func() error {
		_, err := PKCS7EncryptSM2(content, []*Certificate{rc}, sm2.C1C3C2)
		return err
	})
	p5MustError(t, "PKCS7Encrypt for a nil certificate", func() error { _, err := PKCS7Encrypt(content, []*Certificate{nil}); return err })
	p5MustError(t, "PKCS7EncryptSM2 for a nil certificate", func() error {
		_, err := PKCS7EncryptSM2(content, []*Certificate{nil}, sm2.C1C3C2)
		return err
	})

	// the right kind of key on an envelope made for the other kind of recipient
	// (the recipient is matched by issuer and serial only)
	p5MustError(t, "DecryptSM2 on an RSA envelope", func() error { _, err := rp7.DecryptSM2(rc, sk, sm2.C1C3C2); return err })
	p5MustError(t, "Decrypt on an SM2 envelope", func() error { _, err := sp7.Decrypt(sc, rk); return err })

	// another key of the right type does not recover the content
	_, otherRSA := p5RSACert(t)
	if got, err := rp7.Decrypt(rc, otherRSA); err == nil && bytes.Equal(got, content) {
		t.Errorf("another RSA key recovered the content")
	}
	_, otherSM2 := p5SM2Cert(t)
	if got, err := sp7.DecryptSM2(sc, otherSM2, sm2.C1C3C2); err == nil && bytes.Equal(got, content) {
		t.Errorf("another SM2 key recovered the content")
	}
}
