package x509

// P1: PKCS#7 SignedData produced by NewSignedData/AddSigner/Finish with an RSA
// signer must verify with ParsePKCS7(...).Verify(), and modified content /
// signature must be rejected.  Also: AddSigner with an *sm2.PrivateKey.

import (
	"bytes"
	"crypto/rand"
	"crypto/rsa"
	stdx509 "crypto/x509"
	"crypto/x509/pkix"
	"math/big"
	"testing"
	"time"

	"github.com/tjfoc/gmsm/sm2"
)

func p1RSACert(t *testing.T, serial int64) (*Certificate, *rsa.PrivateKey) {
	key, err := rsa.GenerateKey(rand.Reader, 2048)
	if err != nil {
		t.Fatal(err)
	}
	tmpl := &stdx509.Certificate{
		SerialNumber: big.NewInt(serial),
		Subject:      pkix.Name{CommonName: "p1 rsa signer"},
		NotBefore:    time.Now().Add(-time.Hour),
		NotAfter:     time.Now().Add(time.Hour),
	}
	der, err := stdx509.CreateCertificate(rand.Reader, tmpl, tmpl, &key.PublicKey, key)
	if err != nil {
		t.Fatal(err)
	}
	cert, err := ParseCertificate(der)
	if err != nil {
		t.Fatal(err)
	}
	return cert, key
}

func p1SM2Cert(t *testing.T, serial int64) (*Certificate, *sm2.PrivateKey) {
	key, err := sm2.GenerateKey(nil)
	if err != nil {
		t.Fatal(err)
	}
	tmpl := &Certificate{
		SerialNumber:       big.NewInt(serial),
		Subject:            pkix.Name{CommonName: "p1 sm2 signer"},
		NotBefore:          time.Now().Add(-time.Hour),
		NotAfter:           time.Now().Add(time.Hour),
		SignatureAlgorithm: SM2WithSM3,
	}
	der, err := CreateCertificate(tmpl, tmpl, &key.PublicKey, key)
	if err != nil {
		t.Fatal(err)
	}
	cert, err := ParseCertificate(der)
	if err != nil {
		t.Fatal(err)
	}
	return cert, key
}

func p1RoundTrip(t *testing.T, cert *Certificate, key interface{}, detach bool) {
	content := []byte("the content that is signed")
	sd, err := NewSignedData(content)
	if err != nil {
		t.Fatal(err)
	}
	if err := sd.AddSigner(cert, key, SignerInfoConfig{}); err != nil {
		t.Fatalf("AddSigner: %v", err)
	}
	if detach {
		sd.Detach()
	}
	der, err := sd.Finish()
	if err != nil {
		t.Fatal(err)
	}
	p7, err := ParsePKCS7(der)
	if err != nil {
		t.Fatalf("ParsePKCS7: %v", err)
	}
	if detach {
		if len(p7.Content) != 0 {
			t.Fatalf("detached object carries content")
		}
		p7.Content = content
	}
	if !bytes.Equal(p7.Content, content) {
		t.Fatalf("content not returned: %q", p7.Content)
	}
	if err := p7.Verify(); err != nil {
		t.Fatalf("Verify of a freshly signed object: %v", err)
	}
	// modified content
	p7.Content = append([]byte{}, content...)
	p7.Content[0] ^= 1
	if err := p7.Verify(); err == nil {
		t.Fatalf("Verify accepted modified content")
	}
	p7.Content = content
	// modified signature
	sig := p7.Signers[0].EncryptedDigest
	p7.Signers[0].EncryptedDigest = append([]byte{}, sig...)
	p7.Signers[0].EncryptedDigest[len(sig)-1] ^= 1
	if err := p7.Verify(); err == nil {
		t.Fatalf("Verify accepted modified signature")
	}
	p7.Signers[0].EncryptedDigest = sig
	// modified signed attribute (the signing time attribute's value bytes)
	for i, a := range p7.Signers[0].AuthenticatedAttributes {
		if a.Type.Equal(oidAttributeSigningTime) {
			b := append([]byte{}, a.Value.Bytes...)
			b[len(b)-2] ^= 1
			p7.Signers[0].AuthenticatedAttributes[i].Value.Bytes = b
			p7.Signers[0].AuthenticatedAttributes[i].Value.FullBytes = nil
		}
	}
	if err := p7.Verify(); err == nil {
		t.Fatalf("Verify accepted modified signed attribute")
	}
}

func TestP01_RSASignedDataRoundTrip(t *testing.T) {
	cert, key := p1RSACert(t, 11)
	p1RoundTrip(t, cert, key, false)
}

func TestP01_RSASignedDataDetached(t *testing.T) {
	cert, key := p1RSACert(t, 12)
	p1RoundTrip(t, cert, key, true)
}

func TestP01_SM2SignedDataRoundTrip(t *testing.T) {
	cert, key := p1SM2Cert(t, 13)
	p1RoundTrip(t, cert, key, false)
}

func TestP01_SM2SignedDataDetached(t *testing.T) {
	cert, key := p1SM2Cert(t, 14)
	p1RoundTrip(t, cert, key, true)
}

// a signature made by another key of the same kind must not verify
func TestP01_WrongKey(t *testing.T) {
	cert, _ := p1RSACert(t, 15)
	_, other := p1RSACert(t, 16)
	sd, _ := NewSignedData([]byte("x"))
	if err := sd.AddSigner(cert, other, SignerInfoConfig{}); err != nil {
		t.Fatal(err)
	}
	der, _ := sd.Finish()
	p7, err := ParsePKCS7(der)
	if err != nil {
		t.Fatal(err)
	}
	if err := p7.Verify(); err == nil || err == ErrPKCS7UnsupportedAlgorithm {
		t.Fatalf("want a signature verification error, got %v", err)
	}
}

// one RSA and one SM2 signer on the same object
func TestP01_TwoSigners(t *testing.T) {
	rc, rk := p1RSACert(t, 17)
	sc, sk := p1SM2Cert(t, 18)
	sd, _ := NewSignedData([]byte("both"))
	if err := sd.AddSigner(rc, rk, SignerInfoConfig{}); err != nil {
		t.Fatal(err)
	}
	if err := sd.AddSigner(sc, sk, SignerInfoConfig{}); err != nil {
		t.Fatal(err)
	}
	der, err := sd.Finish()
	if err != nil {
		t.Fatal(err)
	}
	p7, err := ParsePKCS7(der)
	if err != nil {
		t.Fatal(err)
	}
	if len(p7.Signers) != 2 {
		t.Fatalf("%d signers", len(p7.Signers))
	}
	if err := p7.Verify(); err != nil {
		t.Fatal(err)
	}
	p7.Content = []byte("bothx")
	if err := p7.Verify(); err == nil {
		t.Fatal("modified content accepted")
	}
}

// signer info without signed attributes: the signature is over the content
func TestP01_NoSignedAttributes(t *testing.T) {
	rc, rk := p1RSACert(t, 19)
	sc, sk := p1SM2Cert(t, 20)
	content := []byte("no attributes")
	for _, c := range []struct {
		cert *Certificate
		key  interface{}
	}{{rc, rk}, {sc, sk}} {
		sd, _ := NewSignedData(content)
		if err := sd.AddSigner(c.cert, c.key, SignerInfoConfig{}); err != nil {
			t.Fatal(err)
		}
		// replace the signature by one over the content, drop the attributes
		si := &sd.sd.SignerInfos[0]
		si.AuthenticatedAttributes = nil
		switch k := c.key.(type) {
		case *rsa.PrivateKey:
			h := SHA1.New()
			h.Write(content)
			si.EncryptedDigest, _ = rsa.SignPKCS1v15(rand.Reader, k, SHA1.HashFunc(), h.Sum(nil))
		case *sm2.PrivateKey:
			si.EncryptedDigest, _ = k.Sign(rand.Reader, content, nil)
		}
		der, err := sd.Finish()
		if err != nil {
			t.Fatal(err)
		}
		p7, err := ParsePKCS7(der)
		if err != nil {
			t.Fatal(err)
		}
		if len(p7.Signers[0].AuthenticatedAttributes) != 0 {
			t.Fatal("attributes present")
		}
		if err := p7.Verify(); err != nil {
			t.Fatalf("%T: %v", c.key, err)
		}
		p7.Content = []byte("no attributez")
		if err := p7.Verify(); err == nil {
			t.Fatalf("%T: modified content accepted", c.key)
		}
	}
}
