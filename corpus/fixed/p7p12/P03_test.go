package pkcs12

// P3: Encode accepts an *rsa.PrivateKey, but Decode/DecodeAll cannot read the
// bundle back (ParsePKCS8PrivateKey knows only the EC OID).

import (
	"bytes"
	"crypto/rand"
	"crypto/rsa"
	stdx509 "crypto/x509"
	"crypto/x509/pkix"
	"math/big"
	"testing"
	"time"

	gx509 "github.com/tjfoc/gmsm/x509"
)

func p3RSACert(t *testing.T) (*gx509.Certificate, *rsa.PrivateKey) {
	key, err := rsa.GenerateKey(rand.Reader, 2048)
	if err != nil {
		t.Fatal(err)
	}
	tmpl := &stdx509.Certificate{
		SerialNumber: big.NewInt(303),
		Subject:      pkix.Name{CommonName: "p3 rsa"},
		NotBefore:    time.Now().Add(-time.Hour),
		NotAfter:     time.Now().Add(time.Hour),
	}
	der, err := stdx509.CreateCertificate(rand.Reader, tmpl, tmpl, &key.PublicKey, key)
	if err != nil {
		t.Fatal(err)
	}
	cert, err := gx509.ParseCertificate(der)
	if err != nil {
		t.Fatal(err)
	}
	return cert, key
}

func TestP03_RSABundleRoundTrip(t *testing.T) {
	cert, key := p3RSACert(t)
	pfx, err := Encode(key, cert, nil, "pw")
	if err != nil {
		t.Fatal(err)
	}
	k1, c1, err := Decode(pfx, "pw")
	if err != nil {
		t.Fatalf("Decode: %v", err)
	}
	if rk, ok := k1.(*rsa.PrivateKey); !ok || rk.D.Cmp(key.D) != 0 || rk.N.Cmp(key.N) != 0 {
		t.Fatalf("Decode returned another key: %T", k1)
	}
	if !bytes.Equal(c1.Raw, cert.Raw) {
		t.Fatal("Decode returned another certificate")
	}
	k2, c2, err := DecodeAll(pfx, "pw")
	if err != nil {
		t.Fatalf("DecodeAll: %v", err)
	}
	if rk, ok := k2.(*rsa.PrivateKey); !ok || rk.D.Cmp(key.D) != 0 || rk.N.Cmp(key.N) != 0 {
		t.Fatalf("DecodeAll returned another key: %T", k2)
	}
	if len(c2) != 1 || !bytes.Equal(c2[0].Raw, cert.Raw) {
		t.Fatal("DecodeAll returned other certificates")
	}
	if _, _, err := Decode(pfx, "pW"); err == nil {
		t.Fatal("wrong password accepted")
	}
	blocks, err := ToPEM(pfx, "pw")
	if err != nil || len(blocks) != 2 {
		t.Fatalf("ToPEM: %v (%d blocks)", err, len(blocks))
	}
}
