package pkcs12

// P6: the "expected exactly one certificate/key bag" checks of Decode and
// DecodeAll never take effect: with two key bags the last key silently wins,
// and Decode of a bundle with two certificate bags returns the LAST
// certificate (e.g. the CA certificate of a bundle written by Encode with
// caCerts) together with the key of the first.

import (
	"bytes"
	"crypto/ecdsa"
	"crypto/elliptic"
	"crypto/rand"
	stdx509 "crypto/x509"
	"crypto/x509/pkix"
	"encoding/asn1"
	"math/big"
	"testing"
	"time"

	gx509 "github.com/tjfoc/gmsm/x509"
)

func p6Cert(t *testing.T, cn string, serial int64) ([]byte, *ecdsa.PrivateKey) {
	key, err := ecdsa.GenerateKey(elliptic.P256(), rand.Reader)
	if err != nil {
		t.Fatal(err)
	}
	tmpl := &stdx509.Certificate{
		SerialNumber: big.NewInt(serial),
		Subject:      pkix.Name{CommonName: cn},
		NotBefore:    time.Now().Add(-time.Hour),
		NotAfter:     time.Now().Add(time.Hour),
	}
	der, err := stdx509.CreateCertificate(rand.Reader, tmpl, tmpl, &key.PublicKey, key)
	if err != nil {
		t.Fatal(err)
	}
	return der, key
}

// p6Bundle is Encode for any number of keys and certificates.
func p6Bundle(t *testing.T, keys []interface{}, certs [][]byte, password string) []byte {
	pw, err := bmpString(password)
	if err != nil {
		t.Fatal(err)
	}
	var certBags, keyBags []safeBag
	for _, c := range certs {
		b, err := makeCertBag(c, nil)
		if err != nil {
			t.Fatal(err)
		}
		certBags = append(certBags, *b)
	}
	for _, k := range keys {
		var kb safeBag
		kb.Id = oidPKCS8ShroundedKeyBag
		kb.Value.Class, kb.Value.Tag, kb.Value.IsCompound = 2, 0, true
		if kb.Value.Bytes, err = encodePkcs8ShroudedKeyBag(k, pw); err != nil {
			t.Fatal(err)
		}
		keyBags = append(keyBags, kb)
	}
	var safe [2]contentInfo
	if safe[0], err = makeSafeContents(certBags, pw); err != nil {
		t.Fatal(err)
	}
	if safe[1], err = makeSafeContents(keyBags, nil); err != nil {
		t.Fatal(err)
	}
	safeBytes, err := asn1.Marshal(safe[:])
	if err != nil {
		t.Fatal(err)
	}
	var pfx pfxPdu
	pfx.Version = 3
	pfx.MacData.Mac.Algorithm.Algorithm = oidSHA1
	pfx.MacData.MacSalt = make([]byte, 8)
	rand.Read(pfx.MacData.MacSalt)
	pfx.MacData.Iterations = 1
	if err = computeMac(&pfx.MacData, safeBytes, pw); err != nil {
		t.Fatal(err)
	}
	pfx.AuthSafe.ContentType = oidDataContentType
	pfx.AuthSafe.Content.Class, pfx.AuthSafe.Content.Tag, pfx.AuthSafe.Content.IsCompound = 2, 0, true
	if pfx.AuthSafe.Content.Bytes, err = asn1.Marshal(safeBytes); err != nil {
		t.Fatal(err)
	}
	out, err := asn1.Marshal(pfx)
	if err != nil {
		t.Fatal(err)
	}
	return out
}

func TestP06_TwoKeyBags(t *testing.T) {
	c1, k1 := p6Cert(t, "p6 one", 61)
	_, k2 := p6Cert(t, "p6 two", 62)
	pfx := p6Bundle(t, []interface{}{k1, k2}, [][]byte{c1}, "pw")
	if k, _, err := DecodeAll(pfx, "pw"); err == nil {
		t.Errorf("DecodeAll accepted two key bags; returned the second key: %v", k.(*ecdsa.PrivateKey).D.Cmp(k2.D) == 0)
	}
	if k, _, err := Decode(pfx, "pw"); err == nil {
		t.Errorf("Decode accepted two key bags; returned the second key: %v", k.(*ecdsa.PrivateKey).D.Cmp(k2.D) == 0)
	}
}

// Decode is documented to assume exactly one certificate.  With two
// certificate bags (what Encode writes when caCerts is not empty) it returned
// the key with the LAST certificate, i.e. the CA's.
func TestP06_DecodeTwoCertBags(t *testing.T) {
	ee, k := p6Cert(t, "p6 ee", 63)
	ca, _ := p6Cert(t, "p6 ca", 64)
	pfx := p6Bundle(t, []interface{}{k}, [][]byte{ee, ca}, "pw")
	if _, c, err := Decode(pfx, "pw"); err == nil {
		t.Errorf("Decode accepted two certificate bags; returned the CA certificate: %v", bytes.Equal(c.Raw, ca))
	}
	// same through the public API
	eeCert, err := gx509.ParseCertificate(ee)
	if err != nil {
		t.Fatal(err)
	}
	caCert, err := stdx509.ParseCertificate(ca)
	if err != nil {
		t.Fatal(err)
	}
	pfx, err = Encode(k, eeCert, []*stdx509.Certificate{caCert}, "pw")
	if err != nil {
		t.Fatal(err)
	}
	if _, c, err := Decode(pfx, "pw"); err == nil && !bytes.Equal(c.Raw, ee) {
		t.Errorf("Decode(Encode(key, ee, [ca])) returned the key with another certificate (the CA's: %v)", bytes.Equal(c.Raw, ca))
	}
}

func TestP06_MissingBag(t *testing.T) {
	c1, k1 := p6Cert(t, "p6 one", 65)
	for name, pfx := range map[string][]byte{
		"no key":         p6Bundle(t, nil, [][]byte{c1}, "pw"),
		"no certificate": p6Bundle(t, []interface{}{k1}, nil, "pw"),
	} {
		if _, _, err := DecodeAll(pfx, "pw"); err == nil {
			t.Errorf("DecodeAll accepted a bundle with %s", name)
		}
		if _, _, err := Decode(pfx, "pw"); err == nil {
			t.Errorf("Decode accepted a bundle with %s", name)
		}
	}
}

// DecodeAll is documented to return all certificates: several certificate
// bags are legitimate there, and one of each still decodes with both.
func TestP06_StillAccepted(t *testing.T) {
	ee, k := p6Cert(t, "p6 ee", 66)
	ca, _ := p6Cert(t, "p6 ca", 67)
	pfx := p6Bundle(t, []interface{}{k}, [][]byte{ee, ca}, "pw")
	got, certs, err := DecodeAll(pfx, "pw")
	if err != nil {
		t.Fatalf("DecodeAll: %v", err)
	}
	if len(certs) != 2 || !bytes.Equal(certs[0].Raw, ee) || !bytes.Equal(certs[1].Raw, ca) {
		t.Fatalf("certificates not returned in order")
	}
	if got.(*ecdsa.PrivateKey).D.Cmp(k.D) != 0 {
		t.Fatalf("other key")
	}
	pfx = p6Bundle(t, []interface{}{k}, [][]byte{ee}, "pw")
	got, c, err := Decode(pfx, "pw")
	if err != nil || !bytes.Equal(c.Raw, ee) || got.(*ecdsa.PrivateKey).D.Cmp(k.D) != 0 {
		t.Fatalf("Decode of one key and one certificate: %v", err)
	}
}
