package x509

import (
	"testing"
	"time"
)

// X(0) = 05 00, X(k) = 30 02 30 LL X(k-1): a 2-byte parent whose child claims the rest of the input.
func TestBerOverlappingChildren(t *testing.T) {
	x := []byte{0x05, 0x00}
	for k := 0; k < 24; k++ {
		x = append([]byte{0x30, 0x02, 0x30, byte(len(x))}, x...)
	}
	done := make(chan int, 1)
	go func() { out, _ := ber2der(x); done <- len(out) }()
	select {
	case n := <-done:
		if n > 64*len(x) {
			t.Fatalf("output %d bytes for %d bytes of input", n, len(x))
		}
	case <-time.After(3 * time.Second):
		t.Fatalf("ber2der did not finish within 3s on %d bytes", len(x))
	}
}
