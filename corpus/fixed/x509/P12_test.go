package pkcs12

// pkcs12: Decode / DecodeAll / ToPEM on truncated and mutated input must
// return errors, not panic. Mutations are tried as they are (the MAC check
// rejects nearly all of them) and with the MAC recomputed, which is what an
// attacker who chooses the password can do.

import (
	"crypto/rand"
	"crypto/x509/pkix"
	"encoding/asn1"
	"fmt"
	"math/big"
	"testing"
	"time"

	"github.com/tjfoc/gmsm/sm2"
	x "github.com/tjfoc/gmsm/x509"
)

func p12Valid(t *testing.T) []byte {
	key, err := sm2.GenerateKey(rand.Reader)
	if err != nil {
		t.Fatal(err)
	}
	tmpl := &x.Certificate{
		SerialNumber:       big.NewInt(12),
		Subject:            pkix.Name{CommonName: "p12"},
		NotBefore:          time.Now().Add(-time.Hour),
		NotAfter:           time.Now().Add(time.Hour),
		SignatureAlgorithm: x.SM2WithSM3,
	}
	der, err := x.CreateCertificate(tmpl, tmpl, &key.PublicKey, key)
	if err != nil {
		t.Fatal(err)
	}
	cert, err := x.ParseCertificate(der)
	if err != nil {
		t.Fatal(err)
	}
	pfx, err := Encode(key, cert, nil, "123")
	if err != nil {
		t.Fatal(err)
	}
	return pfx
}

func p12Try(t *testing.T, what string, in []byte) (ok bool) {
	defer func() {
		if r := recover(); r != nil {
			ok = false
			t.Errorf("%s: panic: %v", what, r)
		}
	}()
	Decode(in, "123")
	DecodeAll(in, "123")
	ToPEM(in, "123")
	return true
}

// p12Remac returns in with the MAC recomputed over the (mutated) content, or
// nil if in does not parse far enough.
func p12Remac(in []byte) []byte {
	pfx := new(pfxPdu)
	if err := unmarshal(in, pfx); err != nil {
		return nil
	}
	content := pfx.AuthSafe.Content
	if err := unmarshal(pfx.AuthSafe.Content.Bytes, &content); err != nil {
		return nil
	}
	if pfx.MacData.Iterations > 4096 || pfx.MacData.Iterations < 0 {
		return nil
	}
	pwd, _ := bmpString("123")
	if computeMac(&pfx.MacData, content.Bytes, pwd) != nil {
		return nil
	}
	out, err := asn1.Marshal(*pfx)
	if err != nil {
		return nil
	}
	return out
}

func TestP12NoPanic(t *testing.T) {
	valid := p12Valid(t)
	if _, _, err := DecodeAll(valid, "123"); err != nil {
		t.Fatal(err)
	}
	if again := p12Remac(valid); again == nil {
		t.Fatal("remac of the valid file failed")
	} else if _, _, err := DecodeAll(again, "123"); err != nil {
		t.Fatalf("remac of the valid file does not decode: %v", err)
	}
	failures, remacs := 0, 0
	for n := 0; n < len(valid) && failures < 5; n++ {
		if !p12Try(t, fmt.Sprintf("prefix %d", n), valid[:n]) {
			failures++
		}
	}
	for i := 0; i < len(valid) && failures < 15; i++ {
		for _, v := range []byte{0x00, 0x01, 0x07, 0x80, 0xff, valid[i] + 1, valid[i] - 1, valid[i] ^ 0x20} {
			m := append([]byte(nil), valid...)
			m[i] = v
			if !p12Try(t, fmt.Sprintf("byte %d := %02x", i, v), m) {
				failures++
			}
			if r := p12Remac(m); r != nil {
				remacs++
				if !p12Try(t, fmt.Sprintf("byte %d := %02x, MAC recomputed", i, v), r) {
					failures++
				}
			}
		}
	}
	t.Logf("%d mutants got a fresh MAC", remacs)
}

// ToPEM must report a wrong password / broken file.
func TestP12ToPEMError(t *testing.T) {
	valid := p12Valid(t)
	// (ToPEM(valid, "123") itself fails with "x509: unknown elliptic curve":
	// convertBag hands the SM2 key to crypto/x509.MarshalECPrivateKey. Listed,
	// not repaired.)
	if blocks, err := ToPEM(valid, "wrong"); err == nil {
		t.Errorf("ToPEM with a wrong password: %d blocks and no error", len(blocks))
	}
	if blocks, err := ToPEM(valid[:len(valid)/2], "123"); err == nil {
		t.Errorf("ToPEM of half a file: %d blocks and no error", len(blocks))
	}
}
