package x509

import (
	"crypto/rand"
	"crypto/rsa"
	"crypto/x509/pkix"
	"math/big"
	"testing"
	"time"

	"github.com/tjfoc/gmsm/sm2"
)

func demoTemplate() *Certificate {
	return &Certificate{
		SerialNumber: big.NewInt(7), Subject: pkix.Name{CommonName: "demo"},
		NotBefore: time.Unix(1000, 0), NotAfter: time.Unix(2000000000, 0),
		IsCA: true, BasicConstraintsValid: true, KeyUsage: KeyUsageCertSign,
	}
}

func TestCreateParseDefects(t *testing.T) {
	key, err := rsa.GenerateKey(rand.Reader, 2048)
	if err != nil {
		t.Fatal(err)
	}
	subj, err := sm2.GenerateKey(rand.Reader)
	if err != nil {
		t.Fatal(err)
	}
	// RSA-PSS request verifies under its own key
	for _, alg := range []SignatureAlgorithm{SHA256WithRSAPSS, SHA384WithRSAPSS, SHA512WithRSAPSS} {
		der, err := CreateCertificateRequest(rand.Reader, &CertificateRequest{Subject: pkix.Name{CommonName: "x"}, SignatureAlgorithm: alg}, key)
		if err != nil {
			t.Fatal(err)
		}
		csr, err := ParseCertificateRequest(der)
		if err != nil {
			t.Fatal(err)
		}
		if err := csr.CheckSignature(); err != nil {
			t.Errorf("PSS request %v does not verify: %v", alg, err)
		}
	}
	// MD5WithRSA: refused at creation (it can never verify)
	tm := demoTemplate()
	tm.SignatureAlgorithm = MD5WithRSA
	if der, err := CreateCertificate(tm, tm, &subj.PublicKey, key); err == nil {
		c, _ := ParseCertificate(der)
		if c == nil || checkSignature(c.SignatureAlgorithm, c.RawTBSCertificate, c.Signature, &key.PublicKey) != nil {
			t.Errorf("MD5WithRSA certificate created but does not verify")
		}
	}
	// critical name constraints parse back
	tm = demoTemplate()
	tm.PermittedDNSDomains = []string{"example.com"}
	tm.PermittedDNSDomainsCritical = true
	der, err := CreateCertificate(tm, tm, &subj.PublicKey, key)
	if err != nil {
		t.Fatal(err)
	}
	c, err := ParseCertificate(der)
	if err != nil {
		t.Fatal(err)
	}
	if !c.PermittedDNSDomainsCritical {
		t.Errorf("PermittedDNSDomainsCritical lost on parse")
	}
	// empty permitted domain: refused, or parsed back
	tm = demoTemplate()
	tm.PermittedDNSDomains = []string{"", "example.com"}
	if der, err := CreateCertificate(tm, tm, &subj.PublicKey, key); err == nil {
		c, err := ParseCertificate(der)
		if err != nil || len(c.PermittedDNSDomains) != 2 {
			t.Errorf("empty permitted domain accepted at creation but lost on parse (%v)", err)
		}
	}
}
