package x509

// D22: ber2der/readObject on untrusted input (reached from ParsePKCS7):
//  (a) no panic on truncated or mutated input,
//  (b) indefinite-length parsing takes linear time,
//  (c) nesting depth is capped.

import (
	"bytes"
	"crypto/rand"
	"crypto/x509/pkix"
	"encoding/hex"
	"fmt"
	"math/big"
	"strings"
	"testing"
	"time"

	"github.com/tjfoc/gmsm/sm2"
)

func d22Cert(t *testing.T) (*Certificate, *sm2.PrivateKey) {
	key, err := sm2.GenerateKey(rand.Reader)
	if err != nil {
		t.Fatal(err)
	}
	tmpl := &Certificate{
		SerialNumber:          big.NewInt(22),
		Subject:               pkix.Name{CommonName: "d22"},
		NotBefore:             time.Now().Add(-time.Hour),
		NotAfter:              time.Now().Add(time.Hour),
		KeyUsage:              KeyUsageCertSign,
		BasicConstraintsValid: true,
		IsCA:                  true,
		SignatureAlgorithm:    SM2WithSM3,
	}
	der, err := CreateCertificate(tmpl, tmpl, &key.PublicKey, key)
	if err != nil {
		t.Fatal(err)
	}
	cert, err := ParseCertificate(der)
	if err != nil {
		t.Fatal(err)
	}
	return cert, key
}

func d22Hex(s string) []byte {
	b, err := hex.DecodeString(strings.Join(strings.Fields(s), ""))
	if err != nil {
		panic(err)
	}
	return b
}

// A small BER SignedData using indefinite lengths, a constructed OCTET
// STRING and (inside the content) a high-tag-number element.
var d22HandMadeBER = d22Hex(`
30 80
   06 09 2a 86 48 86 f7 0d 01 07 02
   a0 80
      30 80
         02 01 01
         31 00
         30 80
            06 09 2a 86 48 86 f7 0d 01 07 01
            a0 80
               24 80
                  04 03 61 62 63
                  04 02 64 65
               00 00
            00 00
         00 00
         bf 81 01 05 04 03 01 02 03
         31 00
      00 00
   00 00
00 00`)

func d22NoPanic(t *testing.T, what string, in []byte) (ok bool) {
	defer func() {
		if r := recover(); r != nil {
			ok = false
			t.Errorf("%s: panic on input %x: %v", what, in, r)
		}
	}()
	ber2der(in)
	ParsePKCS7(in)
	return true
}

func TestD22aNoPanic(t *testing.T) {
	for _, h := range []string{"30", "30 82 01", "3f 81", "1f", "30 84 7f", "30 80", "30 80 04 01 01", "30 80 04 01 01 00", "30 03 30 80 05"} {
		d22NoPanic(t, "fixed input", d22Hex(h))
	}
	cert, _ := d22Cert(t)
	enveloped, err := PKCS7EncryptSM2([]byte("d22 content"), []*Certificate{cert}, sm2.C1C3C2)
	if err != nil {
		t.Fatal(err)
	}
	degenerate, err := DegenerateCertificate(cert.Raw)
	if err != nil {
		t.Fatal(err)
	}
	for name, valid := range map[string][]byte{"enveloped": enveloped, "degenerate": degenerate, "handmade": d22HandMadeBER} {
		if _, err := ber2der(valid); err != nil {
			t.Fatalf("%s: valid input rejected: %v", name, err)
		}
		if _, err := ParsePKCS7(valid); err != nil {
			t.Fatalf("%s: valid input rejected by ParsePKCS7: %v", name, err)
		}
		failures := 0
		for n := 0; n < len(valid) && failures < 5; n++ {
			if !d22NoPanic(t, name+" prefix", valid[:n]) {
				failures++
			}
		}
		for i := 0; i < len(valid) && failures < 10; i++ {
			for _, v := range []byte{0x00, 0x1f, 0x3f, 0x7f, 0x80, 0x81, 0x82, 0x84, 0x85, 0xff, valid[i] ^ 0x20, valid[i] + 1, valid[i] - 1} {
				m := append([]byte(nil), valid...)
				m[i] = v
				if !d22NoPanic(t, fmt.Sprintf("%s byte %d := %02x", name, i, v), m) {
					failures++
				}
			}
		}
	}
}

// Valid inputs must keep their translation.
func TestD22ValidUnchanged(t *testing.T) {
	got, err := ber2der(d22HandMadeBER)
	if err != nil {
		t.Fatal(err)
	}
	want := d22Hex(`
30 39
   06 09 2a 86 48 86 f7 0d 01 07 02
   a0 2c
      30 2a
         02 01 01
         31 00
         30 18
            06 09 2a 86 48 86 f7 0d 01 07 01
            a0 0b
               24 09
                  04 03 61 62 63
                  04 02 64 65
         bf 81 01 05 04 03 01 02 03
         31 00`)
	if !bytes.Equal(got, want) {
		t.Errorf("ber2der(handmade)\n got %x\nwant %x", got, want)
	}
	cert, _ := d22Cert(t)
	der, _ := DegenerateCertificate(cert.Raw)
	got, err = ber2der(der)
	if err != nil || !bytes.Equal(got, der) {
		t.Errorf("ber2der is not the identity on DER (err %v)", err)
	}
}

func d22Flat(n int) []byte {
	// one indefinite-length SEQUENCE with n primitive children without 00 00 inside
	b := []byte{0x30, 0x80}
	for i := 0; i < n; i++ {
		b = append(b, 0x04, 0x01, 0x01)
	}
	return append(b, 0x00, 0x00)
}

func d22Time(t *testing.T, in []byte) time.Duration {
	best := time.Duration(1<<63 - 1)
	for i := 0; i < 3; i++ {
		start := time.Now()
		if _, err := ber2der(in); err != nil {
			t.Fatal(err)
		}
		if d := time.Since(start); d < best {
			best = d
		}
	}
	return best
}

func TestD22bLinear(t *testing.T) {
	small, large := d22Time(t, d22Flat(40000)), d22Time(t, d22Flat(320000))
	t.Logf("n=40000: %v, n=320000: %v, ratio %.1f", small, large, float64(large)/float64(small))
	// 8 times the input: linear ~8x, quadratic ~64x.
	if large > 24*small {
		t.Errorf("ber2der is not linear in the number of children: %v -> %v", small, large)
	}
}

func d22Nested(depth int, indefinite bool) []byte {
	inner := []byte{0x05, 0x00}
	if indefinite {
		b := bytes.Repeat([]byte{0x30, 0x80}, depth)
		b = append(b, inner...)
		return append(b, bytes.Repeat([]byte{0x00, 0x00}, depth)...)
	}
	b := inner
	for i := 0; i < depth; i++ {
		out := new(bytes.Buffer)
		out.WriteByte(0x30)
		encodeLength(out, len(b))
		out.Write(b)
		b = out.Bytes()
	}
	return b
}

func TestD22cDepth(t *testing.T) {
	for _, indefinite := range []bool{false, true} {
		if _, err := ber2der(d22Nested(40, indefinite)); err != nil {
			t.Errorf("indefinite=%v: 40 levels rejected: %v", indefinite, err)
		}
		if _, err := ber2der(d22Nested(10000, indefinite)); err == nil {
			t.Errorf("indefinite=%v: 10000 levels of nesting accepted, recursion depth is unbounded", indefinite)
		}
	}
}
