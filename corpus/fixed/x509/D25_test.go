package x509

// D25: run with `go test -race -run TestD25`. ParsePKCS7 must be safe for
// concurrent use; the package-level counter encodeIndent in ber.go was written
// by every asn1Structured.EncodeTo.

import (
	"crypto/rand"
	"crypto/x509/pkix"
	"math/big"
	"sync"
	"testing"
	"time"

	"github.com/tjfoc/gmsm/sm2"
)

func d25Blob(t *testing.T) []byte {
	key, err := sm2.GenerateKey(rand.Reader)
	if err != nil {
		t.Fatal(err)
	}
	tmpl := &Certificate{
		SerialNumber:          big.NewInt(25),
		Subject:               pkix.Name{CommonName: "d25"},
		NotBefore:             time.Now().Add(-time.Hour),
		NotAfter:              time.Now().Add(time.Hour),
		KeyUsage:              KeyUsageCertSign,
		BasicConstraintsValid: true,
		IsCA:                  true,
		SignatureAlgorithm:    SM2WithSM3,
	}
	der, err := CreateCertificate(tmpl, tmpl, &key.PublicKey, key)
	if err != nil {
		t.Fatal(err)
	}
	cert, err := ParseCertificate(der)
	if err != nil {
		t.Fatal(err)
	}
	blob, err := PKCS7EncryptSM2([]byte("d25 content"), []*Certificate{cert}, sm2.C1C3C2)
	if err != nil {
		t.Fatal(err)
	}
	return blob
}

func TestD25ConcurrentParsePKCS7(t *testing.T) {
	blob := d25Blob(t)
	var wg sync.WaitGroup
	for g := 0; g < 8; g++ {
		wg.Add(1)
		go func() {
			defer wg.Done()
			for i := 0; i < 200; i++ {
				if _, err := ParsePKCS7(blob); err != nil {
					t.Error(err)
					return
				}
			}
		}()
	}
	wg.Wait()
}
