package x509

// D17: objects created with an SM2 signer must verify under the issuer and
// fail under another SM2 key, for SignatureAlgorithm unset and for every
// explicit SM2 algorithm, in CreateCertificate, CreateCertificateRequest,
// CreateCRL and CreateRevocationList.

import (
	"crypto"
	"crypto/ecdsa"
	"crypto/elliptic"
	"crypto/rand"
	"crypto/rsa"
	"crypto/x509/pkix"
	"math/big"
	"testing"
	"time"

	"github.com/tjfoc/gmsm/sm2"
)

func d17Key(t *testing.T) *sm2.PrivateKey {
	k, err := sm2.GenerateKey(rand.Reader)
	if err != nil {
		t.Fatal(err)
	}
	return k
}

func d17Template(cn string, algo SignatureAlgorithm) *Certificate {
	return &Certificate{
		SerialNumber:          big.NewInt(17),
		Subject:               pkix.Name{CommonName: cn},
		NotBefore:             time.Now().Add(-time.Hour),
		NotAfter:              time.Now().Add(time.Hour),
		KeyUsage:              KeyUsageCertSign | KeyUsageCRLSign,
		BasicConstraintsValid: true,
		IsCA:                  true,
		SubjectKeyId:          []byte{1, 7, 1, 7},
		SignatureAlgorithm:    algo,
	}
}

func d17SelfSigned(t *testing.T, key *sm2.PrivateKey, cn string, algo SignatureAlgorithm) *Certificate {
	tmpl := d17Template(cn, algo)
	der, err := CreateCertificate(tmpl, tmpl, &key.PublicKey, key)
	if err != nil {
		t.Fatalf("CreateCertificate(%v): %v", algo, err)
	}
	c, err := ParseCertificate(der)
	if err != nil {
		t.Fatalf("ParseCertificate(%v): %v", algo, err)
	}
	return c
}

var d17Algos = []SignatureAlgorithm{UnknownSignatureAlgorithm, SM2WithSM3, SM2WithSHA1, SM2WithSHA256}

func TestD17CreateCertificate(t *testing.T) {
	key, other := d17Key(t), d17Key(t)
	otherCert := d17SelfSigned(t, other, "d17", SM2WithSM3) // same subject, other key
	for _, algo := range d17Algos {
		c := d17SelfSigned(t, key, "d17", algo)
		if algo == UnknownSignatureAlgorithm && c.SignatureAlgorithm != SM2WithSM3 {
			t.Errorf("unset algorithm: certificate says %v, want SM2WithSM3", c.SignatureAlgorithm)
		}
		if algo != UnknownSignatureAlgorithm && c.SignatureAlgorithm != algo {
			t.Errorf("algo %v: certificate says %v", algo, c.SignatureAlgorithm)
		}
		if err := c.CheckSignatureFrom(c); err != nil {
			t.Errorf("algo %v: self-signed certificate does not verify: %v", algo, err)
		}
		if err := c.CheckSignatureFrom(otherCert); err == nil {
			t.Errorf("algo %v: certificate verifies under an unrelated key", algo)
		}
	}
}

func TestD17CreateCertificateRequest(t *testing.T) {
	key, other := d17Key(t), d17Key(t)
	for _, algo := range d17Algos {
		tmpl := &CertificateRequest{Subject: pkix.Name{CommonName: "d17"}, SignatureAlgorithm: algo}
		der, err := CreateCertificateRequest(rand.Reader, tmpl, key)
		if err != nil {
			t.Fatalf("algo %v: %v", algo, err)
		}
		csr, err := ParseCertificateRequest(der)
		if err != nil {
			t.Fatalf("algo %v: %v", algo, err)
		}
		if err := csr.CheckSignature(); err != nil {
			t.Errorf("algo %v: CSR does not verify: %v", algo, err)
		}
		if err := checkSignature(csr.SignatureAlgorithm, csr.RawTBSCertificateRequest, csr.Signature, &other.PublicKey); err == nil {
			t.Errorf("algo %v: CSR verifies under an unrelated key", algo)
		}
	}
}

func TestD17CreateCRL(t *testing.T) {
	key, other := d17Key(t), d17Key(t)
	issuer := d17SelfSigned(t, key, "d17", SM2WithSM3)
	otherCert := d17SelfSigned(t, other, "d17", SM2WithSM3)
	now := time.Now()
	der, err := issuer.CreateCRL(rand.Reader, key, nil, now, now.Add(time.Hour))
	if err != nil {
		t.Fatal(err)
	}
	crl, err := ParseCRL(der)
	if err != nil {
		t.Fatal(err)
	}
	if err := issuer.CheckCRLSignature(crl); err != nil {
		t.Errorf("CRL does not verify: %v", err)
	}
	if err := otherCert.CheckCRLSignature(crl); err == nil {
		t.Errorf("CRL verifies under an unrelated key")
	}
}

func TestD17CreateRevocationList(t *testing.T) {
	key, other := d17Key(t), d17Key(t)
	issuer := d17SelfSigned(t, key, "d17", SM2WithSM3)
	otherCert := d17SelfSigned(t, other, "d17", SM2WithSM3)
	now := time.Now()
	for _, algo := range d17Algos {
		der, err := CreateRevocationList(rand.Reader, &RevocationList{
			SignatureAlgorithm: algo,
			Number:             big.NewInt(1),
			ThisUpdate:         now,
			NextUpdate:         now.Add(time.Hour),
		}, issuer, key)
		if err != nil {
			t.Fatalf("algo %v: %v", algo, err)
		}
		crl, err := ParseCRL(der)
		if err != nil {
			t.Fatalf("algo %v: %v", algo, err)
		}
		if err := issuer.CheckCRLSignature(crl); err != nil {
			t.Errorf("algo %v: CRL does not verify: %v", algo, err)
		}
		if err := otherCert.CheckCRLSignature(crl); err == nil {
			t.Errorf("algo %v: CRL verifies under an unrelated key", algo)
		}
	}
}

// Non-SM2 signers must keep working (digest signed, verified) in the same
// functions; guards against a repair that breaks the hashed path.
func TestD17OtherKeysUnchanged(t *testing.T) {
	rsaKey, err := rsa.GenerateKey(rand.Reader, 2048)
	if err != nil {
		t.Fatal(err)
	}
	ecKey, err := ecdsa.GenerateKey(elliptic.P256(), rand.Reader)
	if err != nil {
		t.Fatal(err)
	}
	for _, tc := range []struct {
		name   string
		signer crypto.Signer
		algo   SignatureAlgorithm
	}{
		{"rsa-explicit", rsaKey, SHA256WithRSA},
		{"rsa-pss", rsaKey, SHA256WithRSAPSS},
		{"ecdsa-explicit", ecKey, ECDSAWithSHA256},
	} {
		sm2Key := d17Key(t)
		tmpl := d17Template("d17-"+tc.name, tc.algo)
		der, err := CreateCertificate(tmpl, tmpl, &sm2Key.PublicKey, tc.signer)
		if err != nil {
			t.Fatalf("%s: CreateCertificate: %v", tc.name, err)
		}
		c, err := ParseCertificate(der)
		if err != nil {
			t.Fatalf("%s: %v", tc.name, err)
		}
		if err := checkSignature(c.SignatureAlgorithm, c.RawTBSCertificate, c.Signature, tc.signer.Public()); err != nil {
			t.Errorf("%s: certificate does not verify: %v", tc.name, err)
		}
		if tc.algo.isRSAPSS() {
			continue // CreateCertificateRequest has no PSS options
		}
		csrDER, err := CreateCertificateRequest(rand.Reader, &CertificateRequest{Subject: pkix.Name{CommonName: "x"}, SignatureAlgorithm: tc.algo}, tc.signer)
		if err != nil {
			t.Fatalf("%s: CreateCertificateRequest: %v", tc.name, err)
		}
		csr, err := ParseCertificateRequest(csrDER)
		if err != nil {
			t.Fatalf("%s: %v", tc.name, err)
		}
		if err := csr.CheckSignature(); err != nil {
			t.Errorf("%s: CSR does not verify: %v", tc.name, err)
		}
	}
}

// Additional finding, same root cause: CreateCertificateRequest with a
// non-SM2 key and SignatureAlgorithm unset handed the raw TBS to the signer.
func TestD17CSRDefaultAlgorithmNonSM2(t *testing.T) {
	rsaKey, err := rsa.GenerateKey(rand.Reader, 2048)
	if err != nil {
		t.Fatal(err)
	}
	ecKey, err := ecdsa.GenerateKey(elliptic.P256(), rand.Reader)
	if err != nil {
		t.Fatal(err)
	}
	for name, signer := range map[string]crypto.Signer{"rsa": rsaKey, "ecdsa": ecKey} {
		der, err := CreateCertificateRequest(rand.Reader, &CertificateRequest{Subject: pkix.Name{CommonName: "x"}}, signer)
		if err != nil {
			t.Errorf("%s: CreateCertificateRequest: %v", name, err)
			continue
		}
		csr, err := ParseCertificateRequest(der)
		if err != nil {
			t.Errorf("%s: %v", name, err)
			continue
		}
		if err := csr.CheckSignature(); err != nil {
			t.Errorf("%s: CSR does not verify: %v", name, err)
		}
	}
}
