package x509

import (
	"crypto/rand"
	"crypto/x509/pkix"
	"encoding/asn1"
	"math/big"
	"testing"
	"time"

	"github.com/tjfoc/gmsm/sm2"
)

func TestECSignatureExtraElement(t *testing.T) {
	key, err := sm2.GenerateKey(rand.Reader)
	if err != nil {
		t.Fatal(err)
	}
	tm := &Certificate{SerialNumber: big.NewInt(9), Subject: pkix.Name{CommonName: "ca"},
		NotBefore: time.Unix(1000, 0), NotAfter: time.Unix(2000000000, 0),
		IsCA: true, BasicConstraintsValid: true, KeyUsage: KeyUsageCertSign, SignatureAlgorithm: SM2WithSM3}
	der, err := CreateCertificate(tm, tm, &key.PublicKey, key)
	if err != nil {
		t.Fatal(err)
	}
	var outer struct {
		TBS asn1.RawValue
		Alg asn1.RawValue
		Sig asn1.BitString
	}
	if _, err := asn1.Unmarshal(der, &outer); err != nil {
		t.Fatal(err)
	}
	var rs struct{ R, S *big.Int }
	if _, err := asn1.Unmarshal(outer.Sig.Bytes, &rs); err != nil {
		t.Fatal(err)
	}
	forged, _ := asn1.Marshal(struct {
		R, S *big.Int
		X    int
	}{rs.R, rs.S, 0})
	outer.Sig = asn1.BitString{Bytes: forged, BitLength: 8 * len(forged)}
	der2, err := asn1.Marshal(outer)
	if err != nil {
		t.Fatal(err)
	}
	good, err := ParseCertificate(der)
	if err != nil || good.CheckSignatureFrom(good) != nil {
		t.Fatalf("genuine certificate does not verify: %v", err)
	}
	bad, err := ParseCertificate(der2)
	if err == nil && bad.CheckSignatureFrom(good) == nil {
		t.Errorf("signature SEQUENCE{r,s,0} still verifies")
	}
}
