package x509

// D27: getHashForOID must map both SM3 OIDs to SM3. The first one,
// 1.2.156.10197.1.401.1, had an empty case body and fell out of the switch.

import (
	"crypto/rand"
	"crypto/x509/pkix"
	"encoding/asn1"
	"math/big"
	"testing"
	"time"

	"github.com/tjfoc/gmsm/sm2"
)

func TestD27GetHashForOID(t *testing.T) {
	for _, oid := range []asn1.ObjectIdentifier{
		{1, 2, 156, 10197, 1, 401, 1}, // oidSM3
		{1, 2, 156, 10197, 1, 401},    // oidHashSM3
	} {
		h, err := getHashForOID(oid)
		if err != nil || h != SM3 {
			t.Errorf("getHashForOID(%v) = %v, %v; want SM3", oid, h, err)
		}
	}
	if h, err := getHashForOID(oidDigestAlgorithmSHA1); err != nil || h != SHA1 {
		t.Errorf("SHA1: %v, %v", h, err)
	}
	if h, err := getHashForOID(oidSHA256); err != nil || h != SHA256 {
		t.Errorf("SHA256: %v, %v", h, err)
	}
	if _, err := getHashForOID(asn1.ObjectIdentifier{1, 2, 3}); err == nil {
		t.Errorf("unknown OID accepted")
	}
}

// Through the API: a SignedData message whose signer names the digest
// algorithm by either SM3 OID must pass PKCS7.Verify.
func TestD27VerifySignedDataSM3(t *testing.T) {
	key, err := sm2.GenerateKey(rand.Reader)
	if err != nil {
		t.Fatal(err)
	}
	tmpl := &Certificate{
		SerialNumber:          big.NewInt(27),
		Subject:               pkix.Name{CommonName: "d27"},
		NotBefore:             time.Now().Add(-time.Hour),
		NotAfter:              time.Now().Add(time.Hour),
		KeyUsage:              KeyUsageDigitalSignature,
		BasicConstraintsValid: true,
		SignatureAlgorithm:    SM2WithSM3,
	}
	der, err := CreateCertificate(tmpl, tmpl, &key.PublicKey, key)
	if err != nil {
		t.Fatal(err)
	}
	cert, err := ParseCertificate(der)
	if err != nil {
		t.Fatal(err)
	}
	content := []byte("d27 content")
	sig, err := key.Sign(rand.Reader, content, nil)
	if err != nil {
		t.Fatal(err)
	}
	for _, oid := range []asn1.ObjectIdentifier{oidSM3, oidHashSM3} {
		octets, _ := asn1.Marshal(content)
		ias, _ := cert2issuerAndSerial(cert)
		sd := signedData{
			Version:                    1,
			DigestAlgorithmIdentifiers: []pkix.AlgorithmIdentifier{{Algorithm: oid}},
			ContentInfo: contentInfo{
				ContentType: oidData,
				Content:     asn1.RawValue{Class: 2, Tag: 0, Bytes: octets, IsCompound: true},
			},
			Certificates: marshalCertificates([]*Certificate{cert}),
			SignerInfos: []signerInfo{{
				Version:                   1,
				IssuerAndSerialNumber:     ias,
				DigestAlgorithm:           pkix.AlgorithmIdentifier{Algorithm: oid},
				DigestEncryptionAlgorithm: pkix.AlgorithmIdentifier{Algorithm: oidSM3withSM2},
				EncryptedDigest:           sig,
			}},
		}
		inner, err := asn1.Marshal(sd)
		if err != nil {
			t.Fatal(err)
		}
		blob, err := asn1.Marshal(contentInfo{
			ContentType: oidSMSignedData,
			Content:     asn1.RawValue{Class: 2, Tag: 0, Bytes: inner, IsCompound: true},
		})
		if err != nil {
			t.Fatal(err)
		}
		p7, err := ParsePKCS7(blob)
		if err != nil {
			t.Fatal(err)
		}
		if string(p7.Content) != string(content) || len(p7.Signers) != 1 || len(p7.Certificates) != 1 {
			t.Fatalf("digest OID %v: message not parsed as built: %+v", oid, p7)
		}
		if err := p7.Verify(); err != nil {
			t.Errorf("digest OID %v: Verify: %v", oid, err)
		}
		// and it is a real check: other content must fail
		p7.Content = []byte("other content")
		if err := p7.Verify(); err == nil {
			t.Errorf("digest OID %v: Verify accepts modified content", oid)
		}
	}
}
