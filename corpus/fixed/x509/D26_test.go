package x509_test

// D26: Certificate.Verify / buildChains memoised the chains found above an
// intermediate although they depend on the chain built so far.
//
//	R (MaxPathLen 2) -> CA3 -> CA2 -> CA1 (certificate "CA1-by-CA2")
//	                    CA3 --------> CA1 (certificate "CA1-by-CA3", same key and subject)
//	                                  CA1 -> leaf
//
// [leaf, CA1-by-CA3, CA3, R] is valid; [leaf, CA1-by-CA2, CA2, CA3, R] has
// three intermediates and violates R's path length constraint.

import (
	"crypto/rand"
	"crypto/x509/pkix"
	"fmt"
	"math/big"
	"strings"
	"testing"
	"time"

	"github.com/tjfoc/gmsm/sm2"
	"github.com/tjfoc/gmsm/x509"
)

type d26CA struct {
	name string
	key  *sm2.PrivateKey
	skid []byte
}

var d26Serial int64

func d26NewCA(t *testing.T, name string) *d26CA {
	key, err := sm2.GenerateKey(rand.Reader)
	if err != nil {
		t.Fatal(err)
	}
	d26Serial++
	return &d26CA{name: name, key: key, skid: []byte(fmt.Sprintf("skid-%s-%d", name, d26Serial))}
}

// d26Issue makes a certificate for subject, signed by issuer (issuerCert nil: self-signed).
func d26Issue(t *testing.T, subject *d26CA, issuer *d26CA, issuerCert *x509.Certificate, isCA bool, maxPathLen int) *x509.Certificate {
	d26Serial++
	tmpl := &x509.Certificate{
		SerialNumber:          big.NewInt(d26Serial),
		Subject:               pkix.Name{CommonName: subject.name},
		NotBefore:             time.Now().Add(-time.Hour),
		NotAfter:              time.Now().Add(time.Hour),
		SignatureAlgorithm:    x509.SM2WithSM3,
		SubjectKeyId:          subject.skid,
		BasicConstraintsValid: true,
		IsCA:                  isCA,
		MaxPathLen:            -1,
	}
	if isCA {
		tmpl.KeyUsage = x509.KeyUsageCertSign
		if maxPathLen >= 0 {
			tmpl.MaxPathLen = maxPathLen
		}
	} else {
		tmpl.KeyUsage = x509.KeyUsageDigitalSignature
		tmpl.ExtKeyUsage = []x509.ExtKeyUsage{x509.ExtKeyUsageServerAuth}
	}
	parent := issuerCert
	if parent == nil {
		parent = tmpl
	} else {
		tmpl.AuthorityKeyId = issuer.skid
	}
	der, err := x509.CreateCertificate(tmpl, parent, &subject.key.PublicKey, issuer.key)
	if err != nil {
		t.Fatal(err)
	}
	cert, err := x509.ParseCertificate(der)
	if err != nil {
		t.Fatal(err)
	}
	if issuerCert != nil {
		if err := cert.CheckSignatureFrom(issuerCert); err != nil {
			t.Fatalf("%s issued by %s does not verify: %v", subject.name, issuer.name, err)
		}
	}
	return cert
}

type d26PKI struct {
	root, ca3, ca2, ca1by2, ca1by3, leaf *x509.Certificate
	names                                map[*x509.Certificate]string
}

func d26Build(t *testing.T, rootMaxPathLen int) *d26PKI {
	r, c3, c2, c1, l := d26NewCA(t, "R"), d26NewCA(t, "CA3"), d26NewCA(t, "CA2"), d26NewCA(t, "CA1"), d26NewCA(t, "leaf")
	p := &d26PKI{}
	p.root = d26Issue(t, r, r, nil, true, rootMaxPathLen)
	if rootMaxPathLen >= 0 && (p.root.MaxPathLen != rootMaxPathLen || p.root.MaxPathLenZero) {
		t.Fatalf("root MaxPathLen = %d", p.root.MaxPathLen)
	}
	p.ca3 = d26Issue(t, c3, r, p.root, true, -1)
	p.ca2 = d26Issue(t, c2, c3, p.ca3, true, -1)
	p.ca1by2 = d26Issue(t, c1, c2, p.ca2, true, -1)
	p.ca1by3 = d26Issue(t, c1, c3, p.ca3, true, -1)
	p.leaf = d26Issue(t, l, c1, p.ca1by3, false, -1)
	if err := p.leaf.CheckSignatureFrom(p.ca1by2); err != nil {
		t.Fatal(err)
	}
	p.names = map[*x509.Certificate]string{p.root: "R", p.ca3: "CA3", p.ca2: "CA2", p.ca1by2: "CA1-by-CA2", p.ca1by3: "CA1-by-CA3", p.leaf: "leaf"}
	return p
}

func (p *d26PKI) verify(order []*x509.Certificate) ([]string, error) {
	roots, inter := x509.NewCertPool(), x509.NewCertPool()
	roots.AddCert(p.root)
	for _, c := range order {
		inter.AddCert(c)
	}
	chains, err := p.leaf.Verify(x509.VerifyOptions{Roots: roots, Intermediates: inter})
	var out []string
	for _, chain := range chains {
		var names []string
		for _, c := range chain {
			name := "?"
			for known, n := range p.names {
				if known.Equal(c) {
					name = n
				}
			}
			names = append(names, name)
		}
		out = append(out, strings.Join(names, " > "))
	}
	return out, err
}

func d26Check(t *testing.T, what string, got []string, err error, want ...string) {
	if err != nil {
		t.Errorf("%s: Verify: %v", what, err)
		return
	}
	seen := map[string]int{}
	for _, c := range got {
		seen[c]++
		if seen[c] == 2 {
			t.Errorf("%s: chain returned more than once: %s", what, c)
		}
	}
	for _, w := range want {
		if seen[w] == 0 {
			t.Errorf("%s: chain missing: %s", what, w)
		}
		delete(seen, w)
	}
	for c := range seen {
		t.Errorf("%s: unexpected chain: %s", what, c)
	}
}

func TestD26PathLenTwo(t *testing.T) {
	p := d26Build(t, 2)
	const want = "leaf > CA1-by-CA3 > CA3 > R"
	got, err := p.verify([]*x509.Certificate{p.ca1by2, p.ca1by3, p.ca2, p.ca3})
	d26Check(t, "order [CA1-by-CA2 CA1-by-CA3 CA2 CA3]", got, err, want)
	got, err = p.verify([]*x509.Certificate{p.ca1by3, p.ca1by2, p.ca2, p.ca3})
	d26Check(t, "order [CA1-by-CA3 CA1-by-CA2 CA2 CA3]", got, err, want)
	got, err = p.verify([]*x509.Certificate{p.ca3, p.ca2, p.ca1by3, p.ca1by2})
	d26Check(t, "order [CA3 CA2 CA1-by-CA3 CA1-by-CA2]", got, err, want)
}

func TestD26NoPathLen(t *testing.T) {
	p := d26Build(t, -1)
	want := []string{"leaf > CA1-by-CA3 > CA3 > R", "leaf > CA1-by-CA2 > CA2 > CA3 > R"}
	got, err := p.verify([]*x509.Certificate{p.ca1by2, p.ca1by3, p.ca2, p.ca3})
	d26Check(t, "order [CA1-by-CA2 CA1-by-CA3 CA2 CA3]", got, err, want...)
	got, err = p.verify([]*x509.Certificate{p.ca1by3, p.ca1by2, p.ca2, p.ca3})
	d26Check(t, "order [CA1-by-CA3 CA1-by-CA2 CA2 CA3]", got, err, want...)
}

// Without the cache the number of paths can grow exponentially: `levels`
// layers of CAs, each CA certified by every CA of the layer above. The
// search must be cut off by a limit on signature checks, not run for ever.
func d26Layers(t *testing.T, levels, width int) (rootCert, leaf *x509.Certificate, inter *x509.CertPool) {
	root := d26NewCA(t, "R")
	rootCert = d26Issue(t, root, root, nil, true, -1)
	type issued struct {
		ca    *d26CA
		certs []*x509.Certificate
	}
	above := []issued{{root, []*x509.Certificate{rootCert}}}
	inter = x509.NewCertPool()
	for l := 0; l < levels; l++ {
		var layer []issued
		for w := 0; w < width; w++ {
			ca := d26NewCA(t, fmt.Sprintf("L%d-%d", l, w))
			is := issued{ca: ca}
			for _, up := range above {
				c := d26Issue(t, ca, up.ca, up.certs[0], true, -1)
				is.certs = append(is.certs, c)
				inter.AddCert(c)
			}
			layer = append(layer, is)
		}
		above = layer
	}
	leaf = d26Issue(t, d26NewCA(t, "leaf"), above[0].ca, above[0].certs[0], false, -1)
	return
}

type d26Result struct {
	chains [][]*x509.Certificate
	err    error
}

func d26VerifyWithin(t *testing.T, leaf *x509.Certificate, opts x509.VerifyOptions, limit time.Duration) (d26Result, bool) {
	done := make(chan d26Result, 1)
	start := time.Now()
	go func() {
		chains, err := leaf.Verify(opts)
		done <- d26Result{chains, err}
	}()
	select {
	case r := <-done:
		t.Logf("%d chains, err %v, %v", len(r.chains), r.err, time.Since(start))
		return r, true
	case <-time.After(limit):
		t.Errorf("Verify still running after %v: work is not bounded", limit)
		return d26Result{}, false
	}
}

func TestD26Bounded(t *testing.T) {
	const levels, width = 8, 4
	rootCert, leaf, inter := d26Layers(t, levels, width)
	roots := x509.NewCertPool()
	roots.AddCert(rootCert)
	r, ok := d26VerifyWithin(t, leaf, x509.VerifyOptions{Roots: roots, Intermediates: inter}, 20*time.Second)
	if !ok {
		return
	}
	if r.err != nil || len(r.chains) == 0 {
		t.Errorf("chains exist and the first is found after %d signature checks, got %d chains, err %v", levels+1, len(r.chains), r.err)
	}
	seen := map[string]bool{}
	for n, chain := range r.chains {
		key := ""
		for _, c := range chain {
			key += string(c.Raw)
		}
		if seen[key] {
			t.Errorf("chain %d returned twice", n)
		}
		seen[key] = true
		if n >= 50 {
			continue // an SM2 verification takes about a millisecond
		}
		if len(chain) != levels+2 || !chain[0].Equal(leaf) || !chain[len(chain)-1].Equal(rootCert) {
			t.Errorf("malformed chain of %d certificates", len(chain))
		}
		for i := 0; i+1 < len(chain); i++ {
			if err := chain[i].CheckSignatureFrom(chain[i+1]); err != nil {
				t.Errorf("chain %d link %d: %v", n, i, err)
			}
		}
	}
}

// The same pool but the trusted root is unrelated: there is no chain, and
// finding that out exhaustively takes 4^8 paths. Verify must give up.
func TestD26BoundedNoChain(t *testing.T) {
	_, leaf, inter := d26Layers(t, 8, 4)
	other := d26NewCA(t, "other root")
	roots := x509.NewCertPool()
	roots.AddCert(d26Issue(t, other, other, nil, true, -1))
	r, ok := d26VerifyWithin(t, leaf, x509.VerifyOptions{Roots: roots, Intermediates: inter}, 20*time.Second)
	if !ok {
		return
	}
	if r.err == nil || len(r.chains) != 0 {
		t.Errorf("got %d chains, err %v; want an error", len(r.chains), r.err)
	}
	// (The repaired code reports "signature check attempts limit reached";
	// the old code answered "unknown authority" from its cache.)
}
