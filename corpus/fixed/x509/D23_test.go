package x509

// D23: unpad, ParsePKCS8PrivateKey with a password, and the PKCS7 content
// decryption must return errors, not panic, on malformed input.

import (
	"bytes"
	"crypto/rand"
	"crypto/x509/pkix"
	"encoding/asn1"
	"encoding/pem"
	"fmt"
	"math/big"
	"testing"
	"time"

	"github.com/tjfoc/gmsm/sm2"
)

func d23Recover(t *testing.T, what string, f func()) (ok bool) {
	defer func() {
		if r := recover(); r != nil {
			ok = false
			t.Errorf("%s: panic: %v", what, r)
		}
	}()
	f()
	return true
}

func TestD23Unpad(t *testing.T) {
	good, err := pad([]byte("abc"), 8)
	if err != nil {
		t.Fatal(err)
	}
	if out, err := unpad(good, 8); err != nil || !bytes.Equal(out, []byte("abc")) {
		t.Fatalf("unpad(pad(abc)) = %x, %v", out, err)
	}
	full, _ := pad([]byte("12345678"), 8)
	if out, err := unpad(full, 8); err != nil || !bytes.Equal(out, []byte("12345678")) {
		t.Fatalf("unpad(pad(12345678)) = %x, %v", out, err)
	}
	for _, bad := range [][]byte{
		{1, 2, 3, 4, 5, 6, 7, 200},                                       // pad length > len(data): slice bounds [-192:]
		{1, 2, 3, 4, 5, 6, 7, 0},                                         // pad length 0
		{9, 9, 9, 9, 9, 9, 9, 9, 9, 9, 9, 9, 9, 9, 9, 9},                 // pad length 9 > blocklen 8
		{16, 16, 16, 16, 16, 16, 16, 16, 16, 16, 16, 16, 16, 16, 16, 16}, // pad length 16 > blocklen 8
		{1, 2, 3, 4, 5, 6, 3, 3},                                         // inconsistent pad bytes
	} {
		bad := bad
		d23Recover(t, fmt.Sprintf("unpad(%x, 8)", bad), func() {
			if out, err := unpad(bad, 8); err == nil {
				t.Errorf("unpad(%x, 8) = %x, want an error", bad, out)
			}
		})
	}
}

func TestD23PKCS8(t *testing.T) {
	key, err := sm2.GenerateKey(rand.Reader)
	if err != nil {
		t.Fatal(err)
	}
	pwd := []byte("d23 password")
	pemBytes, err := WritePrivateKeyToPem(key, pwd)
	if err != nil {
		t.Fatal(err)
	}
	block, _ := pem.Decode(pemBytes)
	if block == nil {
		t.Fatal("no PEM block")
	}
	der := block.Bytes
	if got, err := ParsePKCS8PrivateKey(der, pwd); err != nil || got.D.Cmp(key.D) != 0 {
		t.Fatalf("valid key does not round-trip: %v", err)
	}

	var info EncryptedPrivateKeyInfo
	if rest, err := asn1.Unmarshal(der, &info); err != nil || len(rest) != 0 {
		t.Fatal(err)
	}
	remarshal := func(f func(*EncryptedPrivateKeyInfo)) []byte {
		c := info
		c.EncryptedData = append([]byte(nil), info.EncryptedData...)
		f(&c)
		out, err := asn1.Marshal(c)
		if err != nil {
			t.Fatal(err)
		}
		return out
	}
	cases := map[string][]byte{
		"IV 15 bytes": remarshal(func(c *EncryptedPrivateKeyInfo) {
			c.EncryptionAlgorithm.Pbes2Params.EncryptionScheme.IV = info.EncryptionAlgorithm.Pbes2Params.EncryptionScheme.IV[:15]
		}),
		"IV 17 bytes": remarshal(func(c *EncryptedPrivateKeyInfo) {
			c.EncryptionAlgorithm.Pbes2Params.EncryptionScheme.IV = append(append([]byte(nil), info.EncryptionAlgorithm.Pbes2Params.EncryptionScheme.IV...), 0)
		}),
		"IV empty": remarshal(func(c *EncryptedPrivateKeyInfo) {
			c.EncryptionAlgorithm.Pbes2Params.EncryptionScheme.IV = []byte{}
		}),
		"ciphertext minus one byte": remarshal(func(c *EncryptedPrivateKeyInfo) { c.EncryptedData = c.EncryptedData[:len(c.EncryptedData)-1] }),
		"ciphertext plus one byte":  remarshal(func(c *EncryptedPrivateKeyInfo) { c.EncryptedData = append(c.EncryptedData, 0) }),
		"ciphertext one byte":       remarshal(func(c *EncryptedPrivateKeyInfo) { c.EncryptedData = c.EncryptedData[:1] }),
		"ciphertext empty":          remarshal(func(c *EncryptedPrivateKeyInfo) { c.EncryptedData = []byte{} }),
	}
	for name, in := range cases {
		in := in
		d23Recover(t, name, func() {
			if _, err := ParsePKCS8PrivateKey(in, pwd); err == nil {
				t.Errorf("%s: accepted", name)
			}
		})
		d23Recover(t, name+" via PEM", func() {
			if _, err := ReadPrivateKeyFromPem(pem.EncodeToMemory(&pem.Block{Type: "ENCRYPTED PRIVATE KEY", Bytes: in}), pwd); err == nil {
				t.Errorf("%s via PEM: accepted", name)
			}
		})
	}
	failures := 0
	for n := 0; n < len(der) && failures < 5; n++ {
		in := der[:n]
		if !d23Recover(t, fmt.Sprintf("prefix of %d bytes", n), func() { ParsePKCS8PrivateKey(in, pwd) }) {
			failures++
		}
	}
	// Single-byte mutations, leaving the PBKDF2 iteration count alone (a
	// mutated count of 2^31 is a different problem: it just takes for ever).
	iterAt := bytes.Index(der, []byte{0x02, 0x02, 0x08, 0x00})
	if iterAt < 0 {
		t.Fatal("iteration count 2048 not found")
	}
	for i := 0; i < len(der) && failures < 10; i++ {
		if i >= iterAt-1 && i < iterAt+4 {
			continue
		}
		for _, v := range []byte{0x00, 0x0f, 0x11, 0x80, 0xff, der[i] + 1, der[i] - 1} {
			m := append([]byte(nil), der...)
			m[i] = v
			if !d23Recover(t, fmt.Sprintf("byte %d := %02x", i, v), func() { ParsePKCS8PrivateKey(m, pwd) }) {
				failures++
			}
		}
	}
}

func d23Cert(t *testing.T) (*Certificate, *sm2.PrivateKey) {
	key, err := sm2.GenerateKey(rand.Reader)
	if err != nil {
		t.Fatal(err)
	}
	tmpl := &Certificate{
		SerialNumber:          big.NewInt(23),
		Subject:               pkix.Name{CommonName: "d23"},
		NotBefore:             time.Now().Add(-time.Hour),
		NotAfter:              time.Now().Add(time.Hour),
		KeyUsage:              KeyUsageCertSign,
		BasicConstraintsValid: true,
		IsCA:                  true,
		SignatureAlgorithm:    SM2WithSM3,
	}
	der, err := CreateCertificate(tmpl, tmpl, &key.PublicKey, key)
	if err != nil {
		t.Fatal(err)
	}
	cert, err := ParseCertificate(der)
	if err != nil {
		t.Fatal(err)
	}
	return cert, key
}

// d23Envelope re-wraps a (modified) envelopedData the way PKCS7EncryptSM2 does.
func d23Envelope(t *testing.T, ed envelopedData) []byte {
	inner, err := asn1.Marshal(ed)
	if err != nil {
		t.Fatal(err)
	}
	out, err := asn1.Marshal(contentInfo{
		ContentType: oidEnvelopedData,
		Content:     asn1.RawValue{Class: 2, Tag: 0, IsCompound: true, Bytes: inner},
	})
	if err != nil {
		t.Fatal(err)
	}
	return out
}

func d23Ciphertext(t *testing.T, eci encryptedContentInfo) []byte {
	var ct []byte
	if _, err := asn1.Unmarshal(eci.EncryptedContent.Bytes, &ct); err != nil {
		t.Fatal(err)
	}
	return ct
}

func TestD23PKCS7Decrypt(t *testing.T) {
	cert, key := d23Cert(t)
	for _, alg := range []int{EncryptionAlgorithmDESCBC, EncryptionAlgorithmAES128GCM} {
		ContentEncryptionAlgorithm = alg
		content := []byte("d23 content") // 11 bytes: two DES blocks after padding
		blob, err := PKCS7EncryptSM2(content, []*Certificate{cert}, sm2.C1C3C2)
		ContentEncryptionAlgorithm = EncryptionAlgorithmDESCBC
		if err != nil {
			t.Fatal(err)
		}
		p7, err := ParsePKCS7(blob)
		if err != nil {
			t.Fatal(err)
		}
		if got, err := p7.DecryptSM2(cert, key, sm2.C1C3C2); err != nil || !bytes.Equal(got, content) {
			t.Fatalf("alg %d: valid message does not decrypt: %q, %v", alg, got, err)
		}
		ed := p7.raw.(envelopedData)
		ct := d23Ciphertext(t, ed.EncryptedContentInfo)

		try := func(name string, ed envelopedData, wantErr bool) {
			in := d23Envelope(t, ed)
			d23Recover(t, fmt.Sprintf("alg %d: %s", alg, name), func() {
				p7, err := ParsePKCS7(in)
				if err != nil {
					return
				}
				if _, err := p7.DecryptSM2(cert, key, sm2.C1C3C2); err == nil && wantErr {
					t.Errorf("alg %d: %s: accepted", alg, name)
				}
			})
		}
		withCT := func(c []byte) envelopedData {
			e := ed
			e.EncryptedContentInfo.EncryptedContent = marshalEncryptedContent(c)
			return e
		}
		try("ciphertext minus one byte", withCT(ct[:len(ct)-1]), true)
		try("ciphertext plus one byte", withCT(append(append([]byte(nil), ct...), 0)), true)
		try("ciphertext one byte", withCT(ct[:1]), true)
		try("ciphertext empty", withCT([]byte{}), true)
		{
			e := ed
			e.EncryptedContentInfo.EncryptedContent = asn1.RawValue{}
			try("ciphertext absent", e, true)
		}
		for _, n := range []int{0, 1, 7, 9, 11, 13, 16, 17} {
			e := ed
			if alg == EncryptionAlgorithmDESCBC {
				e.EncryptedContentInfo.ContentEncryptionAlgorithm.Parameters = asn1.RawValue{Tag: 4, Bytes: make([]byte, n)}
				try(fmt.Sprintf("IV of %d bytes", n), e, n != 8)
			} else {
				params, _ := asn1.Marshal(aesGCMParameters{Nonce: make([]byte, n), ICVLen: 16})
				e.EncryptedContentInfo.ContentEncryptionAlgorithm.Parameters = asn1.RawValue{Tag: asn1.TagSequence, Bytes: params}
				try(fmt.Sprintf("nonce of %d bytes", n), e, true)
				params, _ = asn1.Marshal(aesGCMParameters{Nonce: make([]byte, 12), ICVLen: n})
				e.EncryptedContentInfo.ContentEncryptionAlgorithm.Parameters = asn1.RawValue{Tag: asn1.TagSequence, Bytes: params}
				try(fmt.Sprintf("ICV length %d", n), e, true)
			}
		}
		if alg == EncryptionAlgorithmDESCBC {
			// Every value of the last byte of the first block gives every
			// value of the last plaintext byte, i.e. of the pad length.
			for v := 0; v < 256; v++ {
				c := append([]byte(nil), ct...)
				c[7] = byte(v)
				try(fmt.Sprintf("ct[7] := %02x", v), withCT(c), false)
			}
		}
	}
}
