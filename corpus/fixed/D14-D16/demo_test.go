package padding

import (
	"bytes"
	"io"
	"testing"
)

// chunkReader returns data in scripted chunk sizes; eofWithData: deliver io.EOF together with the last bytes.
type chunkReader struct {
	data        []byte
	sizes       []int
	i           int
	eofWithData bool
}

func (c *chunkReader) Read(p []byte) (int, error) {
	if len(c.data) == 0 {
		return 0, io.EOF
	}
	sz := len(p)
	if c.i < len(c.sizes) {
		if c.sizes[c.i] < sz {
			sz = c.sizes[c.i]
		}
		c.i++
	}
	if sz > len(c.data) {
		sz = len(c.data)
	}
	n := copy(p, c.data[:sz])
	c.data = c.data[n:]
	if len(c.data) == 0 && c.eofWithData {
		return n, io.EOF
	}
	return n, nil
}

func want(data []byte, bs int) []byte {
	k := bs - len(data)%bs
	return append(append([]byte{}, data...), bytes.Repeat([]byte{byte(k)}, k)...)
}

func TestD14ShortRead(t *testing.T) {
	data := []byte("0123456789abcdefXYZ")
	src := &chunkReader{data: append([]byte{}, data...), sizes: []int{5, 0, 3}}
	got, err := io.ReadAll(NewPKCS7PaddingReader(src, 16))
	if err != nil || !bytes.Equal(got, want(data, 16)) {
		t.Fatalf("got %x err %v want %x", got, err, want(data, 16))
	}
}

func TestD14EOFWithData(t *testing.T) {
	data := []byte("0123456789abcdef")
	src := &chunkReader{data: append([]byte{}, data...), eofWithData: true}
	r := NewPKCS7PaddingReader(src, 16)
	var got []byte
	buf := make([]byte, 16)
	for i := 0; i < 10; i++ {
		n, err := r.Read(buf)
		got = append(got, buf[:n]...)
		if err == io.EOF {
			break
		}
	}
	if !bytes.Equal(got, want(data, 16)) {
		t.Fatalf("got %x want %x", got, want(data, 16))
	}
}

func TestD15BigWrite(t *testing.T) {
	data := bytes.Repeat([]byte{7}, 3000)
	var out bytes.Buffer
	w := NewPKCS7PaddingWriter(&out, 16)
	if _, err := w.Write(want(data, 16)); err != nil {
		t.Fatal(err)
	}
	if err := w.Final(); err != nil || !bytes.Equal(out.Bytes(), data) {
		t.Fatalf("err %v len %d", err, out.Len())
	}
}

func TestD15BadPad(t *testing.T) {
	blk := []byte{1, 2, 3, 4, 5, 6, 7, 8, 9, 10, 11, 12, 9, 9, 3, 3} // last 3 bytes should all be 3
	var out bytes.Buffer
	w := NewPKCS7PaddingWriter(&out, 16)
	w.Write(blk)
	if err := w.Final(); err == nil {
		t.Fatalf("invalid pad accepted, out=%x", out.Bytes())
	}
}

type xorMode struct{ bs int }

func (x xorMode) BlockSize() int { return x.bs }
func (x xorMode) CryptBlocks(dst, src []byte) {
	if len(src)%x.bs != 0 {
		panic("input not full blocks")
	}
	for i := range src {
		dst[i] = src[i] ^ 0x5a
	}
}

func TestD16RaggedReads(t *testing.T) {
	data := bytes.Repeat([]byte("abcdefg"), 300)
	var ct bytes.Buffer
	src := &chunkReader{data: append([]byte{}, data...), sizes: []int{5, 7, 1, 100, 3}}
	if err := P7BlockEnc(xorMode{16}, src, &ct); err != nil {
		t.Fatal(err)
	}
	var pt bytes.Buffer
	csrc := &chunkReader{data: append([]byte{}, ct.Bytes()...), sizes: []int{5, 7, 1, 100, 3}}
	if err := P7BlockDecrypt(xorMode{16}, csrc, &pt); err != nil {
		t.Fatal(err)
	}
	if !bytes.Equal(pt.Bytes(), data) {
		t.Fatalf("roundtrip mismatch %d vs %d", pt.Len(), len(data))
	}
}
