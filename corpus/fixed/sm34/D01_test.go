package sm3

// D1 demo: (*SM3).Sum must follow the hash.Hash contract:
// Sum(in) returns in || digest and does not change the running state.
// Copy into sm3/ and run: go test -vet=off -count=1 -run TestD01 ./sm3/

import (
	"bytes"
	"crypto/hmac"
	"encoding/hex"
	"testing"
)

func TestD01SumAppendsAndIsPure(t *testing.T) {
	// standard vector: SM3("abc")
	want, _ := hex.DecodeString("66c7f0f462eeedd9d1f2d46bdc10e4e24167c4875cf2f7a2297da02b8f4ba8e0")

	h := New()
	h.Write([]byte("abc"))
	prefix := []byte("xy")
	got := h.Sum(prefix)
	if !bytes.Equal(got, append([]byte("xy"), want...)) {
		t.Errorf("Sum(\"xy\") = %x, want \"xy\"||SM3(abc) = %x", got, append([]byte("xy"), want...))
	}
	if got2 := h.Sum(nil); !bytes.Equal(got2, want) {
		t.Errorf("Sum(nil) after Sum(\"xy\") = %x, want %x (state was changed by Sum)", got2, want)
	}
	// Write after Sum must continue from the un-polluted state.
	h.Write([]byte("def"))
	if got3, w := h.Sum(nil), Sm3Sum([]byte("abcdef")); !bytes.Equal(got3, w) {
		t.Errorf("Write after Sum: got %x, want SM3(abcdef) = %x", got3, w)
	}
}

func TestD01SumSpareCapacity(t *testing.T) {
	h := New()
	h.Write([]byte("abc"))
	want := h.Sum(nil)
	buf := make([]byte, 3, 64)
	copy(buf, "pre")
	got := h.Sum(buf)
	if len(got) != 3+32 || string(got[:3]) != "pre" || !bytes.Equal(got[3:], want) {
		t.Errorf("Sum(buf with spare cap) = %x", got)
	}
	if &got[0] != &buf[0] {
		t.Errorf("Sum should append in place when capacity suffices")
	}
}

// HMAC-SM3 with a non-empty prefix, as PBKDF2 does for block >= 2 (dk = prf.Sum(dk)).
func TestD01HmacNonEmptyIn(t *testing.T) {
	m := hmac.New(New, []byte("key"))
	m.Write([]byte("message"))
	want := m.Sum(nil)

	m.Reset()
	m.Write([]byte("message"))
	prefix := bytes.Repeat([]byte{0xAA}, 40)
	var got []byte
	func() {
		defer func() {
			if r := recover(); r != nil {
				t.Fatalf("hmac.Sum(prefix) panicked: %v", r)
			}
		}()
		got = m.Sum(prefix)
	}()
	if !bytes.Equal(got, append(bytes.Repeat([]byte{0xAA}, 40), want...)) {
		t.Errorf("HMAC-SM3 Sum(prefix) = %x, want prefix||%x", got, want)
	}
}
