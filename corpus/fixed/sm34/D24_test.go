package sm4

// D24 demo: one cipher.Block returned by NewCipher must be usable from several
// goroutines at once (cipher.Block implementations are expected to be safe
// for concurrent use; e.g. crypto/cipher's GCM/CTR wrappers and TLS rely on it).
// Copy into sm4/ and run: go test -race -vet=off -count=1 -run TestD24 ./sm4/
// (it also fails without -race on multi-core machines through wrong outputs)

import (
	"bytes"
	"sync"
	"testing"
)

func TestD24ConcurrentEncryptDecrypt(t *testing.T) {
	key := []byte("1234567890abcdef")
	c, err := NewCipher(key)
	if err != nil {
		t.Fatal(err)
	}
	const G = 8
	const N = 20000

	// single-threaded reference results, one distinct block per goroutine
	var pt, ct [G][16]byte
	for g := 0; g < G; g++ {
		for i := range pt[g] {
			pt[g][i] = byte(g*16 + i)
		}
		c.Encrypt(ct[g][:], pt[g][:])
		var back [16]byte
		c.Decrypt(back[:], ct[g][:])
		if back != pt[g] {
			t.Fatalf("single-threaded roundtrip failed")
		}
	}

	var wg sync.WaitGroup
	errs := make(chan string, G)
	for g := 0; g < G; g++ {
		wg.Add(1)
		go func(g int) {
			defer wg.Done()
			var out [16]byte
			for i := 0; i < N; i++ {
				c.Encrypt(out[:], pt[g][:])
				if !bytes.Equal(out[:], ct[g][:]) {
					errs <- "concurrent Encrypt produced a wrong block"
					return
				}
				c.Decrypt(out[:], ct[g][:])
				if !bytes.Equal(out[:], pt[g][:]) {
					errs <- "concurrent Decrypt produced a wrong block"
					return
				}
			}
		}(g)
	}
	wg.Wait()
	close(errs)
	for e := range errs {
		t.Error(e)
	}
}
