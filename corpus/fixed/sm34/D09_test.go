package sm4

// D9 demo: the Sm4Ecb/Sm4Cbc/Sm4CFB/Sm4OFB helpers must not write into the
// caller's buffer, including the spare capacity behind `in`.
// Copy into sm4/ and run: go test -vet=off -count=1 -run TestD09 ./sm4/

import (
	"bytes"
	"testing"
)

func TestD09HelpersDoNotWriteCallerMemory(t *testing.T) {
	key := []byte("1234567890abcdef")
	helpers := map[string]func([]byte, []byte, bool) ([]byte, error){
		"Sm4Ecb": Sm4Ecb, "Sm4Cbc": Sm4Cbc, "Sm4CFB": Sm4CFB, "Sm4OFB": Sm4OFB,
	}
	for name, f := range helpers {
		for n := 0; n <= 40; n++ {
			// backing array: n bytes of message followed by 32 bytes of 0xEE owned by the caller
			backing := make([]byte, n+32)
			for i := range backing {
				if i < n {
					backing[i] = byte(i + 1)
				} else {
					backing[i] = 0xEE
				}
			}
			snapshot := append([]byte(nil), backing...)
			in := backing[:n] // len n, cap n+32

			ct, err := f(key, in, true)
			if err != nil {
				t.Fatalf("%s enc n=%d: %v", name, n, err)
			}
			if !bytes.Equal(backing, snapshot) {
				t.Errorf("%s encrypt n=%d overwrote caller memory:\n got %x\nwant %x", name, n, backing, snapshot)
				copy(backing, snapshot)
			}

			// decryption must not touch the ciphertext buffer either
			ctBacking := make([]byte, len(ct)+16)
			copy(ctBacking, ct)
			ctSnap := append([]byte(nil), ctBacking...)
			pt, err := f(key, ctBacking[:len(ct)], false)
			if err != nil {
				t.Fatalf("%s dec n=%d: %v", name, n, err)
			}
			if !bytes.Equal(ctBacking, ctSnap) {
				t.Errorf("%s decrypt n=%d overwrote caller memory", name, n)
			}
			if !bytes.Equal(pt, snapshot[:n]) {
				t.Errorf("%s roundtrip n=%d: got %x want %x", name, n, pt, snapshot[:n])
			}
		}
	}
}
