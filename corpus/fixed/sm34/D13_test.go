package sm4

// D13 demo: GetY0 must not write into the caller's IV (spare capacity behind a
// 12-byte IV) and must compute J0 = GHASH_H(IV || 0^(s+64) || [len(IV)]_64)
// for IV lengths != 12 (the latter needs the D10 repair of GHASH's length block).
// Copy into sm4/ and run: go test -vet=off -count=1 -run TestD13 ./sm4/

import (
	"bytes"
	"crypto/cipher"
	"testing"
)

func TestD13GetY0DoesNotTouchIV(t *testing.T) {
	key := []byte("1234567890abcdef")
	backing := bytes.Repeat([]byte{0xEE}, 32)
	for i := 0; i < 12; i++ {
		backing[i] = byte(i + 1)
	}
	snap := append([]byte(nil), backing...)
	iv := backing[:12] // 12-byte IV, cap 32

	y0 := GetY0(GetH(key), iv)
	if !bytes.Equal(backing, snap) {
		t.Errorf("GetY0 overwrote caller memory behind IV:\n got %x\nwant %x", backing, snap)
		copy(backing, snap)
	}
	if want := append(append([]byte(nil), snap[:12]...), 0, 0, 0, 1); !bytes.Equal(y0, want) {
		t.Errorf("GetY0 = %x want %x", y0, want)
	}
	if len(y0) > 0 && &y0[0] == &backing[0] {
		t.Errorf("GetY0 result aliases the caller's IV")
	}

	GCMEncrypt(key, iv, []byte("hello"), []byte("aad"))
	if !bytes.Equal(backing, snap) {
		t.Errorf("GCMEncrypt overwrote caller memory behind IV: %x", backing)
		copy(backing, snap)
	}
	GCMDecrypt(key, iv, []byte("hello"), []byte("aad"))
	if !bytes.Equal(backing, snap) {
		t.Errorf("GCMDecrypt overwrote caller memory behind IV: %x", backing)
	}
}

func TestD13J0ForOtherIVLengths(t *testing.T) {
	key := []byte("1234567890abcdef")
	blk, _ := NewCipher(key)
	P := []byte("0123456789abcdef") // one block: ciphertext = P xor E(inc32(J0))
	for l := 1; l <= 40; l++ {
		iv := make([]byte, l)
		for i := range iv {
			iv[i] = byte(0x30 + i)
		}
		ref, err := cipher.NewGCMWithNonceSize(blk, l)
		if err != nil {
			t.Fatal(err)
		}
		want := ref.Seal(nil, iv, P, nil)
		C, T := GCMEncrypt(key, append([]byte(nil), iv...), P, nil)
		if got := append(append([]byte(nil), C...), T...); !bytes.Equal(got, want) {
			t.Errorf("|IV|=%d:\n got %x\nwant %x", l, got, want)
		}
	}
}
