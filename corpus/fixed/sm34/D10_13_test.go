package sm4

// D10-D13 combined demo: differential test of the GCM helpers against the Go
// standard library GCM instantiated with the SM4 block cipher.
// Copy into sm4/ and run: go test -vet=off -count=1 -run TestD10to13 ./sm4/

import (
	"bytes"
	"crypto/cipher"
	"fmt"
	"testing"
)

type gcmCase struct {
	iv, a, p []byte
}

// guarded returns a slice of length n (filled by fill) followed by 24 guard bytes in
// the same backing array, so writes into spare capacity are detected.
func guarded(n int, fill func(i int) byte) (s, backing []byte) {
	backing = bytes.Repeat([]byte{0xEE}, n+24)
	for i := 0; i < n; i++ {
		backing[i] = fill(i)
	}
	return backing[:n], backing
}

func checkGCMCase(t *testing.T, key []byte, blk cipher.Block, liv, la, lp int, ivFill func(int) byte) (ok bool) {
	ok = true
	fail := func(format string, args ...interface{}) {
		ok = false
		t.Errorf("|IV|=%d |A|=%d |P|=%d: %s", liv, la, lp, fmt.Sprintf(format, args...))
	}
	defer func() {
		if r := recover(); r != nil {
			fail("panic: %v", r)
		}
	}()
	ref, err := cipher.NewGCMWithNonceSize(blk, liv)
	if err != nil {
		t.Fatal(err)
	}
	iv, ivB := guarded(liv, ivFill)
	a, aB := guarded(la, func(i int) byte { return byte(0xA0 + i) })
	p, pB := guarded(lp, func(i int) byte { return byte(0x10 + 3*i) })
	ivS, aS, pS := append([]byte(nil), ivB...), append([]byte(nil), aB...), append([]byte(nil), pB...)

	want := ref.Seal(nil, ivS[:liv], pS[:lp], aS[:la])
	wantC, wantT := want[:lp], want[lp:]

	C, T := GCMEncrypt(key, iv, p, a)
	if !bytes.Equal(C, wantC) || len(C) != lp {
		fail("GCMEncrypt C = %x want %x", C, wantC)
	}
	if !bytes.Equal(T, wantT) {
		fail("GCMEncrypt T = %x want %x", T, wantT)
	}
	C2, T2, err := Sm4GCM(key, iv, p, a, true)
	if err != nil || !bytes.Equal(C2, C) || !bytes.Equal(T2, T) {
		fail("Sm4GCM(enc) differs from GCMEncrypt")
	}

	// decrypt the reference ciphertext, held in an exact-capacity slice and in a guarded slice
	cx := append(make([]byte, 0, lp), wantC...)
	P1, T1 := GCMDecrypt(key, iv, cx, a)
	if len(P1) != lp || !bytes.Equal(P1, pS[:lp]) {
		fail("GCMDecrypt P = %x want %x", P1, pS[:lp])
	}
	if !bytes.Equal(T1, wantT) {
		fail("GCMDecrypt T = %x want %x", T1, wantT)
	}
	cg, cgB := guarded(lp, func(i int) byte { return wantC[i] })
	cgS := append([]byte(nil), cgB...)
	P3, T3, err := Sm4GCM(key, iv, cg, a, false)
	if err != nil || !bytes.Equal(P3, pS[:lp]) || !bytes.Equal(T3, wantT) {
		fail("Sm4GCM(dec) P = %x T = %x", P3, T3)
	}

	if !bytes.Equal(ivB, ivS) {
		fail("IV backing array modified: %x", ivB)
	}
	if !bytes.Equal(aB, aS) {
		fail("A backing array modified: %x", aB)
	}
	if !bytes.Equal(pB, pS) {
		fail("P backing array modified: %x", pB)
	}
	if !bytes.Equal(cgB, cgS) {
		fail("C backing array modified: %x", cgB)
	}
	return ok
}

func TestD10to13DifferentialAgainstStdlibGCM(t *testing.T) {
	key := []byte("1234567890abcdef")
	blk, err := NewCipher(key)
	if err != nil {
		t.Fatal(err)
	}
	total, bad := 0, 0
	run := func(liv, la, lp int, ivFill func(int) byte) {
		total++
		if !checkGCMCase(t, key, blk, liv, la, lp, ivFill) {
			bad++
		}
	}
	for liv := 1; liv <= 40; liv++ {
		for la := 0; la <= 40; la++ {
			for lp := 0; lp <= 40; lp++ {
				if bad >= 10 {
					t.Fatalf("stopping after %d failing cases out of %d tried", bad, total)
				}
				run(liv, la, lp, func(i int) byte { return byte(0x30 + 7*i) })
			}
		}
	}
	// IVs full of 0xff (exercises inc32 with 0xff bytes in the upper 96 bits)
	for liv := 1; liv <= 40; liv++ {
		for _, la := range []int{0, 5, 16, 33} {
			for lp := 0; lp <= 40; lp++ {
				if bad >= 10 {
					t.Fatalf("stopping after %d failing cases out of %d tried", bad, total)
				}
				run(liv, la, lp, func(int) byte { return 0xff })
			}
		}
	}
	t.Logf("%d cases, %d failing", total, bad)
}
