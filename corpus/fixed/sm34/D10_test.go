package sm4

// D10 demo: GHASH must put BIT lengths into the final length block (and must
// not add a block for an empty C), so that the tag equals standard GCM.
// Uses 12-byte IVs and GCMEncrypt only, so D11/D12/D13 do not interfere.
// Copy into sm4/ and run: go test -vet=off -count=1 -run TestD10 ./sm4/

import (
	"bytes"
	"crypto/cipher"
	"testing"
)

func TestD10TagMatchesStdlibGCM(t *testing.T) {
	key := []byte("1234567890abcdef")
	blk, _ := NewCipher(key)
	ref, err := cipher.NewGCM(blk)
	if err != nil {
		t.Fatal(err)
	}
	iv := []byte{1, 2, 3, 4, 5, 6, 7, 8, 9, 10, 11, 12}
	bad := 0
	for la := 0; la <= 40; la++ {
		for lp := 0; lp <= 40; lp++ {
			A := make([]byte, la)
			P := make([]byte, lp)
			for i := range A {
				A[i] = byte(0xA0 + i)
			}
			for i := range P {
				P[i] = byte(0x10 + i)
			}
			want := ref.Seal(nil, iv, P, A)
			C, T := GCMEncrypt(key, append([]byte(nil), iv...), P, A)
			got := append(append([]byte(nil), C...), T...)
			if !bytes.Equal(got, want) {
				bad++
				if bad <= 5 {
					t.Errorf("|A|=%d |P|=%d:\n got C||T = %x\nwant       %x", la, lp, got, want)
				}
			}
		}
	}
	if bad > 0 {
		t.Errorf("%d of %d (A,P) length pairs differ from standard GCM", bad, 41*41)
	}
}
