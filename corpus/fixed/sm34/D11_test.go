package sm4

// D11 demo: the GCM counter increment (inc32) only increments the low 32 bits
// mod 2^32 and leaves the upper 96 bits untouched.
// Copy into sm4/ and run: go test -vet=off -count=1 -run TestD11 ./sm4/

import (
	"bytes"
	"crypto/cipher"
	"encoding/hex"
	"testing"
)

func TestD11Incr(t *testing.T) {
	cases := []struct{ in, next string }{
		// 0xff bytes in the upper 96 bits must survive
		{"ffffffffffffffffffffffff00000001", "ffffffffffffffffffffffff00000002"},
		{"00ff00ff00ff00ff00ff00ff000000ff", "00ff00ff00ff00ff00ff00ff00000100"},
		// byte + carry == 0xff is not an overflow
		{"000000000000000000000000000ffeff", "000000000000000000000000000fff00"},
		{"0000000000000000000000000000feff", "0000000000000000000000000000ff00"},
		// wrap of the low 32 bits does not carry into the upper 96 bits
		{"0102030405060708090a0b0cffffffff", "0102030405060708090a0b0c00000000"},
	}
	for _, c := range cases {
		in, _ := hex.DecodeString(c.in)
		want, _ := hex.DecodeString(c.next)
		out := incr(2, in)
		if !bytes.Equal(out[:16], in) || !bytes.Equal(out[16:], want) {
			t.Errorf("incr(%s) = %x, want %x", c.in, out[16:], want)
		}
	}
}

// end-to-end: 12-byte IV full of 0xff, one full block (tag is independent of D10 only if
// D10 is fixed, so only the ciphertext is compared here)
func TestD11CiphertextWithFFIV(t *testing.T) {
	key := []byte("1234567890abcdef")
	blk, _ := NewCipher(key)
	ref, _ := cipher.NewGCM(blk)
	iv := bytes.Repeat([]byte{0xff}, 12)
	P := bytes.Repeat([]byte{0x42}, 32)
	want := ref.Seal(nil, iv, P, nil)[:32]
	C, _ := GCMEncrypt(key, append([]byte(nil), iv...), P, nil)
	if !bytes.Equal(C, want) {
		t.Errorf("IV=ff..ff ciphertext\n got %x\nwant %x", C, want)
	}
}
