package sm4

// D12 demo: GCMDecrypt must accept ciphertexts of any length, return exactly
// len(C) plaintext bytes and never read/rely on spare capacity behind C.
// Copy into sm4/ and run: go test -vet=off -count=1 -run TestD12 ./sm4/

import (
	"bytes"
	"fmt"
	"testing"
)

func TestD12DecryptAnyLength(t *testing.T) {
	key := []byte("1234567890abcdef")
	iv := []byte{1, 2, 3, 4, 5, 6, 7, 8, 9, 10, 11, 12}
	A := []byte("header")
	for lp := 0; lp <= 40; lp++ {
		P := make([]byte, lp)
		for i := range P {
			P[i] = byte(0x10 + i)
		}
		C, T := GCMEncrypt(key, append([]byte(nil), iv...), P, A)
		if len(C) != lp {
			t.Errorf("|P|=%d: GCMEncrypt returned %d ciphertext bytes", lp, len(C))
			continue
		}
		// exact-capacity copy of C: no spare bytes to lean on
		Cx := make([]byte, len(C))
		copy(Cx, C)
		var got, T2 []byte
		var perr error
		func() {
			defer func() {
				if r := recover(); r != nil {
					perr = fmt.Errorf("panic: %v", r)
				}
			}()
			got, T2 = GCMDecrypt(key, append([]byte(nil), iv...), Cx, A)
		}()
		if perr != nil {
			t.Errorf("|C|=%d: GCMDecrypt %v", lp, perr)
			continue
		}
		if len(got) != lp {
			t.Errorf("|C|=%d: GCMDecrypt returned %d bytes", lp, len(got))
		}
		if len(got) >= lp && !bytes.Equal(got[:lp], P) {
			t.Errorf("|C|=%d: wrong plaintext %x", lp, got)
		}
		if !bytes.Equal(T, T2) {
			t.Errorf("|C|=%d: tag mismatch %x vs %x", lp, T, T2)
		}
		// result must not depend on what lies behind C in the backing array
		Cy := make([]byte, len(C), len(C)+32)
		copy(Cy, C)
		for i := len(C); i < cap(Cy); i++ {
			Cy[:cap(Cy)][i] = 0x5A
		}
		got2, _ := GCMDecrypt(key, append([]byte(nil), iv...), Cy, A)
		if !bytes.Equal(got2, P) {
			t.Errorf("|C|=%d (spare capacity): got %x want %x", lp, got2, P)
		}
	}
}
