module verifharness

go 1.21

require (
	github.com/tjfoc/gmsm v0.0.0
	golang.org/x/crypto v0.0.0-20201012173705-84dcc777aaee
)

require golang.org/x/sys v0.0.0-20200930185726-fdedc70b468f // indirect

replace github.com/tjfoc/gmsm => /repo
