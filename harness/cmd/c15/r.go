package main

// R cases: an otherwise HONEST scripted GMSSL peer (real record layer through the VerifConn hook,
// genuine key exchange, genuine verify_data) that deviates only in how it packs its flights into
// records, in the order of ChangeCipherSpec / Finished, or in the ClientHello version.
//
//   R <id> <victim> <suite> <cfg> <chv> <packing>      observation: ok|err|PANIC|HANG (the victim)
//
//   victim sg: real GMSSL-only server, cfg auth=<0..4>,cc=<0|1>,tk=<0|1>; the scripted client's packing is
//              CH/<second flight over CCERT CKX CV CCS FIN>
//   victim cg: real verifying GM client, cfg cc=<0|1>,cr=<0|1>,tk=<0|1>, chv "-"; the scripted server's packing is
//              <first flight over SH CERT SKX CR SHD>/<second flight over NST CCS FIN>
//   flights separated by '/', records by '|', messages coalesced into one record by '+'.

import (
	"bytes"
	"crypto/rand"
	"fmt"
	"io"
	"net"
	"strconv"
	"strings"
	"sync"
	"time"
	"verifharness/internal/hx"

	"github.com/tjfoc/gmsm/gmtls"
	"github.com/tjfoc/gmsm/sm2"
	"github.com/tjfoc/gmsm/x509"
)

// ---------------------------------------------------------------------------------------------
// pipes with stall detection (as in cmd/c08/pipe.go)

type rgroup struct {
	mu      sync.Mutex
	c       *sync.Cond
	active  int
	waiting map[*rq]int
	expired bool
	byTimer bool // expired because the wall-clock fallback fired, not because the run was provably stalled
}

func newRGroup(participants int, d time.Duration) *rgroup {
	g := &rgroup{active: participants, waiting: map[*rq]int{}}
	g.c = sync.NewCond(&g.mu)
	time.AfterFunc(hx.D(d), func() { // 10x when the case is re-run alone
		g.mu.Lock()
		if !g.expired && g.active > 0 {
			g.byTimer = true
		}
		g.expired = true
		g.c.Broadcast()
		g.mu.Unlock()
	})
	return g
}

func (g *rgroup) timedOut() bool {
	g.mu.Lock()
	defer g.mu.Unlock()
	return g.byTimer
}

func (g *rgroup) stalled() bool {
	n := 0
	for q, k := range g.waiting {
		if len(q.buf) > 0 || q.closed {
			return false
		}
		n += k
	}
	return n >= g.active
}

func (g *rgroup) leave() {
	g.mu.Lock()
	g.active--
	if g.stalled() {
		g.expired = true
	}
	g.c.Broadcast()
	g.mu.Unlock()
}

type rq struct {
	g      *rgroup
	buf    []byte
	closed bool
}

type rEnd struct{ rd, wr *rq }

func (p *rEnd) Read(b []byte) (int, error) {
	q, g := p.rd, p.rd.g
	g.mu.Lock()
	defer g.mu.Unlock()
	for len(q.buf) == 0 && !q.closed && !g.expired {
		g.waiting[q]++
		if g.stalled() {
			g.expired = true
			g.c.Broadcast()
		} else {
			g.c.Wait()
		}
		if g.waiting[q]--; g.waiting[q] == 0 {
			delete(g.waiting, q)
		}
	}
	if len(q.buf) > 0 {
		n := copy(b, q.buf)
		q.buf = q.buf[n:]
		return n, nil
	}
	if q.closed {
		return 0, io.EOF
	}
	return 0, timeoutErr{}
}

func (p *rEnd) Write(b []byte) (int, error) {
	q, g := p.wr, p.wr.g
	g.mu.Lock()
	defer g.mu.Unlock()
	if q.closed {
		return 0, io.ErrClosedPipe
	}
	q.buf = append(q.buf, b...)
	g.c.Broadcast()
	return len(b), nil
}

func (p *rEnd) Close() error {
	g := p.rd.g
	g.mu.Lock()
	p.rd.closed, p.wr.closed = true, true
	g.c.Broadcast()
	g.mu.Unlock()
	return nil
}

func (p *rEnd) CloseWrite() {
	g := p.wr.g
	g.mu.Lock()
	p.wr.closed = true
	g.c.Broadcast()
	g.mu.Unlock()
}
func (p *rEnd) LocalAddr() net.Addr                { return dummyAddr }
func (p *rEnd) RemoteAddr() net.Addr               { return dummyAddr }
func (p *rEnd) SetDeadline(t time.Time) error      { return nil }
func (p *rEnd) SetReadDeadline(t time.Time) error  { return nil }
func (p *rEnd) SetWriteDeadline(t time.Time) error { return nil }

func newRPipe(g *rgroup) (*rEnd, *rEnd) {
	a, b := &rq{g: g}, &rq{g: g}
	return &rEnd{rd: a, wr: b}, &rEnd{rd: b, wr: a}
}

// ---------------------------------------------------------------------------------------------

const versGM = 0x0101

var (
	sm2PoolOnce sync.Once
	sm2Pool     *x509.CertPool
)

func poolSM2() *x509.CertPool {
	sm2PoolOnce.Do(func() {
		c, err := x509.ParseCertificate(E.caSM2)
		if err != nil {
			die("SM2 CA: %v", err)
		}
		sm2Pool = x509.NewCertPool()
		sm2Pool.AddCert(c)
	})
	return sm2Pool
}

func rnd(n int) []byte {
	b := make([]byte, n)
	rand.Read(b)
	return b
}

type stepErr struct{ s string }

func rfail(format string, a ...interface{}) { panic(stepErr{fmt.Sprintf(format, a...)}) }

func rexpect(vc *gmtls.VerifConn, want uint8, what string) []byte {
	typ, raw, err := vc.ReadHandshakeRaw()
	if err != nil {
		rfail("reading %s: %v", what, err)
	}
	if typ != want {
		rfail("reading %s: got handshake type %d", what, typ)
	}
	return raw
}

func rmust(err error, what string) {
	if err != nil {
		rfail("%s: %v", what, err)
	}
}

// packing "A|B+C|CCS|FIN" -> [[A] [B C] [CCS] [FIN]]
func parseFlight(s string) [][]string {
	var out [][]string
	if s == "" || s == "-" {
		return nil
	}
	// the tokens CKXL+1 / CKXH+1 (round 12) contain the coalescing sign: protect them while splitting
	s = strings.NewReplacer("CKXL+1", "CKXL#1", "CKXH+1", "CKXH#1").Replace(s)
	for _, r := range strings.Split(s, "|") {
		msgs := strings.Split(r, "+")
		for i := range msgs {
			msgs[i] = strings.Replace(msgs[i], "#", "+", 1)
		}
		out = append(out, msgs)
	}
	return out
}

// sender writes one flight record by record; build(name) returns the message bytes (already hashed).
func sendFlight(vc *gmtls.VerifConn, flight [][]string, build func(name string) []byte, beforeCCS func()) {
	vc.SetBuffering(true)
	for _, record := range flight {
		if len(record) == 1 && record[0] == "CCS" {
			beforeCCS()
			// a second ChangeCipherSpec makes the real record layer complain locally; the record still goes out
			vc.WriteCCS()
			continue
		}
		if len(record) == 1 && (record[0] == "HR" || record[0] == "HX") {
			// a handshake record of its own, not part of the transcript: HelloRequest / unknown type 99
			if record[0] == "HR" {
				vc.WriteHandshake([]byte{0, 0, 0, 0})
			} else {
				vc.WriteHandshake([]byte{0x63, 0, 0, 0})
			}
			continue
		}
		var payload []byte
		for _, name := range record {
			if name == "CCS" {
				rfail("CCS must be a record of its own")
			}
			if name == "HR" || name == "HX" {
				rfail("%s must be a record of its own", name)
			}
			payload = append(payload, build(name)...)
		}
		if len(payload) > 0 {
			vc.WriteHandshake(payload)
		}
	}
	rmust(vc.Flush(), "flush")
}

// scriptedClient plays the GM client against a real server.
func scriptedClient(conn net.Conn, suite uint16, cc, tk bool, chv uint16, packing string, comp []byte) (log string) {
	vc := gmtls.VerifNewConn(conn, &gmtls.Config{GMSupport: &gmtls.GMSupport{}, InsecureSkipVerify: true}, true)
	defer vc.Release()
	defer func() {
		if r := recover(); r != nil {
			if e, ok := r.(stepErr); ok {
				log = "stopped: " + e.s
				return
			}
			panic(r)
		}
	}()
	flights := strings.Split(packing, "/")
	if len(flights) != 2 || flights[0] != "CH" {
		rfail("bad packing")
	}
	vc.SetVersion(versGM)
	cr := rnd(32)
	ch := gmtls.VerifMarshalClientHello(gmtls.VerifClientHello{Vers: chv, Random: cr, CipherSuites: []uint16{suite},
		CompressionMethods: comp, ServerName: "localhost", TicketSupported: tk})
	fh := gmtls.VerifNewFinishedHashGM()
	fh.Write(ch)
	rmust(vc.WriteHandshake(ch), "write ClientHello")
	shRaw := rexpect(vc, tSH, "ServerHello")
	fh.Write(shRaw)
	sh, ok := gmtls.VerifParseServerHello(shRaw)
	if !ok || sh.CipherSuite != suite {
		rfail("unexpected ServerHello")
	}
	certRaw := rexpect(vc, tCERT, "Certificate")
	fh.Write(certRaw)
	certs, _ := gmtls.VerifParseCertificate(certRaw)
	if len(certs) < 2 {
		rfail("server sent %d certificates", len(certs))
	}
	fh.Write(rexpect(vc, tSKX, "ServerKeyExchange"))
	asked := false
	typ, raw, err := vc.ReadHandshakeRaw()
	rmust(err, "reading CertificateRequest / ServerHelloDone")
	if typ == tCR {
		asked = true
		fh.Write(raw)
		typ, raw, err = vc.ReadHandshakeRaw()
		rmust(err, "reading ServerHelloDone")
	}
	if typ != tSHD {
		rfail("expected ServerHelloDone, got type %d", typ)
	}
	fh.Write(raw)

	// the key material depends on the premaster secret and the randoms only
	pms, ckxBody, err := gmtls.VerifECCGenerateClientKeyExchange(certs[1], versGM)
	rmust(err, "generateClientKeyExchange")
	master := gmtls.VerifMasterSecret(versGM, suite, pms, cr, sh.Random)
	presented := false
	build := func(name string) []byte {
		var m []byte
		switch name {
		case "CCERT":
			if !asked {
				return nil
			}
			var chain [][]byte
			if cc {
				chain = E.auth.Certificate
			}
			presented = len(chain) > 0
			m = gmtls.VerifMarshalCertificate(chain)
		case "CKX":
			m = gmtls.VerifMarshalClientKeyExchange(ckxBody)
		case "CKXT1", "CKXT2", "CKXT16", "CKXL+1", "CKXL-1", "CKXH+1":
			m = gmtls.VerifMarshalClientKeyExchange(ckxVariant(name, ckxBody))
		case "CV":
			if !presented {
				return nil
			}
			sig, err := E.auth.PrivateKey.(*sm2.PrivateKey).Sign(rand.Reader, fh.ClientCertDigest(), nil)
			rmust(err, "sign CertificateVerify")
			m = gmtls.VerifMarshalCertificateVerify(false, 0, sig)
		case "FIN":
			m = gmtls.VerifMarshalFinished(fh.ClientSum(master))
		default:
			rfail("bad message name %s", name)
		}
		fh.Write(m)
		return m
	}
	sendFlight(vc, parseFlight(flights[1]), build, func() { vc.EstablishKeys(suite, master, cr, sh.Random) })
	if sh.TicketSupported {
		fh.Write(rexpect(vc, tNST, "NewSessionTicket"))
	}
	rmust(vc.ReadCCS(), "server ChangeCipherSpec")
	sfin := rexpect(vc, tFIN, "server Finished")
	if !bytes.Equal(sfin[4:], fh.ServerSum(master)) {
		return "server Finished is wrong"
	}
	return "flow finished"
}

// scriptedServer plays the GM server against a real client.
func scriptedServer(conn net.Conn, suite uint16, sendCR, tk bool, packing string) (log string) {
	vc := gmtls.VerifNewConn(conn, &gmtls.Config{GMSupport: &gmtls.GMSupport{}}, false)
	defer vc.Release()
	defer func() {
		if r := recover(); r != nil {
			if e, ok := r.(stepErr); ok {
				log = "stopped: " + e.s
				return
			}
			panic(r)
		}
	}()
	flights := strings.Split(packing, "/")
	if len(flights) != 2 {
		rfail("bad packing")
	}
	chRaw := rexpect(vc, tCH, "ClientHello")
	ch, ok := gmtls.VerifParseClientHello(chRaw)
	if !ok {
		rfail("ClientHello does not parse")
	}
	vc.SetVersion(versGM)
	ticket := tk && ch.TicketSupported
	sr := rnd(32)
	fh := gmtls.VerifNewFinishedHashGM()
	fh.Write(chRaw)
	var master []byte
	build := func(name string) []byte {
		var m []byte
		switch name {
		case "SH":
			m = gmtls.VerifMarshalServerHello(gmtls.VerifServerHello{Vers: versGM, Random: sr, CipherSuite: suite,
				SecureRenegotiationSupported: ch.SecureRenegotiationSupported, TicketSupported: ticket})
		case "CERT":
			m = gmtls.VerifMarshalCertificate([][]byte{E.sig.Certificate[0], E.enc.Certificate[0]})
		case "SKX":
			key, err := gmtls.VerifECCGenerateServerKeyExchange(&E.sig, &E.enc, ch.Random, sr)
			rmust(err, "generateServerKeyExchange")
			m = gmtls.VerifMarshalServerKeyExchange(key)
		case "CR":
			if !sendCR {
				return nil
			}
			m = gmtls.VerifMarshalCertificateRequestGM([]byte{1, 64}, [][]byte{E.dnSM2})
		case "SHD":
			m = gmtls.VerifMarshalServerHelloDone()
		case "NST":
			if !ticket {
				return nil
			}
			m = gmtls.VerifMarshalNewSessionTicket(rnd(48))
		case "FIN":
			m = gmtls.VerifMarshalFinished(fh.ServerSum(master))
		default:
			rfail("bad message name %s", name)
		}
		fh.Write(m)
		return m
	}
	sendFlight(vc, parseFlight(flights[0]), build, func() { rfail("CCS in the first flight") })

	gotCert := false
	if sendCR {
		raw := rexpect(vc, tCERT, "client Certificate")
		fh.Write(raw)
		certs, _ := gmtls.VerifParseCertificate(raw)
		gotCert = len(certs) > 0
	}
	ckx := rexpect(vc, tCKX, "ClientKeyExchange")
	fh.Write(ckx)
	pms, err := gmtls.VerifECCProcessClientKeyExchange(&E.enc, ckx[4:])
	rmust(err, "processClientKeyExchange")
	master = gmtls.VerifMasterSecret(versGM, suite, pms, ch.Random, sr)
	vc.EstablishKeys(suite, master, ch.Random, sr)
	if gotCert {
		fh.Write(rexpect(vc, tCV, "CertificateVerify"))
	}
	rmust(vc.ReadCCS(), "client ChangeCipherSpec")
	cfin := rexpect(vc, tFIN, "client Finished")
	if !bytes.Equal(cfin[4:], fh.ClientSum(master)) {
		log += "client Finished is wrong; "
	}
	fh.Write(cfin)
	first := true
	sendFlight(vc, parseFlight(flights[1]), build, func() {
		if !first {
			vc.EstablishKeys(suite, master, ch.Random, sr) // a repeated CCS re-activates the same keys
		}
		first = false
	})
	return log + "flow finished"
}

func rPair(victim func(conn net.Conn) *gmtls.Conn, attacker func(conn net.Conn) string) (res, detail string) {
	return rPairPost(victim, attacker, nil)
}

// rPairPost: post (if any) runs on the victim's connection after Handshake returned nil; its token is appended to
// the observation ("ok pt=1"); a failed handshake of such a case is reported as "err pt=0".
func rPairPost(victim func(conn net.Conn) *gmtls.Conn, attacker func(conn net.Conn) string, post func(c *gmtls.Conn) string) (res, detail string) {
	grp := newRGroup(2, 4*time.Second)
	a, b := newRPipe(grp)
	var wg sync.WaitGroup
	var vres, verr, alog string
	wg.Add(2)
	go func() {
		defer wg.Done()
		defer grp.leave()
		defer func() {
			if r := recover(); r != nil {
				vres, verr = "PANIC", fmt.Sprint(r)
				a.Close()
			}
		}()
		vc := victim(a)
		if err := vc.Handshake(); err != nil {
			vres, verr = "err", err.Error()
			if post != nil {
				vres = "err pt=0"
			}
			a.Close()
			return
		}
		vres = "ok"
		if post != nil {
			verr = fmt.Sprintf("HandshakeComplete=%v", vc.ConnectionState().HandshakeComplete)
			vres = "ok " + post(vc)
		}
	}()
	go func() {
		defer wg.Done()
		defer grp.leave()
		defer func() {
			if r := recover(); r != nil {
				alog = fmt.Sprintf("SCRIPTED PEER PANIC (driver bug): %v", r)
				b.Close()
			}
		}()
		alog = attacker(b)
		b.CloseWrite()
	}()
	done := make(chan struct{})
	go func() { wg.Wait(); close(done) }()
	select {
	case <-done:
	case <-time.After(hx.D(7 * time.Second)):
		a.Close()
		return "HANG", "deadline"
	}
	a.Close()
	if grp.timedOut() {
		return "HANG", "pipe deadline (clock), not a stall"
	}
	if strings.HasPrefix(alog, "SCRIPTED PEER PANIC") {
		return "DRIVERBUG", alog
	}
	return vres, verr + " | peer: " + alog
}

func kvOf(s string) map[string]string {
	m := map[string]string{}
	for _, kv := range strings.Split(s, ",") {
		p := strings.SplitN(kv, "=", 2)
		if len(p) == 2 {
			m[p[0]] = p[1]
		}
	}
	return m
}

// runR: f = R id victim suite cfg chv packing
func runR(f []string) (string, string) {
	if len(f) != 7 {
		return "BADCASE", ""
	}
	if f[2] == "st" || f[2] == "ct" { // standard TLS (r8.go)
		tk := kvOf(f[4])["tk"] == "1"
		sv, err := strconv.ParseUint(f[3], 16, 16)
		chv, err2 := strconv.ParseUint(f[5], 16, 16)
		if err != nil || err2 != nil {
			return "BADCASE", ""
		}
		tsuite := uint16(sv)
		if f[2] == "st" {
			cfg := &gmtls.Config{Certificates: []gmtls.Certificate{E.rsa}, SessionTicketsDisabled: !tk}
			cfg.Time = func() time.Time { return fixedNow }
			return rPair(
				func(conn net.Conn) *gmtls.Conn { return gmtls.Server(conn, cfg) },
				func(conn net.Conn) string {
					return scriptedTLSClient(conn, tsuite, tk, uint16(chv), f[6], compFor(kvOf(f[4])))
				})
		}
		cfg := &gmtls.Config{RootCAs: E.pool, ServerName: "localhost", MaxVersion: uint16(chv), CipherSuites: []uint16{tsuite},
			SessionTicketsDisabled: true}
		cfg.Time = func() time.Time { return fixedNow }
		if rn, has := kvOf(f[4])["rn"]; has { // round 10: Config.Renegotiation, observation with the pt token
			n, _ := strconv.Atoi(rn)
			cfg.Renegotiation = gmtls.RenegotiationSupport(n)
			return rPairPost(
				func(conn net.Conn) *gmtls.Conn { return gmtls.Client(conn, cfg) },
				func(conn net.Conn) string {
					return thenPlainApp(conn, uint16(chv), scriptedTLSServer(conn, tsuite, uint16(chv), f[6]))
				}, readPlainApp)
		}
		return rPair(
			func(conn net.Conn) *gmtls.Conn { return gmtls.Client(conn, cfg) },
			func(conn net.Conn) string { return scriptedTLSServer(conn, tsuite, uint16(chv), f[6]) })
	}
	sv, err := strconv.ParseUint(f[3], 16, 16)
	if err != nil || (sv != 0xe013 && sv != 0xe053) {
		return "BADCASE", ""
	}
	suite := uint16(sv)
	kv := kvOf(f[4])
	cc, tk := kv["cc"] == "1", kv["tk"] == "1"
	switch f[2] {
	case "sg":
		auth, _ := strconv.Atoi(kv["auth"])
		chv, err := strconv.ParseUint(f[5], 16, 16)
		if err != nil {
			return "BADCASE", ""
		}
		cfg := &gmtls.Config{GMSupport: &gmtls.GMSupport{}, Certificates: []gmtls.Certificate{E.sig, E.enc},
			ClientAuth: gmtls.ClientAuthType(auth), ClientCAs: poolSM2(), SessionTicketsDisabled: !tk}
		cfg.Time = func() time.Time { return fixedNow }
		return rPair(
			func(conn net.Conn) *gmtls.Conn { return gmtls.Server(conn, cfg) },
			func(conn net.Conn) string { return scriptedClient(conn, suite, cc, tk, uint16(chv), f[6], compFor(kv)) })
	case "sa": // auto-switch server, GMSSL ClientHello
		auth, _ := strconv.Atoi(kv["auth"])
		chv, err := strconv.ParseUint(f[5], 16, 16)
		if err != nil {
			return "BADCASE", ""
		}
		sig, enc, rsaC := E.sig, E.enc, E.rsa
		cfg, err := gmtls.NewBasicAutoSwitchConfig(&sig, &enc, &rsaC)
		if err != nil {
			return "BADCASE", ""
		}
		cfg.ClientAuth, cfg.ClientCAs, cfg.SessionTicketsDisabled = gmtls.ClientAuthType(auth), poolSM2(), !tk
		cfg.Time = func() time.Time { return fixedNow }
		return rPair(
			func(conn net.Conn) *gmtls.Conn { return gmtls.Server(conn, cfg) },
			func(conn net.Conn) string { return scriptedClient(conn, suite, cc, tk, uint16(chv), f[6], compFor(kv)) })
	case "cg":
		cr := kv["cr"] == "1"
		cfg := &gmtls.Config{GMSupport: &gmtls.GMSupport{}, RootCAs: poolSM2(), ServerName: "localhost", CipherSuites: []uint16{suite},
			SessionTicketsDisabled: !tk}
		cfg.Time = func() time.Time { return fixedNow }
		if tk {
			cfg.ClientSessionCache = gmtls.NewLRUClientSessionCache(4)
		}
		if cc {
			cfg.Certificates = []gmtls.Certificate{E.auth}
		}
		if rn, has := kv["rn"]; has {
			n, _ := strconv.Atoi(rn)
			cfg.Renegotiation = gmtls.RenegotiationSupport(n)
			return rPairPost(
				func(conn net.Conn) *gmtls.Conn { return gmtls.Client(conn, cfg) },
				func(conn net.Conn) string {
					return thenPlainApp(conn, versGM, scriptedServer(conn, suite, cr, tk, f[6]))
				}, readPlainApp)
		}
		return rPair(
			func(conn net.Conn) *gmtls.Conn { return gmtls.Client(conn, cfg) },
			func(conn net.Conn) string { return scriptedServer(conn, suite, cr, tk, f[6]) })
	}
	return "BADCASE", ""
}

// ---------------------------------------------------------------------------------------------
// generator

func joinRecords(recs [][]string) string {
	p := make([]string, len(recs))
	for i, r := range recs {
		p[i] = strings.Join(r, "+")
	}
	return strings.Join(p, "|")
}

// groupings: every way of cutting msgs into records of adjacent messages
func groupings(msgs []string) [][][]string {
	if len(msgs) == 0 {
		return [][][]string{nil}
	}
	var out [][][]string
	n := len(msgs)
	for mask := 0; mask < 1<<uint(n-1); mask++ {
		var recs [][]string
		cur := []string{msgs[0]}
		for i := 1; i < n; i++ {
			if mask&(1<<uint(i-1)) != 0 { // bit set: coalesce with the previous message
				cur = append(cur, msgs[i])
			} else {
				recs = append(recs, cur)
				cur = []string{msgs[i]}
			}
		}
		out = append(out, append(recs, cur))
	}
	return out
}

func singles(msgs []string) [][]string {
	var out [][]string
	for _, m := range msgs {
		out = append(out, []string{m})
	}
	return out
}

// secondFlights: the packings of a flight whose handshake messages before the CCS are pre (items 1-4).
func secondFlights(pre []string) []string {
	seen := map[string]bool{}
	var out []string
	add := func(recs [][]string) {
		s := joinRecords(recs)
		if !seen[s] {
			seen[s] = true
			out = append(out, s)
		}
	}
	ccs, fin := []string{"CCS"}, []string{"FIN"}
	cat := func(parts ...[][]string) [][]string {
		var o [][]string
		for _, p := range parts {
			o = append(o, p...)
		}
		return o
	}
	one := func(r []string) [][]string { return [][]string{r} }
	// 1, 2: honest and every coalescing of the messages before the CCS
	for _, g := range groupings(pre) {
		add(cat(g, one(ccs), one(fin)))
	}
	// 3: FIN in front of the CCS
	for _, second := range []bool{false, true} {
		tail := one(ccs)
		if second {
			tail = cat(one(ccs), one(fin))
		}
		add(cat(singles(pre), one(fin), tail))
		if len(pre) > 0 {
			last := len(pre) - 1
			add(cat(singles(pre[:last]), one([]string{pre[last], "FIN"}), tail))
			add(cat(one(append(append([]string{}, pre...), "FIN")), tail))
		}
	}
	// 4: CCS twice, CCS before the key exchange / first in the flight, no CCS at all
	add(cat(singles(pre), one(ccs), one(ccs), one(fin)))
	for i := range pre {
		if pre[i] == "CKX" {
			add(cat(singles(pre[:i]), one(ccs), singles(pre[i:]), one(fin)))
		}
	}
	add(cat(one(ccs), singles(pre), one(fin)))
	add(cat(singles(pre), one(fin)))
	return out
}

func (g *G) rCases() {
	emit := func(victim string, suite uint16, cfg, chv, packing string) {
		g.emit("R", fmt.Sprintf("%s %04x %s %s %s", victim, suite, cfg, chv, packing))
	}
	gaps := []string{"0000", "0001", "0100", "0102", "0103", "0180", "01ff", "0200", "0201", "02fe", "02ff"}
	for _, suite := range []uint16{0xe013, 0xe053} {
		for _, auth := range []int{0, 1, 4} {
			for cc := 0; cc <= 1; cc++ {
				for tk := 0; tk <= 1; tk++ {
					cfg := fmt.Sprintf("auth=%d,cc=%d,tk=%d", auth, cc, tk)
					var pre []string
					if auth >= 1 {
						pre = append(pre, "CCERT")
					}
					pre = append(pre, "CKX")
					if auth >= 1 && cc == 1 {
						pre = append(pre, "CV")
					}
					flights := secondFlights(pre)
					for _, f := range flights {
						emit("sg", suite, cfg, "0101", "CH/"+f)
					}
					for _, v := range gaps {
						emit("sg", suite, cfg, v, "CH/"+flights[0])
					}
				}
			}
		}
		for cc := 0; cc <= 1; cc++ {
			for cr := 0; cr <= 1; cr++ {
				for tk := 0; tk <= 1; tk++ {
					cfg := fmt.Sprintf("cc=%d,cr=%d,tk=%d", cc, cr, tk)
					first := []string{"SH", "CERT", "SKX"}
					if cr == 1 {
						first = append(first, "CR")
					}
					first = append(first, "SHD")
					var pre []string
					if tk == 1 {
						pre = []string{"NST"}
					}
					seconds := secondFlights(pre)
					honest1 := joinRecords(singles(first))
					for _, f := range seconds {
						emit("cg", suite, cfg, "-", honest1+"/"+f)
					}
					for _, g1 := range groupings(first)[1:] {
						emit("cg", suite, cfg, "-", joinRecords(g1)+"/"+seconds[0])
					}
				}
			}
		}
	}
}
