package main

// Scripted peer: items (concrete field of an S case), their rendering to records, the
// in-memory net.Conn that serves them to a real endpoint, and the derivation of the
// abstract token script from the bytes.
//
// Concrete encoding (items joined by ';', '-' for the empty script, no spaces):
//
//   R<typ>,<vers|n>,<len|n>,<payloadhex|->      one raw record.  vers n = the version the
//                                               victim expects at that moment; len n = true length
//   H<spec>[!<mut>]*[!F<n1>.<n2>...][!J]        one handshake message
//        spec:  x<hex>              literal message bytes (4-byte header included)
//               cert,<names|->      Certificate with the named certificates (joined by '.')
//               crg,<n>             GM CertificateRequest with n CAs (0..3)
//               crt,<h>,<n>         standard CertificateRequest, h=1: with signature algorithms
//               skx,<good|rnd|enc2|key2>     GM ECC ServerKeyExchange, signed at run time
//               skxe,<rsa|p256>     TLS 1.2 ECDHE ServerKeyExchange (P-256), signed at run time
//               ckxg,<good|key2|short>       GM ClientKeyExchange, encrypted at run time
//               ckxr,<good|key2|short>       RSA ClientKeyExchange, encrypted at run time
//        mut:   K<n>   keep the first n body bytes (header length adjusted)
//               D<k>   drop the last k body bytes (header length adjusted)
//               A<hex> append bytes to the body (header length adjusted)
//               L<hex> overwrite the 3-byte handshake length field only
//               P<off>.<w>.<hexval>  overwrite w bytes at message offset off (big endian)
//        F      split the message into records of the given sizes (rest in a last record)
//        J      put the last fragment in the same record as the start of the next message

import (
	"bytes"
	"crypto"
	"crypto/ecdsa"
	"crypto/elliptic"
	"crypto/rand"
	"crypto/rsa"
	"crypto/sha256"
	"encoding/hex"
	"fmt"
	"io"
	"net"
	"os"
	"strconv"
	"strings"
	"sync"
	"sync/atomic"
	"time"

	"github.com/tjfoc/gmsm/gmtls"
	"github.com/tjfoc/gmsm/sm2"
	"verifharness/internal/hx"
)

const (
	tHRQ  = 0
	tCH   = 1
	tSH   = 2
	tNST  = 4
	tCERT = 11
	tSKX  = 12
	tCR   = 13
	tSHD  = 14
	tCV   = 15
	tCKX  = 16
	tFIN  = 20
	tCST  = 22
	tNPN  = 67

	recCCS   = 20
	recAlert = 21
	recHS    = 22
	recApp   = 23

	// fixed lengths of the run-time generated parts (obtained by re-drawing)
	sm2SigLen   = 71  // DER ECDSA-Sig-Value, exactly one of r,s with the top bit set
	sm2CtLen48  = 156 // ASN.1 SM2 ciphertext of 48 bytes, exactly one of x,y with the top bit set
	ecdsaSigLen = 71
)

type rec struct {
	typ     int
	vers    int // -1: current
	lenOv   int // -1: true length
	payload []byte
}

type item struct {
	raw  bool
	spec string
	muts []string
	frag []int
	join bool
	r    rec
	// stall (last item only): r is the START of a record - header announcing r.lenOv bytes, r.payload the part of the
	// body that arrives - after which the peer stays silent with the connection open
	stall bool
}

func hsItem(spec string, muts ...string) item { return item{spec: spec, muts: muts} }
func litItem(m []byte, muts ...string) item {
	return item{spec: "x" + hex.EncodeToString(m), muts: muts}
}
func rawItem(typ int, payload []byte) item {
	return item{raw: true, r: rec{typ: typ, vers: -1, lenOv: -1, payload: payload}}
}

func (it item) enc() string {
	if it.stall {
		return fmt.Sprintf("Z%d,%d,%s", it.r.typ, it.r.lenOv, hx.Hex(it.r.payload))
	}
	if it.raw {
		v, l := "n", "n"
		if it.r.vers >= 0 {
			v = fmt.Sprintf("%04x", it.r.vers)
		}
		if it.r.lenOv >= 0 {
			l = strconv.Itoa(it.r.lenOv)
		}
		return fmt.Sprintf("R%d,%s,%s,%s", it.r.typ, v, l, hx.Hex(it.r.payload))
	}
	s := "H" + it.spec
	for _, m := range it.muts {
		s += "!" + m
	}
	if len(it.frag) > 0 {
		p := make([]string, len(it.frag))
		for i, x := range it.frag {
			p[i] = strconv.Itoa(x)
		}
		s += "!F" + strings.Join(p, ".")
	}
	if it.join {
		s += "!J"
	}
	return s
}

func encItems(items []item) string {
	if len(items) == 0 {
		return "-"
	}
	p := make([]string, len(items))
	for i, it := range items {
		p[i] = it.enc()
	}
	return strings.Join(p, ";")
}

func decItems(s string) []item {
	if s == "-" || s == "" {
		return nil
	}
	var out []item
	for _, f := range strings.Split(s, ";") {
		if f == "" {
			panic("empty item in concrete script")
		}
		switch f[0] {
		case 'R':
			p := strings.Split(f[1:], ",")
			if len(p) != 4 {
				panic("bad raw item " + f)
			}
			it := item{raw: true, r: rec{vers: -1, lenOv: -1}}
			it.r.typ, _ = strconv.Atoi(p[0])
			if p[1] != "n" {
				v, err := strconv.ParseUint(p[1], 16, 16)
				if err != nil {
					panic("bad raw item " + f)
				}
				it.r.vers = int(v)
			}
			if p[2] != "n" {
				it.r.lenOv, _ = strconv.Atoi(p[2])
			}
			it.r.payload = hx.UnHex(p[3])
			out = append(out, it)
		case 'Z':
			p := strings.Split(f[1:], ",")
			if len(p) != 3 {
				panic("bad stall item " + f)
			}
			it := item{raw: true, stall: true, r: rec{vers: -1}}
			it.r.typ, _ = strconv.Atoi(p[0])
			it.r.lenOv, _ = strconv.Atoi(p[1])
			it.r.payload = hx.UnHex(p[2])
			if it.r.lenOv <= len(it.r.payload) {
				panic("stall item announces no more than it delivers: " + f)
			}
			out = append(out, it)
		case 'H':
			p := strings.Split(f[1:], "!")
			it := item{spec: p[0]}
			for _, m := range p[1:] {
				switch {
				case m == "J":
					it.join = true
				case strings.HasPrefix(m, "F"):
					for _, x := range strings.Split(m[1:], ".") {
						n, err := strconv.Atoi(x)
						if err != nil {
							panic("bad fragment list " + f)
						}
						it.frag = append(it.frag, n)
					}
				default:
					it.muts = append(it.muts, m)
				}
			}
			out = append(out, it)
		default:
			panic("bad item " + f)
		}
	}
	for i, it := range out {
		if it.stall && i != len(out)-1 {
			panic("stall item must be the last item: " + s)
		}
	}
	return out
}

// stallItem: header of a record of type typ announcing n body bytes, of which only part arrive; then silence, connection open.
func stallItem(typ, n int, part []byte) item {
	return item{raw: true, stall: true, r: rec{typ: typ, vers: -1, lenOv: n, payload: part}}
}

// ---------------------------------------------------------------------------------------------
// rendering

type rctx struct {
	role     string
	gm       bool // victim has GMSupport (dispatch of CertificateRequest in readHandshake)
	abstract bool // placeholder mode: no victim, run-time parts replaced by fixed bytes
	written  func() []byte
	vcfg     *gmtls.Config // victim configuration (mutualVersion only)
	initVers uint16
	negVers  uint16 // the victim's c.vers (0 = not set yet)
	hello    bool   // the victim has seen a well-formed hello
	shRandom []byte // random of the last ServerHello sent
	dyn      map[string]string
}

func newCtx(role string, c vcfg, items []item, abstract bool) *rctx {
	x := &rctx{role: role, gm: isGMRole(role), abstract: abstract, vcfg: victimConfig(role, c), dyn: map[string]string{}}
	switch role {
	case "cg":
		x.initVers, x.negVers = 0x0101, 0x0101
	case "sg":
		x.initVers = 0x0101
	case "ct", "st":
		x.initVers = 0x0301
	case "sa":
		x.initVers = 0x0301
		for _, it := range items {
			if !it.raw && strings.HasPrefix(it.spec, "x01") {
				m, err := hex.DecodeString(it.spec[1:])
				if err == nil && len(m) >= 6 && m[4] == 0x01 && m[5] == 0x01 {
					x.initVers = 0x0101
				}
				break
			}
		}
	}
	return x
}

func hsMsg(typ byte, body []byte) []byte {
	return append([]byte{typ, byte(len(body) >> 16), byte(len(body) >> 8), byte(len(body))}, body...)
}

func setLen(m []byte) {
	n := len(m) - 4
	m[1], m[2], m[3] = byte(n>>16), byte(n>>8), byte(n)
}

func placeholder(tag string, n int) []byte {
	out := make([]byte, 0, n+32)
	h := sha256.Sum256([]byte(tag))
	for len(out) < n {
		out = append(out, h[:]...)
		h = sha256.Sum256(h[:])
	}
	return out[:n]
}

func prefixed(b []byte) []byte {
	return append([]byte{byte(len(b) >> 8), byte(len(b))}, b...)
}

// scanRecords splits a byte stream written by a victim into records.
func scanRecords(w []byte) (out []rec) {
	for len(w) >= 5 {
		n := int(w[3])<<8 | int(w[4])
		if len(w) < 5+n {
			break
		}
		out = append(out, rec{typ: int(w[0]), vers: int(w[1])<<8 | int(w[2]), payload: w[5 : 5+n]})
		w = w[5+n:]
	}
	return
}

// firstHandshake returns the first complete handshake message a victim wrote.
func firstHandshake(w []byte) []byte {
	var hand []byte
	for _, r := range scanRecords(w) {
		if r.typ != recHS {
			return nil
		}
		hand = append(hand, r.payload...)
		if len(hand) >= 4 {
			n := int(hand[1])<<16 | int(hand[2])<<8 | int(hand[3])
			if len(hand) >= 4+n {
				return hand[:4+n]
			}
		}
	}
	return nil
}

// victimServerHello: what a server victim answered (vers, suite), ok=false if it wrote no ServerHello.
func victimServerHello(w []byte) (vers, suite uint16, ok bool) {
	m := firstHandshake(w)
	if m == nil || m[0] != tSH {
		return 0, 0, false
	}
	sh, good := gmtls.VerifParseServerHello(m)
	if !good {
		return 0, 0, false
	}
	return sh.Vers, sh.CipherSuite, true
}

func (x *rctx) clientRandom() []byte {
	if !x.abstract && isClientRole(x.role) {
		if m := firstHandshake(x.written()); m != nil && m[0] == tCH {
			if ch, ok := gmtls.VerifParseClientHello(m); ok {
				return ch.Random
			}
		}
	}
	return make([]byte, 32)
}

func (x *rctx) serverRandom() []byte {
	if len(x.shRandom) == 32 {
		return x.shRandom
	}
	return make([]byte, 32)
}

func (x *rctx) curVers() uint16 {
	switch x.role {
	case "cg":
		return 0x0101
	case "ct":
		if x.negVers != 0 {
			return x.negVers
		}
		return x.initVers
	}
	if !x.abstract {
		if v, _, ok := victimServerHello(x.written()); ok {
			return v
		}
	}
	return x.initVers
}

var p256G = func() []byte {
	p := elliptic.P256().Params()
	return elliptic.Marshal(elliptic.P256(), p.Gx, p.Gy)
}()

func retryLen(want int, f func() []byte) []byte {
	var b []byte
	for i := 0; i < 400; i++ {
		b = f()
		if len(b) == want {
			return b
		}
	}
	return b
}

func flipped(b []byte) []byte {
	o := make([]byte, len(b))
	for i := range b {
		o[i] = ^b[i]
	}
	return o
}

func sm2EncryptTo(certDER, plain []byte) []byte {
	ct, err := sm2.Encrypt(sm2PubOf(certDER), plain, rand.Reader, sm2.C1C3C2)
	if err != nil {
		panic(err)
	}
	out, err := sm2.CipherMarshal(ct)
	if err != nil {
		panic(err)
	}
	return out
}

// A GM ClientKeyExchange does not depend on anything the victim sent: genuine ciphertexts are
// drawn from a small per-process pool instead of being encrypted anew for every case.
var ckxPool = struct {
	mu   sync.Mutex
	pool map[string][][]byte
	n    map[string]int
}{pool: map[string][][]byte{}, n: map[string]int{}}

func pooled(key string, gen func() []byte) []byte {
	ckxPool.mu.Lock()
	if len(ckxPool.pool[key]) >= 48 {
		ckxPool.n[key]++
		b := ckxPool.pool[key][ckxPool.n[key]%48]
		ckxPool.mu.Unlock()
		return b
	}
	ckxPool.mu.Unlock()
	b := gen()
	ckxPool.mu.Lock()
	ckxPool.pool[key] = append(ckxPool.pool[key], b)
	ckxPool.mu.Unlock()
	return b
}

func randPMS(vers uint16, n int) []byte {
	p := make([]byte, n)
	rand.Read(p)
	p[0], p[1] = byte(vers>>8), byte(vers)
	return p
}

// build returns the message bytes of a spec and, for run-time generated messages, their class.
func (x *rctx) build(spec string) []byte {
	if strings.HasPrefix(spec, "x") {
		m, err := hex.DecodeString(spec[1:])
		if err != nil {
			panic("bad literal message: " + spec)
		}
		return m
	}
	p := strings.Split(spec, ",")
	arg := func(i int) string {
		if i < len(p) {
			return p[i]
		}
		return ""
	}
	switch p[0] {
	case "cert":
		var ders [][]byte
		if arg(1) != "-" && arg(1) != "" {
			for _, n := range strings.Split(arg(1), ".") {
				d, ok := E.der[n]
				if !ok {
					panic("unknown certificate name " + n)
				}
				ders = append(ders, d)
			}
		}
		return gmtls.VerifMarshalCertificate(ders)
	case "crg", "crt":
		cas := [][]byte{E.dnSM2, E.dnRSA, {0x30, 0x0b, 0x31, 0x09, 0x30, 0x07, 0x06, 0x03, 0x55, 0x04, 0x03, 0x0c, 0x00}}
		if p[0] == "crg" {
			n, _ := strconv.Atoi(arg(1))
			return gmtls.VerifMarshalCertificateRequestGM([]byte{1, 64}, cas[:n%4])
		}
		n, _ := strconv.Atoi(arg(2))
		return gmtls.VerifMarshalCertificateRequest(arg(1) == "1", []byte{1, 64}, []uint16{0x0401, 0x0403, 0x0501, 0x0201}, cas[:n%4])
	case "skx":
		cls := arg(1)
		var key []byte
		if x.abstract {
			key = prefixed(placeholder("skx,"+cls, sm2SigLen))
			x.dyn[string(key[2:])] = cls
		} else {
			cr, sr := x.clientRandom(), x.serverRandom()
			sign, enc := &E.sig, &E.enc
			switch cls {
			case "good":
			case "rnd":
				cr, sr = flipped(cr), flipped(sr)
			case "enc2":
				enc = &E.sig
			case "key2":
				sign = &E.auth
			default:
				panic("bad skx class " + cls)
			}
			key = retryLen(2+sm2SigLen, func() []byte {
				k, err := gmtls.VerifECCGenerateServerKeyExchange(sign, enc, cr, sr)
				if err != nil {
					panic(err)
				}
				return k
			})
		}
		return gmtls.VerifMarshalServerKeyExchange(key)
	case "skxe":
		params := append([]byte{3, 0, 23, byte(len(p256G))}, p256G...)
		var alg, sig []byte
		if arg(1) == "p256" {
			alg = []byte{0x04, 0x03}
			if x.abstract {
				sig = placeholder("skxe,p256", ecdsaSigLen)
			} else {
				d := sha256.Sum256(append(append(append([]byte{}, x.clientRandom()...), x.serverRandom()...), params...))
				sig = retryLen(ecdsaSigLen, func() []byte {
					s, err := ecdsa.SignASN1(rand.Reader, E.p256.PrivateKey.(*ecdsa.PrivateKey), d[:])
					if err != nil {
						panic(err)
					}
					return s
				})
			}
		} else {
			alg = []byte{0x04, 0x01}
			k := E.rsa.PrivateKey.(*rsa.PrivateKey)
			if x.abstract {
				sig = placeholder("skxe,rsa", k.Size())
			} else {
				d := sha256.Sum256(append(append(append([]byte{}, x.clientRandom()...), x.serverRandom()...), params...))
				var err error
				sig, err = rsa.SignPKCS1v15(rand.Reader, k, crypto.SHA256, d[:])
				if err != nil {
					panic(err)
				}
			}
		}
		key := append(append(append([]byte{}, params...), alg...), prefixed(sig)...)
		return gmtls.VerifMarshalServerKeyExchange(key)
	case "ckxg":
		cls := arg(1)
		want := sm2CtLen48
		if cls == "short" {
			want--
		}
		var body []byte
		if x.abstract {
			body = prefixed(placeholder("ckxg,"+cls, want))
			x.dyn[string(body[2:])] = cls
		} else {
			switch cls {
			case "good":
				body = pooled("good", func() []byte {
					return retryLen(2+want, func() []byte {
						_, b, err := gmtls.VerifECCGenerateClientKeyExchange(E.enc.Certificate[0], 0x0101)
						if err != nil {
							panic(err)
						}
						return b
					})
				})
			case "key2":
				body = pooled("key2", func() []byte {
					return retryLen(2+want, func() []byte {
						_, b, err := gmtls.VerifECCGenerateClientKeyExchange(E.sig.Certificate[0], 0x0101)
						if err != nil {
							panic(err)
						}
						return b
					})
				})
			case "short":
				body = pooled("short", func() []byte {
					return prefixed(retryLen(want, func() []byte { return sm2EncryptTo(E.enc.Certificate[0], randPMS(0x0101, 47)) }))
				})
			default:
				panic("bad ckxg class " + cls)
			}
		}
		return gmtls.VerifMarshalClientKeyExchange(body)
	case "ckxr":
		cls := arg(1)
		pub := E.rsaPub(&E.rsa)
		if cls == "key2" {
			pub = E.rsaPub(&E.rsaauth)
		}
		var body []byte
		if x.abstract {
			body = prefixed(placeholder("ckxr,"+cls, pub.Size()))
			x.dyn[string(body[2:])] = cls
		} else {
			n := 48
			if cls == "short" {
				n = 47
			}
			vers := x.curVers()
			ct, err := rsa.EncryptPKCS1v15(rand.Reader, pub, randPMS(vers, n))
			if err != nil {
				panic(err)
			}
			body = prefixed(ct)
		}
		return gmtls.VerifMarshalClientKeyExchange(body)
	}
	panic("bad message spec " + spec)
}

func applyMut(m []byte, mut string) []byte {
	if len(m) < 4 || mut == "" {
		return m
	}
	m = append([]byte{}, m...)
	switch mut[0] {
	case 'K':
		n, _ := strconv.Atoi(mut[1:])
		if n < len(m)-4 {
			m = m[:4+n]
		}
		setLen(m)
	case 'D':
		k, _ := strconv.Atoi(mut[1:])
		if k > len(m)-4 {
			k = len(m) - 4
		}
		m = m[:len(m)-k]
		setLen(m)
	case 'A':
		m = append(m, hx.UnHex(mut[1:])...)
		setLen(m)
	case 'L':
		v, err := strconv.ParseUint(mut[1:], 16, 32)
		if err != nil {
			panic("bad mutation " + mut)
		}
		m[1], m[2], m[3] = byte(v>>16), byte(v>>8), byte(v)
	case 'P':
		p := strings.Split(mut[1:], ".")
		if len(p) != 3 {
			panic("bad mutation " + mut)
		}
		off, _ := strconv.Atoi(p[0])
		w, _ := strconv.Atoi(p[1])
		v, err := strconv.ParseUint(p[2], 16, 64)
		if err != nil {
			panic("bad mutation " + mut)
		}
		if off >= 0 && off+w <= len(m) {
			for i := 0; i < w; i++ {
				m[off+i] = byte(v >> (8 * uint(w-1-i)))
			}
		}
	default:
		panic("bad mutation " + mut)
	}
	return m
}

// message: spec built and mutated.
func (x *rctx) message(it item) []byte {
	m := x.build(it.spec)
	for _, mu := range it.muts {
		m = applyMut(m, mu)
	}
	return m
}

// observe tracks what a well-aligned message does to the victim's version (run mode; the
// abstract mode does the same on the re-framed stream, see tokenOf).
func (x *rctx) observe(m []byte) {
	defer func() { recover() }() // a panicking parser is the victim's to show, not the script's
	if x.abstract || len(m) < 4 || int(m[1])<<16|int(m[2])<<8|int(m[3]) != len(m)-4 {
		return
	}
	switch m[0] {
	case tSH:
		if sh, ok := gmtls.VerifParseServerHello(m); ok {
			x.sawServerHello(sh)
		}
	}
}

func (x *rctx) sawServerHello(sh gmtls.VerifServerHello) {
	x.shRandom = sh.Random
	if x.role == "ct" && !x.hello {
		x.hello = true
		if v, ok := gmtls.VerifMutualVersion(x.vcfg, sh.Vers); ok && v >= 0x0301 {
			x.negVers = v
		}
	}
}

func (x *rctx) sawClientHello(ch gmtls.VerifClientHello) {
	if isClientRole(x.role) || x.hello {
		return
	}
	x.hello = true
	if x.role == "sa" {
		switch ch.Vers {
		case 0x0101, 0x0300, 0x0301, 0x0302, 0x0303:
		default:
			return
		}
	}
	if v, ok := gmtls.VerifMutualVersion(x.vcfg, ch.Vers); ok {
		x.negVers = v
	}
}

// renderItems renders items[i] (and the items joined to it); returns the records and the
// number of items consumed.
func (x *rctx) renderItems(items []item, i int) ([]rec, int) {
	it := items[i]
	if it.raw {
		return []rec{it.r}, 1
	}
	var recs []rec
	n := 0
	joinPrev := false
	for {
		it = items[i+n]
		m := x.message(it)
		x.observe(m)
		var pieces [][]byte
		rest := m
		for _, f := range it.frag {
			if f < 0 {
				f = 0
			}
			if f > len(rest) {
				f = len(rest)
			}
			pieces = append(pieces, rest[:f])
			rest = rest[f:]
			if len(rest) == 0 {
				break
			}
		}
		if len(rest) > 0 || len(pieces) == 0 {
			pieces = append(pieces, rest)
		}
		for k, pc := range pieces {
			if k == 0 && joinPrev && len(recs) > 0 && len(recs[len(recs)-1].payload)+len(pc) <= 16384 {
				last := &recs[len(recs)-1]
				last.payload = append(append([]byte{}, last.payload...), pc...)
				continue
			}
			for len(pc) > 16384 {
				recs = append(recs, rec{typ: recHS, vers: -1, lenOv: -1, payload: pc[:16384]})
				pc = pc[16384:]
			}
			recs = append(recs, rec{typ: recHS, vers: -1, lenOv: -1, payload: pc})
		}
		n++
		if it.join && i+n < len(items) && !items[i+n].raw {
			joinPrev = true
			continue
		}
		return recs, n
	}
}

func (x *rctx) wire(recs []rec) []byte {
	var out []byte
	for _, r := range recs {
		v := r.vers
		if v < 0 {
			v = int(x.curVers())
		}
		l := len(r.payload)
		if r.lenOv >= 0 {
			l = r.lenOv
		}
		out = append(out, byte(r.typ), byte(v>>8), byte(v), byte(l>>8), byte(l))
		out = append(out, r.payload...)
	}
	return out
}

// ---------------------------------------------------------------------------------------------
// the scripted connection

type sconn struct {
	x       *rctx
	items   []item
	idx     int
	pending []byte
	written []byte
	sent    []rec // what was served (self check)
	reads   int
	// stall scripts: when the script is used up the peer neither sends nor closes; Read then behaves like a real
	// net.Conn with a read deadline (blocks until it, then a timeout net.Error - at once if the deadline has passed)
	stall    bool
	mu       sync.Mutex
	deadline time.Time
	closed   int32
}

var errStallTimeout error = &net.OpError{Op: "read", Net: "tcp", Addr: dummyAddr, Err: os.ErrDeadlineExceeded}

func (c *sconn) waitStalled() (int, error) {
	for {
		if atomic.LoadInt32(&c.closed) != 0 {
			return 0, io.ErrClosedPipe
		}
		c.mu.Lock()
		d := c.deadline
		c.mu.Unlock()
		if !d.IsZero() && !time.Now().Before(d) {
			return 0, errStallTimeout
		}
		w := 5 * time.Millisecond
		if !d.IsZero() {
			if r := time.Until(d); r < w {
				w = r
			}
		}
		if w > 0 {
			time.Sleep(w)
		}
	}
}

func (c *sconn) setDeadline(t time.Time) error {
	c.mu.Lock()
	c.deadline = t
	c.mu.Unlock()
	return nil
}

var dummyAddr = &net.TCPAddr{IP: net.IPv4(127, 0, 0, 1), Port: 4433}

func (c *sconn) Read(p []byte) (int, error) {
	c.reads++
	for len(c.pending) == 0 {
		if c.idx >= len(c.items) {
			if c.stall {
				return c.waitStalled()
			}
			return 0, io.EOF
		}
		recs, n := c.x.renderItems(c.items, c.idx)
		c.idx += n
		c.sent = append(c.sent, recs...)
		c.pending = c.x.wire(recs)
	}
	n := copy(p, c.pending)
	c.pending = c.pending[n:]
	return n, nil
}

func (c *sconn) Write(p []byte) (int, error) {
	c.written = append(c.written, p...)
	return len(p), nil
}
func (c *sconn) Close() error                       { return nil }
func (c *sconn) LocalAddr() net.Addr                { return dummyAddr }
func (c *sconn) RemoteAddr() net.Addr               { return dummyAddr }
func (c *sconn) SetDeadline(t time.Time) error      { return c.setDeadline(t) }
func (c *sconn) SetReadDeadline(t time.Time) error  { return c.setDeadline(t) }
func (c *sconn) SetWriteDeadline(t time.Time) error { return nil }

func newVictim(role string, c vcfg, conn net.Conn) *gmtls.Conn {
	cfg := victimConfig(role, c)
	if isClientRole(role) {
		return gmtls.Client(conn, cfg)
	}
	return gmtls.Server(conn, cfg)
}

const sDeadline = 3 * time.Second
const stallDeadline = 250 * time.Millisecond

// runScript runs one S case; detail carries the error text (debugging only).
func runScript(role string, c vcfg, items []item) (res, detail string, conn *sconn) {
	x := newCtx(role, c, items, false)
	conn = &sconn{x: x, items: items}
	x.written = func() []byte { return conn.written }
	v := newVictim(role, c, conn)
	errText := ""
	if n := len(items); n > 0 && items[n-1].stall {
		// the peer will go silent in the middle of a record with the connection open: the victim has a short deadline and
		// Handshake() must come back with an error soon after it; a victim that keeps going is reported as HANG by the
		// guard, and the connection is then closed under it so that its goroutine ends
		conn.stall = true
		v.SetDeadline(time.Now().Add(stallDeadline))
		defer atomic.StoreInt32(&conn.closed, 1)
	}
	res, detail = hx.Guard(sDeadline, func() string {
		if err := v.Handshake(); err != nil {
			errText = err.Error()
			return "err"
		}
		if !v.ConnectionState().HandshakeComplete {
			return "err"
		}
		return "ok"
	})
	if res == "err" {
		detail = errText
	}
	return res, detail, conn
}

// ---------------------------------------------------------------------------------------------
// abstract script

func flagStr(order string, set map[byte]bool) string {
	var b []byte
	for i := 0; i < len(order); i++ {
		if set[order[i]] {
			b = append(b, order[i])
		}
	}
	if len(b) == 0 {
		return "-"
	}
	return string(b)
}

func lenClass(body []byte, min int) string {
	if len(body) >= min && int(body[0])<<8|int(body[1]) == len(body)-2 {
		return "ok"
	}
	return "bad"
}

func (x *rctx) dynClass(body []byte) string {
	if len(body) > 2 {
		if c, ok := x.dyn[string(body[2:])]; ok {
			return c
		}
	}
	return "junk"
}

// tokenOf: the abstract token of one complete handshake message as readHandshake frames it.
func (x *rctx) tokenOf(m []byte) (tok string) {
	typ := m[0]
	// a parser that panics on these bytes has not accepted them: the case is kept (the victim
	// will show the panic), the generator goes on
	defer func() {
		if r := recover(); r != nil {
			tok = fmt.Sprintf("MAL,%d", typ)
		}
	}()
	known, ok := gmtls.VerifUnmarshal(typ, x.gm, x.negVers, m)
	if !known {
		return "UNK"
	}
	if !ok {
		return fmt.Sprintf("MAL,%d", typ)
	}
	switch typ {
	case tHRQ:
		return "HRQ"
	case tCH:
		ch, _ := gmtls.VerifParseClientHello(m)
		f := map[byte]bool{}
		f['c'] = bytes.IndexByte(ch.CompressionMethods, 0) >= 0
		f['R'] = len(ch.SecureRenegotiation) != 0
		f['T'] = ch.TicketSupported
		f['N'] = ch.NextProtoNeg
		f['A'] = len(ch.AlpnProtocols) >= 1
		curve := false
		for _, c := range ch.SupportedCurves {
			if c == 29 || c == 23 || c == 24 || c == 25 {
				curve = true
			}
		}
		f['E'] = curve && bytes.IndexByte(ch.SupportedPoints, 0) >= 0
		f['O'] = ch.OcspStapling
		x.sawClientHello(ch)
		return fmt.Sprintf("CH,%04x,%s,%s", ch.Vers, suitesStr(ch.CipherSuites, "-"), flagStr("cRTNAEO", f))
	case tSH:
		sh, _ := gmtls.VerifParseServerHello(m)
		f := map[byte]bool{}
		f['c'] = sh.CompressionMethod == 0
		f['R'] = sh.SecureRenegotiationSupported && len(sh.SecureRenegotiation) != 0
		f['T'] = sh.TicketSupported
		f['N'] = sh.NextProtoNeg
		f['A'] = sh.AlpnProtocol != ""
		f['O'] = sh.OcspStapling
		x.sawServerHello(sh)
		return fmt.Sprintf("SH,%04x,%04x,%s", sh.Vers, sh.CipherSuite, flagStr("cRTNAO", f))
	case tNST:
		return "NST"
	case tCERT:
		certs, _ := gmtls.VerifParseCertificate(m)
		if len(certs) == 0 {
			return "CERT,-"
		}
		names := make([]string, len(certs))
		for i, d := range certs {
			n, ok := E.nameOf[string(d)]
			if !ok {
				n = "bad"
				if certParses(d) {
					die("generator produced a Certificate message with an unnamed parsable certificate (%d bytes, %x...)", len(d), d[:16])
				}
			}
			names[i] = n
		}
		return "CERT," + strings.Join(names, ".")
	case tSKX:
		key := m[4:]
		return fmt.Sprintf("SKX,%s,%s", lenClass(key, 3), x.dynClass(key))
	case tCR:
		return "CR"
	case tSHD:
		return "SHD"
	case tCV:
		return "CV,junk"
	case tCKX:
		body := m[4:]
		return fmt.Sprintf("CKX,%s,%s", lenClass(body, 2), x.dynClass(body))
	case tFIN:
		return "FIN,junk"
	case tCST:
		return "CST"
	case tNPN:
		return "NPN"
	}
	return "UNK"
}

func recToken(r rec) (tok string, handshake bool) {
	if r.vers >= 0 || r.lenOv > 18432 {
		return "REC", false
	}
	switch r.typ {
	case recCCS:
		if len(r.payload) == 1 && r.payload[0] == 1 {
			return "CCS", false
		}
		return "CCSB", false
	case recAlert:
		if len(r.payload) == 2 {
			return fmt.Sprintf("AL,%d,%d", r.payload[0], r.payload[1]), false
		}
		return "ALB", false
	case recApp:
		return "APP", false
	case recHS:
		return "", true
	}
	return "REC", false
}

// tokenizer frames a record stream exactly like Conn.readHandshake and names what it sees.
type tokenizer struct {
	x    *rctx
	hand []byte
	toks []string
}

func (t *tokenizer) feed(recs []rec) {
	for _, r := range recs {
		tok, hs := recToken(r)
		if !hs {
			t.toks = append(t.toks, tok)
			continue
		}
		if r.lenOv >= 0 && r.lenOv != len(r.payload) {
			// a handshake record lying about its length (not generated)
			t.toks = append(t.toks, "REC")
			continue
		}
		t.hand = append(t.hand, r.payload...)
		for len(t.hand) >= 4 {
			n := int(t.hand[1])<<16 | int(t.hand[2])<<8 | int(t.hand[3])
			if n > 65536 {
				t.toks = append(t.toks, "LONG")
				t.hand = nil
				break
			}
			if len(t.hand) < 4+n {
				break
			}
			t.toks = append(t.toks, t.x.tokenOf(t.hand[:4+n]))
			t.hand = t.hand[4+n:]
		}
	}
}

// abstractOf derives the token script from the bytes of the rendered records, framing the
// handshake stream exactly like Conn.readHandshake (run-time generated parts are rendered
// as fixed placeholder bytes of the same length).
func abstractOf(role string, c vcfg, items []item) string {
	t := &tokenizer{x: newCtx(role, c, items, true)}
	for i := 0; i < len(items); {
		if items[i].stall {
			break // the record is never completed: to the state machine the stream ends here
		}
		recs, n := t.x.renderItems(items, i)
		i += n
		t.feed(recs)
	}
	if len(t.toks) == 0 {
		return "-"
	}
	return strings.Join(t.toks, ";")
}

// selfCheck (C15_SELFCHECK=1): the tokens of the bytes really sent must be a prefix of the
// abstract script of the case line (classes of run-time generated parts aside).
func selfCheck(role string, c vcfg, items []item, abstract string, conn *sconn) string {
	t := &tokenizer{x: newCtx(role, c, items, true)}
	t.feed(conn.sent)
	norm := func(s string) string {
		if strings.HasPrefix(s, "SKX,") || strings.HasPrefix(s, "CKX,") {
			return s[:strings.LastIndex(s, ",")]
		}
		return s
	}
	var want []string
	if abstract != "-" {
		want = strings.Split(abstract, ";")
	}
	if len(t.toks) > len(want) {
		return fmt.Sprintf("sent %d tokens, abstract has %d", len(t.toks), len(want))
	}
	for i, tok := range t.toks {
		if norm(tok) != norm(want[i]) {
			return fmt.Sprintf("token %d: sent %s, abstract %s", i, tok, want[i])
		}
	}
	// the version the tokenizer predicts for the victim against what the victim shows on the wire
	if !isClientRole(role) {
		if v, _, ok := victimServerHello(conn.written); ok && v != t.x.negVers {
			return fmt.Sprintf("victim answered version %04x, predicted %04x", v, t.x.negVers)
		}
	} else if rs := scanRecords(conn.written); len(rs) >= 2 && t.x.negVers != 0 {
		if uint16(rs[1].vers) != t.x.negVers {
			return fmt.Sprintf("victim writes records of version %04x, predicted %04x", rs[1].vers, t.x.negVers)
		}
	}
	if conn.idx >= len(items) && len(t.toks) != len(want) {
		return fmt.Sprintf("whole script sent: %d tokens, abstract has %d", len(t.toks), len(want))
	}
	return ""
}
