package main

// Case kinds other than S: H (honest pairs), V (version gate), PK/PS/PR/PH (parsers).

import (
	"fmt"
	"io"
	"net"
	"strconv"
	"strings"
	"sync"
	"time"

	"github.com/tjfoc/gmsm/gmtls"
	"github.com/tjfoc/gmsm/x509"
	"verifharness/internal/hx"
)

func certParses(d []byte) bool {
	_, err := x509.ParseCertificate(d)
	return err == nil
}

// ---------------------------------------------------------------------------------------------
// H: a buffered in-memory duplex pipe with a deadline (not net.Pipe: writes never block)

type pq struct {
	mu      sync.Mutex
	c       *sync.Cond
	buf     []byte
	closed  bool
	expired bool
}

func newPQ() *pq { q := &pq{}; q.c = sync.NewCond(&q.mu); return q }

type timeoutErr struct{}

const pipeTimeoutText = "c15 pipe: i/o timeout"

func (timeoutErr) Error() string   { return pipeTimeoutText }
func (timeoutErr) Timeout() bool   { return true }
func (timeoutErr) Temporary() bool { return false }

type pipeEnd struct{ rd, wr *pq }

func (p *pipeEnd) Read(b []byte) (int, error) {
	q := p.rd
	q.mu.Lock()
	defer q.mu.Unlock()
	for len(q.buf) == 0 && !q.closed && !q.expired {
		q.c.Wait()
	}
	if len(q.buf) > 0 {
		n := copy(b, q.buf)
		q.buf = q.buf[n:]
		return n, nil
	}
	if q.closed {
		return 0, io.EOF
	}
	return 0, timeoutErr{}
}

func (p *pipeEnd) Write(b []byte) (int, error) {
	q := p.wr
	q.mu.Lock()
	defer q.mu.Unlock()
	if q.closed {
		return 0, io.ErrClosedPipe
	}
	q.buf = append(q.buf, b...)
	q.c.Broadcast()
	return len(b), nil
}

func (p *pipeEnd) Close() error {
	for _, q := range []*pq{p.rd, p.wr} {
		q.mu.Lock()
		q.closed = true
		q.c.Broadcast()
		q.mu.Unlock()
	}
	return nil
}
func (p *pipeEnd) LocalAddr() net.Addr                { return dummyAddr }
func (p *pipeEnd) RemoteAddr() net.Addr               { return dummyAddr }
func (p *pipeEnd) SetDeadline(t time.Time) error      { return nil }
func (p *pipeEnd) SetReadDeadline(t time.Time) error  { return nil }
func (p *pipeEnd) SetWriteDeadline(t time.Time) error { return nil }

func newPipe(d time.Duration) (*pipeEnd, *pipeEnd) {
	a, b := newPQ(), newPQ()
	time.AfterFunc(hx.D(d), func() { // 10x when the case is re-run alone
		for _, q := range []*pq{a, b} {
			q.mu.Lock()
			q.expired = true
			q.c.Broadcast()
			q.mu.Unlock()
		}
	})
	return &pipeEnd{rd: a, wr: b}, &pipeEnd{rd: b, wr: a}
}

var pairRoles = map[string][2]string{
	"gg": {"cg", "sg"}, "ga": {"cg", "sa"}, "ta": {"ct", "sa"}, "tt": {"ct", "st"}, "tg": {"ct", "sg"}, "gt": {"cg", "st"},
}

func runH(pair string, c vcfg) string { r, _ := runHd(pair, c); return r }

func runHd(pair string, c vcfg) (string, string) {
	roles, ok := pairRoles[pair]
	if !ok {
		return "BADCASE", ""
	}
	detail := ""
	ccfg := victimConfig(roles[0], c)
	sc := c
	sc.su = nil // su applies to the client
	scfg := victimConfig(roles[1], sc)
	// np applies to the server only: the client model (coq/HS/HSModel.v) has no NextProtos
	// (makeClientHelloGM ignores them anyway), so no NPN/ALPN is negotiated in honest runs.
	one := func() (cres, sres string, resumed bool) {
		a, b := newPipe(4 * time.Second)
		cli, srv := gmtls.Client(a, ccfg), gmtls.Server(b, scfg)
		side := func(conn *gmtls.Conn, end *pipeEnd, out *string, wg *sync.WaitGroup) {
			defer wg.Done()
			defer func() {
				if r := recover(); r != nil {
					*out = "PANIC"
					end.Close()
				}
			}()
			if err := conn.Handshake(); err != nil {
				*out = "err:" + err.Error()
				end.Close()
				return
			}
			*out = "ok "
		}
		var wg sync.WaitGroup
		wg.Add(2)
		cres, sres = "HANG", "HANG"
		var cr, sr string
		go side(cli, a, &cr, &wg)
		go side(srv, b, &sr, &wg)
		done := make(chan struct{})
		go func() { wg.Wait(); close(done) }()
		select {
		case <-done:
			detail = cr + " | " + sr
			cres, sres = strings.TrimSpace(cr[:3]), strings.TrimSpace(sr[:3])
			if strings.Contains(cr, pipeTimeoutText) || strings.Contains(sr, pipeTimeoutText) {
				// the pipe's wall-clock limit cut the handshake short: a deadline verdict (re-examined alone), not an error
				cres, sres = "HANG", "HANG"
				return
			}
			if cres == "PAN" {
				cres = "PANIC"
			}
			if sres == "PAN" {
				sres = "PANIC"
			}
			if cres == "ok" {
				resumed = cli.ConnectionState().DidResume
			}
		case <-time.After(hx.D(8 * time.Second)):
		}
		a.Close()
		return
	}
	cres, sres, resumed := one()
	if c.rs {
		cres, sres, resumed = one()
	}
	return fmt.Sprintf("%s %s %d", strings.TrimSpace(cres), strings.TrimSpace(sres), b2i(resumed)), detail
}

// ---------------------------------------------------------------------------------------------
// V: one ClientHello, then EOF

var suiteSets = map[string][]uint16{
	"gm":  {0xe013, 0xe053},
	"tls": {0x002f, 0xc02f, 0xc013, 0x009c},
	"mix": {0xe013, 0xe053, 0x002f, 0xc02f, 0xc013, 0x009c},
}

var fixedClientRandom = func() []byte {
	b := make([]byte, 32)
	for i := range b {
		b[i] = 0xc1
	}
	return b
}()

var fixedServerRandom = func() []byte {
	b := make([]byte, 32)
	for i := range b {
		b[i] = 0xd2
	}
	return b
}()

func vHello(vers uint16, suites []uint16) []byte {
	return gmtls.VerifMarshalClientHello(gmtls.VerifClientHello{Vers: vers, Random: fixedClientRandom, CipherSuites: suites,
		CompressionMethods: []uint8{0}, SupportedCurves: []uint16{23, 29}, SupportedPoints: []uint8{0}})
}

func runV(role string, vers uint16, set string) string {
	suites, ok := suiteSets[set]
	if !ok || isClientRole(role) {
		return "BADCASE"
	}
	items := []item{litItem(vHello(vers, suites))}
	res, _, conn := runScript(role, vcfg{}, items)
	if res == "PANIC" || res == "HANG" {
		return res
	}
	if v, s, ok := victimServerHello(conn.written); ok {
		return fmt.Sprintf("acc %04x %04x", v, s)
	}
	return "rej"
}

// ---------------------------------------------------------------------------------------------
// parser cases

func h11() []byte { return repeatByte(0x11, 32) }
func h22() []byte { return repeatByte(0x22, 32) }
func repeatByte(b byte, n int) []byte {
	o := make([]byte, n)
	for i := range o {
		o[i] = b
	}
	return o
}

// phConn delivers handshake records.
type phConn struct {
	sconn
	data []byte
}

func (c *phConn) Read(p []byte) (int, error) {
	if len(c.data) == 0 {
		return 0, io.EOF
	}
	n := copy(p, c.data)
	c.data = c.data[n:]
	return n, nil
}

func runP(f []string) string {
	switch f[0] {
	case "PK":
		_, err := gmtls.VerifECCProcessClientKeyExchange(&E.enc, hx.UnHex(f[2]))
		if err != nil {
			return "err"
		}
		return "ok"
	case "PS":
		if err := gmtls.VerifECCProcessServerKeyExchange(E.sig.Certificate[0], E.enc.Certificate[0], h11(), h22(), hx.UnHex(f[2])); err != nil {
			return "err"
		}
		return "ok"
	case "PR":
		ok, types, cas := gmtls.VerifCertReqGMUnmarshal(hx.UnHex(f[2]))
		if !ok {
			return "err"
		}
		return "ok " + hx.Hex(types) + " " + hx.HexList(cas)
	case "PH":
		var stream []byte
		wrap := func(p []byte) {
			stream = append(stream, recHS, 0x03, 0x01, byte(len(p)>>8), byte(len(p)))
			stream = append(stream, p...)
		}
		if h0 := hx.UnHex(f[2]); len(h0) > 0 {
			wrap(h0)
		}
		for _, r := range hx.UnHexList(f[3]) {
			wrap(r)
		}
		conn := &phConn{data: stream}
		types, lens, err := gmtls.VerifReadHandshakes(conn, false)
		var p []string
		for i := range types {
			p = append(p, strconv.Itoa(int(types[i]))+":"+strconv.Itoa(lens[i]))
		}
		msgs := "-"
		if len(p) > 0 {
			msgs = strings.Join(p, ",")
		}
		fin := "err"
		if err == io.EOF || err == io.ErrUnexpectedEOF {
			fin = "eof"
		}
		return msgs + " " + fin
	}
	return "BADCASE"
}
