package main

// Generator item 7: per-extension perturbations of ClientHello / ServerHello.  The hello is built
// by hand (base message without extensions + an extension block assembled byte by byte).

import "encoding/hex"

type extDef struct {
	typ  uint16
	body []byte // well-formed extension_data
}

func hexb(s string) []byte {
	b, err := hex.DecodeString(s)
	if err != nil {
		panic(err)
	}
	return b
}

var chExts = []extDef{
	{0, append(hexb("000c000009"), []byte("localhost")...)}, // server_name
	{5, hexb("0100000000")},                                 // status_request
	{10, hexb("00040017001d")},                              // supported_curves
	{11, hexb("0100")},                                      // ec_point_formats
	{13, hexb("00080401040305010201")},                      // signature_algorithms
	{16, hexb("0003026832")},                                // ALPN h2
	{18, nil},                                               // SCT
	{35, hexb("a0a1a2a3a4a5a6a7a8a9aaabacadaeaf")},          // session_ticket
	{13172, nil},                                            // NPN
	{0xff01, hexb("00")},                                    // renegotiation_info
	{23, nil},                                               // extended_master_secret
	{0xfafa, hexb("deadbeef")},                              // unknown
}

var chOrdinary = []uint16{0, 5, 10, 11, 13, 0xff01}

var shExts = []extDef{
	{5, nil},                     // status_request
	{16, hexb("0003026832")},     // ALPN h2
	{18, hexb("00050003010203")}, // SCT list
	{35, nil},                    // session_ticket
	{13172, hexb("026832")},      // NPN h2
	{0xff01, hexb("00")},         // renegotiation_info
	{0xfafa, hexb("deadbeef")},   // unknown
}

var shOrdinary = []uint16{0xff01, 5}

func extBytes(typ uint16, body []byte, lenDelta int) []byte {
	l := len(body) + lenDelta
	return append([]byte{byte(typ >> 8), byte(typ), byte(l >> 8), byte(l)}, body...)
}

func withExtBlock(base, block []byte, lenDelta int) []byte {
	l := len(block) + lenDelta
	m := append(append([]byte{}, base...), byte(l>>8), byte(l))
	m = append(m, block...)
	setLen(m)
	return m
}

func resized(body []byte, n int) []byte {
	out := make([]byte, n)
	copy(out, body)
	return out
}

// helloVariants: every perturbed hello for the extension table defs with the ordinary block ordinary.
func helloVariants(base []byte, defs []extDef, ordinary []uint16) [][]byte {
	find := func(t uint16) []byte {
		for _, d := range defs {
			if d.typ == t {
				return d.body
			}
		}
		return nil
	}
	var out [][]byte
	for _, d := range defs {
		var others [][]byte
		for _, t := range ordinary {
			if t != d.typ {
				others = append(others, extBytes(t, find(t), 0))
			}
		}
		cat := func(parts ...[]byte) []byte {
			var o []byte
			for _, p := range parts {
				o = append(o, p...)
			}
			return o
		}
		place := func(e []byte, pos int) []byte {
			switch pos {
			case 0: // last
				return cat(cat(others...), e)
			case 1: // first
				return cat(e, cat(others...))
			case 2: // middle
				h := len(others) / 2
				return cat(cat(others[:h]...), e, cat(others[h:]...))
			}
			return e // only
		}
		n := len(d.body)
		seen := map[int]bool{}
		for _, l := range []int{0, 1, 2, 3, n - 1, n, n + 1} {
			if l < 0 || seen[l] {
				continue
			}
			seen[l] = true
			for pos := 0; pos < 4; pos++ {
				out = append(out, withExtBlock(base, place(extBytes(d.typ, resized(d.body, l), 0), pos), 0))
			}
		}
		// the extension's own length says L, only L-1 bytes follow to the end of the message
		seenL := map[int]bool{}
		for _, L := range []int{n, 1, 2} {
			if L < 1 || seenL[L] {
				continue
			}
			seenL[L] = true
			for _, pos := range []int{0, 3} {
				out = append(out, withExtBlock(base, place(extBytes(d.typ, resized(d.body, L-1), 1), pos), 0))
			}
		}
		// extensions length off by one (well-formed extension, last)
		for _, delta := range []int{-1, 1} {
			out = append(out, withExtBlock(base, place(extBytes(d.typ, d.body, 0), 0), delta))
		}
	}
	return out
}

func (g *G) item7() {
	gmBase := chMsg(0x0101, gmSuites, "c")
	tlsBase := chMsg(0x0303, tlsDefault, "c")
	type target struct {
		role string
		base []byte
		ckx  string
	}
	for _, t := range []target{{"sg", gmBase, "ckxg,good"}, {"sa", gmBase, "ckxg,good"}, {"sa", tlsBase, "ckxr,good"}, {"st", tlsBase, "ckxr,good"}} {
		for _, m := range helloVariants(t.base, chExts, chOrdinary) {
			g.S(t.role, vcfg{}, []item{litItem(m), hsItem(t.ckx), ccs(), g.junkFIN()})
		}
	}
	for _, m := range helloVariants(shMsg(0x0101, 0xe013, ""), shExts, shOrdinary) {
		g.S("cg", vcfg{}, []item{litItem(m), hsItem("cert,sig.enc"), hsItem("skx,good"), shd(), ccs(), g.junkFIN()})
	}
	for _, m := range helloVariants(shMsg(0x0303, 0x002f, ""), shExts, shOrdinary) {
		g.S("ct", vcfg{}, []item{litItem(m), hsItem("cert,rsa"), shd(), ccs(), g.junkFIN()})
	}
}
