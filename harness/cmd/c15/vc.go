package main

// Round 11: compression lists in the ClientHello.
//   VC <id> <role> <vers> <suiteset> <comp>     like V (one ClientHello, then EOF; obs acc <vers> <suite> | rej),
//                                               compression_methods = the bytes <comp> ("-" = empty list)
//   R cases with cfg field cm=<comp hex|->      the honest scripted clients with that list (absent: 00)

import (
	"fmt"

	"github.com/tjfoc/gmsm/gmtls"
	"verifharness/internal/hx"
)

// compFor: the compression_methods of a scripted client's ClientHello.
func compFor(kv map[string]string) []byte {
	if c, ok := kv["cm"]; ok {
		return hx.UnHex(c)
	}
	return []byte{0}
}

func runVC(role string, vers uint16, set, comp string) string {
	suites, ok := suiteSets[set]
	if !ok || isClientRole(role) {
		return "BADCASE"
	}
	m := gmtls.VerifMarshalClientHello(gmtls.VerifClientHello{Vers: vers, Random: fixedClientRandom, CipherSuites: suites,
		CompressionMethods: hx.UnHex(comp), SupportedCurves: []uint16{23, 29}, SupportedPoints: []uint8{0}})
	res, _, conn := runScript(role, vcfg{}, []item{litItem(m)})
	if res == "PANIC" || res == "HANG" {
		return res
	}
	if v, s, ok := victimServerHello(conn.written); ok {
		return fmt.Sprintf("acc %04x %04x", v, s)
	}
	return "rej"
}

var compLists = []string{"00", "0001", "0100", "010002", "01", "-", "0102", "0000", "ff00"}

func (g *G) r11Cases() {
	type vs struct {
		role, vers, set string
	}
	for _, c := range []vs{{"sg", "0101", "gm"}, {"sa", "0101", "gm"}, {"st", "0303", "tls"}, {"st", "0301", "tls"}, {"sa", "0303", "tls"},
		{"sa", "0301", "tls"}, {"sg", "0303", "gm"}} {
		for _, comp := range compLists {
			g.emit("VC", fmt.Sprintf("%s %s %s %s", c.role, c.vers, c.set, comp))
		}
	}
	for _, comp := range compLists {
		for _, suite := range []string{"e013", "e053"} {
			g.emit("R", fmt.Sprintf("sg %s auth=0,cc=0,tk=0,cm=%s 0101 CH/CKX|CCS|FIN", suite, comp))
			g.emit("R", fmt.Sprintf("sa %s auth=0,cc=0,tk=0,cm=%s 0101 CH/CKX|CCS|FIN", suite, comp))
		}
		g.emit("R", fmt.Sprintf("st 002f auth=0,cc=0,tk=0,cm=%s 0303 CH/CKX|CCS|FIN", comp))
	}
}
