package main

// Stall scripts (S cases whose last item is a Z item): the scripted peer plays an honest prefix of its flight and then
// sends only the START of the next record - the 5-byte header, or the header and part of the announced body - and stays
// silent with the connection OPEN.  The victim has a read deadline (stallDeadline, set with Conn.SetDeadline before
// Handshake).  To the state machine the stream ends where the last complete record ended, so the abstract script is the
// prefix and the model's outcome is `err`; on /repo Handshake() must return an error within the guard (sDeadline, far
// above the deadline) - a victim that keeps calling Read after the deadline is observed as HANG (runScript then closes the
// connection under it).  Positions: before every message of the honest flight and after its ChangeCipherSpec; stalled
// record types handshake, ChangeCipherSpec, alert, application data.

func stallStarts(k int, thorough bool) []item {
	hdr := []byte{byte(tCERT), 0, 0, 96, 0x01, 0x01, 0}
	all := []item{
		stallItem(recHS, 100, nil),        // header only
		stallItem(recHS, 100, hdr),        // header + the first bytes of a handshake message
		stallItem(recHS, 5, hdr[:4]),      // one byte missing
		stallItem(recCCS, 1, nil),         // ChangeCipherSpec header without its byte
		stallItem(recAlert, 2, []byte{2}), // half an alert
		stallItem(recApp, 32, []byte{1, 2}),
		stallItem(recHS, 16384, hdr), // the largest legal record
	}
	if thorough {
		return all
	}
	// quick: one start per position, rotating through the list (header-only and header+part alternate)
	return []item{all[k%len(all)]}
}

func (g *G) stallCases() {
	type flight struct {
		role string
		c    vcfg
		fl   []item
	}
	var fls []flight
	for _, role := range []string{"sg", "sa", "st"} {
		for _, m := range modesOf(role) {
			cs := []vcfg{{}}
			if g.thorough() {
				cs = append(cs, vcfg{auth: 4, cc: true}, vcfg{auth: 1, tk: true})
			}
			for _, c := range cs {
				fls = append(fls, flight{role, c, g.serverFlight(m, c, 0)})
			}
		}
	}
	for _, role := range []string{"cg", "ct"} {
		cs := []vcfg{{}}
		if g.thorough() {
			cs = append(cs, vcfg{vf: true, cc: true}, vcfg{tk: true})
		}
		for _, c := range cs {
			fls = append(fls, flight{role, c, g.clientFlight(role, c, "", c.cc, "")})
		}
	}
	for i, f := range fls {
		for k := 0; k <= len(f.fl); k++ {
			if !g.thorough() && k > 1 && k < len(f.fl)-1 && k%2 == 1 {
				continue // quick: first two positions, every other one in the middle, the last two
			}
			for _, z := range stallStarts(k+i, g.thorough()) {
				g.S(f.role, f.c, concat(f.fl[:k], []item{z}))
			}
		}
	}
}
