package main

// R cases on the standard-TLS path (round 8): victims st (real TLS-only server, scripted client with RSA
// key exchange) and ct (real TLS client, scripted server), same packing language as r.go.

import (
	"bytes"
	"crypto/rand"
	"crypto/rsa"
	"fmt"
	"net"
	"strings"

	"github.com/tjfoc/gmsm/gmtls"
)

func tlsPMS(vers uint16) []byte {
	p := rnd(48)
	p[0], p[1] = byte(vers>>8), byte(vers)
	return p
}

func tlsSigAlgs(vers uint16) []uint16 {
	if vers >= 0x0303 {
		return []uint16{0x0401, 0x0403, 0x0501, 0x0201}
	}
	return nil
}

// scriptedTLSClient: ClientHello, server flight, then the second flight over CKX CCS FIN (HR / HX).
func scriptedTLSClient(conn net.Conn, suite uint16, tk bool, chv uint16, packing string, comp []byte) (log string) {
	vc := gmtls.VerifNewConn(conn, &gmtls.Config{InsecureSkipVerify: true}, true)
	defer vc.Release()
	defer func() {
		if r := recover(); r != nil {
			if e, ok := r.(stepErr); ok {
				log = "stopped: " + e.s
				return
			}
			panic(r)
		}
	}()
	flights := strings.Split(packing, "/")
	if len(flights) != 2 || flights[0] != "CH" {
		rfail("bad packing")
	}
	vc.SetVersion(chv)
	cr := rnd(32)
	ch := gmtls.VerifMarshalClientHello(gmtls.VerifClientHello{Vers: chv, Random: cr, CipherSuites: []uint16{suite}, CompressionMethods: comp,
		ServerName: "localhost", TicketSupported: tk, SecureRenegotiationSupported: true, SignatureAlgorithms: tlsSigAlgs(chv)})
	rmust(vc.WriteHandshake(ch), "write ClientHello")
	shRaw := rexpect(vc, tSH, "ServerHello")
	sh, ok := gmtls.VerifParseServerHello(shRaw)
	if !ok || sh.CipherSuite != suite || sh.Vers != chv {
		rfail("unexpected ServerHello")
	}
	fh := gmtls.VerifNewFinishedHashTLS(chv, suite)
	fh.Write(ch)
	fh.Write(shRaw)
	fh.Write(rexpect(vc, tCERT, "Certificate"))
	fh.Write(rexpect(vc, tSHD, "ServerHelloDone"))
	pms := tlsPMS(chv)
	ct, err := rsa.EncryptPKCS1v15(rand.Reader, E.rsaPub(&E.rsa), pms)
	rmust(err, "RSA encryption")
	master := gmtls.VerifMasterSecretTLS(chv, suite, pms, cr, sh.Random)
	build := func(name string) []byte {
		var m []byte
		switch name {
		case "CKX":
			m = gmtls.VerifMarshalClientKeyExchange(prefixed(ct))
		case "FIN":
			m = gmtls.VerifMarshalFinished(fh.ClientSum(master))
		default:
			rfail("bad message name %s", name)
		}
		fh.Write(m)
		return m
	}
	sendFlight(vc, parseFlight(flights[1]), build, func() { vc.EstablishKeysTLS(suite, master, cr, sh.Random) })
	if sh.TicketSupported {
		fh.Write(rexpect(vc, tNST, "NewSessionTicket"))
	}
	rmust(vc.ReadCCS(), "server ChangeCipherSpec")
	sfin := rexpect(vc, tFIN, "server Finished")
	if !bytes.Equal(sfin[4:], fh.ServerSum(master)) {
		return "server Finished is wrong"
	}
	return "flow finished"
}

// scriptedTLSServer: reads the ClientHello, first flight over SH CERT SHD, client flight, second flight over CCS FIN (HR / HX).
func scriptedTLSServer(conn net.Conn, suite uint16, chv uint16, packing string) (log string) {
	vc := gmtls.VerifNewConn(conn, &gmtls.Config{}, false)
	defer vc.Release()
	defer func() {
		if r := recover(); r != nil {
			if e, ok := r.(stepErr); ok {
				log = "stopped: " + e.s
				return
			}
			panic(r)
		}
	}()
	flights := strings.Split(packing, "/")
	if len(flights) != 2 {
		rfail("bad packing")
	}
	chRaw := rexpect(vc, tCH, "ClientHello")
	ch, ok := gmtls.VerifParseClientHello(chRaw)
	if !ok {
		rfail("ClientHello does not parse")
	}
	vc.SetVersion(chv)
	sr := rnd(32)
	fh := gmtls.VerifNewFinishedHashTLS(chv, suite)
	fh.Write(chRaw)
	var master []byte
	build := func(name string) []byte {
		var m []byte
		switch name {
		case "SH":
			m = gmtls.VerifMarshalServerHello(gmtls.VerifServerHello{Vers: chv, Random: sr, CipherSuite: suite,
				SecureRenegotiationSupported: ch.SecureRenegotiationSupported})
		case "CERT":
			m = gmtls.VerifMarshalCertificate(E.rsa.Certificate)
		case "SHD":
			m = gmtls.VerifMarshalServerHelloDone()
		case "FIN":
			m = gmtls.VerifMarshalFinished(fh.ServerSum(master))
		default:
			rfail("bad message name %s", name)
		}
		fh.Write(m)
		return m
	}
	sendFlight(vc, parseFlight(flights[0]), build, func() { rfail("CCS in the first flight") })
	ckx := rexpect(vc, tCKX, "ClientKeyExchange")
	fh.Write(ckx)
	body := ckx[4:]
	if len(body) < 2 {
		rfail("short ClientKeyExchange")
	}
	pms, err := rsa.DecryptPKCS1v15(rand.Reader, E.rsa.PrivateKey.(*rsa.PrivateKey), body[2:])
	rmust(err, "RSA decryption")
	master = gmtls.VerifMasterSecretTLS(chv, suite, pms, ch.Random, sr)
	vc.EstablishKeysTLS(suite, master, ch.Random, sr)
	rmust(vc.ReadCCS(), "client ChangeCipherSpec")
	cfin := rexpect(vc, tFIN, "client Finished")
	if !bytes.Equal(cfin[4:], fh.ClientSum(master)) {
		log += "client Finished is wrong; "
	}
	fh.Write(cfin)
	first := true
	sendFlight(vc, parseFlight(flights[1]), build, func() {
		if !first {
			vc.EstablishKeysTLS(suite, master, ch.Random, sr)
		}
		first = false
	})
	return log + "flow finished"
}

func (g *G) r8Cases() {
	type sv struct {
		suite, chv uint16
	}
	combos := []sv{{0x002f, 0x0301}, {0x002f, 0x0303}, {0x009c, 0x0303}}
	tails := []string{"CCS|FIN", "HR|FIN", "HX|FIN", "HR|CCS|FIN", "HR|HR|FIN", "FIN"}
	for _, c := range combos {
		for tk := 0; tk <= 1; tk++ {
			for _, t := range tails {
				g.emit("R", fmt.Sprintf("st %04x auth=0,cc=0,tk=%d %04x CH/CKX|%s", c.suite, tk, c.chv, t))
			}
		}
	}
	for _, c := range combos {
		for _, t := range tails {
			g.emit("R", fmt.Sprintf("ct %04x cc=0,cr=0,tk=0 %04x SH|CERT|SHD/%s", c.suite, c.chv, t))
		}
	}
}

// r9Cases: the honest flights (and two legal coalescings) against the auto-switch server with a GMSSL ClientHello.
func (g *G) r9Cases() {
	for _, suite := range []uint16{0xe013, 0xe053} {
		for _, auth := range []int{0, 1, 4} {
			for cc := 0; cc <= 1; cc++ {
				for tk := 0; tk <= 1; tk++ {
					var pre []string
					if auth >= 1 {
						pre = append(pre, "CCERT")
					}
					pre = append(pre, "CKX")
					if auth >= 1 && cc == 1 {
						pre = append(pre, "CV")
					}
					gs := groupings(pre)
					if len(gs) > 3 {
						gs = gs[:3]
					}
					for _, grp := range gs {
						g.emit("R", fmt.Sprintf("sa %04x auth=%d,cc=%d,tk=%d 0101 CH/%s|CCS|FIN", suite, auth, cc, tk, joinRecords(grp)))
					}
				}
			}
		}
	}
}

// ---------------------------------------------------------------------------------------------
// round 10: clients with Config.Renegotiation enabled

var plainMarker = []byte("c15 plaintext application data")

// thenPlainApp: after its flow the scripted server writes ONE application-data record IN THE CLEAR, bypassing its record layer.
func thenPlainApp(conn net.Conn, vers uint16, log string) string {
	if strings.HasSuffix(log, "flow finished") {
		rec := append([]byte{23, byte(vers >> 8), byte(vers), 0, byte(len(plainMarker))}, plainMarker...)
		conn.Write(rec)
	}
	return log
}

// readPlainApp: pt=1 iff the victim's Read returns that record, i.e. its inbound cipher was never switched on.
func readPlainApp(c *gmtls.Conn) string {
	buf := make([]byte, 128)
	n, _ := c.Read(buf)
	if n > 0 && bytes.Equal(buf[:n], plainMarker) {
		return "pt=1"
	}
	return "pt=0"
}

func (g *G) r10Cases() {
	tails := []string{"CCS|FIN", "FIN", "HR|FIN", "HX|FIN", "FIN|CCS"}
	type sv struct {
		suite, chv uint16
	}
	for _, c := range []sv{{0x002f, 0x0301}, {0x002f, 0x0303}, {0x009c, 0x0303}} {
		for rn := 1; rn <= 2; rn++ {
			for _, t := range tails {
				g.emit("R", fmt.Sprintf("ct %04x cc=0,cr=0,tk=0,rn=%d %04x SH|CERT|SHD/%s", c.suite, rn, c.chv, t))
			}
		}
	}
	for _, suite := range []uint16{0xe013, 0xe053} {
		for rn := 1; rn <= 2; rn++ {
			for _, t := range tails {
				g.emit("R", fmt.Sprintf("cg %04x cc=0,cr=0,tk=0,rn=%d - SH|CERT|SKX|SHD/%s", suite, rn, t))
			}
		}
	}
}
