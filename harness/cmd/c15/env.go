package main

// Certificates, keys and victim configurations shared by every case kind.

import (
	"crypto/ecdsa"
	"crypto/elliptic"
	"crypto/rand"
	"crypto/rsa"
	stdx509 "crypto/x509"
	"crypto/x509/pkix"
	"encoding/pem"
	"fmt"
	"math/big"
	"os"
	"strconv"
	"strings"
	"time"

	"github.com/tjfoc/gmsm/gmtls"
	"github.com/tjfoc/gmsm/sm2"
	"github.com/tjfoc/gmsm/x509"
)

const certDir = "/repo/gmtls/websvr/certs"

type environ struct {
	sig, enc, auth, rsa, rsaauth, p256 gmtls.Certificate
	caSM2, caRSA                       []byte // DER
	pool                               *x509.CertPool
	der                                map[string][]byte // certificate name -> DER
	nameOf                             map[string]string // string(DER) -> name
	dnSM2, dnRSA                       []byte            // CA subjects (raw DN)
}

var E *environ

var fixedNow = time.Date(2025, 1, 1, 0, 0, 0, 0, time.UTC)

func die(format string, a ...interface{}) {
	fmt.Fprintf(os.Stderr, "c15: "+format+"\n", a...)
	os.Exit(3)
}

func loadPair(cert, key string) gmtls.Certificate {
	c, err := gmtls.LoadX509KeyPair(certDir+"/"+cert, certDir+"/"+key)
	if err != nil {
		die("cannot load %s/%s: %v", cert, key, err)
	}
	return c
}

func loadDER(name string) []byte {
	b, err := os.ReadFile(certDir + "/" + name)
	if err != nil {
		die("%v", err)
	}
	blk, _ := pem.Decode(b)
	if blk == nil {
		die("no PEM in %s", name)
	}
	return blk.Bytes
}

var badCert = []byte{0x30, 0x03, 0x02, 0x01, 0x01}

func loadEnv() {
	e := &environ{}
	e.sig = loadPair("sm2_sign_cert.cer", "sm2_sign_key.pem")
	e.enc = loadPair("sm2_enc_cert.cer", "sm2_enc_key.pem")
	e.auth = loadPair("sm2_auth_cert.cer", "sm2_auth_key.pem")
	e.rsa = loadPair("rsa_sign.cer", "rsa_sign_key.pem")
	e.rsaauth = loadPair("rsa_auth_cert.cer", "rsa_auth_key.pem")
	e.caSM2 = loadDER("SM2_CA.cer")
	e.caRSA = loadDER("RSA_CA.cer")
	e.pool = x509.NewCertPool()
	for _, d := range [][]byte{e.caSM2, e.caRSA} {
		c, err := x509.ParseCertificate(d)
		if err != nil {
			die("CA: %v", err)
		}
		e.pool.AddCert(c)
	}
	ca1, _ := x509.ParseCertificate(e.caSM2)
	ca2, _ := x509.ParseCertificate(e.caRSA)
	e.dnSM2, e.dnRSA = ca1.RawSubject, ca2.RawSubject

	// "EC, not SM2": a self-signed ECDSA P-256 certificate, made once per process.
	// Its bytes never appear in a case line (only the name p256 does).
	k, err := ecdsa.GenerateKey(elliptic.P256(), rand.Reader)
	if err != nil {
		die("%v", err)
	}
	tmpl := &stdx509.Certificate{
		SerialNumber:          big.NewInt(15),
		Subject:               pkix.Name{CommonName: "localhost"},
		NotBefore:             time.Date(2020, 1, 1, 0, 0, 0, 0, time.UTC),
		NotAfter:              time.Date(2035, 1, 1, 0, 0, 0, 0, time.UTC),
		KeyUsage:              stdx509.KeyUsageDigitalSignature | stdx509.KeyUsageKeyEncipherment,
		ExtKeyUsage:           []stdx509.ExtKeyUsage{stdx509.ExtKeyUsageServerAuth, stdx509.ExtKeyUsageClientAuth},
		DNSNames:              []string{"localhost"},
		BasicConstraintsValid: true,
	}
	der, err := stdx509.CreateCertificate(rand.Reader, tmpl, tmpl, &k.PublicKey, k)
	if err != nil {
		die("p256 certificate: %v", err)
	}
	if _, err := x509.ParseCertificate(der); err != nil {
		die("p256 certificate does not parse with gmsm/x509: %v", err)
	}
	e.p256 = gmtls.Certificate{Certificate: [][]byte{der}, PrivateKey: k}

	e.der = map[string][]byte{
		"sig": e.sig.Certificate[0], "enc": e.enc.Certificate[0], "auth": e.auth.Certificate[0],
		"rsa": e.rsa.Certificate[0], "rsaauth": e.rsaauth.Certificate[0], "ca": e.caSM2,
		"bad": badCert, "p256": der,
	}
	e.nameOf = map[string]string{}
	for n, d := range e.der {
		e.nameOf[string(d)] = n
	}
	E = e
}

func (e *environ) rsaPub(c *gmtls.Certificate) *rsa.PublicKey {
	return &c.PrivateKey.(*rsa.PrivateKey).PublicKey
}

func sm2PubOf(der []byte) *sm2.PublicKey {
	c, err := x509.ParseCertificate(der)
	if err != nil {
		die("sm2PubOf: %v", err)
	}
	p, ok := c.PublicKey.(*ecdsa.PublicKey)
	if !ok {
		die("sm2PubOf: not an EC key")
	}
	return &sm2.PublicKey{Curve: p.Curve, X: p.X, Y: p.Y}
}

// ---------------------------------------------------------------------------------------------
// cfg field

type vcfg struct {
	auth           int
	su             []uint16 // nil = "d"
	cc, vf, tk, np bool
	// H cases only
	rs bool
	mv uint16
}

func b2i(b bool) int {
	if b {
		return 1
	}
	return 0
}

func suitesStr(s []uint16, empty string) string {
	if len(s) == 0 {
		return empty
	}
	p := make([]string, len(s))
	for i, x := range s {
		p[i] = fmt.Sprintf("%04x", x)
	}
	return strings.Join(p, ".")
}

func parseSuites(s string) []uint16 {
	if s == "d" || s == "-" || s == "" {
		return nil
	}
	var out []uint16
	for _, f := range strings.Split(s, ".") {
		v, err := strconv.ParseUint(f, 16, 16)
		if err != nil {
			panic("bad suite list: " + s)
		}
		out = append(out, uint16(v))
	}
	return out
}

func (c vcfg) String() string {
	return fmt.Sprintf("auth=%d,su=%s,cc=%d,vf=%d,tk=%d,np=%d", c.auth, suitesStr(c.su, "d"), b2i(c.cc), b2i(c.vf), b2i(c.tk), b2i(c.np))
}

func (c vcfg) hString() string {
	mv := "0"
	if c.mv != 0 {
		mv = fmt.Sprintf("%04x", c.mv)
	}
	return fmt.Sprintf("%s,rs=%d,mv=%s", c.String(), b2i(c.rs), mv)
}

func parseCfg(s string) vcfg {
	var c vcfg
	for _, kv := range strings.Split(s, ",") {
		p := strings.SplitN(kv, "=", 2)
		if len(p) != 2 {
			panic("bad cfg: " + s)
		}
		switch p[0] {
		case "auth":
			c.auth, _ = strconv.Atoi(p[1])
		case "su":
			c.su = parseSuites(p[1])
		case "cc":
			c.cc = p[1] == "1"
		case "vf":
			c.vf = p[1] == "1"
		case "tk":
			c.tk = p[1] == "1"
		case "np":
			c.np = p[1] == "1"
		case "rs":
			c.rs = p[1] == "1"
		case "mv":
			v, _ := strconv.ParseUint(p[1], 16, 16)
			c.mv = uint16(v)
		default:
			panic("bad cfg key: " + s)
		}
	}
	return c
}

func isClientRole(role string) bool { return role == "cg" || role == "ct" }
func isGMRole(role string) bool     { return role == "cg" || role == "sg" || role == "sa" }

// victimConfig builds a fresh Config for one connection (or one H pair side).
func victimConfig(role string, c vcfg) *gmtls.Config {
	var cfg *gmtls.Config
	switch role {
	case "cg":
		cfg = &gmtls.Config{GMSupport: &gmtls.GMSupport{}}
		if c.cc {
			cfg.Certificates = []gmtls.Certificate{E.auth}
		}
	case "ct":
		cfg = &gmtls.Config{}
		if c.cc {
			cfg.Certificates = []gmtls.Certificate{E.rsaauth}
		}
	case "sg":
		cfg = &gmtls.Config{GMSupport: &gmtls.GMSupport{}, Certificates: []gmtls.Certificate{E.sig, E.enc}}
	case "sa":
		sig, enc, rsaC := E.sig, E.enc, E.rsa
		var err error
		cfg, err = gmtls.NewBasicAutoSwitchConfig(&sig, &enc, &rsaC)
		if err != nil {
			panic(err)
		}
	case "st":
		cfg = &gmtls.Config{Certificates: []gmtls.Certificate{E.rsa}}
	default:
		panic("bad role " + role)
	}
	cfg.Time = func() time.Time { return fixedNow }
	if c.su != nil {
		cfg.CipherSuites = c.su
	}
	cfg.SessionTicketsDisabled = !c.tk
	if isClientRole(role) {
		if c.vf {
			cfg.RootCAs = E.pool
			cfg.ServerName = "localhost"
		} else {
			cfg.InsecureSkipVerify = true
		}
		if c.tk {
			cfg.ClientSessionCache = gmtls.NewLRUClientSessionCache(4)
		}
		if c.mv != 0 {
			cfg.MaxVersion = c.mv
		}
	} else {
		cfg.ClientAuth = gmtls.ClientAuthType(c.auth)
		cfg.ClientCAs = E.pool
		if c.np {
			cfg.NextProtos = []string{"h2"}
		}
	}
	return cfg
}
