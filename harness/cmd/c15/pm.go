package main

// PM cases: byte strings fed to the real handshake_messages.go unmarshal functions (hook
// VerifParseMessage), parsed fields printed canonically for a field-by-field comparison with the
// byte-level Coq models.
//
//   PM <id> <type> <flag> <hex>       type: handshake type (decimal); flag: hasSignatureAndHash (13, 15);
//                                     hex: the whole message including its 4-byte header ("-" = empty)
//   observation: PANIC | err | ok <fields>   (field order: see VerifParseMessage in the hook file)

import (
	"fmt"
	"os"
	"strconv"
	"strings"

	"github.com/tjfoc/gmsm/gmtls"
	"verifharness/internal/hx"
)

var pmTypes = []int{1, 2, 4, 11, 12, 13, 14, 15, 16, 20, 22, 67}

func isPMType(t int) bool {
	for _, x := range pmTypes {
		if x == t {
			return true
		}
	}
	return false
}

func pmObs(typ int, flag bool, data []byte) string {
	known, ok, fields := gmtls.VerifParseMessage(uint8(typ), flag, data)
	if !known {
		return "BADCASE"
	}
	if !ok {
		return "err"
	}
	if len(fields) == 0 {
		return "ok"
	}
	return "ok " + strings.Join(fields, " ")
}

func runPM(f []string) string {
	if len(f) != 5 {
		return "BADCASE"
	}
	typ, err := strconv.Atoi(f[2])
	if err != nil || typ < 0 || typ > 255 {
		return "BADCASE"
	}
	return pmObs(typ, f[3] == "1", hx.UnHex(f[4]))
}

// ---------------------------------------------------------------------------------------------
// generator

type pmCase struct {
	typ  int
	flag bool
	data []byte
}

func (g *G) pmAdd(typ int, flag bool, data []byte) {
	if !isPMType(typ) {
		return
	}
	key := fmt.Sprintf("%d %v %x", typ, flag, data)
	if g.pmSeen[key] {
		return
	}
	g.pmSeen[key] = true
	g.pmList = append(g.pmList, pmCase{typ, flag, append([]byte{}, data...)})
}

// pmAddMsg: a message under its own type; CertificateRequest / CertificateVerify under both flags.
func (g *G) pmAddMsg(m []byte) {
	if len(m) == 0 {
		return
	}
	t := int(m[0])
	g.pmAdd(t, false, m)
	if t == tCR || t == tCV {
		g.pmAdd(t, true, m)
	}
}

// pmCollect: every handshake message of an S case (items 3 and 7) becomes a PM case.
func (g *G) pmCollect(role string, c vcfg, items []item) {
	x := newCtx(role, c, items, true)
	for _, it := range items {
		if !it.raw {
			g.pmAddMsg(x.message(it))
		}
	}
}

func (g *G) pmRandomExtBlock(defs []extDef) []byte {
	var block []byte
	for n := g.r.Intn(6); n > 0; n-- {
		var typ uint16
		var body []byte
		if g.r.Intn(5) == 0 {
			typ = uint16(g.r.Pick([]int{1, 2, 15, 21, 23, 0x3374, 0xfafa, 0xffff, g.r.Intn(65536)}))
		} else {
			d := defs[g.r.Intn(len(defs))]
			typ, body = d.typ, append([]byte{}, d.body...)
		}
		switch g.r.Intn(4) {
		case 0: // random body
			body = g.r.Bytes(g.r.Intn(13))
		case 1: // well-formed body with one byte changed
			if len(body) > 0 {
				body[g.r.Intn(len(body))] = byte(g.r.Pick([]int{0, 1, 2, 0xff, g.r.Intn(256)}))
			}
		}
		delta := 0
		if g.r.Bool() {
			delta = g.r.Pick([]int{-1, 1, 1, 2, 255, -2})
			if len(body)+delta < 0 {
				delta = 1
			}
		}
		block = append(block, extBytes(typ, body, delta)...)
	}
	return block
}

func (g *G) pmRandomHello(client bool) []byte {
	vers := uint16(g.r.Pick([]int{0x0101, 0x0303, 0x0301, 0x0000, 0xffff}))
	var m []byte
	if client {
		m = chMsg(vers, g.randSuites(), "c")
	} else {
		m = shMsg(vers, suitePool[g.r.Intn(len(suitePool))], "")
	}
	// session id
	switch g.r.Intn(6) {
	case 0:
		sid := g.r.Bytes(g.r.Pick([]int{1, 16, 32, 33}))
		m = append(append(append([]byte{}, m[:38]...), byte(len(sid))), append(sid, m[39:]...)...)
	case 1:
		m[38] = byte(g.r.Pick([]int{1, 32, 33, 255}))
	}
	if client && g.r.Intn(8) == 0 && len(m) > 41 { // odd / wrong suites length
		m[40] ^= byte(g.r.Pick([]int{1, 2, 0x80}))
	}
	defs := shExts
	if client {
		defs = chExts
	}
	if g.r.Intn(10) != 0 {
		delta := 0
		if g.r.Intn(4) == 0 {
			delta = g.r.Pick([]int{-1, 1, 2, -2})
		}
		block := g.pmRandomExtBlock(defs)
		if len(block)+delta < 0 {
			delta = 0
		}
		m = withExtBlock(m, block, delta)
	}
	setLen(m)
	if g.r.Intn(12) == 0 {
		m = append(m, g.r.Bytes(1+g.r.Intn(3))...) // trailing bytes, header left alone
	}
	return m
}

func (g *G) pmCases() {
	scale := 1
	if g.thorough() {
		scale = 5
	}
	// (d) exhaustive short inputs
	alpha := []byte{0, 1, 2, 0xff}
	var short [][]byte
	var rec func(p []byte, n int)
	rec = func(p []byte, n int) {
		short = append(short, p)
		if n == 0 {
			return
		}
		for _, a := range alpha {
			rec(append(append([]byte{}, p...), a), n-1)
		}
	}
	maxBody := 4
	if g.thorough() {
		maxBody = 5
	}
	rec(nil, maxBody)
	both := func(t int, m []byte) {
		g.pmAdd(t, false, m)
		if t == tCR || t == tCV {
			g.pmAdd(t, true, m)
		}
	}
	for _, t := range pmTypes {
		for _, b := range short {
			if len(b) <= 3 {
				both(t, b) // raw bytes, no header
			}
			m := hsMsg(byte(t), b)
			both(t, m)
			bad := append([]byte{}, m...)
			bad[3]++
			both(t, bad)
		}
	}
	// (e) structured random hellos, plain random bytes
	for i := 0; i < 2500*scale; i++ {
		g.pmAdd(tCH, false, g.pmRandomHello(true))
		g.pmAdd(tSH, false, g.pmRandomHello(false))
	}
	for _, t := range pmTypes {
		for i := 0; i < 100*scale; i++ {
			b := g.r.Bytes(g.r.Intn(121))
			if len(b) >= 4 && g.r.Bool() {
				b[0] = byte(t)
				setLen(b)
			}
			both(t, b)
		}
	}
	// (f) certificate lists
	entries := [][]byte{{}, {0x30}, badCert, make([]byte, 300), {0xff, 0xff}}
	for i := 0; i < 300*scale; i++ {
		n := g.r.Intn(5)
		var list []byte
		for k := 0; k < n; k++ {
			e := entries[g.r.Intn(len(entries))]
			l := len(e)
			switch g.r.Intn(8) {
			case 0:
				l++ // overruns (or eats the next entry's header)
			case 1:
				l += 1000
			case 2:
				l = 0xffffff
			case 3:
				if l > 0 {
					l--
				}
			}
			list = append(list, byte(l>>16), byte(l>>8), byte(l))
			list = append(list, e...)
		}
		total := len(list)
		switch g.r.Intn(6) {
		case 0:
			total++
		case 1:
			if total > 0 {
				total--
			}
		case 2:
			total = 0
		case 3:
			total += 3
		}
		m := hsMsg(tCERT, append([]byte{byte(total >> 16), byte(total >> 8), byte(total)}, list...))
		if g.r.Intn(10) == 0 {
			m[3] ^= 1
		}
		g.pmAdd(tCERT, false, m)
	}
	for _, c := range g.pmList {
		g.emit("PM", fmt.Sprintf("%d %d %s", c.typ, b2i(c.flag), hx.Hex(c.data)))
		// every accepted parse also feeds the marshal direction (PW)
		c := c
		if obs, _ := hx.Guard(pDeadline, func() string { return pmObs(c.typ, c.flag, c.data) }); strings.HasPrefix(obs, "ok") {
			var fields []string
			if len(obs) > 3 {
				fields = strings.Split(obs[3:], " ")
			}
			g.pwFromParsed(c.typ, c.flag, fields)
		}
	}
	g.pmList = nil
}

// ---------------------------------------------------------------------------------------------
// sanity of the printer (c15 pmcheck <cases>): for 200 accepted ClientHello PM cases compare
//   (1) the hook's printing, (2) printing from the VerifParseClientHello struct here, (3) the hook's
//   printing of the re-marshalled struct.

func u16s(l []uint16) string { return suitesStr(l, "-") }

func printCH(h gmtls.VerifClientHello) string {
	strs := make([][]byte, len(h.AlpnProtocols))
	for i, s := range h.AlpnProtocols {
		strs[i] = []byte(s)
	}
	f := []string{fmt.Sprintf("%04x", h.Vers), hx.Hex(h.Random), hx.Hex(h.SessionId), u16s(h.CipherSuites), hx.Hex(h.CompressionMethods),
		strconv.Itoa(b2i(h.NextProtoNeg)), hx.Hex([]byte(h.ServerName)), strconv.Itoa(b2i(h.OcspStapling)), u16s(h.SupportedCurves),
		hx.Hex(h.SupportedPoints), strconv.Itoa(b2i(h.TicketSupported)), hx.Hex(h.SessionTicket), u16s(h.SignatureAlgorithms),
		strconv.Itoa(b2i(h.SecureRenegotiationSupported)), hx.Hex(h.SecureRenegotiation), hx.HexList(strs), strconv.Itoa(b2i(h.Scts))}
	return "ok " + strings.Join(f, " ")
}

func pmCheck(path string) {
	r := hx.NewRng(15)
	var cand []string
	for _, l := range hx.ReadLines(path) {
		if strings.HasPrefix(l, "PM ") {
			f := strings.Split(l, " ")
			if len(f) == 5 && f[2] == "1" && strings.HasPrefix(pmObs(1, false, hx.UnHex(f[4])), "ok") {
				cand = append(cand, l)
			}
		}
	}
	n, diffs := 0, 0
	for n < 200 && len(cand) > 0 {
		i := r.Intn(len(cand))
		l := cand[i]
		cand = append(cand[:i], cand[i+1:]...)
		n++
		data := hx.UnHex(strings.Split(l, " ")[4])
		a := pmObs(1, false, data)
		h, ok := gmtls.VerifParseClientHello(data)
		b := "err"
		if ok {
			b = printCH(h)
		}
		c := pmObs(1, false, gmtls.VerifMarshalClientHello(h))
		if a != b || a != c {
			diffs++
			fmt.Fprintf(os.Stderr, "DIFF %s\n  hook     %s\n  struct   %s\n  remarshal %s\n", l, a, b, c)
		}
	}
	fmt.Fprintf(os.Stderr, "pmcheck: %d accepted ClientHello cases compared (hook printing / struct printing / re-marshal + re-parse), %d differences\n", n, diffs)
}
