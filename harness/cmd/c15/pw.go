package main

// PW cases: the MARSHAL direction.  A message struct is built from canonical field strings (the
// PM observation format), the real marshal() is called on it, and the real unmarshal on the result
// (hook VerifMarshalMessage).
//
//   PW <id> <typ> <flag> <wf> <field1> <field2> ...     typ: 1 2 4 11 12 13 13g 14 15 16 20 22 67
//   observation: <hex of marshal output> <rt> | PANIC    rt=1: unmarshal(marshal m) succeeds and prints the same fields

import (
	"fmt"
	"strings"

	"github.com/tjfoc/gmsm/gmtls"
	"verifharness/internal/hx"
)

func runPW(f []string) string {
	if len(f) < 5 {
		return "BADCASE"
	}
	known, out, rt := gmtls.VerifMarshalMessage(f[2], f[3] == "1", f[5:])
	if !known {
		return "BADCASE"
	}
	return fmt.Sprintf("%s %d", hx.Hex(out), b2i(rt))
}

// ---------------------------------------------------------------------------------------------
// the canonical domain

func unList(s string) [][]byte { return hx.UnHexList(s) }

func has00ff(s string) bool {
	for _, x := range parseSuites(s) {
		if x == 0x00ff {
			return true
		}
	}
	return false
}

func lenOK(s string, min, max int) bool {
	n := len(hx.UnHex(s))
	return n >= min && n <= max
}

func pwWF(typ string, flag bool, f []string) bool {
	switch typ {
	case "1":
		if !lenOK(f[1], 32, 32) || !lenOK(f[2], 0, 32) || !lenOK(f[4], 0, 255) || !lenOK(f[14], 0, 254) {
			return false
		}
		if f[11] != "-" && f[10] != "1" { // ticket without ticketSupported
			return false
		}
		if f[14] != "-" && f[13] != "1" { // renegotiation data without the flag
			return false
		}
		if has00ff(f[3]) && f[13] != "1" {
			return false
		}
		for _, p := range unList(f[15]) {
			if len(p) < 1 || len(p) > 255 {
				return false
			}
		}
		return true
	case "2":
		if !lenOK(f[1], 32, 32) || !lenOK(f[2], 0, 32) || !lenOK(f[10], 0, 254) || !lenOK(f[11], 0, 255) {
			return false
		}
		if f[6] != "-" && f[5] != "1" {
			return false
		}
		if f[10] != "-" && f[9] != "1" {
			return false
		}
		for _, p := range unList(f[6]) {
			if len(p) < 1 || len(p) > 255 {
				return false
			}
		}
		for _, p := range unList(f[12]) {
			if len(p) < 1 {
				return false
			}
		}
		return true
	case "11":
		// round-trip domain: the last certificate of a non-empty list is not empty
		// (certificateMsg.unmarshal wants 4 bytes for every entry, marshal writes 3 for an empty one)
		l := unList(f[0])
		return len(l) == 0 || len(l[len(l)-1]) > 0
	case "13":
		return lenOK(f[0], 1, 255) && (flag || f[1] == "-")
	case "13g":
		return lenOK(f[0], 1, 255)
	case "15":
		return flag || f[0] == "0000"
	case "20":
		return lenOK(f[0], 0, 255)
	case "22":
		return f[0] == "01" || f[1] == "-"
	case "67":
		return lenOK(f[0], 0, 255)
	}
	return true
}

// ---------------------------------------------------------------------------------------------
// generator

type pwCase struct {
	typ    string
	flag   bool
	wf     bool
	fields []string
}

func (g *G) pwAdd(typ string, flag bool, wf bool, fields []string) {
	key := typ + " " + fmt.Sprint(flag) + " " + strings.Join(fields, " ")
	if g.pwSeen[key] {
		return
	}
	g.pwSeen[key] = true
	g.pwList = append(g.pwList, pwCase{typ, flag, wf, fields})
}

// pwFromParsed: (a) an accepted PM case becomes a PW case with the parsed fields.
func (g *G) pwFromParsed(typ int, flag bool, fields []string) {
	t := fmt.Sprint(typ)
	g.pwAdd(t, flag, pwWF(t, flag, fields), fields)
	if typ == tCR && !flag {
		gf := []string{fields[0], fields[2]}
		g.pwAdd("13g", false, pwWF("13g", false, gf), gf)
	}
}

// pwAdd11: a certificate list; wf by the rule of the round-trip domain.
func (g *G) pwAdd11(f []string) { g.pwAdd("11", false, pwWF("11", false, f), f) }

func (g *G) rbytes(min, max int) []byte { return g.r.Bytes(min + g.r.Intn(max-min+1)) }

func (g *G) ru16s(min, max int, avoid00ff bool) []uint16 {
	n := min + g.r.Intn(max-min+1)
	out := make([]uint16, n)
	for i := range out {
		if g.r.Bool() {
			out[i] = suitePool[g.r.Intn(len(suitePool))]
		} else {
			out[i] = uint16(g.r.Intn(65536))
		}
		if avoid00ff && out[i] == 0x00ff {
			out[i] = 0x002f
		}
	}
	return out
}

func (g *G) rstrings(min, max, lmin, lmax int, edge int) [][]byte {
	n := min + g.r.Intn(max-min+1)
	out := make([][]byte, n)
	for i := range out {
		l := lmin + g.r.Intn(g.r.Pick([]int{8, 8, 40, lmax - lmin + 1}))
		if l > lmax {
			l = lmax
		}
		if edge > 0 && g.r.Intn(12) == 0 {
			l = edge
		}
		out[i] = g.r.Bytes(l)
	}
	return out
}

func bs(b bool) string { return fmt.Sprint(b2i(b)) }

func (g *G) maybe(b []byte) []byte {
	if g.r.Bool() {
		return nil
	}
	return b
}

type chVal struct {
	vers        uint16
	random, sid []byte
	suites      []uint16
	comp        []byte
	npn         bool
	name        []byte
	ocsp        bool
	curves      []uint16
	points      []byte
	ts          bool
	ticket      []byte
	sigalgs     []uint16
	srs         bool
	sr          []byte
	alpn        [][]byte
	scts        bool
}

func (v chVal) fields() []string {
	return []string{fmt.Sprintf("%04x", v.vers), hx.Hex(v.random), hx.Hex(v.sid), suitesStr(v.suites, "-"), hx.Hex(v.comp), bs(v.npn),
		hx.Hex(v.name), bs(v.ocsp), suitesStr(v.curves, "-"), hx.Hex(v.points), bs(v.ts), hx.Hex(v.ticket), suitesStr(v.sigalgs, "-"),
		bs(v.srs), hx.Hex(v.sr), hx.HexList(v.alpn), bs(v.scts)}
}

func (g *G) randCH() chVal {
	v := chVal{vers: uint16(g.r.Intn(65536)), random: g.r.Bytes(32)}
	v.sid = g.r.Bytes(g.r.Pick([]int{0, 0, 32, 16, 1, 31, g.r.Intn(33)}))
	v.suites = g.ru16s(0, 40, true)
	if g.r.Intn(4) == 0 {
		v.suites = append(v.suites, 0x00ff)
		v.srs = true
	}
	v.comp = g.rbytes(0, 3)
	v.npn, v.ocsp, v.scts = g.r.Bool(), g.r.Bool(), g.r.Bool()
	if g.r.Bool() {
		v.name = g.rbytes(1, 60)
		if g.r.Intn(4) == 0 {
			v.name[g.r.Intn(len(v.name))] = byte(g.r.Pick([]int{0, 0x2e}))
		}
	}
	v.curves = g.ru16s(0, 6, false)
	v.points = g.rbytes(0, 3)
	if g.r.Bool() {
		v.ts = true
		v.ticket = g.maybe(g.rbytes(1, 200))
	}
	v.sigalgs = g.ru16s(0, 8, false)
	if v.srs || g.r.Bool() {
		v.srs = true
		v.sr = g.maybe(g.rbytes(1, 36))
	}
	if g.r.Bool() {
		v.alpn = g.rstrings(0, 4, 1, 255, 255)
	}
	return v
}

type shVal struct {
	vers        uint16
	random, sid []byte
	suite       uint16
	comp        byte
	npn         bool
	protos      [][]byte
	ocsp, ts    bool
	srs         bool
	sr          []byte
	alpn        []byte
	scts        [][]byte
}

func (v shVal) fields() []string {
	return []string{fmt.Sprintf("%04x", v.vers), hx.Hex(v.random), hx.Hex(v.sid), fmt.Sprintf("%04x", v.suite), fmt.Sprintf("%02x", v.comp),
		bs(v.npn), hx.HexList(v.protos), bs(v.ocsp), bs(v.ts), bs(v.srs), hx.Hex(v.sr), hx.Hex(v.alpn), hx.HexList(v.scts)}
}

func (g *G) randSH() shVal {
	v := shVal{vers: uint16(g.r.Intn(65536)), random: g.r.Bytes(32), suite: uint16(g.r.Intn(65536)), comp: byte(g.r.Pick([]int{0, 0, 1, g.r.Intn(256)}))}
	v.sid = g.r.Bytes(g.r.Pick([]int{0, 0, 32, 16, 1, 31, g.r.Intn(33)}))
	if g.r.Bool() {
		v.npn = true
		v.protos = g.rstrings(0, 4, 1, 255, 255)
	}
	v.ocsp, v.ts = g.r.Bool(), g.r.Bool()
	if g.r.Bool() {
		v.srs = true
		v.sr = g.maybe(g.rbytes(1, 36))
	}
	if g.r.Bool() {
		v.alpn = g.rbytes(1, g.r.Pick([]int{8, 60, 255}))
		if g.r.Intn(10) == 0 {
			v.alpn = g.r.Bytes(255)
		}
	}
	if g.r.Bool() {
		v.scts = g.rstrings(0, 3, 1, 300, 300)
	}
	return v
}

func (g *G) pwCases() {
	scale := 1
	if g.thorough() {
		scale = 5
	}
	u16 := func(v int) string { return fmt.Sprintf("%04x", v) }
	// (b) inside the canonical domain
	zero32 := make([]byte, 32)
	g.pwAdd("1", false, true, chVal{random: zero32}.fields()) // all empty
	full := chVal{vers: 0x0303, random: g.r.Bytes(32), sid: g.r.Bytes(32), suites: []uint16{0x002f, 0x00ff, 0xe013}, comp: []byte{0, 1}, npn: true,
		name: []byte("a.example.test"), ocsp: true, curves: []uint16{23, 29}, points: []byte{0, 1}, ts: true, ticket: g.r.Bytes(64),
		sigalgs: []uint16{0x0401, 0x0403}, srs: true, sr: g.r.Bytes(12), alpn: [][]byte{[]byte("h2"), g.r.Bytes(255)}, scts: true}
	g.pwAdd("1", false, true, full.fields())
	for i := 0; i < 800*scale; i++ {
		g.pwAdd("1", false, true, g.randCH().fields())
	}
	g.pwAdd("2", false, true, shVal{random: zero32}.fields())
	g.pwAdd("2", false, true, shVal{vers: 0x0101, random: g.r.Bytes(32), sid: g.r.Bytes(32), suite: 0xe013, npn: true, protos: [][]byte{[]byte("h2")},
		ocsp: true, ts: true, srs: true, sr: g.r.Bytes(24), alpn: []byte("h2"), scts: [][]byte{g.r.Bytes(300), {1}}}.fields())
	for i := 0; i < 700*scale; i++ {
		g.pwAdd("2", false, true, g.randSH().fields())
	}
	n := 300 * scale
	for i := 0; i < n; i++ {
		g.pwAdd("4", false, true, []string{hx.Hex(g.rbytes(0, 300))})
		g.pwAdd("12", false, true, []string{hx.Hex(g.rbytes(0, 300))})
		g.pwAdd("16", false, true, []string{hx.Hex(g.rbytes(0, 300))})
		g.pwAdd("20", false, true, []string{hx.Hex(g.r.Bytes(g.r.Pick([]int{12, 12, 0, 1, 36, 64, g.r.Intn(65)})))})
		g.pwAdd11([]string{hx.HexList(g.rstrings(0, 4, 0, 400, 0))})
		types := g.rbytes(1, 4)
		cas := hx.HexList(g.rstrings(0, 3, 0, 100, 0))
		g.pwAdd("13", false, true, []string{hx.Hex(types), "-", cas})
		g.pwAdd("13", true, true, []string{hx.Hex(types), suitesStr(g.ru16s(0, 6, false), "-"), cas})
		g.pwAdd("13g", false, true, []string{hx.Hex(types), cas})
		sig := hx.Hex(g.rbytes(0, 300))
		g.pwAdd("15", false, true, []string{"0000", sig})
		g.pwAdd("15", true, true, []string{u16(g.r.Intn(65536)), sig})
		if g.r.Bool() {
			g.pwAdd("22", false, true, []string{"01", hx.Hex(g.rbytes(0, 300))})
		} else {
			g.pwAdd("22", false, true, []string{fmt.Sprintf("%02x", g.r.Pick([]int{0, 2, 3, 255, 2 + g.r.Intn(254)})), "-"})
		}
		g.pwAdd("67", false, true, []string{hx.Hex(g.r.Bytes(g.r.Pick([]int{0, 1, 2, 29, 30, 31, 62, 255, g.r.Intn(256)})))})
	}
	g.pwAdd("14", false, true, nil)
	g.pwAdd11([]string{"-"})
	g.pwAdd11([]string{"."})
	g.pwAdd11([]string{"3003020101,."})
	g.pwAdd11([]string{".,3003020101"})
	// (c) outside the canonical domain, still handled by marshal
	for i := 0; i < 30*scale; i++ {
		v := g.randCH()
		v.ts, v.ticket = false, g.rbytes(1, 50)
		g.pwAdd("1", false, false, v.fields())
		v = g.randCH()
		v.srs, v.sr, v.suites = false, g.rbytes(1, 36), g.ru16s(0, 5, true)
		g.pwAdd("1", false, false, v.fields())
		v = g.randCH()
		v.srs, v.sr, v.suites = false, nil, append(g.ru16s(0, 5, true), 0x00ff)
		g.pwAdd("1", false, false, v.fields())
		v = g.randCH()
		v.random = g.r.Bytes(g.r.Pick([]int{31, 33}))
		g.pwAdd("1", false, false, v.fields())
		s := g.randSH()
		s.npn, s.protos = false, g.rstrings(1, 3, 1, 20, 0)
		g.pwAdd("2", false, false, s.fields())
		g.pwAdd("13", false, false, []string{hx.Hex(g.rbytes(1, 4)), suitesStr(g.ru16s(1, 4, false), "-"), hx.HexList(g.rstrings(0, 2, 0, 30, 0))})
		g.pwAdd("15", false, false, []string{"0403", hx.Hex(g.rbytes(0, 80))})
		g.pwAdd("22", false, false, []string{"02", hx.Hex(g.rbytes(1, 40))})
		g.pwAdd("67", false, false, []string{hx.Hex(g.rbytes(256, 300))})
	}
	for _, c := range g.pwList {
		line := fmt.Sprintf("%s %d %d", c.typ, b2i(c.flag), b2i(c.wf))
		if len(c.fields) > 0 {
			line += " " + strings.Join(c.fields, " ")
		}
		g.emit("PW", line)
	}
	g.pwList = nil
}
