// Correspondence driver for C15 (gmtls handshake: a misbehaving peer gets an error, never
// completion, a crash or a hang).  White box for the parser cases (hook file
// /repo/gmtls/verif_handshake_verif.go, build tag verif); the S/H/V cases drive real
// gmtls.Conn endpoints through Handshake().
//
//	c15 gen <seed> <tier> <cases-out> <obs-out>   generate cases, run /repo on them
//	c15 run <cases-in> <obs-out>                  run /repo on given cases (replay)
//	c15 dbg <cases-in> [id]                       replay, print error texts and what the victim wrote
//
// Case lines (fields separated by one space):
//
//	S  id role cfg abstract concrete   scripted peer against a real endpoint (see script.go)
//	H  id pair cfg                     real client against real server
//	V  id role vers suiteset           one ClientHello, then EOF
//	PK id bodyhex g                    eccKeyAgreementGM.processClientKeyExchange
//	PS id keyhex g                     eccKeyAgreementGM.processServerKeyExchange
//	PR id datahex                      certificateRequestMsgGM.unmarshal
//	PH id hand0hex recs                Conn.readHandshake over handshake records
//
// Observation lines: id ok|err|PANIC|HANG (S) ; id <client> <server> <resumed> (H) ;
//
//	id rej | id acc <vers> <suite> (V) ; id ok|err|PANIC (PK, PS) ; id ok <types> <cas> | err (PR) ;
//	id <t:n,...|-> <eof|err> (PH)
//
// Environment (debugging only): C15_TIMING=1 per-generator timings on stderr; C15_SELFCHECK=1 re-frames
// the bytes really served to the victim and checks them against the abstract field; C15_PROF=<path> profiles.
package main

import (
	"fmt"
	"os"
	"runtime"
	"runtime/pprof"
	"strconv"
	"strings"
	"sync"
	"sync/atomic"
	"time"

	"verifharness/internal/hx"
)

const pDeadline = 20 * time.Second

func runCase(line string) string {
	f := strings.Split(line, " ")
	if len(f) < 2 {
		return "? BADCASE"
	}
	id := f[1]
	switch f[0] {
	case "S":
		if len(f) != 6 {
			return id + " BADCASE"
		}
		items := decItems(f[5])
		res, _, conn := runScript(f[2], parseCfg(f[3]), items)
		if selfCheckOn && res != "HANG" {
			if msg := selfCheck(f[2], parseCfg(f[3]), items, f[4], conn); msg != "" {
				fmt.Fprintf(os.Stderr, "c15 selfcheck: case %s: %s\n", id, msg)
			}
		}
		return id + " " + res
	case "H":
		if len(f) != 4 {
			return id + " BADCASE"
		}
		return id + " " + runH(f[2], parseCfg(f[3]))
	case "V":
		if len(f) != 5 {
			return id + " BADCASE"
		}
		v, err := strconv.ParseUint(f[3], 16, 16)
		if err != nil {
			return id + " BADCASE"
		}
		return id + " " + runV(f[2], uint16(v), f[4])
	case "VG":
		if len(f) != 6 {
			return id + " BADCASE"
		}
		v, err := strconv.ParseUint(f[3], 16, 16)
		if err != nil {
			return id + " BADCASE"
		}
		return id + " " + runVG(f[2], uint16(v), f[4], f[5])
	case "VC":
		if len(f) != 6 {
			return id + " BADCASE"
		}
		v, err := strconv.ParseUint(f[3], 16, 16)
		if err != nil {
			return id + " BADCASE"
		}
		return id + " " + runVC(f[2], uint16(v), f[4], f[5])
	case "R":
		res, _ := runR(f)
		return id + " " + res
	case "PM":
		res, _ := hx.Guard(pDeadline, func() string { return runPM(f) })
		return id + " " + res
	case "PE":
		res, _ := hx.Guard(pDeadline, func() string { return runPE(f) })
		return id + " " + res
	case "PW":
		res, _ := hx.Guard(pDeadline, func() string { return runPW(f) })
		return id + " " + res
	case "PK", "PS", "PR", "PH":
		res, _ := hx.Guard(pDeadline, func() string { return runP(f) })
		return id + " " + res
	}
	return id + " BADCASE"
}

var selfCheckOn = os.Getenv("C15_SELFCHECK") != ""

const workers = 16

func runAll(lines []string) []string {
	out := make([]string, len(lines))
	var next int64 = -1
	var wg sync.WaitGroup
	for w := 0; w < workers; w++ {
		wg.Add(1)
		go func() {
			defer wg.Done()
			for {
				i := int(atomic.AddInt64(&next, 1))
				if i >= len(lines) {
					return
				}
				out[i] = runCase(lines[i])
			}
		}()
	}
	wg.Wait()
	return out
}

func dbg(path, only string) {
	for _, l := range hx.ReadLines(path) {
		f := strings.Split(l, " ")
		if only != "" && f[1] != only {
			continue
		}
		if f[0] == "H" {
			r, d := runHd(f[2], parseCfg(f[3]))
			fmt.Fprintf(os.Stderr, "%s %s %s -> %s [%s]\n", f[1], f[2], f[3], r, d)
			continue
		}
		if f[0] == "R" {
			r, d := runR(f)
			fmt.Fprintf(os.Stderr, "%s\n   -> %s [%s]\n", l, r, d)
			continue
		}
		if f[0] != "S" {
			fmt.Fprintln(os.Stderr, runCase(l))
			continue
		}
		res, detail, conn := runScript(f[2], parseCfg(f[3]), decItems(f[5]))
		var w []string
		for _, r := range scanRecords(conn.written) {
			d := ""
			if r.typ == recHS && len(r.payload) > 0 {
				d = fmt.Sprintf("/%d", r.payload[0])
			}
			if r.typ == recAlert && len(r.payload) == 2 {
				d = fmt.Sprintf("/%d.%d", r.payload[0], r.payload[1])
			}
			w = append(w, fmt.Sprintf("%d%s:%d", r.typ, d, len(r.payload)))
		}
		fmt.Fprintf(os.Stderr, "%s %s %s %s\n   -> %s [%s]\n   wrote %s ; script items consumed %d/%d\n", f[1], f[2], f[3], f[4], res, detail,
			strings.Join(w, " "), conn.idx, len(conn.items))
	}
}

func main() {
	runtime.GOMAXPROCS(runtime.NumCPU())
	// gmtls prints "handshake error : ..." with fmt.Println: silence it.
	if null, err := os.OpenFile(os.DevNull, os.O_WRONLY, 0); err == nil {
		os.Stdout = null
	}
	loadEnv()
	if pf := os.Getenv("C15_PROF"); pf != "" {
		runtime.SetBlockProfileRate(10000)
		runtime.SetMutexProfileFraction(5)
		f, _ := os.Create(pf + ".cpu")
		pprof.StartCPUProfile(f)
		defer func() {
			pprof.StopCPUProfile()
			f.Close()
			for _, n := range []string{"block", "mutex"} {
				g, _ := os.Create(pf + "." + n)
				pprof.Lookup(n).WriteTo(g, 0)
				g.Close()
			}
		}()
	}
	if len(os.Args) >= 6 && os.Args[1] == "gen" {
		seed, _ := strconv.ParseUint(os.Args[2], 10, 64)
		o := hx.NewOut(os.Args[4], os.Args[5])
		gen(seed, os.Args[3], o)
		o.Retry(runCase) // out of time in the parallel pass: re-run alone with 10x deadlines
		o.Close()
		return
	}
	if len(os.Args) >= 4 && os.Args[1] == "run" {
		o := hx.NewOut(os.DevNull, os.Args[3])
		lines := hx.ReadLines(os.Args[2])
		for i := 0; i < len(lines); i += 8192 {
			j := i + 8192
			if j > len(lines) {
				j = len(lines)
			}
			for _, r := range runAll(lines[i:j]) {
				o.Obs(r)
			}
		}
		o.Retry(runCase)
		o.Close()
		return
	}
	if len(os.Args) >= 3 && os.Args[1] == "pmcheck" {
		pmCheck(os.Args[2])
		return
	}
	if len(os.Args) >= 3 && os.Args[1] == "dbg" {
		only := ""
		if len(os.Args) >= 4 {
			only = os.Args[3]
		}
		dbg(os.Args[2], only)
		return
	}
	fmt.Fprintln(os.Stderr, "usage: c15 gen <seed> <tier> <cases> <obs> | c15 run <cases> <obs> | c15 dbg <cases> [id]")
	os.Exit(2)
}
