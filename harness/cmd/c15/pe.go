package main

// PE cases: ecdheKeyAgreement.processServerKeyExchange (the TLS ECDHE client side) at byte level.
//
//   PE <id> <vers> <isRSA> <pk> <helloAlgs|-> <pt> <keyhex|->     obs: ok | err | PANIC
//   pt = 1 iff elliptic.Unmarshal accepts the point the key announces (P-256/384/521 only).
//
// R cases of round 7 (a handshake record where ChangeCipherSpec is due) are generated here too.

import (
	"crypto/elliptic"
	"fmt"
	"strconv"

	"github.com/tjfoc/gmsm/gmtls"
	"verifharness/internal/hx"
)

func runPE(f []string) string {
	if len(f) != 8 {
		return "BADCASE"
	}
	v, err := strconv.ParseUint(f[2], 16, 16)
	if err != nil {
		return "BADCASE"
	}
	_, ok := gmtls.VerifECDHEProcessServerKeyExchange(uint16(v), f[3] == "1", f[4], parseSuites(f[5]), hx.UnHex(f[7]))
	if ok {
		return "ok"
	}
	return "err"
}

func pointOK(key []byte) int {
	if len(key) < 4 || key[0] != 3 {
		return 0
	}
	var curve elliptic.Curve
	switch int(key[1])<<8 | int(key[2]) {
	case 23:
		curve = elliptic.P256()
	case 24:
		curve = elliptic.P384()
	case 25:
		curve = elliptic.P521()
	default:
		return 0
	}
	n := int(key[3])
	if 4+n > len(key) {
		return 0
	}
	if x, _ := elliptic.Unmarshal(curve, key[4:4+n]); x != nil {
		return 1
	}
	return 0
}

var pkgSigAlgs = []uint16{0x0401, 0x0403, 0x0501, 0x0503, 0x0601, 0x0603, 0x0201, 0x0203}

func (g *G) peCases() {
	seen := map[string]bool{}
	emit := func(vers int, isRSA bool, pk string, algs []uint16, key []byte) {
		line := fmt.Sprintf("%04x %d %s %s %d %s", vers, b2i(isRSA), pk, suitesStr(algs, "-"), pointOK(key), hx.Hex(key))
		if !seen[line] {
			seen[line] = true
			g.emit("PE", line)
		}
	}
	cp := func(b []byte) []byte { return append([]byte{}, b...) }
	for _, vers := range []int{0x0301, 0x0302, 0x0303} {
		for _, pk := range []string{"rsa", "ecdsa"} {
			isRSA := pk == "rsa"
			for _, curve := range []uint16{29, 23} {
				for _, algs := range [][]uint16{pkgSigAlgs, nil} {
					key, err := gmtls.VerifECDHEGenerateServerKeyExchange(uint16(vers), isRSA, pk, curve, algs)
					if err != nil {
						die("genuine ECDHE ServerKeyExchange: %v", err)
					}
					e := func(k []byte) { emit(vers, isRSA, pk, algs, k) }
					e(key)
					n := len(key)
					p := 4 + int(key[3]) // end of the ECDH parameters
					sl := p              // offset of the 2 signature-length bytes
					if vers >= 0x0303 {
						sl += 2
					}
					// truncations
					for t := 0; t < n; t++ {
						if g.thorough() || !isRSA || t <= p+12 || t%7 == 0 || t >= n-4 {
							e(key[:t])
						}
					}
					// truncation + 1..3 extra bytes
					for t := 0; t <= n; t++ {
						near := (t >= p-1 && t <= p+6) || t >= n-2
						if !g.thorough() && !near {
							continue
						}
						for _, x := range [][]byte{{0}, {0xff}, {0, 0}, {0, 1}, {0xff, 0xff}, {0, 0, 0}, {4, 1, 0}} {
							e(append(cp(key[:t]), x...))
						}
					}
					// length fields
					poke := func(off int, v byte) {
						if off < n {
							k := cp(key)
							k[off] = v
							e(k)
						}
					}
					for _, off := range []int{3, sl, sl + 1} {
						if off < n {
							poke(off, key[off]+1)
							poke(off, key[off]-1)
							poke(off, 0)
							poke(off, 0xff)
						}
					}
					if vers >= 0x0303 {
						for _, a := range []int{0x0401, 0x0403, 0x0804, 0x0204, 0x0000} {
							k := cp(key)
							k[p], k[p+1] = byte(a>>8), byte(a)
							e(k)
							e(k[:p+2]) // ... and nothing after the algorithm
							e(k[:p+3])
						}
					}
					for _, v := range []byte{0, 1, 2} {
						poke(0, v)
					}
					for _, id := range []int{0, 24, 25, 30, 0xffff} {
						k := cp(key)
						k[1], k[2] = byte(id>>8), byte(id)
						e(k)
					}
					for _, off := range []int{4, 5, p - 1} {
						k := cp(key)
						k[off] ^= 0x01
						e(k)
					}
					// isRSA flipped, other certificate key kinds
					emit(vers, !isRSA, pk, algs, key)
					for _, other := range []string{"rsa", "ecdsa", "sm2"} {
						if other != pk {
							emit(vers, isRSA, other, algs, key)
							emit(vers, !isRSA, other, algs, key)
						}
					}
				}
			}
		}
	}
	nRand := 300
	if g.thorough() {
		nRand = 1500
	}
	for i := 0; i < nRand; i++ {
		k := g.r.Bytes(g.r.Intn(81))
		if len(k) >= 4 && g.r.Bool() {
			k[0], k[1], k[2] = 3, 0, byte(g.r.Pick([]int{23, 29, 24}))
			if g.r.Bool() {
				k[3] = byte(g.r.Pick([]int{32, 65, len(k) - 4, len(k) - 6, len(k) - 8}))
			}
		}
		pk := []string{"rsa", "ecdsa", "sm2"}[g.r.Intn(3)]
		algs := [][]uint16{pkgSigAlgs, nil}[g.r.Intn(2)]
		emit(g.r.Pick([]int{0x0301, 0x0302, 0x0303, 0x0303}), g.r.Bool(), pk, algs, k)
	}
}

// r7Cases: a handshake record (HR: HelloRequest 00 00 00 00, HX: unknown type 63 00 00 00) where the
// ChangeCipherSpec is due; the Finished that follows without a CCS goes out in the clear.
func (g *G) r7Cases() {
	emit := func(victim string, suite uint16, cfg, chv, packing string) {
		g.emit("R", fmt.Sprintf("%s %04x %s %s %s", victim, suite, cfg, chv, packing))
	}
	for _, suite := range []uint16{0xe013, 0xe053} {
		for _, victim := range []string{"sg", "sa"} {
			for _, auth := range []int{0, 1, 4} {
				for cc := 0; cc <= 1; cc++ {
					for tk := 0; tk <= 1; tk++ {
						pre := ""
						if auth >= 1 {
							pre = "CCERT|"
						}
						pre += "CKX|"
						if auth >= 1 && cc == 1 {
							pre += "CV|"
						}
						cfg := fmt.Sprintf("auth=%d,cc=%d,tk=%d", auth, cc, tk)
						for _, tail := range []string{"HR|FIN", "HX|FIN", "HR|CCS|FIN", "HR|HR|FIN"} {
							emit(victim, suite, cfg, "0101", "CH/"+pre+tail)
						}
					}
				}
			}
		}
		for cc := 0; cc <= 1; cc++ {
			for cr := 0; cr <= 1; cr++ {
				for tk := 0; tk <= 1; tk++ {
					cfg := fmt.Sprintf("cc=%d,cr=%d,tk=%d", cc, cr, tk)
					first := "SH|CERT|SKX|"
					if cr == 1 {
						first += "CR|"
					}
					first += "SHD/"
					for _, tail := range []string{"HR|FIN", "HX|FIN", "HR|CCS|FIN", "HR|HR|FIN"} {
						emit("cg", suite, cfg, "-", first+tail)
						if tk == 1 {
							emit("cg", suite, cfg, "-", first+"NST|"+tail)
						}
					}
				}
			}
		}
	}
}
