package main

// Case generators.  Everything is a deterministic function of the seed: no run-time random
// (victim randoms, signatures, ciphertexts of S cases) ever reaches a case line.

import (
	"fmt"
	"os"
	"strings"
	"time"

	"github.com/tjfoc/gmsm/gmtls"
	"github.com/tjfoc/gmsm/sm2"
	"verifharness/internal/hx"
)

type G struct {
	r       *hx.Rng
	o       *hx.Out
	tier    string
	id      int
	batch   []string
	stats   map[string]int
	runTime time.Duration
	// PM: handshake messages collected from the S generators (items 3 and 7)
	pmOn   bool
	pmSeen map[string]bool
	pmList []pmCase
	// PW: parsed fields of the accepted PM cases
	pwSeen map[string]bool
	pwList []pwCase
}

func (g *G) thorough() bool { return g.tier == "thorough" }

func (g *G) flush() {
	t0 := time.Now()
	res := runAll(g.batch)
	g.runTime += time.Since(t0)
	for i, obs := range res {
		g.o.Case(g.batch[i])
		g.o.Obs(obs)
	}
	g.batch = g.batch[:0]
}

func (g *G) emit(kind string, rest string) {
	g.id++
	g.stats[kind]++
	g.batch = append(g.batch, fmt.Sprintf("%s %d %s", kind, g.id, rest))
	if len(g.batch) >= 8192 {
		g.flush()
	}
}

func (g *G) S(role string, c vcfg, items []item) {
	if g.pmOn {
		g.pmCollect(role, c, items)
	}
	g.emit("S", fmt.Sprintf("%s %s %s %s", role, c.String(), abstractOf(role, c, items), encItems(items)))
}

// ---------------------------------------------------------------------------------------------
// message constructors

var (
	gmSuites   = []uint16{0xe013, 0xe053}
	gmDHE      = []uint16{0xe011, 0xe051}
	tlsRSA     = []uint16{0x002f, 0x0035, 0x009c}
	tlsECDHE   = []uint16{0xc02f, 0xc013, 0xc02b, 0xc009}
	tlsDefault = []uint16{0x002f, 0xc02f, 0xc013, 0x009c}
)

// chMsg: flags c null compression, z compression method 1, R non-empty renegotiation_info,
// r empty renegotiation_info, T empty session_ticket, t session_ticket with a junk ticket, N NPN,
// A ALPN h2, E curves P256+X25519 and uncompressed points, e curves only (unknown ids), O status_request,
// S SNI localhost, G signature_algorithms, C SCT, I 16-byte session id.
func chMsg(vers uint16, suites []uint16, flags string) []byte {
	h := gmtls.VerifClientHello{Vers: vers, Random: fixedClientRandom, CipherSuites: suites}
	has := func(c string) bool { return strings.Contains(flags, c) }
	if has("z") {
		h.CompressionMethods = append(h.CompressionMethods, 1)
	}
	if has("c") {
		h.CompressionMethods = append(h.CompressionMethods, 0)
	}
	if has("R") {
		h.SecureRenegotiationSupported, h.SecureRenegotiation = true, []byte{0x5a}
	}
	if has("r") {
		h.SecureRenegotiationSupported = true
	}
	if has("T") {
		h.TicketSupported = true
	}
	if has("t") {
		h.TicketSupported, h.SessionTicket = true, placeholder("ticket", 96)
	}
	h.NextProtoNeg = has("N")
	if has("A") {
		h.AlpnProtocols = []string{"h2"}
	}
	if has("E") {
		h.SupportedCurves, h.SupportedPoints = []uint16{23, 29}, []uint8{0}
	}
	if has("e") {
		h.SupportedCurves = []uint16{0x0100, 0x0041}
	}
	h.OcspStapling = has("O")
	if has("S") {
		h.ServerName = "localhost"
	}
	if has("G") {
		h.SignatureAlgorithms = []uint16{0x0401, 0x0403, 0x0501, 0x0201}
	}
	h.Scts = has("C")
	if has("I") {
		h.SessionId = placeholder("sid", 16)
	}
	return gmtls.VerifMarshalClientHello(h)
}

// shMsg: flags z compression method 1 (default 0), R non-empty renegotiation_info, r empty one,
// T ticket, N NPN (h2), A ALPN h2, O status_request, I 16-byte session id.
func shMsg(vers, suite uint16, flags string) []byte {
	h := gmtls.VerifServerHello{Vers: vers, Random: fixedServerRandom, CipherSuite: suite}
	has := func(c string) bool { return strings.Contains(flags, c) }
	if has("z") {
		h.CompressionMethod = 1
	}
	if has("R") {
		h.SecureRenegotiationSupported, h.SecureRenegotiation = true, []byte{0x5a}
	}
	if has("r") {
		h.SecureRenegotiationSupported = true
	}
	h.TicketSupported = has("T")
	if has("N") {
		h.NextProtoNeg, h.NextProtos = true, []string{"h2"}
	}
	if has("A") {
		h.AlpnProtocol = "h2"
	}
	h.OcspStapling = has("O")
	if has("I") {
		h.SessionId = placeholder("sid", 16)
	}
	return gmtls.VerifMarshalServerHello(h)
}

func (g *G) junkSKX(ok bool) item {
	b := g.r.Bytes(40 + g.r.Intn(40))
	key := prefixed(b)
	if !ok {
		key[1] ^= byte(1 + g.r.Intn(200))
	}
	return litItem(gmtls.VerifMarshalServerKeyExchange(key))
}

func (g *G) junkCKX(ok bool, n int) item {
	body := prefixed(g.r.Bytes(n))
	if !ok {
		body[1] ^= byte(1 + g.r.Intn(200))
	}
	return litItem(gmtls.VerifMarshalClientKeyExchange(body))
}

// a plausible ECDHE ClientKeyExchange (X25519 share): 1-byte length and 32 bytes
func (g *G) ecdheCKX() item {
	return litItem(gmtls.VerifMarshalClientKeyExchange(append([]byte{32}, g.r.Bytes(32)...)))
}

func (g *G) junkCV(tls12 bool) item {
	if tls12 {
		return litItem(gmtls.VerifMarshalCertificateVerify(true, 0x0401, g.r.Bytes(256)))
	}
	return litItem(gmtls.VerifMarshalCertificateVerify(false, 0, g.r.Bytes(70+g.r.Intn(3))))
}

func (g *G) junkFIN() item { return litItem(gmtls.VerifMarshalFinished(g.r.Bytes(12))) }
func (g *G) nst() item {
	return litItem(gmtls.VerifMarshalNewSessionTicket(g.r.Bytes(32 + g.r.Intn(64))))
}
func (g *G) cst() item {
	return litItem(gmtls.VerifMarshalCertificateStatus(g.r.Bytes(8 + g.r.Intn(40))))
}
func npn() item            { return litItem(gmtls.VerifMarshalNextProto("h2")) }
func hrq() item            { return litItem(gmtls.VerifMarshalHelloRequest()) }
func shd() item            { return litItem(gmtls.VerifMarshalServerHelloDone()) }
func ccs() item            { return rawItem(recCCS, []byte{1}) }
func alert(l, d byte) item { return rawItem(recAlert, []byte{l, d}) }
func (g *G) app() item     { return rawItem(recApp, g.r.Bytes(1+g.r.Intn(24))) }
func (g *G) unk() item     { return litItem(hsMsg(99, g.r.Bytes(g.r.Intn(6)))) }
func long() item           { return litItem([]byte{tCERT, 0x01, 0x00, 0x01}) }
func recBadType() item     { return rawItem(99, []byte{1, 2, 3}) }
func recTooLong() item {
	it := rawItem(recHS, []byte{0, 0, 0, 0})
	it.r.lenOv = 18433
	return it
}
func recBadVers() item {
	it := rawItem(recHS, gmtls.VerifMarshalHelloRequest())
	it.r.vers = 0x7f7f
	return it
}

func concat(parts ...[]item) []item {
	var out []item
	for _, p := range parts {
		out = append(out, p...)
	}
	return out
}

// ---------------------------------------------------------------------------------------------
// honest flights of the scripted peer (everything before its own Finished)

// mode "g": GM hello, "t": TLS hello.  For role sg the mode is g, for st it is t.
func modesOf(role string) []string {
	switch role {
	case "sg":
		return []string{"g"}
	case "st":
		return []string{"t"}
	}
	return []string{"g", "t"}
}

func helloFlags(mode string, c vcfg, extra string) string {
	f := "c" + extra
	if mode == "t" {
		f += "EGr"
	}
	if c.tk {
		f += "T"
	}
	if c.np {
		f += "N"
	}
	return f
}

func goodCH(mode string, c vcfg, vers uint16) item {
	if mode == "g" {
		return litItem(chMsg(0x0101, gmSuites, helloFlags(mode, c, "")))
	}
	if vers == 0 {
		vers = 0x0303
	}
	return litItem(chMsg(vers, tlsDefault, helloFlags(mode, c, "")))
}

// serverFlight: the scripted CLIENT's flight against a server victim.
// cc: the scripted client presents a certificate when asked (auth >= 1).
func (g *G) serverFlight(mode string, c vcfg, vers uint16) []item {
	fl := []item{goodCH(mode, c, vers)}
	tls12 := mode == "t" && (vers == 0 || vers >= 0x0303)
	if c.auth >= 1 {
		switch {
		case !c.cc:
			fl = append(fl, hsItem("cert,-"))
		case mode == "g":
			fl = append(fl, hsItem("cert,auth"))
		default:
			fl = append(fl, hsItem("cert,rsaauth"))
		}
	}
	if mode == "g" {
		fl = append(fl, hsItem("ckxg,good"))
	} else {
		fl = append(fl, hsItem("ckxr,good"))
	}
	if c.auth >= 1 && c.cc {
		fl = append(fl, g.junkCV(tls12))
	}
	return append(fl, ccs())
}

// clientFlight: the scripted SERVER's flight against a client victim.
// variant: "" (cg: ECC suite; ct: RSA key exchange), "e" (ct: ECDHE-RSA with a genuine ServerKeyExchange);
// cr: send a CertificateRequest.
func (g *G) clientFlight(role string, c vcfg, variant string, cr bool, shFlags string) []item {
	if c.tk {
		shFlags += "T"
	}
	var fl []item
	if role == "cg" {
		suite := uint16(0xe013)
		if c.su != nil {
			suite = c.su[0]
		}
		fl = []item{litItem(shMsg(0x0101, suite, shFlags)), hsItem("cert,sig.enc"), hsItem("skx,good")}
		if cr {
			fl = append(fl, hsItem("crg,2"))
		}
	} else {
		suite := uint16(0x002f)
		if variant == "e" {
			suite = 0xc02f
		}
		fl = []item{litItem(shMsg(0x0303, suite, shFlags)), hsItem("cert,rsa")}
		if strings.Contains(shFlags, "O") {
			fl = append(fl, g.cst())
		}
		if variant == "e" {
			fl = append(fl, hsItem("skxe,rsa"))
		}
		if cr {
			fl = append(fl, hsItem("crt,1,2"))
		}
	}
	fl = append(fl, shd())
	if c.tk {
		fl = append(fl, g.nst())
	}
	return append(fl, ccs())
}

// ---------------------------------------------------------------------------------------------
// item 1: exhaustive short sequences over a base alphabet

func (g *G) alphabet(role string) (hello []item, rest []item) {
	c := vcfg{}
	switch role {
	case "sg", "sa", "st":
		for _, m := range modesOf(role) {
			hello = append(hello, goodCH(m, c, 0))
		}
		cert, ckx := hsItem("cert,auth"), hsItem("ckxg,good")
		if role == "st" {
			cert, ckx = hsItem("cert,rsaauth"), hsItem("ckxr,good")
		}
		rest = []item{cert, ckx, g.junkCKX(true, 120), g.junkCV(role == "st"), ccs(), g.junkFIN(), shd(),
			alert(1, 100), alert(2, 40), g.app()}
	case "cg":
		hello = []item{litItem(shMsg(0x0101, 0xe013, ""))}
		rest = []item{hsItem("cert,sig.enc"), hsItem("skx,good"), g.junkSKX(true), hsItem("crg,2"), shd(), g.nst(), ccs(),
			g.junkFIN(), alert(1, 100), alert(2, 40), g.app()}
	case "ct":
		hello = []item{litItem(shMsg(0x0303, 0x002f, ""))}
		rest = []item{hsItem("cert,rsa"), hsItem("skxe,rsa"), g.junkSKX(true), hsItem("crt,1,2"), shd(), g.nst(), ccs(),
			g.junkFIN(), alert(1, 100), alert(2, 40), g.app()}
	}
	return
}

func (g *G) item1() {
	for _, role := range []string{"sg", "sa", "st", "cg", "ct"} {
		hello, rest := g.alphabet(role)
		alpha := concat(hello, rest)
		var rec func(prefix []item, depth, max int)
		rec = func(prefix []item, depth, max int) {
			if depth == max {
				g.S(role, vcfg{}, prefix)
				return
			}
			for _, a := range alpha {
				rec(append(append([]item{}, prefix...), a), depth+1, max)
			}
		}
		for n := 0; n <= 3; n++ {
			rec(nil, 0, n)
		}
		if g.thorough() {
			rec(nil, 0, 4)
		} else {
			for _, h := range hello {
				rec([]item{h}, 1, 4)
			}
		}
	}
}

// ---------------------------------------------------------------------------------------------
// item 2: honest prefix + one deviation

type named struct {
	name  string
	items []item
}

func (g *G) insertions() []named {
	six := make([]item, 6)
	for i := range six {
		six[i] = alert(1, 100)
	}
	return []named{
		{"CCS", []item{ccs()}}, {"CCSB", []item{rawItem(recCCS, []byte{0})}}, {"APP", []item{g.app()}},
		{"warn", []item{alert(1, 100)}}, {"6warn", six}, {"fatal", []item{alert(2, 40)}}, {"close", []item{alert(1, 0)}},
		{"ALB", []item{rawItem(recAlert, []byte{1})}}, {"HRQ", []item{hrq()}}, {"UNK", []item{g.unk()}}, {"LONG", []item{long()}},
		{"REC", []item{recBadVers()}}, {"RECt", []item{recBadType()}}, {"RECl", []item{recTooLong()}},
		{"CST", []item{g.cst()}}, {"NPN", []item{npn()}}, {"NST", []item{g.nst()}}, {"FIN", []item{g.junkFIN()}},
	}
}

func (g *G) deviations(role string, c vcfg, fl []item) {
	for k := 0; k <= len(fl); k++ {
		g.S(role, c, fl[:k]) // EOF after k messages
		if k < len(fl) {
			g.S(role, c, concat(fl[:k], fl[k+1:]))              // omit k
			g.S(role, c, concat(fl[:k+1], fl[k:k+1], fl[k+1:])) // repeat k
		}
		if k+1 < len(fl) {
			g.S(role, c, concat(fl[:k], fl[k+1:k+2], fl[k:k+1], fl[k+2:])) // swap k, k+1
		}
		for _, ins := range g.insertions() {
			g.S(role, c, concat(fl[:k], ins.items, fl[k:]))
		}
	}
}

func (g *G) item2() {
	for _, role := range []string{"sg", "sa", "st"} {
		for auth := 0; auth <= 4; auth++ {
			for _, cc := range []bool{false, true} {
				if auth == 0 && cc {
					continue // nothing is requested: same script as cc=0
				}
				for _, tk := range []bool{false, true} {
					c := vcfg{auth: auth, cc: cc, tk: tk}
					for _, m := range modesOf(role) {
						g.deviations(role, c, g.serverFlight(m, c, 0))
					}
				}
			}
		}
	}
	for _, role := range []string{"cg", "ct"} {
		for _, vf := range []bool{false, true} {
			for _, cc := range []bool{false, true} {
				for _, tk := range []bool{false, true} {
					c := vcfg{vf: vf, cc: cc, tk: tk}
					for _, cr := range []bool{false, true} {
						g.deviations(role, c, g.clientFlight(role, c, "", cr, ""))
						if role == "ct" {
							g.deviations(role, c, g.clientFlight(role, c, "e", cr, ""))
						}
					}
				}
			}
		}
	}
}

// item 2b: the honest flights coalesced into one record / fragmented (same abstract script)
func (g *G) item2b() {
	type fl struct {
		role  string
		c     vcfg
		items []item
	}
	var fls []fl
	for _, role := range []string{"sg", "sa", "st"} {
		c := vcfg{auth: 4, cc: true}
		for _, m := range modesOf(role) {
			fls = append(fls, fl{role, c, append(g.serverFlight(m, c, 0), g.junkFIN())})
		}
	}
	for _, role := range []string{"cg", "ct"} {
		c := vcfg{cc: true}
		fls = append(fls, fl{role, c, append(g.clientFlight(role, c, "", true, ""), g.junkFIN())})
	}
	cp := func(in []item) []item { return append([]item{}, in...) }
	for _, f := range fls {
		// everything before the CCS in one record
		j := cp(f.items)
		for k := range j {
			if !j[k].raw && k+1 < len(j) && !j[k+1].raw {
				j[k].join = true
			}
		}
		g.S(f.role, f.c, j)
		// the hello in 1-byte records
		o := cp(f.items)
		for k := 0; k < 12; k++ {
			o[0].frag = append(o[0].frag, 1)
		}
		g.S(f.role, f.c, o)
		for k := range f.items {
			if f.items[k].raw {
				continue
			}
			for _, at := range []int{1, 3, 4, 5} {
				x := cp(f.items)
				x[k].frag = []int{at}
				g.S(f.role, f.c, x)
				// a warning alert between the fragments is dropped by the record layer; a CCS is not
			}
			x := cp(f.items)
			x[k].frag = []int{2, 2, 2}
			x[k].join = k+1 < len(x) && !x[k+1].raw
			g.S(f.role, f.c, x)
		}
	}
}

// ---------------------------------------------------------------------------------------------
// item 3: body mutations

type field struct{ off, w int }

func be(m []byte, f field) int {
	v := 0
	for i := 0; i < f.w; i++ {
		v = v<<8 | int(m[f.off+i])
	}
	return v
}

// lengthFields locates every inner length / count field of a well-formed message (our own encoding).
func lengthFields(m []byte, gmCR, tls12 bool) (out []field) {
	if len(m) < 5 {
		return nil
	}
	add := func(off, w int) bool {
		if off+w <= len(m) {
			out = append(out, field{off, w})
			return true
		}
		return false
	}
	exts := func(p int) {
		if !add(p, 2) {
			return
		}
		p += 2
		for p+4 <= len(m) {
			add(p+2, 2)
			p += 4 + int(m[p+2])<<8 | int(m[p+3])
		}
	}
	switch m[0] {
	case tCH:
		add(38, 1)
		p := 39 + int(m[38])
		if !add(p, 2) {
			return
		}
		p += 2 + be(m, field{p, 2})
		if !add(p, 1) {
			return
		}
		p += 1 + int(m[p])
		exts(p)
	case tSH:
		add(38, 1)
		exts(39 + int(m[38]) + 3)
	case tCERT:
		add(4, 3)
		p := 7
		for p+3 <= len(m) {
			add(p, 3)
			p += 3 + be(m, field{p, 3})
		}
	case tSKX:
		add(4, 2)
		if m[4] == 3 && len(m) > 8 { // ECDHE layout
			add(7, 1)
			p := 8 + int(m[7]) + 2
			add(p, 2)
		}
	case tCKX:
		add(4, 2)
	case tCR:
		add(4, 1)
		p := 5 + int(m[4])
		if !gmCR && tls12 {
			if !add(p, 2) {
				return
			}
			p += 2 + be(m, field{p, 2})
		}
		if !add(p, 2) {
			return
		}
		p += 2
		for p+2 <= len(m) {
			add(p, 2)
			p += 2 + be(m, field{p, 2})
		}
	case tCV:
		if tls12 {
			add(6, 2)
		} else {
			add(4, 2)
		}
	case tNST:
		add(8, 2)
	case tCST:
		add(5, 3)
	case tNPN:
		add(4, 1)
		add(5+int(m[4]), 1)
	}
	return
}

func (g *G) truncLens(n int) []int {
	var out []int
	if g.thorough() || n <= 64 {
		for i := 0; i < n; i++ {
			out = append(out, i)
		}
		return out
	}
	seen := map[int]bool{}
	for _, v := range []int{0, 1, 2, 3, n - 1, n - 2, n / 2} {
		if v >= 0 && v < n && !seen[v] {
			seen[v] = true
			out = append(out, v)
		}
	}
	for len(out) < 24 {
		v := g.r.Intn(n)
		if !seen[v] {
			seen[v] = true
			out = append(out, v)
		}
	}
	return out
}

// mutate message k of flight fl in every way of item 3.
func (g *G) mutations(role string, c vcfg, fl []item, k int, tls12 bool) {
	it := fl[k]
	if it.raw {
		return
	}
	x := newCtx(role, c, fl, true)
	m := x.message(it)
	n := len(m) - 4
	send := func(mut string) {
		mi := it
		mi.muts = append(append([]string{}, it.muts...), mut)
		g.S(role, c, concat(fl[:k], []item{mi}, fl[k+1:]))
	}
	for _, l := range g.truncLens(n) {
		send(fmt.Sprintf("K%d", l))
	}
	seen := map[int]bool{n: true}
	for _, v := range []int{0, n - 1, n + 1, 0xffffff, 65536, 65537} {
		if v >= 0 && !seen[v] {
			seen[v] = true
			send(fmt.Sprintf("L%x", v))
		}
	}
	send("A00")
	for _, f := range lengthFields(m, isGMRole(role), tls12) {
		v := be(m, f)
		max := 1<<(8*uint(f.w)) - 1
		s := map[int]bool{v: true}
		for _, nv := range []int{0, v - 1, v + 1, max} {
			if nv >= 0 && nv <= max && !s[nv] {
				s[nv] = true
				send(fmt.Sprintf("P%d.%d.%x", f.off, f.w, nv))
			}
		}
	}
}

func (g *G) item3() {
	// server victims: rich client flights (certificate requested and presented, tickets, NPN)
	for _, role := range []string{"sg", "sa", "st"} {
		c := vcfg{auth: 4, cc: true, tk: true, np: true}
		for _, mode := range modesOf(role) {
			fl := g.serverFlight(mode, c, 0)
			if mode == "g" {
				fl[0] = litItem(chMsg(0x0101, gmSuites, "ctNS"))
			} else {
				fl[0] = litItem(chMsg(0x0303, tlsDefault, "cEGrStNOC"))
			}
			// NextProtocol and Finished once in clear before the CCS (parsed by readHandshake) and once after it
			pre := concat(fl[:len(fl)-1], []item{npn(), g.junkFIN()}, fl[len(fl)-1:])
			post := concat(fl, []item{npn(), g.junkFIN()})
			for k := range fl[:len(fl)-1] {
				g.mutations(role, c, fl, k, mode == "t")
			}
			for _, f := range [][]item{pre, post} {
				for k := range f {
					if !f[k].raw && (strings.HasPrefix(f[k].spec, "x43") || strings.HasPrefix(f[k].spec, "x14")) {
						g.mutations(role, c, f, k, mode == "t")
					}
				}
			}
			// a ClientHello with ALPN instead of NPN
			if mode == "t" {
				alt := append([]item{litItem(chMsg(0x0303, tlsDefault, "cEGrA"))}, fl[1:]...)
				g.mutations(role, c, alt, 0, true)
			}
		}
	}
	// client victims
	for _, role := range []string{"cg", "ct"} {
		c := vcfg{cc: true, tk: true}
		variants := []string{""}
		flags := "r"
		if role == "ct" {
			variants = []string{"", "e"}
			flags = "rO"
		}
		for _, v := range variants {
			fl := g.clientFlight(role, c, v, true, flags)
			pre := concat(fl[:len(fl)-1], []item{g.junkFIN()}, fl[len(fl)-1:])
			post := concat(fl, []item{g.junkFIN()})
			for k := range fl[:len(fl)-1] {
				g.mutations(role, c, fl, k, role == "ct")
			}
			g.mutations(role, c, pre, len(pre)-2, role == "ct")
			g.mutations(role, c, post, len(post)-1, role == "ct")
		}
		if role == "ct" {
			// TLS 1.0 CertificateRequest layout (no signature algorithms), ALPN/NPN ServerHello variants
			c2 := vcfg{cc: true}
			fl := []item{litItem(shMsg(0x0301, 0x002f, "")), hsItem("cert,rsa"), hsItem("crt,0,2"), shd(), ccs()}
			g.mutations(role, c2, fl, 2, false)
		}
	}
}

// ---------------------------------------------------------------------------------------------
// item 4: versions and suites

func (g *G) versionList() []uint16 {
	seen := map[uint16]bool{}
	var out []uint16
	add := func(v int) {
		if v >= 0 && v <= 0xffff && !seen[uint16(v)] {
			seen[uint16(v)] = true
			out = append(out, uint16(v))
		}
	}
	if g.thorough() {
		for v := 0; v <= 0x400; v++ {
			add(v)
		}
	} else {
		for v := 0; v <= 0x400; v += 7 {
			add(v)
		}
	}
	add(0)
	add(1)
	for v := 0x00ff; v <= 0x0104; v++ {
		add(v)
	}
	for v := 0x01ff; v <= 0x0201; v++ {
		add(v)
	}
	for v := 0x02fe; v <= 0x0305; v++ {
		add(v)
	}
	for _, v := range []int{0x03ff, 0x0400, 0x0401, 0x7fff, 0x8000, 0xfffe, 0xffff} {
		add(v)
	}
	return out
}

func (g *G) item4() {
	vers := g.versionList()
	lists := []struct {
		name   string
		suites []uint16
		kx     string // g: GM ECC, r: RSA, e: ECDHE, - : by role
	}{
		{"gmecc", gmSuites, "g"}, {"gmdhe", gmDHE, "-"}, {"tlsrsa", tlsRSA, "r"}, {"tlsecdhe", tlsECDHE, "e"},
		{"mixed", []uint16{0xe013, 0x002f, 0xc02f, 0xe053, 0xc013, 0x009c}, "-"}, {"unknown", []uint16{0x1301, 0xfafa}, "-"},
		{"empty", nil, "-"}, {"scsv", []uint16{0x5600, 0xe013, 0x002f, 0xc02f}, "-"},
	}
	for _, role := range []string{"sg", "sa", "st"} {
		for _, v := range vers {
			for _, l := range lists {
				kx := l.kx
				if kx == "-" {
					switch {
					case role == "sg", role == "sa" && v == 0x0101:
						kx = "g"
					default:
						kx = "r"
					}
				}
				fl := []item{litItem(chMsg(v, l.suites, "cEGr"))}
				switch kx {
				case "g":
					fl = append(fl, hsItem("ckxg,good"))
				case "r":
					fl = append(fl, hsItem("ckxr,good"))
				case "e":
					fl = append(fl, g.ecdheCKX())
				}
				g.S(role, vcfg{}, append(fl, ccs(), g.junkFIN()))
			}
		}
	}
	shSuites := []uint16{0xe013, 0xe011, 0x002f, 0xc02f, 0xc014, 0x1301, 0x0000, 0x5600}
	if g.thorough() {
		shSuites = append(shSuites, 0xe053, 0xe051, 0xc013, 0x009c, 0xfafa)
	}
	for _, role := range []string{"cg", "ct"} {
		for _, v := range vers {
			for _, s := range shSuites {
				fl := []item{litItem(shMsg(v, s, ""))}
				if role == "cg" {
					fl = append(fl, hsItem("cert,sig.enc"), hsItem("skx,good"))
				} else {
					fl = append(fl, hsItem("cert,rsa"))
					if s&0xff00 == 0xc000 {
						fl = append(fl, hsItem("skxe,rsa"))
					}
				}
				g.S(role, vcfg{}, append(fl, shd(), ccs(), g.junkFIN()))
			}
		}
	}
}

// ---------------------------------------------------------------------------------------------
// item 5: random sequences over all tokens

var verPool = []uint16{0x0101, 0x0303, 0x0301, 0x0302, 0x0300, 0x0304, 0x0100, 0x0102, 0x0200, 0x0000, 0xffff, 0x0303, 0x0101}
var suitePool = []uint16{0xe013, 0xe053, 0xe011, 0xe051, 0x002f, 0x0035, 0x009c, 0xc02f, 0xc013, 0xc02b, 0xc009, 0x1301, 0xfafa, 0x5600, 0x00ff, 0x0005, 0xc011}
var certNames = []string{"sig", "enc", "auth", "rsa", "rsaauth", "ca", "bad", "p256"}
var alertDescs = []byte{0, 10, 20, 40, 42, 46, 47, 48, 70, 80, 90, 100, 255}

func (g *G) pickFlags(set string) string {
	var b []byte
	for i := 0; i < len(set); i++ {
		if g.r.Intn(3) == 0 {
			b = append(b, set[i])
		}
	}
	return string(b)
}

func (g *G) randSuites() []uint16 {
	n := g.r.Pick([]int{0, 1, 1, 2, 3, 4, 6})
	s := make([]uint16, n)
	for i := range s {
		s[i] = suitePool[g.r.Intn(len(suitePool))]
	}
	return s
}

func (g *G) randItem(role string) []item {
	ver := func() uint16 { return verPool[g.r.Intn(len(verPool))] }
	cls3 := []string{"good", "key2", "short"}
	var it item
	switch g.r.Intn(30) {
	case 0, 1:
		f := "c"
		if g.r.Intn(8) == 0 {
			f = g.pickFlags("cz")
		}
		it = litItem(chMsg(ver(), g.randSuites(), f+g.pickFlags("RrTtNAEeOSGCI")))
	case 2, 3:
		it = litItem(shMsg(ver(), suitePool[g.r.Intn(len(suitePool))], g.pickFlags("RrTNAOI")+[]string{"", "", "", "", "", "z"}[g.r.Intn(6)]))
	case 4, 5:
		n := g.r.Pick([]int{0, 1, 1, 2, 2, 2, 3, 4})
		if n == 0 {
			it = hsItem("cert,-")
		} else {
			names := make([]string, n)
			for i := range names {
				names[i] = certNames[g.r.Intn(len(certNames))]
			}
			it = hsItem("cert," + strings.Join(names, "."))
		}
	case 6:
		it = hsItem("skx," + []string{"good", "rnd", "enc2", "key2"}[g.r.Intn(4)])
	case 7:
		it = g.junkSKX(g.r.Bool())
	case 8:
		it = hsItem("skxe," + []string{"rsa", "p256"}[g.r.Intn(2)])
	case 9:
		if g.r.Bool() {
			it = hsItem(fmt.Sprintf("crg,%d", g.r.Intn(4)))
		} else {
			it = hsItem(fmt.Sprintf("crt,%d,%d", g.r.Intn(2), g.r.Intn(4)))
		}
	case 10:
		it = shd()
	case 11:
		it = hsItem("ckxg," + cls3[g.r.Intn(3)])
	case 12:
		it = hsItem("ckxr," + cls3[g.r.Intn(3)])
	case 13:
		switch g.r.Intn(3) {
		case 0:
			it = g.junkCKX(g.r.Bool(), g.r.Pick([]int{0, 1, 40, 120, 156, 256}))
		case 1:
			it = g.ecdheCKX()
		default:
			it = litItem(gmtls.VerifMarshalClientKeyExchange(g.r.Bytes(g.r.Intn(3))))
		}
	case 14:
		it = g.junkCV(g.r.Bool())
	case 15:
		it = g.junkFIN()
	case 16:
		it = g.nst()
	case 17:
		it = g.cst()
	case 18:
		it = npn()
	case 19:
		it = hrq()
	case 20: // malformed: a known type with a short random body
		t := []byte{tCH, tSH, tNST, tCERT, tCR, tSHD, tCV, tCST, tNPN, tHRQ}[g.r.Intn(10)]
		it = litItem(hsMsg(t, g.r.Bytes(1+g.r.Intn(5))))
	case 21:
		it = g.unk()
	case 22:
		it = long()
	case 23:
		it = ccs()
	case 24:
		it = rawItem(recCCS, [][]byte{{0}, {}, {1, 1}, {2}}[g.r.Intn(4)])
	case 25, 26:
		it = alert(byte(g.r.Pick([]int{1, 1, 1, 2, 2, 0, 3, 255})), alertDescs[g.r.Intn(len(alertDescs))])
	case 27:
		it = rawItem(recAlert, g.r.Bytes(g.r.Pick([]int{0, 1, 3, 4})))
	case 28:
		it = g.app()
	default:
		it = []item{recBadType(), recTooLong(), recBadVers()}[g.r.Intn(3)]
	}
	if !it.raw {
		if g.r.Intn(10) == 0 {
			muts := []string{"K0", "K1", "K5", "D1", "D2", "A00", "A0000ff", "L0", "L1", "Lffffff", "L10001", "P4.2.ffff", "P4.1.0"}
			if strings.HasPrefix(it.spec, "x01") || strings.HasPrefix(it.spec, "x02") {
				muts = append(muts, "P38.1.21", "P38.1.20", "P4.2.0303") // session id length, version
			}
			it.muts = append(it.muts, muts[g.r.Intn(len(muts))])
		}
		if g.r.Intn(8) == 0 {
			for n := 1 + g.r.Intn(3); n > 0; n-- {
				it.frag = append(it.frag, g.r.Pick([]int{1, 2, 3, 4, 5, 6, 40, 100}))
			}
		}
		if g.r.Intn(8) == 0 {
			it.join = true
		}
	}
	return []item{it}
}

func (g *G) randCfg(role string) vcfg {
	c := vcfg{}
	if isClientRole(role) {
		c.vf, c.cc, c.tk = g.r.Intn(3) == 0, g.r.Bool(), g.r.Bool()
		if g.r.Intn(6) == 0 {
			if role == "cg" {
				c.su = [][]uint16{{0xe053}, {0xe011, 0xe051}, {0xe013, 0xe011}}[g.r.Intn(3)]
			} else {
				c.su = [][]uint16{{0xc02f}, {0x002f}, {0xc02b, 0xc013}, {0x0005}}[g.r.Intn(4)]
			}
		}
	} else {
		c.auth, c.tk, c.np = g.r.Intn(5), g.r.Bool(), g.r.Bool()
		if g.r.Intn(8) == 0 {
			c.su = [][]uint16{{0xe053}, {0xe011}, {0xc02f}, {0x002f, 0xe013}}[g.r.Intn(4)]
		}
	}
	return c
}

func (g *G) item5() {
	n := 1500
	if g.thorough() {
		n = 20000
	}
	roles := []string{"sg", "sa", "st", "cg", "ct"}
	for i := 0; i < n; i++ {
		role := roles[g.r.Intn(5)]
		c := g.randCfg(role)
		var items []item
		// half of the sequences start with an honest prefix so that the tail meets a live victim
		if g.r.Bool() {
			var fl []item
			if isClientRole(role) {
				c.su = nil
				fl = g.clientFlight(role, c, "", c.cc && g.r.Bool(), "")
			} else {
				c.su = nil
				c.cc = g.r.Bool()
				ms := modesOf(role)
				fl = g.serverFlight(ms[g.r.Intn(len(ms))], c, 0)
			}
			items = append(items, fl[:g.r.Intn(len(fl)+1)]...)
		}
		for k := 1 + g.r.Intn(12); k > 0 && len(items) < 14; k-- {
			items = append(items, g.randItem(role)...)
		}
		g.S(role, c, items)
	}
}

// ---------------------------------------------------------------------------------------------
// item 6: certificate kinds against key exchanges, certificate counts, old versions

func (g *G) item6() {
	tail := func() []item { return []item{shd(), ccs(), g.junkFIN()} }
	certSets := []string{"sig", "enc", "p256", "rsa", "bad", "sig.enc", "enc.sig", "sig.sig", "rsa.rsa", "p256.p256", "sig.rsa", "rsa.enc",
		"sig.enc.ca", "sig.enc.bad", "sig.enc.ca.ca", "auth.enc"}
	cfgs := []vcfg{{}, {vf: true}, {cc: true}}
	type tc struct {
		suite, vers uint16
	}
	tlsCombos := []tc{{0x002f, 0x0303}, {0x002f, 0x0301}, {0x009c, 0x0303}, {0xc02f, 0x0303}, {0xc014, 0x0303}, {0xc014, 0x0301}, {0xc02b, 0x0303}}
	gmSuitesC := []uint16{0xe013, 0xe011}
	skxKinds := []string{"skx,good", "skx,enc2", "skx,key2", "skx,rnd", ""}
	if g.thorough() {
		certSets = append(certSets, "rsaauth", "auth", "ca", "enc.enc", "sig.p256", "p256.enc", "bad.enc", "sig.bad", "sig.enc.rsa",
			"enc.sig.ca", "ca.sig.enc", "sig.auth", "rsa.ca", "p256.ca", "sig.ca")
		cfgs = append(cfgs, vcfg{vf: true, cc: true})
		tlsCombos = nil
		for _, su := range []uint16{0x002f, 0x0035, 0x009c, 0x000a, 0xc02f, 0xc013, 0xc014, 0xc02b, 0xc009} {
			for _, v := range []uint16{0x0303, 0x0302, 0x0301} {
				if v != 0x0303 && (su == 0x009c || su == 0xc02f || su == 0xc02b) {
					continue
				}
				tlsCombos = append(tlsCombos, tc{su, v})
			}
		}
		gmSuitesC = []uint16{0xe013, 0xe053, 0xe011, 0xe051}
		skxKinds = append(skxKinds, "skxe,p256")
	}
	for _, c := range cfgs {
		// TLS client: RSA / ECDHE-RSA / ECDHE-ECDSA suites against every certificate kind
		// (an RSA key exchange with a certificate whose key is not RSA: key_agreement.go generateClientKeyExchange)
		for _, t := range tlsCombos {
			for _, cs := range certSets {
				head := []item{litItem(shMsg(t.vers, t.suite, "")), hsItem("cert," + cs)}
				mids := [][]item{{}}
				if t.suite&0xff00 == 0xc000 {
					mids = [][]item{{hsItem("skxe,rsa")}, {hsItem("skxe,p256")}}
					if g.thorough() {
						mids = append(mids, []item{})
					}
				}
				for _, mid := range mids {
					if c.cc {
						mid = append(append([]item{}, mid...), hsItem(fmt.Sprintf("crt,%d,2", b2i(t.vers >= 0x0303))))
					}
					g.S("ct", c, concat(head, mid, tail()))
				}
			}
		}
		// GM client: every certificate set, with each kind of ServerKeyExchange
		for _, suite := range gmSuitesC {
			for _, cs := range certSets {
				for _, skx := range skxKinds {
					fl := []item{litItem(shMsg(0x0101, suite, "")), hsItem("cert," + cs)}
					if skx != "" {
						fl = append(fl, hsItem(skx))
					}
					if c.cc {
						fl = append(fl, hsItem("crg,2"))
					}
					g.S("cg", c, concat(fl, tail()))
				}
			}
		}
	}
	// TLS 1.0 / 1.1 peers (regression for the nil-PRF crash): servers st/sa and client ct
	for _, role := range []string{"st", "sa"} {
		for _, v := range []uint16{0x0300, 0x0301, 0x0302, 0x0303} {
			for _, suites := range [][]uint16{{0x002f}, {0xc013}, {0xc014}, {0xc014, 0x002f}, tlsDefault} {
				for _, auth := range []int{0, 4} {
					for _, tk := range []bool{false, true} {
						c := vcfg{auth: auth, cc: true, tk: tk}
						fl := []item{litItem(chMsg(v, suites, helloFlags("t", c, "")))}
						if auth > 0 {
							fl = append(fl, hsItem("cert,rsaauth"))
						}
						if suites[0]&0xff00 == 0xc000 {
							fl = append(fl, g.ecdheCKX())
						} else {
							fl = append(fl, hsItem("ckxr,good"))
						}
						if auth > 0 {
							fl = append(fl, g.junkCV(v >= 0x0303))
						}
						g.S(role, c, append(fl, ccs(), g.junkFIN()))
					}
				}
			}
		}
	}
	for _, v := range []uint16{0x0300, 0x0301, 0x0302, 0x0303} {
		for _, suite := range []uint16{0x002f, 0xc013, 0xc014} {
			for _, tk := range []bool{false, true} {
				for _, cc := range []bool{false, true} {
					c := vcfg{tk: tk, cc: cc}
					f := ""
					if tk {
						f = "T"
					}
					fl := []item{litItem(shMsg(v, suite, f)), hsItem("cert,rsa")}
					if suite == 0xc014 && v >= 0x0303 {
						fl = append(fl, hsItem("skxe,rsa"))
					}
					if cc {
						fl = append(fl, hsItem(fmt.Sprintf("crt,%d,2", b2i(v >= 0x0303))))
					}
					fl = append(fl, shd())
					if tk {
						fl = append(fl, g.nst())
					}
					g.S("ct", c, append(fl, ccs(), g.junkFIN()))
				}
			}
		}
	}
	// server victims: client certificate kinds under every ClientAuth policy
	for _, role := range []string{"sg", "sa", "st"} {
		for auth := 0; auth <= 4; auth++ {
			for _, cs := range []string{"-", "auth", "rsaauth", "sig", "rsa", "p256", "bad", "ca", "auth.ca", "rsaauth.ca", "auth.bad", "enc"} {
				for _, mode := range modesOf(role) {
					c := vcfg{auth: auth, cc: cs != "-"}
					fl := []item{goodCH(mode, c, 0), hsItem("cert," + cs)}
					if mode == "g" {
						fl = append(fl, hsItem("ckxg,good"), g.junkCV(false))
					} else {
						fl = append(fl, hsItem("ckxr,good"), g.junkCV(true))
					}
					g.S(role, c, append(fl, ccs(), g.junkFIN()))
				}
			}
		}
	}
	// victims restricted to one suite
	for _, su := range [][]uint16{{0xe013}, {0xe053}, {0xe011}, {0xe051}, {0xe011, 0xe051}} {
		c := vcfg{su: su}
		for _, skx := range []string{"skx,good", "skxe,p256", "skxe,rsa"} {
			g.S("cg", c, concat([]item{litItem(shMsg(0x0101, su[0], "")), hsItem("cert,sig.enc"), hsItem(skx)}, tail()))
		}
		g.S("sg", c, []item{litItem(chMsg(0x0101, []uint16{0xe013, 0xe053, 0xe011, 0xe051}, "c")), hsItem("ckxg,good"), ccs(), g.junkFIN()})
		g.S("sa", c, []item{litItem(chMsg(0x0101, []uint16{0xe013, 0xe053, 0xe011, 0xe051}, "c")), hsItem("ckxg,good"), ccs(), g.junkFIN()})
	}
	for _, su := range [][]uint16{{0x002f}, {0xc02f}, {0xc013}, {0x009c}, {0xc02b}, {0x0005}, {0xe013}} {
		c := vcfg{su: su}
		g.S("ct", c, concat([]item{litItem(shMsg(0x0303, su[0], "")), hsItem("cert,rsa"), hsItem("skxe,rsa")}, tail()))
		g.S("ct", c, concat([]item{litItem(shMsg(0x0303, su[0], "")), hsItem("cert,rsa")}, tail()))
		for _, role := range []string{"st", "sa"} {
			g.S(role, c, []item{litItem(chMsg(0x0303, tlsDefault, "cEGr")), hsItem("ckxr,good"), ccs(), g.junkFIN()})
			g.S(role, c, []item{litItem(chMsg(0x0303, tlsDefault, "cEGr")), g.ecdheCKX(), ccs(), g.junkFIN()})
		}
	}
}

// ---------------------------------------------------------------------------------------------
// H cases

func (g *G) hCases() {
	emit := func(pair string, c vcfg) { g.emit("H", pair+" "+c.hString()) }
	for _, pair := range []string{"gg", "ga", "ta", "tt", "tg", "gt"} {
		suites := []uint16{0xe013, 0xe053}
		if pair[0] == 't' {
			suites = []uint16{0x002f, 0xc02f, 0xc013, 0x009c}
		}
		for auth := 0; auth <= 4; auth++ {
			for _, cc := range []bool{false, true} {
				for _, su := range suites {
					for _, tk := range []bool{false, true} {
						for _, rs := range []bool{false, true} {
							emit(pair, vcfg{auth: auth, su: []uint16{su}, cc: cc, vf: true, tk: tk, rs: rs})
						}
					}
				}
			}
		}
		// default suites, no verification, NPN/ALPN
		for _, auth := range []int{0, 4} {
			for _, np := range []bool{false, true} {
				for _, rs := range []bool{false, true} {
					emit(pair, vcfg{auth: auth, cc: true, vf: false, tk: true, np: np, rs: rs})
				}
			}
		}
	}
	// TLS 1.0 / 1.1 / 1.2 clients (MaxVersion)
	for _, pair := range []string{"tt", "ta"} {
		for _, mv := range []uint16{0, 0x0301, 0x0302, 0x0303} {
			for _, su := range []uint16{0x002f, 0xc013, 0xc014, 0x009c, 0xc02f} {
				if (su == 0x009c || su == 0xc02f) && mv != 0 && mv != 0x0303 {
					continue
				}
				for _, auth := range []int{0, 4} {
					for _, tk := range []bool{false, true} {
						for _, rs := range []bool{false, true} {
							emit(pair, vcfg{auth: auth, su: []uint16{su}, cc: true, vf: true, tk: tk, rs: rs, mv: mv})
						}
					}
				}
			}
		}
	}
}

// ---------------------------------------------------------------------------------------------
// V cases

func (g *G) vCases() {
	vers := g.versionList()
	if g.thorough() {
		seen := map[uint16]bool{}
		for _, v := range vers {
			seen[v] = true
		}
		for v := 0x401; v <= 0xffff; v += 13 {
			if !seen[uint16(v)] {
				vers = append(vers, uint16(v))
			}
		}
	}
	for _, role := range []string{"sg", "sa", "st"} {
		for _, v := range vers {
			for _, set := range []string{"gm", "tls", "mix"} {
				g.emit("V", fmt.Sprintf("%s %04x %s", role, v, set))
			}
		}
	}
}

// ---------------------------------------------------------------------------------------------
// parser cases

// detReader: a deterministic byte stream for the genuine signatures / ciphertexts that are part of
// PK / PS case lines (sm2.Encrypt and sm2 Sign draw from the reader they are given, nothing else).
type detReader struct{ r *hx.Rng }

func (d detReader) Read(p []byte) (int, error) {
	copy(p, d.r.Bytes(len(p)))
	return len(p), nil
}

func (g *G) genuineCKX(n int) []byte {
	pms := g.r.Bytes(n)
	ct, err := sm2.Encrypt(sm2PubOf(E.enc.Certificate[0]), pms, detReader{g.r}, sm2.C1C3C2)
	if err != nil {
		die("sm2.Encrypt: %v", err)
	}
	out, err := sm2.CipherMarshal(ct)
	if err != nil {
		die("sm2.CipherMarshal: %v", err)
	}
	return out
}

func skxDigest(cr, sr, encDER []byte) []byte {
	d := append(append([]byte{}, cr...), sr...)
	d = append(d, byte(len(encDER)>>16), byte(len(encDER)>>8), byte(len(encDER)))
	return append(d, encDER...)
}

func (g *G) genuineSig(cr, sr, encDER []byte, key *sm2.PrivateKey) []byte {
	sig, err := key.Sign(detReader{g.r}, skxDigest(cr, sr, encDER), nil)
	if err != nil {
		die("sm2 Sign: %v", err)
	}
	return sig
}

func (g *G) smallBodies(emit func(b []byte)) {
	alpha := []byte{0, 1, 2, 0xff}
	var rec func(p []byte, n int)
	rec = func(p []byte, n int) {
		if n == 0 {
			emit(p)
			return
		}
		for _, a := range alpha {
			rec(append(append([]byte{}, p...), a), n-1)
		}
	}
	for n := 0; n <= 6; n++ {
		rec(nil, n)
	}
}

func (g *G) prefixVariants(payload []byte, emit func(b []byte, exact bool)) {
	n := len(payload)
	for _, p := range []int{n, n - 1, n + 1, 0, 0xffff, n + 256, n ^ 0x100} {
		if p < 0 {
			continue
		}
		p &= 0xffff
		emit(append([]byte{byte(p >> 8), byte(p)}, payload...), p == n)
	}
}

func (g *G) pCases() {
	nRand, nGen := 300, 40
	if g.thorough() {
		nRand, nGen = 5000, 400
	}
	// PK
	g.smallBodies(func(b []byte) { g.emit("PK", hx.Hex(b)+" 0") })
	for i := 0; i < nRand; i++ {
		b := g.r.Bytes(g.r.Pick([]int{2, 3, 8, 40, 100, 158, 160, 300}))
		if g.r.Bool() && len(b) >= 2 {
			b[0], b[1] = byte((len(b)-2)>>8), byte(len(b)-2)
		}
		g.emit("PK", hx.Hex(b)+" 0")
	}
	for i := 0; i < nGen; i++ {
		n := 48
		if i%5 == 4 {
			n = g.r.Pick([]int{1, 47, 49, 64})
		}
		ct := g.genuineCKX(n)
		g.prefixVariants(ct, func(b []byte, exact bool) { g.emit("PK", fmt.Sprintf("%s %d", hx.Hex(b), b2i(exact && n == 48))) })
		// trailing bytes behind the ciphertext, damaged ciphertext, ciphertext to another key
		long := append(append([]byte{}, ct...), g.r.Bytes(1+g.r.Intn(200))...)
		g.emit("PK", hx.Hex(prefixed(long))+" 0")
		bad := append([]byte{}, ct...)
		bad[g.r.Intn(len(bad))] ^= byte(1 + g.r.Intn(255))
		g.emit("PK", hx.Hex(prefixed(bad))+" 0")
		g.emit("PK", hx.Hex(prefixed(ct[:g.r.Intn(len(ct))]))+" 0")
	}
	// PS
	g.smallBodies(func(b []byte) { g.emit("PS", hx.Hex(b)+" 0") })
	for i := 0; i < nRand; i++ {
		b := g.r.Bytes(g.r.Pick([]int{3, 8, 40, 72, 73, 74, 100}))
		if g.r.Bool() {
			b[0], b[1] = byte((len(b)-2)>>8), byte(len(b)-2)
		}
		g.emit("PS", hx.Hex(b)+" 0")
	}
	sigKey := E.sig.PrivateKey.(*sm2.PrivateKey)
	authKey := E.auth.PrivateKey.(*sm2.PrivateKey)
	for i := 0; i < nGen; i++ {
		sig := g.genuineSig(h11(), h22(), E.enc.Certificate[0], sigKey)
		g.prefixVariants(sig, func(b []byte, exact bool) { g.emit("PS", fmt.Sprintf("%s %d", hx.Hex(b), b2i(exact))) })
		for _, other := range [][]byte{
			g.genuineSig(h22(), h11(), E.enc.Certificate[0], sigKey),  // other randoms
			g.genuineSig(h11(), h22(), E.sig.Certificate[0], sigKey),  // other certificate
			g.genuineSig(h11(), h22(), E.enc.Certificate[0], authKey), // other key
			append(append([]byte{}, sig...), 0),                       // trailing byte
			sig[:len(sig)-1],
		} {
			g.emit("PS", hx.Hex(prefixed(other))+" 0")
		}
		bad := append([]byte{}, sig...)
		bad[g.r.Intn(len(bad))] ^= byte(1 + g.r.Intn(255))
		g.emit("PS", hx.Hex(prefixed(bad))+" 0")
	}
	// PR
	g.smallBodies(func(b []byte) {
		if len(b) <= 4 || g.thorough() {
			g.emit("PR", hx.Hex(b))
		}
	})
	g.smallBodies(func(b []byte) {
		if len(b) >= 1 {
			g.emit("PR", hx.Hex(hsMsg(tCR, b)))
		}
	})
	cas := [][]byte{E.dnSM2, E.dnRSA, {0x30, 0x00}, {}}
	for n := 0; n <= 3; n++ {
		for _, types := range [][]byte{{1}, {1, 64}, {1, 2, 64, 80}} {
			for _, pick := range [][]int{{0, 1, 2}, {2, 3, 2}, {3, 3, 3}} {
				var l [][]byte
				for i := 0; i < n; i++ {
					l = append(l, cas[pick[i]])
				}
				m := gmtls.VerifMarshalCertificateRequestGM(types, l)
				g.emit("PR", hx.Hex(m))
				if len(l) > 0 && len(l[0]) > 10 && !g.thorough() && pick[0] != 2 {
					// long DNs: sampled truncations only
					for _, k := range g.truncLens(len(m) - 4) {
						g.emit("PR", hx.Hex(applyMut(m, fmt.Sprintf("K%d", k))))
						g.emit("PR", hx.Hex(m[:4+k]))
					}
				} else {
					for k := 0; k < len(m)-4; k++ {
						g.emit("PR", hx.Hex(applyMut(m, fmt.Sprintf("K%d", k)))) // consistent header
						g.emit("PR", hx.Hex(m[:4+k]))                            // header left alone
					}
				}
				g.emit("PR", hx.Hex(append(append([]byte{}, m...), 0)))
				g.emit("PR", hx.Hex(applyMut(m, "A00")))
				fields := append([]field{{1, 3}}, lengthFields(m, true, false)...)
				for _, f := range fields {
					v := be(m, f)
					max := 1<<(8*uint(f.w)) - 1
					for _, nv := range []int{0, v - 1, v + 1, max, v + 2} {
						if nv >= 0 && nv <= max && nv != v {
							g.emit("PR", hx.Hex(applyMut(m, fmt.Sprintf("P%d.%d.%x", f.off, f.w, nv))))
						}
					}
				}
			}
		}
	}
	for i := 0; i < nRand; i++ {
		b := g.r.Bytes(g.r.Intn(40))
		if g.r.Bool() {
			b = hsMsg(tCR, b)
		}
		g.emit("PR", hx.Hex(b))
	}
	// PH
	nPH := 250
	if g.thorough() {
		nPH = 2500
	}
	bodyLens := []int{0, 1, 3, 4, 5, 100, 16384, 65535, 65536, 65537}
	for i := 0; i < nPH; i++ {
		var stream []byte
		nm := 1 + g.r.Intn(4)
		for k := 0; k < nm; k++ {
			n := bodyLens[g.r.Intn(len(bodyLens))]
			if n > 1000 && g.r.Intn(4) != 0 {
				n = bodyLens[g.r.Intn(6)]
			}
			typ := byte(tFIN)
			switch g.r.Intn(12) {
			case 0:
				typ = byte(g.r.Pick([]int{tHRQ, tSHD, tSKX, tCKX, tNST, tCERT, 99, 3, 255}))
			}
			body := make([]byte, n) // zeros: keeps the case line short and compressible
			if n <= 100 {
				body = g.r.Bytes(n)
			}
			stream = append(stream, hsMsg(typ, body)...)
		}
		switch g.r.Intn(6) {
		case 0: // truncated stream
			stream = stream[:g.r.Intn(len(stream)+1)]
		case 1: // trailing partial header
			stream = append(stream, g.r.Bytes(1+g.r.Intn(3))...)
		}
		hand0 := []byte{}
		if g.r.Intn(3) == 0 {
			k := g.r.Intn(8)
			if k > len(stream) {
				k = len(stream)
			}
			hand0, stream = stream[:k], stream[k:]
		}
		var recs [][]byte
		for len(stream) > 0 {
			n := g.r.Pick([]int{0, 1, 2, 3, 4, 5, 7, 100, 1000, 16384, 16384, 16384})
			if len(stream) < 200 {
				n = g.r.Pick([]int{0, 1, 1, 2, 3, 4, 5, 8, 200})
			}
			if n > len(stream) {
				n = len(stream)
			}
			recs = append(recs, stream[:n])
			stream = stream[n:]
		}
		if g.r.Intn(4) == 0 {
			recs = append(recs, []byte{})
		}
		if g.r.Intn(40) == 0 {
			recs = append(recs, make([]byte, 16385)) // record overflow
		}
		g.emit("PH", hx.Hex(hand0)+" "+hx.HexList(recs))
	}
	// readHandshake length boundary, exactly
	for _, n := range []int{65535, 65536, 65537, 0xffffff} {
		g.emit("PH", hx.Hex([]byte{tFIN, byte(n >> 16), byte(n >> 8), byte(n)})+" -")
	}
}

// ---------------------------------------------------------------------------------------------

func gen(seed uint64, tier string, o *hx.Out) {
	g := &G{r: hx.NewRng(seed), o: o, tier: tier, stats: map[string]int{}, pmSeen: map[string]bool{}, pwSeen: map[string]bool{}}
	steps := []struct {
		name string
		f    func()
	}{{"item1", g.item1}, {"item2", g.item2}, {"item2b", g.item2b}, {"item3", func() { g.pmOn = true; g.item3(); g.pmOn = false }}, {"item4", g.item4}, {"item5", g.item5}, {"item6", g.item6}, {"stall", g.stallCases}, {"item7", func() { g.pmOn = true; g.item7(); g.pmOn = false }}, {"R", g.rCases},
		{"H", g.hCases}, {"V", g.vCases}, {"P", g.pCases}, {"PM", g.pmCases}, {"PW", g.pwCases}, {"R7", g.r7Cases}, {"PE", g.peCases}, {"R8", g.r8Cases}, {"R9", g.r9Cases}, {"R10", g.r10Cases}, {"R11", g.r11Cases}, {"R12", g.r12Cases}, {"VG", g.vgCases}}
	for _, s := range steps {
		t0, n0 := time.Now(), g.id
		s.f()
		g.flush()
		if os.Getenv("C15_TIMING") != "" {
			fmt.Fprintf(os.Stderr, "c15 gen: %-6s %7d cases %6.1fs (run %.1fs)\n", s.name, g.id-n0, time.Since(t0).Seconds(), g.runTime.Seconds())
		}
	}
	if os.Getenv("C15_TIMING") != "" {
		fmt.Fprintf(os.Stderr, "c15 gen: totals %v\n", g.stats)
	}
}
