package main

// Round 12: ClientKeyExchange variants with inconsistent length fields (R cases) and the version sweep with
// Config callbacks set (case kind VG).

import (
	"fmt"

	"github.com/tjfoc/gmsm/gmtls"
	"verifharness/internal/hx"
)

// ckxVariant: the genuine body (2-byte length, SM2 ciphertext) with trailing bytes / a perturbed inner length.
func ckxVariant(name string, body []byte) []byte {
	b := append([]byte{}, body...)
	inner := func(d int) {
		v := int(b[0])<<8 | int(b[1]) + d
		b[0], b[1] = byte(v>>8), byte(v)
	}
	switch name {
	case "CKXT1":
		b = append(b, 0x00)
	case "CKXT2":
		b = append(b, 0x00, 0x00)
	case "CKXT16":
		b = append(b, make([]byte, 16)...)
	case "CKXL+1":
		inner(1)
	case "CKXL-1":
		inner(-1)
	case "CKXH+1": // one more byte, both lengths say so
		b = append(b, 0x00)
		inner(1)
	}
	return b
}

func (g *G) r12Cases() {
	for _, victim := range []string{"sg", "sa"} {
		for _, suite := range []string{"e013", "e053"} {
			for _, v := range []string{"CKXT1", "CKXT2", "CKXT16", "CKXL+1", "CKXL-1", "CKXH+1"} {
				g.emit("R", fmt.Sprintf("%s %s auth=0,cc=0,tk=0 0101 CH/%s|CCS|FIN", victim, suite, v))
			}
		}
	}
}

// ---------------------------------------------------------------------------------------------
// VG: the V case against a server whose Config has callbacks set
//   VG <id> <role> <vers> <suiteset> <cb>    cb: gcc (GetConfigForClient -> nil, nil), gc (GetCertificate -> nil, nil; for the
//   GMSSL-only server also GetKECertificate -> nil, nil; the auto-switch config keeps its own certificate callbacks, which it
//   cannot work without), both.   obs: acc <vers> <suite> | rej | PANIC

func runVG(role string, vers uint16, set, cb string) string {
	suites, ok := suiteSets[set]
	if !ok || isClientRole(role) {
		return "BADCASE"
	}
	cfg := victimConfig(role, vcfg{})
	if cb == "gcc" || cb == "both" {
		cfg.GetConfigForClient = func(*gmtls.ClientHelloInfo) (*gmtls.Config, error) { return nil, nil }
	}
	if (cb == "gc" || cb == "both") && role != "sa" {
		cfg.GetCertificate = func(*gmtls.ClientHelloInfo) (*gmtls.Certificate, error) { return nil, nil }
		if role == "sg" {
			cfg.GetKECertificate = func(*gmtls.ClientHelloInfo) (*gmtls.Certificate, error) { return nil, nil }
		}
	}
	if cb != "gcc" && cb != "gc" && cb != "both" {
		return "BADCASE"
	}
	items := []item{litItem(vHello(vers, suites))}
	x := newCtx(role, vcfg{}, items, false)
	conn := &sconn{x: x, items: items}
	x.written = func() []byte { return conn.written }
	v := gmtls.Server(conn, cfg)
	res, _ := hx.Guard(sDeadline, func() string {
		if err := v.Handshake(); err != nil {
			return "err"
		}
		return "ok"
	})
	if res == "PANIC" || res == "HANG" {
		return res
	}
	if sv, s, ok := victimServerHello(conn.written); ok {
		return fmt.Sprintf("acc %04x %04x", sv, s)
	}
	return "rej"
}

func (g *G) vgCases() {
	vers := g.versionList()
	need := map[uint16]bool{0x0000: true, 0x0100: true, 0x0101: true, 0x0200: true, 0x02fe: true, 0x02ff: true, 0x0300: true}
	for _, v := range vers {
		delete(need, v)
	}
	for _, v := range []uint16{0x0000, 0x0100, 0x0101, 0x0200, 0x02fe, 0x02ff, 0x0300} {
		if need[v] {
			vers = append(vers, v)
		}
	}
	for _, role := range []string{"st", "sa", "sg"} {
		for _, v := range vers {
			for _, set := range []string{"gm", "tls", "mix"} {
				for _, cb := range []string{"gcc", "gc", "both"} {
					g.emit("VG", fmt.Sprintf("%s %04x %s %s", role, v, set, cb))
				}
			}
		}
	}
}
