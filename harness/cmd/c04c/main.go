// Consumer leg for C04: SM3 obtained through the x509 hash registry (x509.SM3.New(), exported API, no hook).
//
//	c04c gen  <seed> <tier> <cases-out> <obs-out>
//	c04c run  <cases-in> <obs-out>
//
// Case lines:
//
//	U id ops            interleaved history over SEVERAL live hash objects; ops comma separated:
//	                      N<i>:x | N<i>:s   object i = x509.SM3.New() | sm3.New()   (again later = a new object in slot i)
//	                      W<i>:<hex>        object i .Write (the driver scribbles over its buffer afterwards)
//	                      S<i>:<kind>:<hex> object i .Sum(prefix); kind n = nil, c = the bytes with capacity 64
//	                      R<i>              object i .Reset
//	                    every object's digests must be SM3 of what was written to THAT object
//	V id key msg        hmac.New(x509.SM3.New, key); Write(msg); Sum(nil)
//	Q id pw salt iter n pbkdf2.Key(pw, salt, iter, n, x509.SM3.New)
//
// Observations:  id ok <per op: n | w<n> | s<hex>/<1 if the prefix bytes are intact> | r>  |  id ok <hex>  |  id PANIC | id HANG
package main

import (
	"bytes"
	"crypto/hmac"
	"encoding/hex"
	"fmt"
	"hash"
	"os"
	"strconv"
	"strings"
	"time"

	"github.com/tjfoc/gmsm/sm3"
	"github.com/tjfoc/gmsm/x509"
	"golang.org/x/crypto/pbkdf2"
	"verifharness/internal/hx"
)

func hexOrDot(b []byte) string {
	if len(b) == 0 {
		return "."
	}
	return hex.EncodeToString(b)
}
func unHexDot(s string) []byte {
	if s == "." || s == "-" || s == "" {
		return []byte{}
	}
	return hx.UnHex(s)
}

func runMulti(ops string) string {
	objs := map[int]hash.Hash{}
	var outs []string
	for _, o := range strings.Split(ops, ",") {
		f := strings.Split(o, ":")
		if len(f[0]) < 2 {
			return "BADCASE"
		}
		idx, err := strconv.Atoi(f[0][1:])
		if err != nil {
			return "BADCASE"
		}
		if f[0][0] == 'N' {
			if f[1] == "x" {
				objs[idx] = x509.SM3.New()
			} else {
				objs[idx] = sm3.New()
			}
			outs = append(outs, "n")
			continue
		}
		h, ok := objs[idx]
		if !ok {
			return "BADCASE"
		}
		switch f[0][0] {
		case 'W':
			buf := unHexDot(f[1])
			n, _ := h.Write(buf)
			for i := range buf {
				buf[i] ^= 0xff
			}
			outs = append(outs, fmt.Sprintf("w%d", n))
		case 'S':
			orig := unHexDot(f[2])
			var in []byte
			if f[1] == "c" {
				in = make([]byte, len(orig), 64)
				copy(in, orig)
			}
			res := h.Sum(in)
			kept := 0
			if bytes.Equal(in, orig) {
				kept = 1
			}
			outs = append(outs, "s"+hex.EncodeToString(res)+"/"+strconv.Itoa(kept))
		case 'R':
			h.Reset()
			outs = append(outs, "r")
		default:
			return "BADCASE"
		}
	}
	return "ok " + strings.Join(outs, ",")
}

func runCase(line string) string {
	f := strings.Split(line, " ")
	id := f[1]
	res, _ := hx.Guard(60*time.Second, func() string {
		switch f[0] {
		case "U":
			return runMulti(f[2])
		case "V":
			h := hmac.New(x509.SM3.New, unHexDot(f[2]))
			h.Write(unHexDot(f[3]))
			return "ok " + hex.EncodeToString(h.Sum(nil))
		case "Q":
			iter, _ := strconv.Atoi(f[4])
			n, _ := strconv.Atoi(f[5])
			return "ok " + hx.Hex(pbkdf2.Key(unHexDot(f[2]), unHexDot(f[3]), iter, n, x509.SM3.New))
		}
		return "BADCASE"
	})
	return id + " " + res
}

var wlens = []int{0, 1, 55, 56, 63, 64, 65, 128, 200}

func genMulti(r *hx.Rng, maxOps int) string {
	k := 2 + r.Intn(2)
	kindOf := func() string {
		if r.Intn(4) == 0 {
			return "s"
		}
		return "x"
	}
	ops := []string{"N0:" + kindOf()}
	live := 1
	n := 4 + r.Intn(maxOps)
	for i := 0; i < n; i++ {
		if live < k && r.Intn(3) == 0 {
			ops = append(ops, fmt.Sprintf("N%d:%s", live, kindOf()))
			live++
			continue
		}
		o := r.Intn(live)
		switch c := r.Intn(12); {
		case c < 6:
			ops = append(ops, fmt.Sprintf("W%d:%s", o, hexOrDot(r.Bytes(r.Pick(wlens)))))
		case c < 10:
			if r.Bool() {
				ops = append(ops, fmt.Sprintf("S%d:n:.", o))
			} else {
				ops = append(ops, fmt.Sprintf("S%d:c:%s", o, hexOrDot(r.Bytes(3))))
			}
		case c < 11:
			ops = append(ops, fmt.Sprintf("R%d", o))
		default: // a new object in an old slot
			ops = append(ops, fmt.Sprintf("N%d:%s", o, kindOf()))
		}
	}
	// look at every live object at the end
	for o := 0; o < live; o++ {
		ops = append(ops, fmt.Sprintf("S%d:n:.", o))
	}
	return strings.Join(ops, ",")
}

func gen(seed uint64, tier string, o *hx.Out) {
	r := hx.NewRng(seed ^ 0xc04c)
	nU, maxOps, nV := 120, 10, 20
	if tier == "thorough" {
		nU, maxOps, nV = 1200, 30, 200
	}
	id := 0
	emit := func(line string) {
		o.Case(line)
		o.Obs(runCase(line))
	}
	next := func() int { id++; return id }
	// the shortest witnesses first: two objects from the registry, the second created after the first was written to
	emit(fmt.Sprintf("U %d N0:x,W0:616263,N1:x,S0:n:.,W1:64,S1:n:.,S0:n:.", next()))
	emit(fmt.Sprintf("U %d N0:x,N1:x,W0:61,W1:62,S0:n:.,S1:n:.", next()))
	emit(fmt.Sprintf("U %d N0:x,W0:616263,N1:s,N2:x,S0:c:010203,S2:n:.,S1:n:.", next()))
	for i := 0; i < nU; i++ {
		emit(fmt.Sprintf("U %d %s", next(), genMulti(r, maxOps)))
	}
	for _, kl := range []int{0, 1, 63, 64, 65, 200} {
		for _, ml := range []int{0, 1, 55, 64, 200} {
			emit(fmt.Sprintf("V %d %s %s", next(), hexOrDot(r.Bytes(kl)), hexOrDot(r.Bytes(ml))))
		}
	}
	for i := 0; i < nV; i++ {
		emit(fmt.Sprintf("V %d %s %s", next(), hexOrDot(r.Bytes(r.Intn(200))), hexOrDot(r.Bytes(r.Intn(500)))))
	}
	for _, pl := range []int{0, 1, 64, 65} {
		for _, it := range []int{1, 2} {
			for _, dk := range []int{1, 32, 33, 100} {
				emit(fmt.Sprintf("Q %d %s %s %d %d", next(), hexOrDot(r.Bytes(pl)), hexOrDot(r.Bytes(r.Intn(21))), it, dk))
			}
		}
	}
}

func main() {
	if len(os.Args) >= 6 && os.Args[1] == "gen" {
		seed, _ := strconv.ParseUint(os.Args[2], 10, 64)
		o := hx.NewOut(os.Args[4], os.Args[5])
		gen(seed, os.Args[3], o)
		o.Close()
		return
	}
	if len(os.Args) >= 4 && os.Args[1] == "run" {
		o := hx.NewOut(os.DevNull, os.Args[3])
		for _, l := range hx.ReadLines(os.Args[2]) {
			o.Obs(runCase(l))
		}
		o.Close()
		return
	}
	fmt.Fprintln(os.Stderr, "usage: c04c gen <seed> <tier> <cases> <obs> | c04c run <cases> <obs>")
	os.Exit(2)
}
