// Correspondence driver for C12 (SM4-GCM helpers of sm4/sm4_gcm.go).  Black box: public API only.
//
//   c12 gen  <seed> <tier> <cases-out> <obs-out>   generate cases, run /repo on them
//   c12 run  <cases-in> <obs-out>                  run /repo on given cases (replay)
//
// Case lines:
//   G id key iv a p canIV canA canP
//        IV, A, P are placed in front of canary bytes inside their backing arrays (spare capacity);
//        (C,T) = Sm4GCM(key, IV, P, A, true); (P',T') = Sm4GCM(key, IV, C, A, false)
//        -> ok <C> <T> <P'> <T'> <mem> <direct> <oracle>
//           mem    = 1 iff key, the three backing arrays (incl. canaries) are unchanged after both calls
//           direct = 1 iff GCMEncrypt / GCMDecrypt return the same values as Sm4GCM
//           oracle = 1 iff C||T = cipher.NewGCMWithNonceSize(sm4.NewCipher(key), len(IV)).Seal(nil, IV, P, A)
//                    (what the TLS suites use) and its Open returns P
//   B id ...                   as G, for the two 64 KiB cases of the quick tier: the extracted model skips them (it needs ~25 s
//                              each); they are checked against crypto/cipher and the python GCM only
//   V id key iv a c t expect   Sm4GCM(key, iv, c, a, false) on inputs of which at most one bit differs from a
//                              genuine (iv, a, c, t)  -> ok <recomputed tag> <p>
//   Q id calls                 a HISTORY on reused caller buffers.  calls = fn:key:iv:a:x,... (fn = S1 | S0 | E | D | H for
//                              Sm4GCM(true) | Sm4GCM(false) | GCMEncrypt | GCMDecrypt | GetH); each call line gives the VALUES
//                              the arguments hold for that call.  The driver keeps ONE backing array per argument for the
//                              whole history and writes the values of the next call into it IN PLACE (key rotated in its
//                              buffer, IV counted up in its buffer, plaintext buffer reused), then calls with slices of
//                              those arrays  -> ok <r1>,<r2>,... <mem>   r = <x>/<t> or <h>; mem = 1 iff no call changed
//                              any of the four backing arrays (incl. the bytes behind the slices)
//   T id steps                 CONSUMER leg: the SM4-GCM AEAD of the GM TLS cipher suites (gmtls/gm_support.go), through the hook
//                              gmtls/verif_gcmsuites_verif.go.  steps = how:key:fixed:explicit:aad:pt,...  how = d (aeadSM4GCM called
//                              directly) or a suite id in hex (looked up through gmCipherSuites / mutualCipherSuiteGM).  One AEAD
//                              object per (how, key, fixed) is built when first needed in the history and reused afterwards.
//                              Per step: sealed = Seal(explicit, pt, aad); o1 = 1 iff Open of the record made by
//                              sm4.Sm4GCM(key, fixed||explicit, pt, aad) returns pt; o2 = 1 iff an AEAD built for the same key with
//                              one bit of the implicit nonce flipped REJECTS that record   -> ok <sealed>/<o1>/<o2>,...
// Observation lines:  id ok <fields> | id err | id PANIC | id HANG
package main

import (
	"bytes"
	"crypto/cipher"
	"fmt"
	"os"
	"strconv"
	"strings"
	"time"

	"github.com/tjfoc/gmsm/gmtls"
	"github.com/tjfoc/gmsm/sm4"
	"verifharness/internal/hx"
)

const deadline = 300 * time.Second

func place(m, canary []byte) (arr, in []byte) {
	arr = append(append(make([]byte, 0, len(m)+len(canary)), m...), canary...)
	return arr, arr[:len(m)]
}

func b2s(b bool) string {
	if b {
		return "1"
	}
	return "0"
}

func runCase(line string) string {
	f := strings.Split(line, " ")
	id := f[1]
	res, _ := hx.Guard(deadline, func() string {
		switch f[0] {
		case "G", "B":
			key := hx.UnHex(f[2])
			keyKeep := append([]byte{}, key...)
			arrIV, iv := place(hx.UnHex(f[3]), hx.UnHex(f[6]))
			arrA, a := place(hx.UnHex(f[4]), hx.UnHex(f[7]))
			arrP, p := place(hx.UnHex(f[5]), hx.UnHex(f[8]))
			kIV, kA, kP := append([]byte{}, arrIV...), append([]byte{}, arrA...), append([]byte{}, arrP...)
			C, T, err := sm4.Sm4GCM(key, iv, p, a, true)
			if err != nil {
				return "err"
			}
			C1, T1 := append([]byte{}, C...), append([]byte{}, T...)
			arrC, c := place(C1, hx.UnHex(f[8]))
			kC := append([]byte{}, arrC...)
			P2, T2, err := sm4.Sm4GCM(key, iv, c, a, false)
			if err != nil {
				return "err"
			}
			P2c, T2c := append([]byte{}, P2...), append([]byte{}, T2...)
			mem := bytes.Equal(key, keyKeep) && bytes.Equal(arrIV, kIV) && bytes.Equal(arrA, kA) &&
				bytes.Equal(arrP, kP) && bytes.Equal(arrC, kC)
			C3, T3 := sm4.GCMEncrypt(key, iv, p, a)
			P4, T4 := sm4.GCMDecrypt(key, iv, c, a)
			direct := bytes.Equal(C3, C1) && bytes.Equal(T3, T1) && bytes.Equal(P4, P2c) && bytes.Equal(T4, T2c)
			mem = mem && bytes.Equal(arrIV, kIV) && bytes.Equal(arrA, kA) && bytes.Equal(arrP, kP) && bytes.Equal(arrC, kC)
			oracle := false
			if blk, err := sm4.NewCipher(key); err == nil && len(iv) > 0 {
				if g, err := cipher.NewGCMWithNonceSize(blk, len(iv)); err == nil {
					sealed := g.Seal(nil, iv, p, a)
					opened, oerr := g.Open(nil, iv, append(append([]byte{}, C1...), T1...), a)
					oracle = bytes.Equal(sealed, append(append([]byte{}, C1...), T1...)) && oerr == nil && bytes.Equal(opened, p)
				}
			}
			return fmt.Sprintf("ok %s %s %s %s %s %s %s", hx.Hex(C1), hx.Hex(T1), hx.Hex(P2c), hx.Hex(T2c), b2s(mem), b2s(direct), b2s(oracle))
		case "Q":
			type call struct {
				fn            string
				key, iv, a, x []byte
			}
			var calls []call
			mk, mi, ma, mx := 0, 0, 0, 0
			for _, c := range strings.Split(f[2], ",") {
				p := strings.Split(c, ":")
				cl := call{p[0], hx.UnHex(p[1]), hx.UnHex(p[2]), hx.UnHex(p[3]), hx.UnHex(p[4])}
				calls = append(calls, cl)
				mk, mi, ma, mx = max(mk, len(cl.key)), max(mi, len(cl.iv)), max(ma, len(cl.a)), max(mx, len(cl.x))
			}
			// one backing array per argument, 8 canary bytes behind the longest value
			bufs := [4][]byte{make([]byte, mk+8), make([]byte, mi+8), make([]byte, ma+8), make([]byte, mx+8)}
			for i := range bufs {
				for j := range bufs[i] {
					bufs[i][j] = byte(0xC0 + i)
				}
			}
			mem := true
			var outs []string
			for _, cl := range calls {
				vals := [4][]byte{cl.key, cl.iv, cl.a, cl.x}
				var sl [4][]byte
				var keep [4][]byte
				for i := range bufs {
					copy(bufs[i], vals[i]) // in place: same array, same start
					sl[i] = bufs[i][:len(vals[i])]
					keep[i] = append([]byte{}, bufs[i]...)
				}
				switch cl.fn {
				case "S1", "S0":
					x, t, err := sm4.Sm4GCM(sl[0], sl[1], sl[3], sl[2], cl.fn == "S1")
					if err != nil {
						return "err"
					}
					outs = append(outs, hx.Hex(x)+"/"+hx.Hex(t))
				case "E":
					x, t := sm4.GCMEncrypt(sl[0], sl[1], sl[3], sl[2])
					outs = append(outs, hx.Hex(x)+"/"+hx.Hex(t))
				case "D":
					x, t := sm4.GCMDecrypt(sl[0], sl[1], sl[3], sl[2])
					outs = append(outs, hx.Hex(x)+"/"+hx.Hex(t))
				case "H":
					outs = append(outs, hx.Hex(sm4.GetH(sl[0])))
				}
				for i := range bufs {
					mem = mem && bytes.Equal(bufs[i], keep[i])
				}
			}
			return "ok " + strings.Join(outs, ",") + " " + b2s(mem)
		case "T":
			objs := map[string]cipher.AEAD{}
			build := func(how string, key, fixed []byte) cipher.AEAD {
				if how == "d" {
					return gmtls.VerifAEADSM4GCM(key, fixed)
				}
				id, _ := strconv.ParseUint(how, 16, 16)
				a, keyLen, ivLen, ok := gmtls.VerifGMSuiteAEAD(uint16(id), key, fixed)
				if !ok || keyLen != 16 || ivLen != 4 {
					return nil
				}
				return a
			}
			var outs []string
			for _, st := range strings.Split(f[2], ",") {
				q := strings.Split(st, ":")
				how, key, fixed, explicit, aad, pt := q[0], hx.UnHex(q[1]), hx.UnHex(q[2]), hx.UnHex(q[3]), hx.UnHex(q[4]), hx.UnHex(q[5])
				name := q[0] + ":" + q[1] + ":" + q[2]
				a := objs[name]
				if a == nil {
					a = build(how, append([]byte{}, key...), append([]byte{}, fixed...))
					if a == nil {
						return "err"
					}
					objs[name] = a
				}
				sealed := a.Seal(nil, explicit, pt, aad)
				// the record sm4.Sm4GCM makes for IV = implicit || explicit
				iv := append(append([]byte{}, fixed...), explicit...)
				C, T, err := sm4.Sm4GCM(append([]byte{}, key...), iv, pt, aad, true)
				if err != nil {
					return "err"
				}
				ref := append(append([]byte{}, C...), T...)
				got, oerr := a.Open(nil, explicit, append([]byte{}, ref...), aad)
				o1 := oerr == nil && bytes.Equal(got, pt)
				other := build(how, append([]byte{}, key...), flip(fixed, 7))
				o2 := false
				if other != nil {
					_, e2 := other.Open(nil, explicit, append([]byte{}, ref...), aad)
					o2 = e2 != nil
				}
				outs = append(outs, hx.Hex(sealed)+"/"+b2s(o1)+"/"+b2s(o2))
			}
			return "ok " + strings.Join(outs, ",")
		case "V":
			P, T, err := sm4.Sm4GCM(hx.UnHex(f[2]), hx.UnHex(f[3]), hx.UnHex(f[5]), hx.UnHex(f[4]), false)
			if err != nil {
				return "err"
			}
			return "ok " + hx.Hex(T) + " " + hx.Hex(P)
		}
		return "BADCASE"
	})
	return id + " " + res
}

// ---------------------------------------------------------------------------------------------
func canary(r *hx.Rng) []byte {
	switch r.Intn(3) {
	case 0:
		return nil
	case 1:
		return r.Bytes(1 + r.Intn(8)) // 12-byte IV + 4 spare bytes is where the old GetY0 wrote
	default:
		return r.Bytes(1 + r.Intn(40))
	}
}

// IVs of a given length: random, all 0xff, or chosen so that the 32-bit counter wraps soon
func genIV(r *hx.Rng, n int) []byte {
	iv := r.Bytes(n)
	switch r.Intn(4) {
	case 0:
		for i := range iv {
			iv[i] = 0xff
		}
	case 1:
		for i := range iv {
			if r.Intn(2) == 0 {
				iv[i] = 0xff
			}
		}
	}
	return iv
}

// GF(2^128) arithmetic of SP 800-38D, used only to construct IVs whose J0 makes the 32-bit counter wrap
func gfMul(x, y [16]byte) (z [16]byte) {
	v := y
	for i := 0; i < 128; i++ {
		if x[i/8]&(0x80>>uint(i%8)) != 0 {
			for j := range z {
				z[j] ^= v[j]
			}
		}
		lsb := v[15] & 1
		for j := 15; j > 0; j-- {
			v[j] = v[j]>>1 | v[j-1]<<7
		}
		v[0] >>= 1
		if lsb == 1 {
			v[0] ^= 0xe1
		}
	}
	return
}

func gfInv(x [16]byte) [16]byte {
	var inv [16]byte
	inv[0] = 0x80 // the element 1
	t := x
	for i := 1; i <= 127; i++ {
		t = gfMul(t, t)
		inv = gfMul(inv, t)
	}
	return inv
}

// a 16-byte IV whose pre-counter block J0 = GHASH_H(IV || 0^64 || [128]_64) ends in the given 32-bit value
func wrapIV(r *hx.Rng, key []byte, low uint32) []byte {
	blk, err := sm4.NewCipher(key)
	if err != nil {
		panic(err)
	}
	var h, j0, l [16]byte
	blk.Encrypt(h[:], make([]byte, 16))
	copy(j0[:], r.Bytes(12))
	j0[12], j0[13], j0[14], j0[15] = byte(low>>24), byte(low>>16), byte(low>>8), byte(low)
	l[15] = 128
	hinv := gfInv(h)
	t := gfMul(j0, hinv) // (IV.H xor L)
	for i := range t {
		t[i] ^= l[i]
	}
	iv := gfMul(t, hinv)
	// check: ((IV.H) xor L).H = J0
	c := gfMul(iv, h)
	for i := range c {
		c[i] ^= l[i]
	}
	if gfMul(c, h) != j0 {
		panic("driver: wrapIV construction failed")
	}
	return iv[:]
}

func max(a, b int) int {
	if a > b {
		return a
	}
	return b
}

// the standard library's GCM over the SM4 block cipher (private copies of everything)
func oracleSeal(key, iv, p, a []byte) []byte {
	blk, err := sm4.NewCipher(append([]byte{}, key...))
	if err != nil || len(iv) == 0 {
		return nil
	}
	g, err := cipher.NewGCMWithNonceSize(blk, len(iv))
	if err != nil {
		return nil
	}
	out := g.Seal(nil, append([]byte{}, iv...), p, a)
	return out[:len(p)]
}

func flip(b []byte, bit int) []byte {
	c := append([]byte{}, b...)
	c[bit/8] ^= 0x80 >> uint(bit%8)
	return c
}

func gen(seed uint64, tier string, o *hx.Out) {
	r := hx.NewRng(seed)
	thorough := tier == "thorough"
	id := 0
	emit := func(line string) string {
		o.Case(line)
		obs := runCase(line)
		o.Obs(obs)
		return obs
	}
	next := func() int { id++; return id }
	g := func(key, iv, a, p []byte) string {
		return emit(fmt.Sprintf("G %d %s %s %s %s %s %s %s", next(), hx.Hex(key), hx.Hex(iv), hx.Hex(a), hx.Hex(p),
			hx.Hex(canary(r)), hx.Hex(canary(r)), hx.Hex(canary(r))))
	}
	std := []byte{0x01, 0x23, 0x45, 0x67, 0x89, 0xab, 0xcd, 0xef, 0xfe, 0xdc, 0xba, 0x98, 0x76, 0x54, 0x32, 0x10}
	// RFC 8998 A.1
	g(std, hx.UnHex("00001234567800000000abcd"), hx.UnHex("feedfacedeadbeeffeedfacedeadbeefabaddad2"),
		hx.UnHex("aaaaaaaaaaaaaaaabbbbbbbbbbbbbbbbccccccccccccccccddddddddddddddddeeeeeeeeeeeeeeeeffffffffffffffffeeeeeeeeeeeeeeeeaaaaaaaaaaaaaaaa"))
	// IV lengths 1..64, each with 6 (thorough 14) (|A|,|P|) shapes: block-boundary lengths first, then random
	shapes := [][2]int{{0, 0}, {16, 16}, {1, 15}, {17, 33}, {15, 32}, {32, 17}, {0, 31}, {31, 0}, {33, 48}, {20, 64}, {48, 1}, {13, 80}}
	per := 6
	if thorough {
		per = 14
	}
	for n := 1; n <= 64; n++ {
		for k := 0; k < per; k++ {
			la, lp := r.Intn(40), r.Intn(70)
			if k < 4 || (thorough && k < 10) {
				sh := shapes[(n*5+k)%len(shapes)]
				la, lp = sh[0], sh[1]
			}
			g(r.Bytes(16), genIV(r, n), r.Bytes(la), r.Bytes(lp))
		}
	}
	// |A|, |P| in 0..80: exhaustive grid in thorough, sampled in quick, at a few IV lengths
	for _, n := range []int{12, 1, 16, 17} {
		for la := 0; la <= 80; la++ {
			for lp := 0; lp <= 80; lp++ {
				if !thorough {
					edge := func(x int) bool { m := x % 16; return m == 0 || m == 1 || m == 15 }
					// quick: the whole 81 x 81 grid with the 96-bit IV; at the other IV lengths every border pair and a sample
					if n != 12 && !(edge(la) && edge(lp)) && r.Intn(10) != 0 {
						continue
					}
				}
				g(r.Bytes(16), genIV(r, n), r.Bytes(la), r.Bytes(lp))
			}
		}
	}
	// 12-byte IVs are the fast path: J0 = IV || 00000001, no counter wrap; other lengths give a random
	// J0.  Counter wrap at 2^32 inside a message: search a few IVs whose J0 ends in ffffff??, which needs J0;
	// instead long messages with all-ff and random IVs (the model and the oracle agree or not regardless)
	nBig, maxBig := 6, 4096
	if thorough {
		nBig, maxBig = 60, 65536
	}
	for i := 0; i < nBig; i++ {
		n := r.Pick([]int{12, 12, 1, 8, 16, 17, 32, 64})
		g(r.Bytes(16), genIV(r, n), r.Bytes(r.Intn(maxBig/8)), r.Bytes(r.Intn(maxBig+1)))
	}
	// 16-byte IVs constructed so that J0 ends in fffffffe / ffffffff / fffffffd: the counter wraps inside the message
	nWrap := 30
	if thorough {
		nWrap = 200
	}
	for i := 0; i < nWrap; i++ {
		key := r.Bytes(16)
		low := uint32(0xffffffff) - uint32(i%2) // J0 ends in ff ff ff ff or ff ff ff fe: the counter wraps in block 1 or 2
		if i%5 == 4 {
			low = uint32(0xffffffff) - uint32(2+r.Intn(3))
		}
		g(key, wrapIV(r, key, low), r.Bytes(r.Intn(20)), r.Bytes(16*(3+r.Intn(6))+r.Intn(16))) // at least 3 blocks
	}
	// 64 KiB of additional data, and 64 KiB of plaintext (the model runner needs a few seconds for each)
	big := "B"
	if thorough {
		big = "G" // thorough: also through the extracted model
	}
	emit(fmt.Sprintf("%s %d %s %s %s %s - - %s", big, next(), hx.Hex(r.Bytes(16)), hx.Hex(r.Bytes(12)), hx.Hex(r.Bytes(65536)), hx.Hex(r.Bytes(33)), hx.Hex(r.Bytes(5))))
	emit(fmt.Sprintf("%s %d %s %s %s %s %s - -", big, next(), hx.Hex(r.Bytes(16)), hx.Hex(r.Bytes(12)), hx.Hex(r.Bytes(21)), hx.Hex(r.Bytes(65536)), hx.Hex(r.Bytes(7))))
	// key lengths other than 16: Sm4GCM returns an error
	for _, L := range []int{0, 1, 15, 17, 24, 32} {
		g(r.Bytes(L), r.Bytes(12), r.Bytes(5), r.Bytes(20))
	}
	// histories of 2..4 calls on reused buffers: key rotated / one bit flipped in place, IV counted up in place,
	// data buffers reused; the functions mixed
	nQ := 160
	if thorough {
		nQ = 2500
	}
	fns := []string{"S1", "S0", "E", "D", "H"}
	for i := 0; i < nQ; i++ {
		key := r.Bytes(16)
		iv := genIV(r, r.Pick([]int{12, 12, 12, 8, 1, 16, 17, 20}))
		a := r.Bytes(r.Intn(24))
		p := r.Bytes(r.Intn(50))
		n := 2 + r.Intn(3)
		var calls []string
		var lastC []byte
		for j := 0; j < n; j++ {
			if j > 0 {
				switch r.Intn(4) { // the key buffer
				case 0: // unchanged
				case 1:
					key = flip(key, r.Intn(128))
				default:
					key = r.Bytes(16)
				}
				switch r.Intn(4) { // the IV buffer
				case 0:
				case 1: // counted up in place
					iv = append([]byte{}, iv...)
					for k := len(iv) - 1; k >= 0; k-- {
						iv[k]++
						if iv[k] != 0 {
							break
						}
					}
				case 2:
					iv = genIV(r, r.Pick([]int{12, 8, 16, 1, 13}))
				default:
					iv = r.Bytes(len(iv))
				}
				if r.Intn(2) == 0 {
					a = r.Bytes(r.Intn(24))
				}
				if r.Intn(2) == 0 {
					p = r.Bytes(r.Intn(50))
				}
			}
			fn := fns[r.Intn(5)]
			if i < 8 { // directed: the same function twice on a key that changed in place
				fn = []string{"S1", "S1", "E", "S0", "D", "H", "S1", "E"}[i]
				if j == 1 {
					key = flip(key, (i*17)%128)
				}
			}
			x := p
			if fn == "S0" || fn == "D" {
				switch {
				case lastC != nil && r.Intn(2) == 0:
					x = lastC
				case r.Intn(2) == 0:
					x = oracleSeal(key, iv, p, a) // a genuine ciphertext under the current values
				}
			}
			if fn == "S1" || fn == "E" {
				lastC = oracleSeal(key, iv, x, a)
			}
			calls = append(calls, fmt.Sprintf("%s:%s:%s:%s:%s", fn, hx.Hex(key), hx.Hex(iv), hx.Hex(a), hx.Hex(x)))
		}
		emit(fmt.Sprintf("Q %d %s", next(), strings.Join(calls, ",")))
	}
	// CONSUMER leg: the AEAD of the GM TLS suites, directly and through the suite table
	hows := []string{"d"}
	for _, id := range gmtls.VerifGMGCMSuiteIDs() {
		hows = append(hows, fmt.Sprintf("%04x", id))
	}
	step := func(how string, key, fixed, explicit, aad, pt []byte) string {
		return fmt.Sprintf("%s:%s:%s:%s:%s:%s", how, hx.Hex(key), hx.Hex(fixed), hx.Hex(explicit), hx.Hex(aad), hx.Hex(pt))
	}
	tlsAAD := func(n int) []byte { // seq(8) || type || version || length
		a := r.Bytes(13)
		a[8], a[9], a[10], a[11], a[12] = 23, 1, 1, byte(n>>8), byte(n)
		return a
	}
	for _, how := range hows {
		for _, n := range []int{0, 1, 15, 16, 17, 80, 16384} {
			emit(fmt.Sprintf("T %d %s", next(), step(how, r.Bytes(16), r.Bytes(4), r.Bytes(8), tlsAAD(n), r.Bytes(n))))
		}
		nT := 6
		if thorough {
			nT = 60
		}
		for i := 0; i < nT; i++ {
			k1, k2 := r.Bytes(16), r.Bytes(16)
			f1, f2 := r.Bytes(4), r.Bytes(4)
			if i%3 == 0 {
				f2 = flip(f1, r.Intn(32)) // implicit nonces that differ in one bit
			}
			var steps []string
			n := 2 + r.Intn(4)
			for j := 0; j < n; j++ {
				key, fixed := k1, f1
				switch i % 3 {
				case 0, 1: // the same key with two different implicit nonces (client / server write IV)
					if j%2 == 1 {
						fixed = f2
					}
				default: // two keys interleaved
					if j%2 == 1 {
						key, fixed = k2, f2
					}
				}
				ln := r.Pick([]int{0, 1, 15, 16, 17, 33, 80})
				steps = append(steps, step(how, key, fixed, r.Bytes(8), tlsAAD(ln), r.Bytes(ln)))
			}
			emit(fmt.Sprintf("T %d %s", next(), strings.Join(steps, ",")))
		}
	}
	// every single-bit change of IV, A, C and T for a few messages: the recomputed tag must differ from T
	// IV lengths 12, 16, 17, 60 (and more in thorough); |A| and |C| cross the 16- and 32-byte boundaries
	flipShapes := [][3]int{{12, 20, 33}, {16, 17, 20}, {17, 33, 17}, {60, 16, 35}, {1, 1, 16}, {8, 32, 31}, {13, 15, 48}, {64, 31, 1}}
	nMsg := 4
	if thorough {
		nMsg = 16
	}
	for i := 0; i < nMsg; i++ {
		key := r.Bytes(16)
		sh := flipShapes[i%len(flipShapes)]
		iv, a, p := genIV(r, sh[0]), r.Bytes(sh[1]), r.Bytes(sh[2])
		if i >= len(flipShapes) {
			a, p = r.Bytes(1+r.Intn(40)), r.Bytes(1+r.Intn(50))
		}
		C, T, err := sm4.Sm4GCM(key, iv, p, a, true)
		if err != nil {
			continue
		}
		C, T = append([]byte{}, C...), append([]byte{}, T...)
		v := func(iv, a, c, t []byte, expect string) {
			emit(fmt.Sprintf("V %d %s %s %s %s %s %s", next(), hx.Hex(key), hx.Hex(iv), hx.Hex(a), hx.Hex(c), hx.Hex(t), expect))
		}
		v(iv, a, C, T, "eq")
		for b := 0; b < 8*len(iv); b++ {
			v(flip(iv, b), a, C, T, "ne")
		}
		for b := 0; b < 8*len(a); b++ {
			v(iv, flip(a, b), C, T, "ne")
		}
		for b := 0; b < 8*len(C); b++ {
			v(iv, a, flip(C, b), T, "ne")
		}
		for b := 0; b < 128; b++ {
			v(iv, a, C, flip(T, b), "ne")
		}
		// a different key, truncated / extended A and C
		v(iv, a[:len(a)-1], C, T, "ne")
		v(iv, append(append([]byte{}, a...), 0), C, T, "ne")
		v(iv, a, C[:len(C)-1], T, "ne")
		v(iv, a, append(append([]byte{}, C...), 0), T, "ne")
		emit(fmt.Sprintf("V %d %s %s %s %s %s ne", next(), hx.Hex(flip(key, r.Intn(128))), hx.Hex(iv), hx.Hex(a), hx.Hex(C), hx.Hex(T)))
	}
}

func main() {
	if len(os.Args) >= 6 && os.Args[1] == "gen" {
		seed, _ := strconv.ParseUint(os.Args[2], 10, 64)
		o := hx.NewOut(os.Args[4], os.Args[5])
		gen(seed, os.Args[3], o)
		o.Retry(runCase) // a case that ran out of time in this pass is re-run alone with 10x deadlines
		o.Close()
		return
	}
	if len(os.Args) >= 4 && os.Args[1] == "run" {
		o := hx.NewOut(os.DevNull, os.Args[3])
		for _, l := range hx.ReadLines(os.Args[2]) {
			o.Obs(runCase(l))
		}
		o.Retry(runCase) // a case that ran out of time in this pass is re-run alone with 10x deadlines
		o.Close()
		return
	}
	fmt.Fprintln(os.Stderr, "usage: c12 gen <seed> <tier> <cases> <obs> | c12 run <cases> <obs>")
	os.Exit(2)
}
