// Correspondence driver for C13 (SM2 key exchange).  Black box: public API only.
//
//	c13 gen  <seed> <tier> <cases-out> <obs-out>   generate cases, run /repo on them
//	c13 run  <cases-in> <obs-out>                  run /repo on given cases (replay)
//	c13 annex                                      print the GM/T 0003.5 Annex example as two K lines
//
// Case lines (format: /verif/work/c01/FORMAT.md, section c13):
//
//	K id role klen ida idb d PX PY r RX RY
//	    role = A | B; own long-term key(d), peer long-term pub(PX,PY), own ephemeral key(r),
//	    peer ephemeral pub(RX,RY); integers as lower-case hex ("0" = zero, leading "n" = negative)
//
// Observation lines:  id ok <K-hex> <S1-hex> <S2-hex> | id err | id PANIC | id HANG
//
// gen emits first a block of SESSIONS (two lines each: role A with the odd id 2j+1, role B with the even
// id 2j+2, both computed from the same (dA, dB, rA, rB, idA, idB, klen)), then a block of SINGLE lines
// (error classes, curiosities, peer ephemeral points with a short x of unknown discrete log).
// If the environment variable C13_TAGS names a file, gen writes "id class result" lines to it.
package main

import (
	"fmt"
	"math/big"
	"os"
	"strconv"
	"strings"
	"time"

	"github.com/tjfoc/gmsm/sm2"
	"verifharness/internal/hx"
)

const deadline = 20 * time.Second

// ------------------------------------------------------------------------------------ encodings
func zs(x *big.Int) string {
	if x.Sign() < 0 {
		return "n" + new(big.Int).Neg(x).Text(16)
	}
	return x.Text(16)
}

func unz(s string) *big.Int {
	neg := strings.HasPrefix(s, "n")
	if neg {
		s = s[1:]
	}
	v, ok := new(big.Int).SetString(s, 16)
	if !ok {
		panic("bad integer in case file: " + s)
	}
	if neg {
		v.Neg(v)
	}
	return v
}

func key(d *big.Int) *sm2.PrivateKey {
	c := sm2.P256Sm2()
	k := new(sm2.PrivateKey)
	k.Curve = c
	k.D = d
	k.X, k.Y = c.ScalarBaseMult(d.Bytes())
	return k
}

func pub(x, y *big.Int) *sm2.PublicKey {
	return &sm2.PublicKey{Curve: sm2.P256Sm2(), X: x, Y: y}
}

func runCase(line string) string {
	f := strings.Split(line, " ")
	id := "?"
	if len(f) > 1 {
		id = f[1]
	}
	res, _ := hx.Guard(deadline, func() string {
		if len(f) != 12 || f[0] != "K" {
			return "BADCASE"
		}
		klen, e := strconv.Atoi(f[3])
		if e != nil {
			return "BADCASE"
		}
		ida, idb := hx.UnHex(f[4]), hx.UnHex(f[5])
		d, r := unz(f[6]), unz(f[9])
		p := pub(unz(f[7]), unz(f[8]))
		rp := pub(unz(f[10]), unz(f[11]))
		var k, s1, s2 []byte
		var err error
		switch f[2] {
		case "A":
			k, s1, s2, err = sm2.KeyExchangeA(klen, ida, idb, key(d), p, key(r), rp)
		case "B":
			k, s1, s2, err = sm2.KeyExchangeB(klen, ida, idb, key(d), p, key(r), rp)
		default:
			return "BADCASE"
		}
		if err != nil {
			return "err"
		}
		return "ok " + hx.Hex(k) + " " + hx.Hex(s1) + " " + hx.Hex(s2)
	})
	return id + " " + res
}

// ------------------------------------------------------------------------------------ curve constants
// Written down here independently of the library; gen refuses to run if the library disagrees.
func h2i(s string) *big.Int {
	v, ok := new(big.Int).SetString(s, 16)
	if !ok {
		panic("bad constant " + s)
	}
	return v
}

var (
	cN   = h2i("FFFFFFFEFFFFFFFFFFFFFFFFFFFFFFFF7203DF6B21C6052B53BBF40939D54123")
	cP   = h2i("FFFFFFFEFFFFFFFFFFFFFFFFFFFFFFFFFFFFFFFF00000000FFFFFFFFFFFFFFFF")
	cB   = h2i("28E9FA9E9D9F5E344D5A9E4BCF6509A7F39789F515AB8F92DDBCBD414D940E93")
	cA   = new(big.Int).Sub(cP, big.NewInt(3))
	one  = big.NewInt(1)
	w127 = new(big.Int).Lsh(one, 127)
	m127 = new(big.Int).Sub(w127, one)
	curv = sm2.P256Sm2()
)

// x~ = 2^127 + (x mod 2^127)   (reference formula, not the library's keXHat)
func hat(x *big.Int) *big.Int {
	r := new(big.Int).And(x, m127)
	return r.Add(r, w127)
}

func mulmod(a, b, m *big.Int) *big.Int { r := new(big.Int).Mul(a, b); return r.Mod(r, m) }

// y with y^2 = x^3 + a x + b (mod p), or nil.  p = 3 mod 4.
func liftX(x *big.Int) *big.Int {
	rhs := mulmod(x, x, cP)
	rhs = mulmod(rhs, x, cP)
	rhs.Add(rhs, mulmod(cA, x, cP)).Add(rhs, cB).Mod(rhs, cP)
	e := new(big.Int).Add(cP, one)
	e.Rsh(e, 2)
	y := new(big.Int).Exp(rhs, e, cP)
	if mulmod(y, y, cP).Cmp(rhs) != 0 {
		return nil
	}
	return y
}

func negY(y *big.Int) *big.Int { return new(big.Int).Sub(cP, y) }

func baseMul(k *big.Int) (*big.Int, *big.Int) { return curv.ScalarBaseMult(k.Bytes()) }

// Scalars whose public point has leading zero bytes in a coordinate (found off line by a throw-away
// search over random scalars; checked again by selfCheck).  Category = (len X.Bytes(), len Y.Bytes()).
var (
	scX1 = []string{ // (31,32)
		"b41e8c2df82af80603a5d04a73f908a86c7f7f3666c87105bec4fa614ef5080f",
		"0c95056e37e01d702febbb7b001ef32b1e1bc5cc7acf872bd10a77d1297eddfb",
		"a756f0f9044baacc1b93aee6f1dcc3286e7734eee60ca42cc71252cc2dcc1700",
		"e2dd2b147d448caa80ef01dae43cf81b661059f617544f06f56ad1210d1a29ee",
	}
	scX2 = []string{ // (30,32)
		"60fe767ff9d61cb9f57cb3a28f811ace0c5d8854e3410fe41cb599b369ec9ffe",
		"ff7832b6d7f5d4b0e9d3407be7d9e07b00d9f28e6aff32cefff37d02df1aebb2",
		"ad559e2257c3af7ee3c3f5e09a9619fa0eb3547d27bfa7e8b36deba6a8f55d98",
		"b71cf02b8de7b8d7f7f785669348ec96842234c21c3c823f795b9544b63202df",
	}
	scY1 = []string{ // (32,31)
		"584c3b540b4eefe4be952585da291a8858a83d6ee515553559b64de5928a942f",
		"b9b4ff4c51f2f93cdf0ace5c34c03329a2ba87e1b3cc2a69434cc7886c42379c",
		"00fc60331b0d85694038d24bc8ab2fc9cf5a79ff1a75e2427ffe993b6e9bbc13",
		"6ba6aba845463a1e44014455e1a8fe03a6832dbb0ba446f131cc355127f34b83",
	}
	scY2 = []string{ // (32,30)
		"60dd169258fd39efdc88673545a84a4a207276a78d46b0bd5b9d836516d46239",
		"425b7c1a5213d0eb89f7979575187da8adb275f4bab0f9ab271aee5163cf9096",
		"3b8a5f726788802c37ad83be79ed518f55d8f86c306839ed218ca0d040d5715f",
		"5eb3147af588861a83818ff4fe1fa7e5170154f955524360aa10afe368881355",
	}
	scXY = []string{ // (31,31)
		"8274011715a602340ec519a9e7303be20bbf7ebe03379fd9af477bf951f04262",
		"38aa188f4105c00cf00885da39f3c6da196d67af28e1c7d8b8edd04f1024fc3a",
		"9cf587dc011d685499a6b5b496e74a2131c04a4204c43648e452dec5e08bfe40",
		"47ad0a240cb6034978a4fc943c2f1fc834140af6df410d7d7dd7cb2392ec8fb9",
	}
	shortCats  = [][]string{scX1, scX2, scY1, scY2, scXY}
	shortNames = []string{"X31", "X30", "Y31", "Y30", "X31Y31"}
	shortLens  = [][2]int{{31, 32}, {30, 32}, {32, 31}, {32, 30}, {31, 31}}
)

func selfCheck() {
	pr := curv.Params()
	if pr.N.Cmp(cN) != 0 || pr.P.Cmp(cP) != 0 || pr.B.Cmp(cB) != 0 {
		panic("c13: curve constants of the library differ from the standard's")
	}
	if liftX(pr.Gx) == nil {
		panic("c13: liftX rejects the base point")
	}
	for c, cat := range shortCats {
		for _, s := range cat {
			x, y := baseMul(h2i(s))
			if len(x.Bytes()) != shortLens[c][0] || len(y.Bytes()) != shortLens[c][1] {
				panic("c13: hard-coded scalar " + s + " is not in category " + shortNames[c])
			}
		}
	}
}

// ------------------------------------------------------------------------------------ generation
var (
	klens     = []int{1, 2, 15, 16, 17, 31, 32, 33, 48, 63, 64, 65, 128, 1000, 1023, 1024}
	idlens    = []int{0, 1, 16, 17, 255, 256, 1000, 8191}
	defaultID = []byte("1234567812345678")
	posNames  = []string{"dA", "dB", "rA", "rB"}
)

type sess struct {
	k      [4]*big.Int // dA, dB, rA, rB
	idA    []byte
	idB    []byte
	klen   int
	vShort string
}

type gen struct {
	r     *hx.Rng
	o     *hx.Out
	id    int
	tags  []string
	small *big.Int // cursor of the small-x search
	thorough bool
}

func (g *gen) emit(tag, role string, klen int, ida, idb []byte, d, px, py, r, rx, ry *big.Int) {
	g.id++
	line := fmt.Sprintf("K %d %s %d %s %s %s %s %s %s %s %s", g.id, role, klen, hx.Hex(ida), hx.Hex(idb),
		zs(d), zs(px), zs(py), zs(r), zs(rx), zs(ry))
	g.o.Case(line)
	obs := runCase(line)
	g.o.Obs(obs)
	st := strings.SplitN(obs, " ", 3)[1]
	g.tags = append(g.tags, fmt.Sprintf("%d %s %s", g.id, tag, st))
}

// uniform in [1, n-2]
func (g *gen) scalar() *big.Int {
	v := new(big.Int).SetBytes(g.r.Bytes(40))
	v.Mod(v, new(big.Int).Sub(cN, big.NewInt(2)))
	return v.Add(v, one)
}

// a seeded random scalar whose public point has a 31-byte X (wantX) or a 31-byte Y
func (g *gen) seededShortPub(wantX bool) *big.Int {
	for {
		k := g.scalar()
		x, y := sm2.P256Sm2().ScalarBaseMult(k.Bytes())
		if wantX && len(x.Bytes()) == 31 || !wantX && len(y.Bytes()) == 31 {
			return k
		}
	}
}

// exactly nb significant bytes (nb < 32)
func (g *gen) shortScalar(nb int) *big.Int {
	b := g.r.Bytes(nb)
	if b[0] == 0 {
		b[0] = 1
	}
	return new(big.Int).SetBytes(b)
}

func (g *gen) idOf(n int) []byte {
	if n == 16 {
		return append([]byte{}, defaultID...)
	}
	return g.r.Bytes(n)
}

func (g *gen) randKlen() int {
	if g.r.Intn(2) == 0 {
		return g.r.Pick(klens)
	}
	return 1 + g.r.Intn(1024)
}

func (g *gen) randIDLen() int {
	switch g.r.Intn(4) {
	case 0:
		return g.r.Pick(idlens)
	case 1:
		return g.r.Intn(8192)
	default:
		return g.r.Intn(65)
	}
}

func (g *gen) rnd() sess {
	var s sess
	for i := range s.k {
		s.k[i] = g.scalar()
	}
	s.idA = g.idOf(g.randIDLen())
	if g.r.Intn(8) == 0 {
		s.idB = append([]byte{}, s.idA...)
	} else {
		s.idB = g.idOf(g.randIDLen())
	}
	s.klen = g.randKlen()
	return s
}

// a session with short identities (keeps the case file small where identities are not the point)
func (g *gen) rndSmall() sess {
	s := g.rnd()
	s.idA = g.idOf(g.r.Pick([]int{16, 16, 0, 1, 5, 17, 32}))
	s.idB = g.idOf(g.r.Pick([]int{16, 16, 0, 1, 3, 17, 40}))
	return s
}

func (g *gen) session(tag string, s sess) {
	pax, pay := baseMul(s.k[0])
	pbx, pby := baseMul(s.k[1])
	rax, ray := baseMul(s.k[2])
	rbx, rby := baseMul(s.k[3])
	g.emit(tag, "A", s.klen, s.idA, s.idB, s.k[0], pbx, pby, s.k[2], rbx, rby)
	g.emit(tag, "B", s.klen, s.idA, s.idB, s.k[1], pax, pay, s.k[3], rax, ray)
}

// V from the initiator's side by the reference formula
func refV(dA, rA, rax, pbx, pby, rbx, rby *big.Int) (*big.Int, *big.Int) {
	tA := mulmod(hat(rax), rA, cN)
	tA.Add(tA, dA).Mod(tA, cN)
	tx, ty := curv.ScalarMult(rbx, rby, hat(rbx).Bytes())
	ux, uy := curv.Add(pbx, pby, tx, ty)
	return curv.ScalarMult(ux, uy, tA.Bytes())
}

// sessions (fixed dA, dB, rA; search over rB) whose shared point has a leading zero byte in x (nx of them)
// and in y (ny of them).  Candidates are screened with V = [tA tB]G (two base-point multiplications, the
// library's ScalarMult is 7 times slower) and accepted only if the reference formula
// V = [tA](PB + [x~(RB.x)]RB) shows the leading zero byte as well.
func (g *gen) shortV(nx, ny int) []sess {
	base := g.rndSmall()
	dA, dB, rA := base.k[0], base.k[1], base.k[2]
	rax, _ := baseMul(rA)
	pbx, pby := baseMul(dB)
	tA := mulmod(hat(rax), rA, cN)
	tA.Add(tA, dA).Mod(tA, cN)
	var out []sess
	for tries := 0; (nx > 0 || ny > 0) && tries < 200000; tries++ {
		rB := g.scalar()
		rbx, rby := baseMul(rB)
		tB := mulmod(hat(rbx), rB, cN)
		tB.Add(tB, dB).Mod(tB, cN)
		vx, vy := baseMul(mulmod(tA, tB, cN))
		if len(vx.Bytes()) == 32 && len(vy.Bytes()) == 32 {
			continue
		}
		vx, vy = refV(dA, rA, rax, pbx, pby, rbx, rby)
		sx, sy := len(vx.Bytes()) < 32, len(vy.Bytes()) < 32
		if (sx && nx > 0) || (sy && ny > 0) {
			s := base
			s.k[3] = rB
			s.klen = g.randKlen()
			if sx {
				nx--
				s.vShort += "x"
			}
			if sy {
				ny--
				s.vShort += "y"
			}
			out = append(out, s)
		}
	}
	return out
}

func (g *gen) sessions(nRandom int) {
	n2 := new(big.Int).Sub(cN, big.NewInt(2))
	// a) key lengths (identity lengths cycle alongside)
	for i, kl := range klens {
		s := g.rnd()
		s.klen = kl
		s.idA = g.idOf(idlens[i%len(idlens)])
		s.idB = g.idOf(idlens[(3*i+1)%len(idlens)])
		g.session(fmt.Sprintf("sess:klen=%d", kl), s)
	}
	// b) identity lengths
	for _, L := range idlens {
		s := g.rnd()
		s.klen = g.r.Pick(klens)
		s.idA, s.idB = g.idOf(L), g.idOf(16)
		g.session(fmt.Sprintf("sess:idA-len=%d", L), s)
		s = g.rnd()
		s.klen = g.r.Pick(klens)
		s.idA, s.idB = g.idOf(16), g.idOf(L)
		g.session(fmt.Sprintf("sess:idB-len=%d", L), s)
	}
	for _, L := range []int{0, 1, 16, 17, 8191} {
		s := g.rnd()
		s.idA = g.idOf(L)
		s.idB = append([]byte{}, s.idA...)
		g.session(fmt.Sprintf("sess:idA=idB,len=%d", L), s)
	}
	// c) extreme scalars
	for pos := 0; pos < 4; pos++ {
		for _, v := range []*big.Int{big.NewInt(1), big.NewInt(2), n2} {
			s := g.rndSmall()
			s.k[pos] = v
			g.session(fmt.Sprintf("sess:%s=%s", posNames[pos], zs(v)), s)
		}
	}
	{
		s := g.rndSmall()
		s.k = [4]*big.Int{big.NewInt(1), big.NewInt(1), big.NewInt(1), big.NewInt(1)}
		g.session("sess:all-scalars=1", s)
		s = g.rndSmall()
		s.k = [4]*big.Int{n2, n2, n2, n2}
		g.session("sess:all-scalars=n-2", s)
		s = g.rndSmall()
		s.k = [4]*big.Int{big.NewInt(1), n2, big.NewInt(2), big.NewInt(1)}
		g.session("sess:scalars=1,n-2,2,1", s)
		s = g.rndSmall()
		s.k[1] = s.k[0]
		g.session("sess:dA=dB", s)
		s = g.rndSmall()
		s.k[3] = s.k[2]
		g.session("sess:rA=rB", s)
		s = g.rndSmall()
		s.k[2] = s.k[0]
		g.session("sess:rA=dA", s)
	}
	// d) scalars with leading zero bytes
	for pos := 0; pos < 4; pos++ {
		s := g.rndSmall()
		s.k[pos] = g.shortScalar(31)
		g.session(fmt.Sprintf("sess:%s-31-bytes", posNames[pos]), s)
	}
	for _, nb := range []int{31, 30, 24, 17, 16, 15, 8, 1} {
		s := g.rndSmall()
		mask := 1 + g.r.Intn(15)
		var which []string
		for pos := 0; pos < 4; pos++ {
			if mask>>uint(pos)&1 == 1 {
				s.k[pos] = g.shortScalar(nb)
				which = append(which, posNames[pos])
			}
		}
		g.session(fmt.Sprintf("sess:%d-byte-scalars:%s", nb, strings.Join(which, "+")), s)
	}
	// e) public points with leading zero bytes, in each of the four positions
	for pos := 0; pos < 4; pos++ {
		for c, cat := range shortCats {
			s := g.rndSmall()
			s.k[pos] = h2i(cat[g.r.Intn(len(cat))])
			g.session(fmt.Sprintf("sess:pub(%s)-%s", posNames[pos], shortNames[c]), s)
		}
	}
	for i := 0; i < 3; i++ {
		s := g.rnd()
		var which []string
		for pos := 0; pos < 4; pos++ {
			c := g.r.Intn(len(shortCats))
			s.k[pos] = h2i(shortCats[c][g.r.Intn(4)])
			which = append(which, shortNames[c])
		}
		g.session("sess:all-pubs-short:"+strings.Join(which, ","), s)
	}
	// e2) the same with scalars searched from the SEED (one leading zero byte in X resp. Y: one hit per 256 trials), so
	// that different seeds exercise different short public points; the 30-byte classes stay hard-coded (1/65536)
	for pos := 0; pos < 4; pos++ {
		for _, wantX := range []bool{true, false} {
			s := g.rndSmall()
			s.k[pos] = g.seededShortPub(wantX)
			name := "Y31"
			if wantX {
				name = "X31"
			}
			g.session(fmt.Sprintf("sess:pub(%s)-%s-seeded", posNames[pos], name), s)
		}
	}
	// f) shared point V with a leading zero byte
	for _, s := range g.shortV(5, 5) {
		g.session("sess:V-short-"+s.vShort, s)
	}
	// h) special relations between long-term and ephemeral keys (both roles of each session are emitted):
	//    d = xbar(R.x)*r  -> P = [xbar]R: the PEER adds two equal points (doubling inside P + [xbar]R); must agree
	//    d = -xbar(R.x)*r -> P = -[xbar]R: t = 0 on the own side and P + [xbar]R = O on the peer's side: both must refuse
	//    equal long-term keys, equal ephemerals, R = P, R = -P, long-term key of one side = ephemeral of the other, tiny scalars
	xr := func(r *big.Int) *big.Int { rx, _ := baseMul(r); return mulmod(hat(rx), r, cN) }
	neg := func(v *big.Int) *big.Int { return new(big.Int).Sub(cN, v) }
	rel := func(tag string, f func(s *sess)) {
		s := g.rndSmall()
		f(&s)
		g.session("sess:rel:"+tag, s)
	}
	rel("dA=xbar(RA)rA", func(s *sess) { s.k[0] = xr(s.k[2]) })
	rel("dB=xbar(RB)rB", func(s *sess) { s.k[1] = xr(s.k[3]) })
	rel("dA=xbar(RA)rA,dB=xbar(RB)rB", func(s *sess) { s.k[0], s.k[1] = xr(s.k[2]), xr(s.k[3]) })
	rel("dA=-xbar(RA)rA", func(s *sess) { s.k[0] = neg(xr(s.k[2])) })
	rel("dB=-xbar(RB)rB", func(s *sess) { s.k[1] = neg(xr(s.k[3])) })
	rel("dA=dB", func(s *sess) { s.k[1] = s.k[0] })
	rel("rA=rB", func(s *sess) { s.k[3] = s.k[2] })
	rel("dA=dB,rA=rB", func(s *sess) { s.k[1], s.k[3] = s.k[0], s.k[2] })
	rel("rA=dA", func(s *sess) { s.k[2] = s.k[0] })
	rel("rB=dB", func(s *sess) { s.k[3] = s.k[1] })
	rel("rA=-dA", func(s *sess) { s.k[2] = neg(s.k[0]) })
	rel("rB=-dB", func(s *sess) { s.k[3] = neg(s.k[1]) })
	rel("rA=dB", func(s *sess) { s.k[2] = s.k[1] })
	rel("rB=-dA", func(s *sess) { s.k[3] = neg(s.k[0]) })
	rel("all-equal", func(s *sess) { s.k[1], s.k[2], s.k[3] = s.k[0], s.k[0], s.k[0] })
	for _, t := range [][4]int64{{1, 1, 1, 1}, {1, 2, 1, 2}, {2, 1, 3, 1}, {1, 2, 3, 4}, {3, 3, 2, 2}} {
		tt := t
		rel(fmt.Sprintf("tiny-%d-%d-%d-%d", t[0], t[1], t[2], t[3]), func(s *sess) {
			for i := range s.k {
				s.k[i] = big.NewInt(tt[i])
			}
		})
	}
	// i) sparse scalars (2^e, 2^e +- 1, 3*2^e; long runs of zero digits in the scalar recodings): as a long-term key, as an
	//    ephemeral scalar, and as the exchange scalar t = (d + xbar(R) r) mod n itself (d := v - xbar(R) r); quick: every
	//    other value, which ones depends on the seed
	seenSp := map[string]bool{}
	spStart := g.r.Intn(2)
	spIdx := 0
	for _, e := range []uint{0, 1, 63, 64, 127, 128, 129, 200, 254, 255} {
		p2 := new(big.Int).Lsh(one, e)
		for _, raw := range []*big.Int{p2, new(big.Int).Add(p2, one), new(big.Int).Sub(p2, one), new(big.Int).Mul(p2, big.NewInt(3))} {
			v := new(big.Int).Mod(raw, cN)
			if v.Sign() == 0 || seenSp[v.String()] {
				continue
			}
			seenSp[v.String()] = true
			spIdx++
			if !g.thorough && (spIdx+spStart)%2 == 0 {
				continue
			}
			vv := v
			pos := spIdx % 4
			rel(fmt.Sprintf("sparse-%s=%s", posNames[pos], zs(vv)), func(s *sess) { s.k[pos] = vv })
			rel(fmt.Sprintf("sparse-tA=%s", zs(vv)), func(s *sess) {
				d := new(big.Int).Sub(vv, xr(s.k[2]))
				d.Mod(d, cN)
				if d.Sign() != 0 {
					s.k[0] = d
				}
			})
			rel(fmt.Sprintf("sparse-tB=%s", zs(vv)), func(s *sess) {
				d := new(big.Int).Sub(vv, xr(s.k[3]))
				d.Mod(d, cN)
				if d.Sign() != 0 {
					s.k[1] = d
				}
			})
		}
	}
	// g) everything random
	for i := 0; i < nRandom; i++ {
		g.session("sess:random", g.rnd())
	}
}

// one honest single line: own d, own r, peer long-term and ephemeral keys with known scalars
type single struct {
	role         string
	klen         int
	ida, idb     []byte
	d, px, py    *big.Int
	r, rx, ry    *big.Int
	peerD, peerR *big.Int // scalars of (px,py) and (rx,ry) before any mutation
}

func (g *gen) honest(role string) single {
	s := g.rndSmall()
	var h single
	h.role, h.klen, h.ida, h.idb = role, s.klen, s.idA, s.idB
	h.d, h.r, h.peerD, h.peerR = s.k[0], s.k[2], s.k[1], s.k[3]
	h.px, h.py = baseMul(h.peerD)
	h.rx, h.ry = baseMul(h.peerR)
	return h
}

func (g *gen) put(tag string, h single) {
	g.emit(tag+"/"+h.role, h.role, h.klen, h.ida, h.idb, h.d, h.px, h.py, h.r, h.rx, h.ry)
}

// next x >= cursor with x^3 + ax + b a square; advances the cursor
func (g *gen) nextLift(from *big.Int) (*big.Int, *big.Int) {
	x := new(big.Int).Set(from)
	for {
		if y := liftX(x); y != nil {
			return x, y
		}
		x.Add(x, one)
	}
}

func (g *gen) singles(round int) {
	roles := []string{"A", "B"}
	p256 := new(big.Int).Lsh(one, 256)
	for rep := 0; rep < 2; rep++ {
		for _, role := range roles {
			// peer ephemeral point off the curve
			h := g.honest(role)
			h.ry = new(big.Int).Add(h.ry, one)
			g.put("err:R=(x,y+1)", h)
			h = g.honest(role)
			h.rx = new(big.Int).Add(h.rx, one)
			g.put("err:R=(x+1,y)", h)
			h = g.honest(role)
			h.rx, h.ry = new(big.Int).SetBytes(g.r.Bytes(32)), new(big.Int).SetBytes(g.r.Bytes(32))
			g.put("err:R=random-32-byte-x,y", h)
			h = g.honest(role)
			h.rx, h.ry = new(big.Int), new(big.Int)
			g.put("err:R=(0,0)", h)
			// coordinates not reduced mod p
			h = g.honest(role)
			h.rx = new(big.Int).Set(cP)
			g.put("err:R=(p,y)", h)
			h = g.honest(role)
			h.ry = new(big.Int).Set(cP)
			g.put("err:R=(x,p)", h)
			// the negative of the honest point: on the curve, a valid but different point
			h = g.honest(role)
			h.ry = negY(h.ry)
			g.put("curio:R=(x,p-y)", h)
			// peer long-term key (0,0): the code does not validate the long-term key
			h = g.honest(role)
			h.px, h.py = new(big.Int), new(big.Int)
			g.put("err?:P=(0,0)", h)
			// V infinite by the peer's choice: P = -[x~(R.x) r]G, so P + [x~]R = O
			h = g.honest(role)
			e := mulmod(hat(h.rx), h.peerR, cN)
			ex, ey := baseMul(e)
			h.px, h.py = ex, negY(ey)
			g.put("err:V-infinite(P=-[x~]R)", h)
			// V infinite by the own keys: t = d + x~(own R.x) r = 0 mod n
			h = g.honest(role)
			orx, _ := baseMul(h.r)
			t := mulmod(hat(orx), h.r, cN)
			h.d = t.Sub(cN, t)
			g.put("err:V-infinite(own-t=0)", h)
		}
	}
	for _, role := range roles {
		for _, L := range []int{8192, 8193} {
			h := g.honest(role)
			h.ida = g.r.Bytes(L)
			g.put(fmt.Sprintf("err:idA-len=%d", L), h)
			h = g.honest(role)
			h.idb = g.r.Bytes(L)
			g.put(fmt.Sprintf("err:idB-len=%d", L), h)
		}
		h := g.honest(role)
		h.klen = 0
		g.put("err:klen=0", h)
		h = g.honest(role)
		h.klen = 0
		h.ida, h.idb = g.idOf(16), g.idOf(16)
		g.put("err:klen=0", h)
	}
	// peer ephemeral points with a short x (discrete log unknown: one side only)
	for i := 0; i < 4; i++ {
		x, y := g.nextLift(g.small)
		g.small = new(big.Int).Add(x, one)
		role := roles[i%2]
		h := g.honest(role)
		h.rx, h.ry = x, y
		g.put("ok:R.x-small="+zs(x), h)
		h = g.honest(roles[(i+1)%2])
		h.rx, h.ry = x, negY(y)
		g.put("ok:R.x-small,-y="+zs(x), h)
		if i < 2 {
			// the same point with x + p (fits in 256 bits): x >= p
			xp := new(big.Int).Add(x, cP)
			if xp.Cmp(p256) < 0 {
				h = g.honest(role)
				h.rx, h.ry = xp, y
				g.put("err:R=(x+p,y),x="+zs(x), h)
			}
		}
	}
	off := big.NewInt(int64(round) * 1000)
	for i, sh := range []uint{127, 120, 119, 128, 126, 248} {
		from := new(big.Int).Lsh(one, sh)
		from.Add(from, off)
		x, y := g.nextLift(from)
		h := g.honest(roles[i%2])
		h.rx, h.ry = x, y
		g.put(fmt.Sprintf("ok:R.x=2^%d+%s", sh, zs(new(big.Int).Sub(x, new(big.Int).Lsh(one, sh)))), h)
		h = g.honest(roles[(i+1)%2])
		h.rx, h.ry = x, negY(y)
		g.put(fmt.Sprintf("ok:R.x=2^%d+%s,-y", sh, zs(new(big.Int).Sub(x, new(big.Int).Lsh(one, sh)))), h)
	}
	{
		// x = 2^127 + small with x + p still below 2^256
		from := new(big.Int).Lsh(one, 127)
		from.Add(from, off)
		x, y := g.nextLift(from)
		h := g.honest(roles[round%2])
		h.rx, h.ry = new(big.Int).Add(x, cP), y
		g.put("err:R=(x+p,y),x=2^127+small", h)
	}
}

func doGen(seed uint64, tier string, o *hx.Out) {
	selfCheck()
	g := &gen{r: hx.NewRng(seed), o: o, small: new(big.Int), thorough: tier == "thorough"}
	rounds, nRandom := 1, 54
	if tier == "thorough" {
		rounds = 10
	}
	for i := 0; i < rounds; i++ {
		g.sessions(nRandom)
	}
	for i := 0; i < rounds; i++ {
		g.singles(i)
	}
	if p := os.Getenv("C13_TAGS"); p != "" {
		if err := os.WriteFile(p, []byte(strings.Join(g.tags, "\n")+"\n"), 0o644); err != nil {
			panic(err)
		}
	}
}

func annex() {
	dA := h2i("81EB26E941BB5AF16DF116495F90695272AE2CD63D6C4AE1678418BE48230029")
	dB := h2i("785129917D45A9EA5437A59356B82338EAADDA6CEB199088F14AE10DEFA229B5")
	rA := h2i("D4DE15474DB74D06491C440D305E012400990F3E390C7E87153C12DB2EA60BB3")
	rB := h2i("7E07124814B309489125EAED101113164EBF0F3458C5BD88335C1F9D596243D6")
	pax, pay := baseMul(dA)
	pbx, pby := baseMul(dB)
	rax, ray := baseMul(rA)
	rbx, rby := baseMul(rB)
	id := hx.Hex(defaultID)
	fmt.Printf("K 900001 A 16 %s %s %s %s %s %s %s %s\n", id, id, zs(dA), zs(pbx), zs(pby), zs(rA), zs(rbx), zs(rby))
	fmt.Printf("K 900002 B 16 %s %s %s %s %s %s %s %s\n", id, id, zs(dB), zs(pax), zs(pay), zs(rB), zs(rax), zs(ray))
}

func main() {
	if len(os.Args) >= 6 && os.Args[1] == "gen" {
		seed, _ := strconv.ParseUint(os.Args[2], 10, 64)
		o := hx.NewOut(os.Args[4], os.Args[5])
		doGen(seed, os.Args[3], o)
		o.Retry(runCase) // a case that ran out of time in this pass is re-run alone with 10x deadlines
		o.Close()
		return
	}
	if len(os.Args) >= 4 && os.Args[1] == "run" {
		o := hx.NewOut(os.DevNull, os.Args[3])
		for _, l := range hx.ReadLines(os.Args[2]) {
			o.Obs(runCase(l))
		}
		o.Retry(runCase) // a case that ran out of time in this pass is re-run alone with 10x deadlines
		o.Close()
		return
	}
	if len(os.Args) == 2 && os.Args[1] == "annex" {
		annex()
		return
	}
	fmt.Fprintln(os.Stderr, "usage: c13 gen <seed> <tier> <cases> <obs> | c13 run <cases> <obs>")
	os.Exit(2)
}
