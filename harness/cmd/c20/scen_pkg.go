package main

// Package-level state and the remaining package-level operations under concurrency (audit round 2):
//   sm4_iv_readers   Sm4Cbc / Sm4Ecb / Sm4CFB / Sm4OFB from many goroutines, the IV changed with SetIV BETWEEN the
//                    concurrent phases only (rows sm4_helper_ecb, sm4_helper_iv)
//   sm4_iv_set       the same helpers WHILE other goroutines call sm4.SetIV (rows sm4_helper_iv, sm4_set_iv): as a
//                    sequential order of the calls, every helper result must be the result under ONE of the IVs
//                    that are ever set (or the initial one) - and no data race
//   sm4_gcm          Sm4GCM / GCMEncrypt / GCMDecrypt on one shared key (and shared IV / AAD slices with spare capacity)
//   pkcs7_cea        PKCS7Encrypt / PKCS7EncryptSM2 from many goroutines, ContentEncryptionAlgorithm changed between
//                    the concurrent phases (rows x509_pkcs7_encrypt)
//   pkcs7_cea_set    NOT in the plan (run by hand: `c20race one S x pkcs7_cea_set 8 8 1`): the same while another goroutine assigns
//                    the exported variable x509.ContentEncryptionAlgorithm (row x509_set_cea, caller-synchronised by decision:
//                    the only writer is the application's own assignment).  Every envelope decrypts and names one of the
//                    two algorithms; the race detector reports the assignment against pkcs7.go:960 / :1040, as it must
//   sm2_keyexchange  KeyExchangeA / KeyExchangeB with shared long-term keys and identifiers
//   pkcs12_codec     pkcs12.Encode / Decode / DecodeAll / ToPEM with one shared key, certificate and container

import (
	"bytes"
	stdx509 "crypto/x509"
	"encoding/pem"
	"errors"
	"fmt"
	"sync"
	"sync/atomic"

	"github.com/tjfoc/gmsm/pkcs12"
	"github.com/tjfoc/gmsm/sm2"
	"github.com/tjfoc/gmsm/sm4"
	"github.com/tjfoc/gmsm/x509"
	"verifharness/internal/hx"
)

func init() {
	register("sm4_iv_readers", func(s uint64, g, i int) (int, int, string, error) { return scenSm4IV(false, s, g, i) })
	register("sm4_iv_set", func(s uint64, g, i int) (int, int, string, error) { return scenSm4IV(true, s, g, i) })
	register("sm4_gcm", scenSm4GCM)
	register("pkcs7_cea", func(s uint64, g, i int) (int, int, string, error) { return scenPkcs7CEA(false, s, g, i) })
	register("pkcs7_cea_set", func(s uint64, g, i int) (int, int, string, error) { return scenPkcs7CEA(true, s, g, i) })
	register("sm2_keyexchange", scenKeyExchange)
	register("pkcs12_codec", scenPkcs12)
}

// ---- sm4.IV -----------------------------------------------------------------------------------------------------
type sm4Helper func(key, in []byte, mode bool) ([]byte, error)

var sm4Helpers = []struct {
	name string
	f    sm4Helper
}{{"cbc", sm4.Sm4Cbc}, {"ecb", sm4.Sm4Ecb}, {"cfb", sm4.Sm4CFB}, {"ofb", sm4.Sm4OFB}}

// ONE library call: encryption of msg, or (odd i) decryption of msg padded to whole blocks
func sm4HelperCall(h int, key, msg []byte, enc bool) string {
	out, err := sm4Helpers[h].f(key, msg, enc)
	return sum(out, err)
}

func scenSm4IV(racing bool, seed uint64, goroutines, iters int) (int, int, string, error) {
	r := hx.NewRng(seed)
	nIV := 4
	ivs := make([][]byte, nIV+1)
	ivs[0] = make([]byte, 16) // the initial value of sm4.IV
	for k := 1; k <= nIV; k++ {
		ivs[k] = r.Bytes(16)
	}
	keys := make([][]byte, goroutines)
	for g := range keys {
		keys[g] = r.Bytes(16)
	}
	shared := r.Bytes(16) // one key slice read by everybody
	input := func(g, i int) ([]byte, []byte, int) {
		key := keys[g]
		if i%3 == 2 {
			key = shared
		}
		if i%2 == 1 { // a decryption: whole blocks (the un-padding may refuse the garbage - an error is a result too)
			return key, newDet(seed, g, i, 1).r.Bytes(16 * (1 + (g+i)%4)), (g + i/2) % len(sm4Helpers)
		}
		return key, newDet(seed, g, i, 1).r.Bytes(1 + (g*11+i*5)%70), (g + i/2) % len(sm4Helpers)
	}
	// single-threaded references: every call under every IV
	ref := make([]map[string]bool, goroutines*iters) // every result that some IV gives
	refK := make([][]string, goroutines*iters)       // the result under IV k
	for k := 1; k <= nIV+1; k++ {
		iv := ivs[k%(nIV+1)] // ... and the initial one last, so that the concurrent phase starts from it
		if err := sm4.SetIV(iv); err != nil {
			return 0, 0, "", err
		}
		for g := 0; g < goroutines; g++ {
			for i := 0; i < iters; i++ {
				key, msg, h := input(g, i)
				if ref[g*iters+i] == nil {
					ref[g*iters+i] = map[string]bool{}
					refK[g*iters+i] = make([]string, nIV+1)
				}
				res := sm4HelperCall(h, key, msg, i%2 == 0)
				ref[g*iters+i][res] = true
				refK[g*iters+i][k%(nIV+1)] = res
			}
		}
	}
	diffs, first := 0, ""
	var mu sync.Mutex
	note := func(s string) {
		mu.Lock()
		diffs++
		if first == "" {
			first = s
		}
		mu.Unlock()
	}
	calls := 0
	if !racing {
		// the IV changes between the phases only; within a phase every result is THE result under that IV
		for k := 0; k <= nIV; k++ {
			if err := sm4.SetIV(ivs[k]); err != nil {
				return 0, 0, "", err
			}
			var wg sync.WaitGroup
			start := make(chan struct{})
			for g := 0; g < goroutines; g++ {
				wg.Add(1)
				go func(g int) {
					defer wg.Done()
					<-start
					for i := 0; i < iters; i++ {
						key, msg, h := input(g, i)
						if sm4HelperCall(h, key, msg, i%2 == 0) != refK[g*iters+i][k] {
							note(fmt.Sprintf("iv%d/g%d/i%d:%s-result-is-not-the-single-threaded-result-under-this-IV", k, g, i, sm4Helpers[h].name))
						}
					}
				}(g)
			}
			close(start)
			wg.Wait()
			calls += goroutines * iters
		}
		sm4.SetIV(ivs[0])
		return calls, diffs, first, nil
	}
	// racing: one goroutine in four (at least one) keeps calling SetIV, the others use the helpers
	var stop int32
	var sets int64
	var swg, wg sync.WaitGroup
	start, under := make(chan struct{}), make(chan struct{})
	workers := 0
	for g := 0; g < goroutines; g++ {
		if g%4 == 0 {
			swg.Add(1)
			go func(g int) {
				defer swg.Done()
				<-start
				for k := g; atomic.LoadInt32(&stop) == 0; k++ {
					if sm4.SetIV(ivs[k%(nIV+1)]) != nil {
						note("SetIV-refused-a-16-byte-IV")
						return
					}
					if atomic.AddInt64(&sets, 1) == 1 {
						close(under) // the helpers start once SetIV calls are under way
					}
				}
			}(g)
			continue
		}
		workers++
		wg.Add(1)
		go func(g int) {
			defer wg.Done()
			<-under
			for i := 0; i < iters; i++ {
				key, msg, h := input(g, i)
				if !ref[g*iters+i][sm4HelperCall(h, key, msg, i%2 == 0)] {
					note(fmt.Sprintf("g%d/i%d:%s-result-matches-no-IV-that-was-ever-set", g, i, sm4Helpers[h].name))
				}
			}
		}(g)
	}
	close(start)
	wg.Wait()
	atomic.StoreInt32(&stop, 1)
	swg.Wait()
	sm4.SetIV(ivs[0])
	if atomic.LoadInt64(&sets) == 0 {
		return 0, 0, "", errors.New("no SetIV call completed while the helpers ran")
	}
	return workers*iters + int(sets), diffs, first, nil
}

// ---- GCM helpers on one key -------------------------------------------------------------------------------------
func scenSm4GCM(seed uint64, goroutines, iters int) (int, int, string, error) {
	r := hx.NewRng(seed)
	key := r.Bytes(16)
	// shared IV and AAD with spare capacity: a helper that appends to its arguments writes into them
	ivBuf, aadBuf := r.Bytes(64), r.Bytes(96)
	sharedIV, sharedAAD := ivBuf[:12], aadBuf[:20]
	ivCopy, aadCopy := append([]byte{}, ivBuf...), append([]byte{}, aadBuf...)
	calls, diffs, first := compare(goroutines, iters, false, func(g, i int) string {
		iv, aad := sharedIV, sharedAAD
		if i%2 == 1 {
			d := newDet(seed, g, i, 1).r
			iv, aad = d.Bytes(12), d.Bytes((g*3+i)%40)
		}
		pt := newDet(seed, g, i, 2).r.Bytes((g*17 + i*29) % 100)
		c, t, e1 := sm4.Sm4GCM(key, iv, pt, aad, true)
		p, t2, e2 := sm4.Sm4GCM(key, iv, c, aad, false)
		c2, t3 := sm4.GCMEncrypt(key, iv, pt, aad)
		p2, t4 := sm4.GCMDecrypt(key, iv, c2, aad)
		return sum(c, t, e1, bytes.Equal(p, pt), bytes.Equal(t, t2), e2, c2, t3, bytes.Equal(p2, pt), bytes.Equal(t3, t4))
	})
	if !bytes.Equal(ivBuf, ivCopy) || !bytes.Equal(aadBuf, aadCopy) {
		diffs++
		if first == "" {
			first = "a-GCM-helper-wrote-into-its-IV-or-AAD-argument"
		}
	}
	return calls, diffs, first, nil
}

// ---- PKCS#7 content-encryption selector ---------------------------------------------------------------------------
type p7Fix struct {
	rsaCert, smCert *x509.Certificate
	rsaKey          interface{}
	smKey           *sm2.PrivateKey
}

func newP7Fix() (*p7Fix, error) {
	f := &p7Fix{}
	var err error
	if f.rsaCert, err = x509.ReadCertificateFromPem(certFile("rsa_sign.cer")); err != nil {
		return nil, err
	}
	blk, _ := pem.Decode(certFile("rsa_sign_key.pem"))
	if blk == nil {
		return nil, errors.New("rsa_sign_key.pem: no PEM block")
	}
	if f.rsaKey, err = stdx509.ParsePKCS8PrivateKey(blk.Bytes); err != nil {
		if f.rsaKey, err = stdx509.ParsePKCS1PrivateKey(blk.Bytes); err != nil {
			return nil, err
		}
	}
	if f.smCert, err = x509.ReadCertificateFromPem(certFile("sm2_enc_cert.cer")); err != nil {
		return nil, err
	}
	if f.smKey, err = x509.ReadPrivateKeyFromPem(certFile("sm2_enc_key.pem"), nil); err != nil {
		return nil, err
	}
	return f, nil
}

// one envelope: which content-encryption algorithm it names ("des", "gcm", "?") and whether it decrypts to content
func (f *p7Fix) envelope(sm bool, content []byte) (string, string) {
	var env []byte
	var err error
	if sm {
		env, err = x509.PKCS7EncryptSM2(content, []*x509.Certificate{f.smCert}, sm2.C1C3C2)
	} else {
		env, err = x509.PKCS7Encrypt(content, []*x509.Certificate{f.rsaCert})
	}
	if err != nil {
		return "?", "encrypt:" + err.Error()
	}
	alg := "?"
	switch {
	case bytes.Contains(env, []byte{0x06, 0x05, 0x2b, 0x0e, 0x03, 0x02, 0x07}): // 1.3.14.3.2.7 desCBC
		alg = "des"
	case bytes.Contains(env, []byte{0x06, 0x09, 0x60, 0x86, 0x48, 0x01, 0x65, 0x03, 0x04, 0x01, 0x06}): // aes128-GCM
		alg = "gcm"
	}
	p7, err := x509.ParsePKCS7(env)
	if err != nil {
		return alg, "parse:" + err.Error()
	}
	var pt []byte
	if sm {
		pt, err = p7.DecryptSM2(f.smCert, f.smKey, sm2.C1C3C2)
	} else {
		pt, err = p7.Decrypt(f.rsaCert, f.rsaKey)
	}
	if err != nil {
		return alg, "decrypt:" + err.Error()
	}
	if !bytes.Equal(pt, content) {
		return alg, "decrypts-to-other-content"
	}
	return alg, "ok"
}

func scenPkcs7CEA(racing bool, seed uint64, goroutines, iters int) (int, int, string, error) {
	f, err := newP7Fix()
	if err != nil {
		return 0, 0, "", err
	}
	saved := x509.ContentEncryptionAlgorithm
	defer func() { x509.ContentEncryptionAlgorithm = saved }()
	names := map[int]string{x509.EncryptionAlgorithmDESCBC: "des", x509.EncryptionAlgorithmAES128GCM: "gcm"}
	diffs, first := 0, ""
	var mu sync.Mutex
	note := func(s string) {
		mu.Lock()
		diffs++
		if first == "" {
			first = s
		}
		mu.Unlock()
	}
	content := func(g, i int) []byte { return newDet(seed, g, i, 1).r.Bytes(1 + (g*13+i*7)%90) }
	calls := 0
	if !racing {
		for phase, alg := range []int{x509.EncryptionAlgorithmDESCBC, x509.EncryptionAlgorithmAES128GCM, x509.EncryptionAlgorithmDESCBC, x509.EncryptionAlgorithmAES128GCM} {
			x509.ContentEncryptionAlgorithm = alg
			var wg sync.WaitGroup
			start := make(chan struct{})
			for g := 0; g < goroutines; g++ {
				wg.Add(1)
				go func(g int) {
					defer wg.Done()
					<-start
					for i := 0; i < iters; i++ {
						a, res := f.envelope((g+i)%2 == 0, content(g, i))
						if a != names[alg] || res != "ok" {
							note(fmt.Sprintf("phase%d/g%d/i%d:selector=%s,envelope=%s,%s", phase, g, i, names[alg], a, res))
						}
					}
				}(g)
			}
			close(start)
			wg.Wait()
			calls += goroutines * iters
		}
		return calls, diffs, first, nil
	}
	// racing: the application changes the selector while other goroutines encrypt
	var stop int32
	var sets int64
	var swg, wg sync.WaitGroup
	start, under := make(chan struct{}), make(chan struct{})
	swg.Add(1)
	go func() {
		defer swg.Done()
		<-start
		for k := 0; atomic.LoadInt32(&stop) == 0; k++ {
			if k%2 == 0 {
				x509.ContentEncryptionAlgorithm = x509.EncryptionAlgorithmAES128GCM
			} else {
				x509.ContentEncryptionAlgorithm = x509.EncryptionAlgorithmDESCBC
			}
			if atomic.AddInt64(&sets, 1) == 1 {
				close(under)
			}
		}
	}()
	for g := 0; g < goroutines; g++ {
		wg.Add(1)
		go func(g int) {
			defer wg.Done()
			<-under
			for i := 0; i < iters; i++ {
				a, res := f.envelope((g+i)%2 == 0, content(g, i))
				if (a != "des" && a != "gcm") || res != "ok" {
					note(fmt.Sprintf("g%d/i%d:envelope=%s,%s", g, i, a, res))
				}
			}
		}(g)
	}
	close(start)
	wg.Wait()
	atomic.StoreInt32(&stop, 1)
	swg.Wait()
	return goroutines*iters + int(atomic.LoadInt64(&sets)), diffs, first, nil
}

// ---- SM2 key exchange with shared long-term keys ---------------------------------------------------------------------
func scenKeyExchange(seed uint64, goroutines, iters int) (int, int, string, error) {
	priA, err := sm2.GenerateKey(newDet(seed, 900, 0, 0))
	if err != nil {
		return 0, 0, "", err
	}
	priB, err := sm2.GenerateKey(newDet(seed, 901, 0, 0))
	if err != nil {
		return 0, 0, "", err
	}
	ida, idb := []byte("alice@c20.example"), []byte("bob@c20.example")
	calls, diffs, first := compare(goroutines, iters, false, func(g, i int) string {
		ra, e1 := sm2.GenerateKey(newDet(seed, g, i, 1))
		rb, e2 := sm2.GenerateKey(newDet(seed, g, i, 2))
		if e1 != nil || e2 != nil {
			return "ephemeral-key-generation-failed"
		}
		klen := 16 + (g+i)%33
		kb, s1b, s2b, e3 := sm2.KeyExchangeB(klen, ida, idb, priB, &priA.PublicKey, rb, &ra.PublicKey)
		ka, s1a, s2a, e4 := sm2.KeyExchangeA(klen, ida, idb, priA, &priB.PublicKey, ra, &rb.PublicKey)
		agree := e3 == nil && e4 == nil && bytes.Equal(ka, kb) && bytes.Equal(s1a, s1b) && bytes.Equal(s2a, s2b) && len(ka) == klen
		return sum(kb, s1b, s2b, e3, ka, s1a, s2a, e4, agree)
	})
	return calls, diffs, first, nil
}

// ---- PKCS#12 with one shared key, certificate and container ----------------------------------------------------------
func scenPkcs12(seed uint64, goroutines, iters int) (int, int, string, error) {
	cert, err := x509.ReadCertificateFromPem(certFile("sm2_sign_cert.cer"))
	if err != nil {
		return 0, 0, "", err
	}
	key, err := x509.ReadPrivateKeyFromPem(certFile("sm2_sign_key.pem"), nil)
	if err != nil {
		return 0, 0, "", err
	}
	caG, err := x509.ReadCertificateFromPem(certFile("RSA_CA.cer"))
	if err != nil {
		return 0, 0, "", err
	}
	ca, err := stdx509.ParseCertificate(caG.Raw)
	if err != nil {
		return 0, 0, "", err
	}
	cas := []*stdx509.Certificate{ca}
	const pw = "C20-p12-password"
	fixed, err := pkcs12.Encode(key, cert, cas, pw) // one container decoded by everybody
	if err != nil {
		return 0, 0, "", errors.New("pkcs12.Encode: " + err.Error())
	}
	dec := func(data []byte, pass string) string {
		k, c, err := pkcs12.Decode(data, pass)
		if err != nil {
			return "decode-error"
		}
		sk, ok := k.(*sm2.PrivateKey)
		if !ok || sk.D.Cmp(key.D) != 0 || !bytes.Equal(c.Raw, cert.Raw) {
			return "decoded-other-key-or-certificate"
		}
		return "same"
	}
	calls, diffs, first := compare(goroutines, iters, false, func(g, i int) string {
		switch (g + i) % 4 {
		case 0: // fresh container (random salts: compared through its decoding)
			data, err := pkcs12.Encode(key, cert, cas, pw)
			if err != nil {
				return "encode-error"
			}
			return "enc:" + dec(data, pw)
		case 1:
			return "dec:" + dec(fixed, pw)
		case 2:
			k, cs, err := pkcs12.DecodeAll(fixed, pw)
			if err != nil {
				return "decodeall-error"
			}
			sk, ok := k.(*sm2.PrivateKey)
			return sum("all", ok && sk.D.Cmp(key.D) == 0, len(cs))
		default:
			blocks, err := pkcs12.ToPEM(fixed, pw)
			_, _, werr := pkcs12.Decode(fixed, pw+"x")
			n := 0
			var types []byte
			for _, b := range blocks {
				n += len(b.Bytes)
				types = append(types, b.Type...)
			}
			return sum("pem", err, len(blocks), n, types, werr)
		}
	})
	return calls, diffs, first, nil
}
