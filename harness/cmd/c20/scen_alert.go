package main

// conn_alert_gm / conn_alert_tls: the alert-sending branches of Conn.readRecord (and handleRenegotiation) that a peer
// can reach on an ESTABLISHED connection, taken while other goroutines are inside Conn.Write on the same Conn.
// rows: conn_read (the nested c.in -> c.out section "alerts sent from the read path"), conn_write.
//
// One sub-run per branch on a fresh connection; the connection under test ("victim") is the server or the client.
//   victim:  one goroutine in Read until it fails, W goroutines in Write (4 KiB messages, back to back)
//   peer:    one goroutine reads and checks everything the victim sends; the main goroutine sends a few messages and
//            then the stimulus of the branch (through the hook gmtls.(*Conn).VerifWriteRecord = the package's own
//            writeRecord, or as raw bytes on the transport)
// Result of a sub-run (must not depend on the interleaving): the error Read fails with, the outcome of a Write issued
// after that Read has returned (the alert was fatal for the sending side: it must fail), the error the peer's Read
// ends with (the victim's alert - not bad_record_mac, not a garbled stream), both data streams intact.
// Reference: the same sub-run with the writers finished before the stimulus is sent (one goroutine at a time).

import (
	"errors"
	"fmt"
	"io"
	"net"
	"os"
	"strings"
	"sync"
	"sync/atomic"
	"time"

	"github.com/tjfoc/gmsm/gmtls"
	"verifharness/internal/hx"
)

func init() {
	register("conn_alert_gm", func(s uint64, g, i int) (int, int, string, error) { return scenConnAlert(true, s, g, i) })
	register("conn_alert_tls", func(s uint64, g, i int) (int, int, string, error) { return scenConnAlert(false, s, g, i) })
}

type recWriter interface {
	VerifWriteRecord(typ uint8, data []byte) (int, error)
}

type alertBranch struct {
	name     string
	want     string // what the victim's Read error must contain (checked on the reference run: the stimulus took the branch)
	peerSees bool   // the victim answers with a fatal alert that ends the peer's Read
	stim     func(p recWriter, praw net.Conn, vers uint16, r *hx.Rng) error
}

const (
	recAlert     = 21
	recHandshake = 22
	recCCS       = 20
	recAppData   = 23
)

var warnDescriptions = []byte{90, 100, 41, 110, 112, 10, 47} // anything but close_notify (0)

func rawRecord(typ byte, vers uint16, n int, body []byte) []byte {
	return append([]byte{typ, byte(vers >> 8), byte(vers), byte(n >> 8), byte(n)}, body...)
}

var alertBranches = []alertBranch{
	{"warnflood", "too many warn alerts", true, func(p recWriter, _ net.Conn, _ uint16, r *hx.Rng) error {
		// more than maxWarnAlertCount (5) consecutive warning alerts, no data in between
		for k, n := 0, 6+r.Intn(4); k < n; k++ {
			if _, err := p.VerifWriteRecord(recAlert, []byte{1, warnDescriptions[r.Intn(len(warnDescriptions))]}); err != nil {
				return err
			}
		}
		return nil
	}},
	{"alertlen", "unexpected message", true, func(p recWriter, _ net.Conn, _ uint16, r *hx.Rng) error {
		_, err := p.VerifWriteRecord(recAlert, []byte{1, 90, byte(r.Intn(256))})
		return err
	}},
	{"alertlevel", "unexpected message", true, func(p recWriter, _ net.Conn, _ uint16, r *hx.Rng) error {
		_, err := p.VerifWriteRecord(recAlert, []byte{byte(3 + r.Intn(200)), 90})
		return err
	}},
	{"unktype", "unexpected message", true, func(p recWriter, _ net.Conn, _ uint16, r *hx.Rng) error {
		_, err := p.VerifWriteRecord(byte(24+r.Intn(100)), []byte{1, 2, 3})
		return err
	}},
	{"ccs", "unexpected message", true, func(p recWriter, _ net.Conn, _ uint16, _ *hx.Rng) error {
		p.VerifWriteRecord(recCCS, []byte{1}) // the sender itself fails afterwards (no pending cipher spec): expected
		return nil
	}},
	{"hsrecord", "no renegotiation", false, func(p recWriter, _ net.Conn, _ uint16, _ *hx.Rng) error {
		_, err := p.VerifWriteRecord(recHandshake, []byte{0, 0, 0, 0}) // HelloRequest
		return err
	}},
	{"badmac", "bad record MAC", true, func(_ recWriter, praw net.Conn, vers uint16, r *hx.Rng) error {
		body := make([]byte, 64)
		for i := range body {
			body[i] = byte(r.U64())
		}
		_, err := praw.Write(rawRecord(recAppData, vers, len(body), body))
		return err
	}},
	{"oversize", "oversized record", true, func(_ recWriter, praw net.Conn, vers uint16, r *hx.Rng) error {
		_, err := praw.Write(rawRecord(recAppData, vers, 16384+2048+1+r.Intn(1000), nil))
		return err
	}},
	{"badvers", "received record with version", true, func(_ recWriter, praw net.Conn, vers uint16, _ *hx.Rng) error {
		_, err := praw.Write(rawRecord(recAppData, vers^0x0200, 16, make([]byte, 16)))
		return err
	}},
}

const amLen = 4096

func alertMsg(tag byte, g, j int) []byte {
	m := make([]byte, amLen)
	m[0], m[1], m[2], m[3], m[4] = tag, byte(g), byte(j>>16), byte(j>>8), byte(j)
	for k := 5; k < amLen; k++ {
		m[k] = byte(g*29 + j*13 + k)
	}
	return m
}

// streamCheck consumes a byte stream of alertMsg messages of nw writers, each writer's messages in order
type streamCheck struct {
	tag    byte
	pend   []byte
	counts []int
	bad    string
}

func (s *streamCheck) feed(p []byte) int {
	got := 0
	s.pend = append(s.pend, p...)
	for len(s.pend) >= amLen && s.bad == "" {
		m := s.pend[:amLen]
		s.pend = s.pend[amLen:]
		g, j := int(m[1]), int(m[2])<<16|int(m[3])<<8|int(m[4])
		if m[0] != s.tag || g >= len(s.counts) {
			s.bad = "garbled-message-header"
			break
		}
		if j != s.counts[g] {
			s.bad = fmt.Sprintf("writer%d:message%d-arrived-where-%d-was-due", g, j, s.counts[g])
			break
		}
		for k := 5; k < amLen; k++ {
			if m[k] != byte(g*29+j*13+k) {
				s.bad = "message-bytes-garbled"
				break
			}
		}
		s.counts[g]++
		got++
	}
	return got
}

func errText(err error) string {
	if err == nil {
		return "nil"
	}
	return strings.ReplaceAll(err.Error(), " ", "-")
}

type tlsPair struct {
	srv, cli   *gmtls.Conn
	sraw, craw net.Conn
}

func (p *tlsPair) close() {
	p.sraw.Close()
	p.craw.Close()
}

func connectPair(gm bool) (*tlsPair, error) {
	kind := "tls"
	if gm {
		kind = "gm"
	}
	scfg, err := serverConfig(kind)
	if err != nil {
		return nil, err
	}
	ln, err := listen()
	if err != nil {
		return nil, err
	}
	defer ln.Close()
	type acc struct {
		c   *gmtls.Conn
		raw net.Conn
		err error
	}
	ach := make(chan acc, 1)
	go func() {
		raw, err := ln.Accept()
		if err != nil {
			ach <- acc{nil, nil, err}
			return
		}
		raw.SetDeadline(time.Now().Add(hx.D(ioDeadline)))
		c := gmtls.Server(raw, scfg)
		ach <- acc{c, raw, c.Handshake()}
	}()
	raw, err := dial(ln.Addr().String())
	if err != nil {
		return nil, err
	}
	cli := gmtls.Client(raw, clientConfig(gm, nil))
	if err := cli.Handshake(); err != nil {
		raw.Close()
		return nil, errors.New("client handshake: " + err.Error())
	}
	a := <-ach
	if a.err != nil {
		raw.Close()
		if a.raw != nil {
			a.raw.Close()
		}
		return nil, errors.New("server handshake: " + a.err.Error())
	}
	return &tlsPair{a.c, cli, a.raw, raw}, nil
}

// one sub-run; concurrent = the victim's writers keep writing while the stimulus arrives
func alertRun(gm bool, br alertBranch, victimIsServer bool, W int, concurrent bool, seed uint64) (string, int, error) {
	pr, err := connectPair(gm)
	if err != nil {
		return "", 0, err
	}
	defer pr.close()
	victim, peer, praw, vraw := pr.srv, pr.cli, pr.craw, pr.sraw
	if !victimIsServer {
		victim, peer, praw, vraw = pr.cli, pr.srv, pr.sraw, pr.craw
	}
	hook, ok := interface{}(peer).(recWriter)
	if !ok {
		return "", 0, errors.New("hook-missing:gmtls/verif_conc_verif.go")
	}
	vers := victim.ConnectionState().Version
	rng := hx.NewRng(seed)
	const pre = 6      // messages every writer sends before the stimulus may go out
	const peerMsgs = 3 // messages the peer sends before the stimulus

	var stop int32
	calls := int64(0)
	// victim's writers
	var wwg sync.WaitGroup
	wbad := make([]string, W)
	for g := 0; g < W; g++ {
		wwg.Add(1)
		go func(g int) {
			defer wwg.Done()
			for j := 0; j < 1<<20; j++ {
				if !concurrent && j >= pre {
					return
				}
				if atomic.LoadInt32(&stop) != 0 {
					return
				}
				n, err := victim.Write(alertMsg(0xA7, g, j))
				atomic.AddInt64(&calls, 1)
				if err != nil {
					return
				}
				if n != amLen {
					wbad[g] = "successful-write-short"
					return
				}
			}
		}(g)
	}
	// peer's reader
	type pres struct {
		err  error
		bad  string
		msgs int
	}
	pdone := make(chan pres, 1)
	var parrived int64
	go func() {
		sc := &streamCheck{tag: 0xA7, counts: make([]int, W)}
		buf := make([]byte, 8192)
		for {
			n, err := peer.Read(buf)
			sc.feed(buf[:n])
			min := 1 << 30
			for _, c := range sc.counts {
				if c < min {
					min = c
				}
			}
			atomic.StoreInt64(&parrived, int64(min))
			if err != nil || sc.bad != "" {
				t := 0
				for _, c := range sc.counts {
					t += c
				}
				pdone <- pres{err, sc.bad, t}
				return
			}
		}
	}()
	// victim's reader, then the late Write
	type vres struct {
		err, late error
		lateN     int
		bad       string
		msgs      int
	}
	vdone := make(chan vres, 1)
	go func() {
		sc := &streamCheck{tag: 0x5B, counts: make([]int, 1)}
		buf := make([]byte, 8192)
		for {
			n, err := victim.Read(buf)
			atomic.AddInt64(&calls, 1)
			sc.feed(buf[:n])
			if err != nil {
				ln, lerr := victim.Write(alertMsg(0xA7, 0, 1<<22))
				vdone <- vres{err, lerr, ln, sc.bad, sc.counts[0]}
				return
			}
		}
	}()
	fail := func(msg string) (string, int, error) {
		atomic.StoreInt32(&stop, 1)
		pr.close()
		return "", 0, errors.New(br.name + ": " + msg)
	}
	// the writers are under way (concurrent) / have finished and everything has arrived (reference)
	if !concurrent {
		wwg.Wait()
	}
	dl := time.After(hx.D(40 * time.Second))
	for atomic.LoadInt64(&parrived) < pre {
		select {
		case <-dl:
			return fail("timed out waiting for the victim's messages")
		case p := <-pdone:
			return fail("peer reader ended early: " + errText(p.err) + " " + p.bad)
		case <-time.After(200 * time.Microsecond):
		}
	}
	for j := 0; j < peerMsgs; j++ {
		if _, err := peer.Write(alertMsg(0x5B, 0, j)); err != nil {
			return fail("peer write: " + err.Error())
		}
	}
	if err := br.stim(hook, praw, vers, rng); err != nil {
		return fail("stimulus: " + err.Error())
	}
	var v vres
	select {
	case v = <-vdone:
	case <-time.After(hx.D(40 * time.Second)):
		return fail("timed out waiting for the victim's Read to fail")
	}
	atomic.StoreInt32(&stop, 1)
	wdone := make(chan struct{})
	go func() { wwg.Wait(); close(wdone) }()
	select {
	case <-wdone:
	case <-time.After(hx.D(40 * time.Second)):
		return fail("timed out waiting for the victim's writers")
	}
	var p pres
	if !br.peerSees {
		vraw.Close() // nothing fatal reaches the peer in this branch: end its Read
	}
	select {
	case p = <-pdone:
	case <-time.After(hx.D(20 * time.Second)):
		// the fatal alert never arrived (or could not be read)
		pr.close()
		p = <-pdone
		p.err = errors.New("no-alert-arrived-within-the-deadline")
	}
	late := "refused"
	if v.lateN != 0 || v.late == nil {
		late = "ACCEPTED"
	}
	res := fmt.Sprintf("read=%s;write-after=%s:%s;victim-stream=%s/%d", errText(v.err), late, errText(v.late), orOK(v.bad), v.msgs)
	if br.peerSees {
		res += ";peer-read=" + errText(p.err)
	}
	res += ";peer-stream=" + orOK(p.bad)
	for g := range wbad {
		if wbad[g] != "" {
			res += fmt.Sprintf(";writer%d=%s", g, wbad[g])
		}
	}
	if debug {
		fmt.Fprintf(os.Stderr, "debug: alert %s server=%v conc=%v W=%d peer-msgs=%d: %s\n", br.name, victimIsServer, concurrent, W, p.msgs, res)
	}
	if !concurrent {
		// non-vacuity: the stimulus took its branch.  (A GMSSL client never sets c.haveVers: there the record-version
		// check is off - a record of the wrong version fails the MAC instead - and every record that is neither an
		// alert nor application data takes the "first record does not look like a TLS handshake" branch.)
		took := v.err != io.EOF && strings.Contains(errText(v.err), strings.ReplaceAll(br.want, " ", "-"))
		if gm && !victimIsServer {
			took = took || strings.Contains(errText(v.err), "first-record-does-not-look-like") ||
				(br.name == "badvers" && strings.Contains(errText(v.err), "bad-record-MAC"))
		}
		if !took {
			return "", 0, errors.New(br.name + ": the stimulus did not take the branch: " + res)
		}
	}
	return res, int(atomic.LoadInt64(&calls)), nil
}

func orOK(s string) string {
	if s == "" {
		return "ok"
	}
	return s
}

func scenConnAlert(gm bool, seed uint64, goroutines, iters int) (int, int, string, error) {
	W := goroutines - 1
	if W < 1 {
		W = 1
	}
	if W > 200 {
		W = 200
	}
	calls, diffs, first := 0, 0, ""
	for rep := 0; rep < iters; rep++ {
		for bi, br := range alertBranches {
			// the two roles alternate over branches, repetitions and the two goroutine counts of the plan
			flip := 0
			if goroutines >= 4 {
				flip = 1
			}
			victimIsServer := (bi+rep+flip)%2 == 0
			s := seed*977 + uint64(rep)*31 + uint64(bi)
			ref, c1, err := alertRun(gm, br, victimIsServer, W, false, s)
			if err != nil {
				return calls, diffs, first, err
			}
			conc, c2, err := alertRun(gm, br, victimIsServer, W, true, s)
			if err != nil {
				return calls, diffs, first, err
			}
			calls += c1 + c2
			if ref != conc {
				diffs++
				if first == "" {
					role := "client"
					if victimIsServer {
						role = "server"
					}
					first = fmt.Sprintf("%s/%s/rep%d:seq=%s,conc=%s", br.name, role, rep, ref, conc)
				}
			}
		}
	}
	return calls, diffs, first, nil
}
