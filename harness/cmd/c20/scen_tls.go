package main

import (
	"bytes"
	"errors"
	"fmt"
	"io"
	"net"
	"os"
	"sync"
	"sync/atomic"
	"time"

	"github.com/tjfoc/gmsm/gmtls"
	"github.com/tjfoc/gmsm/x509"
	"verifharness/internal/hx"
)

func init() {
	register("hs_gm", func(s uint64, g, i int) (int, int, string, error) { return scenHandshakes("gm", s, g, i) })
	register("hs_tls", func(s uint64, g, i int) (int, int, string, error) { return scenHandshakes("tls", s, g, i) })
	register("hs_auto", func(s uint64, g, i int) (int, int, string, error) { return scenHandshakes("auto", s, g, i) })
	register("conn_rwc_gm", func(s uint64, g, i int) (int, int, string, error) { return scenConnRWC(true, s, g, i) })
	register("conn_rwc_tls", func(s uint64, g, i int) (int, int, string, error) { return scenConnRWC(false, s, g, i) })
	register("lru_cache", scenLRU)
}

const ioDeadline = 60 * time.Second

func keyPair(cert, key string) (gmtls.Certificate, error) {
	return gmtls.X509KeyPair(certFile(cert), certFile(key))
}

func pool(names ...string) *x509.CertPool {
	p := x509.NewCertPool()
	for _, n := range names {
		p.AppendCertsFromPEM(certFile(n))
	}
	return p
}

func serverConfig(kind string) (*gmtls.Config, error) {
	sig, err := keyPair("sm2_sign_cert.cer", "sm2_sign_key.pem")
	if err != nil {
		return nil, err
	}
	enc, err := keyPair("sm2_enc_cert.cer", "sm2_enc_key.pem")
	if err != nil {
		return nil, err
	}
	rsa, err := keyPair("rsa_sign.cer", "rsa_sign_key.pem")
	if err != nil {
		return nil, err
	}
	switch kind {
	case "gm":
		return &gmtls.Config{GMSupport: &gmtls.GMSupport{}, Certificates: []gmtls.Certificate{sig, enc}}, nil
	case "tls":
		return &gmtls.Config{Certificates: []gmtls.Certificate{rsa}}, nil
	default:
		return gmtls.NewBasicAutoSwitchConfig(&sig, &enc, &rsa)
	}
}

func clientConfig(gm bool, cache gmtls.ClientSessionCache) *gmtls.Config {
	if gm {
		return &gmtls.Config{GMSupport: &gmtls.GMSupport{}, RootCAs: pool("SM2_CA.cer"), ServerName: "localhost", ClientSessionCache: cache}
	}
	return &gmtls.Config{RootCAs: pool("RSA_CA.cer"), ServerName: "localhost", ClientSessionCache: cache, MaxVersion: gmtls.VersionTLS12}
}

func listen() (net.Listener, error) { return net.Listen("tcp", "127.0.0.1:0") }

func dial(addr string) (net.Conn, error) {
	c, err := net.DialTimeout("tcp", addr, hx.D(10*time.Second))
	if err != nil {
		return nil, err
	}
	c.SetDeadline(time.Now().Add(hx.D(ioDeadline)))
	return c, nil
}

// ---- many simultaneous handshakes sharing one server Config, session tickets, key rotation -------------------
// rows: config_server_init, config_ticket_keys_read, config_set_ticket_keys, config_clone, lru_put, lru_get,
//
//	conn_handshake (separate connections)
func scenHandshakes(kind string, seed uint64, goroutines, iters int) (int, int, string, error) {
	scfg, err := serverConfig(kind)
	if err != nil {
		return 0, 0, "", err
	}
	ln, err := listen()
	if err != nil {
		return 0, 0, "", err
	}
	defer ln.Close()
	addr := ln.Addr().String()
	var swg sync.WaitGroup
	go func() { // echo server: every connection shares scfg
		for {
			raw, err := ln.Accept()
			if err != nil {
				return
			}
			swg.Add(1)
			go func(raw net.Conn) {
				defer swg.Done()
				raw.SetDeadline(time.Now().Add(hx.D(ioDeadline)))
				c := gmtls.Server(raw, scfg)
				defer c.Close()
				if err := c.Handshake(); err != nil {
					return
				}
				hdr := make([]byte, 2)
				if _, err := io.ReadFull(c, hdr); err != nil {
					return
				}
				body := make([]byte, int(hdr[0])<<8|int(hdr[1]))
				if _, err := io.ReadFull(c, body); err != nil {
					return
				}
				c.Write(body)
			}(raw)
		}
	}()
	// ticket-key rotation and Clone while the handshakes run
	stop := make(chan struct{})
	var rwg sync.WaitGroup
	rwg.Add(1)
	go func() {
		defer rwg.Done()
		r := hx.NewRng(seed + 77)
		var prev [32]byte
		// rotation runs from the very start: also while the first handshakes initialise the Config (serverInitOnce)
		for n := 0; ; n++ {
			select {
			case <-stop:
				return
			default:
			}
			var k [32]byte
			copy(k[:], r.Bytes(32))
			if n%3 == 0 {
				scfg.SetSessionTicketKeys([][32]byte{k})
			} else {
				scfg.SetSessionTicketKeys([][32]byte{k, prev})
			}
			prev = k
			if n%4 == 0 {
				_ = scfg.Clone()
			}
			time.Sleep(time.Duration(200+r.Intn(800)) * time.Microsecond)
		}
	}()
	cache := gmtls.NewLRUClientSessionCache(2 + goroutines/8)
	gmCfg, tlsCfg := clientConfig(true, cache), clientConfig(false, gmtls.NewLRUClientSessionCache(1))
	res := make([][]string, goroutines)
	var cwg sync.WaitGroup
	start := make(chan struct{})
	for g := 0; g < goroutines; g++ {
		res[g] = make([]string, iters)
		cwg.Add(1)
		go func(g int) {
			defer cwg.Done()
			mine := res[g]
			<-start
			for i := 0; i < iters; i++ {
				cfg := gmCfg
				if kind == "tls" || (kind == "auto" && g%2 == 1) {
					cfg = tlsCfg
				}
				mine[i] = oneEcho(addr, cfg, newDet(seed, g, i, 0).r.Bytes(1+(g*97+i*31)%3000))
			}
		}(g)
	}
	close(start)
	cwg.Wait()
	close(stop)
	rwg.Wait()
	ln.Close()
	swg.Wait()
	if debug {
		fmt.Fprintf(os.Stderr, "debug: %s resumed=%d of %d\n", kind, atomic.LoadInt64(&dbgResumed), goroutines*iters)
	}
	diffs, first := 0, ""
	for g := range res {
		for i, s := range res[g] {
			if s != "ok" { // the single-threaded result of the same call: handshake succeeds, echo equals the message
				diffs++
				if first == "" {
					first = fmt.Sprintf("g%d/i%d:%s", g, i, s)
				}
			}
		}
	}
	return goroutines * iters, diffs, first, nil
}

var debug = os.Getenv("C20_DEBUG") != ""
var dbgResumed int64

func oneEcho(addr string, cfg *gmtls.Config, msg []byte) string {
	raw, err := dial(addr)
	if err != nil {
		return "dial:" + err.Error()
	}
	c := gmtls.Client(raw, cfg)
	defer c.Close()
	if err := c.Handshake(); err != nil {
		return "handshake:" + err.Error()
	}
	if debug && c.ConnectionState().DidResume {
		atomic.AddInt64(&dbgResumed, 1)
	}
	out := append([]byte{byte(len(msg) >> 8), byte(len(msg))}, msg...)
	if _, err := c.Write(out); err != nil {
		return "write:" + err.Error()
	}
	back := make([]byte, len(msg))
	if _, err := io.ReadFull(c, back); err != nil {
		return "read:" + err.Error()
	}
	if !bytes.Equal(back, msg) {
		return "echo-differs"
	}
	return "ok"
}

// ---- one established connection with concurrent Read, Write and Close -------------------------------------
// rows: conn_write, conn_read, conn_close (same Conn)
const msgLen = 32

func patByte(k int) byte { return byte(k % 251) }

func scenConnRWC(gm bool, seed uint64, goroutines, iters int) (int, int, string, error) {
	kind := "tls"
	if gm {
		kind = "gm"
	}
	scfg, err := serverConfig(kind)
	if err != nil {
		return 0, 0, "", err
	}
	ln, err := listen()
	if err != nil {
		return 0, 0, "", err
	}
	defer ln.Close()
	type acc struct {
		c   *gmtls.Conn
		err error
	}
	ach := make(chan acc, 1)
	go func() {
		raw, err := ln.Accept()
		if err != nil {
			ach <- acc{nil, err}
			return
		}
		raw.SetDeadline(time.Now().Add(hx.D(ioDeadline)))
		c := gmtls.Server(raw, scfg)
		ach <- acc{c, c.Handshake()}
	}()
	raw, err := dial(ln.Addr().String())
	if err != nil {
		return 0, 0, "", err
	}
	cli := gmtls.Client(raw, clientConfig(gm, nil))
	if err := cli.Handshake(); err != nil {
		raw.Close()
		return 0, 0, "", errors.New("client handshake: " + err.Error())
	}
	a := <-ach
	if a.err != nil {
		raw.Close()
		return 0, 0, "", errors.New("server handshake: " + a.err.Error())
	}
	srv := a.c
	defer srv.Close()

	W := goroutines / 2
	if W < 1 {
		W = 1
	}
	R := goroutines - W
	if R < 1 {
		R = 1
	}
	S := W * iters * 2 * msgLen // bytes the server sends before Close may be called

	// server side: one reader (parses as it goes), one writer
	type srvRes struct {
		counts []int
		bad    string
	}
	srvGot := make(chan srvRes, 1)
	phase1 := make(chan struct{})
	go func() {
		counts := make([]int, W)
		bad := ""
		signalled := false
		var pend []byte
		buf := make([]byte, 4096)
		for {
			n, err := srv.Read(buf)
			pend = append(pend, buf[:n]...)
			for len(pend) >= msgLen && bad == "" {
				m := pend[:msgLen]
				pend = pend[msgLen:]
				g, j := int(m[1]), int(m[2])<<8|int(m[3])
				if m[0] != 0xC2 || g >= W {
					bad = "garbled-message-header"
					break
				}
				if j != counts[g] {
					bad = fmt.Sprintf("writer%d:message%d-arrived-where-%d-was-due", g, j, counts[g])
					break
				}
				for k := 4; k < msgLen; k++ {
					if m[k] != byte(g*31+j*7+k) {
						bad = "message-bytes-interleaved"
					}
				}
				counts[g]++
			}
			if !signalled && bad == "" {
				all := true
				for _, c := range counts {
					if c < iters {
						all = false
					}
				}
				if all {
					signalled = true
					close(phase1)
				}
			}
			if err != nil || bad != "" {
				if !signalled {
					close(phase1)
				}
				srvGot <- srvRes{counts, bad}
				return
			}
		}
	}()
	sentCh := make(chan int, 1)
	go func() {
		r := hx.NewRng(seed + 5)
		sent := 0
		for sent < 64*S {
			n := 1 + r.Intn(700)
			chunk := make([]byte, n)
			for k := range chunk {
				chunk[k] = patByte(sent + k)
			}
			m, err := srv.Write(chunk)
			sent += m
			if err != nil {
				break
			}
			if sent > S {
				time.Sleep(200 * time.Microsecond)
			}
		}
		sentCh <- sent
	}()

	// client side
	type wres struct {
		ok, calls int
		bad       string
	}
	type rres struct {
		hist  [256]int
		total int
		data  []byte
		calls int
	}
	wr := make([]wres, W)
	rr := make([]rres, R)
	rcount := make([]int64, R) // reader g publishes its byte count here (atomic store; read only by main)
	var wg sync.WaitGroup
	start := make(chan struct{})
	for g := 0; g < W; g++ {
		wg.Add(1)
		go func(g int) {
			defer wg.Done()
			me := &wr[g]
			<-start
			for j := 0; j < 6*iters; j++ {
				m := make([]byte, msgLen)
				m[0], m[1], m[2], m[3] = 0xC2, byte(g), byte(j>>8), byte(j)
				for k := 4; k < msgLen; k++ {
					m[k] = byte(g*31 + j*7 + k)
				}
				n, err := cli.Write(m)
				me.calls++
				if err != nil {
					return
				}
				if n != msgLen {
					me.bad = "successful-write-short"
					return
				}
				me.ok++
				if j >= iters {
					time.Sleep(100 * time.Microsecond)
				}
			}
		}(g)
	}
	for g := 0; g < R; g++ {
		wg.Add(1)
		go func(g int) {
			defer wg.Done()
			me := &rr[g]
			rng := hx.NewRng(seed + 100 + uint64(g))
			<-start
			for {
				buf := make([]byte, 1+rng.Intn(600))
				n, err := cli.Read(buf)
				me.calls++
				for _, b := range buf[:n] {
					me.hist[b]++
				}
				me.total += n
				if R == 1 {
					me.data = append(me.data, buf[:n]...)
				}
				atomic.StoreInt64(&rcount[g], int64(me.total))
				if err != nil {
					return
				}
			}
		}(g)
	}
	close(start)
	// phase 1: every writer's first iters messages have arrived and the readers hold S bytes
	deadline := time.After(hx.D(40 * time.Second))
	select {
	case <-phase1:
	case <-deadline:
		cli.Close()
		raw.Close()
		return 0, 0, "", errors.New("phase 1 timed out (server did not receive the messages)")
	}
	for {
		t := int64(0)
		for g := range rcount {
			t += atomic.LoadInt64(&rcount[g])
		}
		if t >= int64(S) {
			break
		}
		select {
		case <-deadline:
			cli.Close()
			raw.Close()
			return 0, 0, "", errors.New("phase 1 timed out (readers did not receive the stream)")
		case <-time.After(time.Millisecond):
		}
	}
	// phase 2: Close (twice, concurrently) while Reads and Writes are in flight
	closeErr := make([]error, 2)
	var cw sync.WaitGroup
	for k := 0; k < 2; k++ {
		cw.Add(1)
		go func(k int) {
			defer cw.Done()
			closeErr[k] = cli.Close()
		}(k)
	}
	cw.Wait()
	// after Close has returned no Write enters the record layer
	nAfter, errAfter := cli.Write([]byte("after close"))
	err3 := cli.Close()
	wg.Wait()
	srv.Close()
	sr := <-srvGot
	sent := <-sentCh

	diffs, first := 0, ""
	fail := func(s string) {
		diffs++
		if first == "" {
			first = s
		}
	}
	calls := 3
	if errAfter == nil || nAfter != 0 {
		fail("write-after-close-accepted")
	}
	if err3 == nil {
		fail("close-after-close-returned-nil")
	}
	if closeErr[0] != nil && closeErr[1] != nil && err3 != nil && closeErr[0].Error() == closeErr[1].Error() && closeErr[0].Error() == err3.Error() {
		fail("both-concurrent-closes-report-already-closed")
	}
	if sr.bad != "" {
		fail("server-stream:" + sr.bad)
	}
	for g := 0; g < W; g++ {
		calls += wr[g].calls
		if wr[g].bad != "" {
			fail(fmt.Sprintf("writer%d:%s", g, wr[g].bad))
		}
		if sr.counts[g] < iters {
			fail(fmt.Sprintf("writer%d:only-%d-of-%d-phase1-messages-arrived", g, sr.counts[g], iters))
		}
		if sr.counts[g] > wr[g].calls {
			fail(fmt.Sprintf("writer%d:more-messages-arrived-than-written", g))
		}
	}
	var hist [256]int
	total := 0
	for g := 0; g < R; g++ {
		calls += rr[g].calls
		total += rr[g].total
		for v, c := range rr[g].hist {
			hist[v] += c
		}
	}
	if debug {
		fmt.Fprintf(os.Stderr, "debug: rwc W=%d R=%d S=%d sent=%d read=%d counts=%v close=%v,%v after=%v third=%v\n", W, R, S, sent, total, sr.counts, closeErr[0], closeErr[1], errAfter, err3)
	}
	if total > sent {
		fail("readers-got-more-than-was-sent")
	}
	if total < S {
		fail("readers-lost-phase1-bytes")
	}
	for v := 0; v < 256; v++ {
		want := 0
		if v < 251 {
			want = total / 251
			if v < total%251 {
				want++
			}
		}
		if hist[v] != want {
			fail("delivered-bytes-are-not-a-prefix-of-the-sent-stream")
			break
		}
	}
	if R == 1 {
		for k, b := range rr[0].data {
			if b != patByte(k) {
				fail(fmt.Sprintf("single-reader:byte%d-differs", k))
				break
			}
		}
	}
	return calls, diffs, first, nil
}

// ---- LRU session cache shared by many goroutines (rows lru_put, lru_get) --------------------------------------
func scenLRU(seed uint64, goroutines, iters int) (int, int, string, error) {
	cache := gmtls.NewLRUClientSessionCache(4)
	const nkeys = 9
	keys := make([]string, nkeys)
	states := make([][]*gmtls.ClientSessionState, nkeys) // states[k][g]: what goroutine g puts under key k
	owner := map[*gmtls.ClientSessionState]int{}
	for k := range keys {
		keys[k] = fmt.Sprintf("server-%d", k)
		states[k] = make([]*gmtls.ClientSessionState, goroutines)
		for g := range states[k] {
			states[k][g] = &gmtls.ClientSessionState{}
			owner[states[k][g]] = k
		}
	}
	bad := make([]int, goroutines)
	var wg sync.WaitGroup
	start := make(chan struct{})
	for g := 0; g < goroutines; g++ {
		wg.Add(1)
		go func(g int) {
			defer wg.Done()
			r := hx.NewRng(seed + uint64(g))
			<-start
			for i := 0; i < iters; i++ {
				k := r.Intn(nkeys)
				if r.Intn(3) == 0 {
					cache.Put(keys[k], states[k][g])
				} else {
					s, ok := cache.Get(keys[k])
					// some sequential order of the Puts explains the answer: absent, or a state put under this key
					if ok != (s != nil) {
						bad[g]++
					} else if ok {
						if kk, known := owner[s]; !known || kk != k {
							bad[g]++
						}
					}
				}
			}
		}(g)
	}
	close(start)
	wg.Wait()
	diffs := 0
	for _, b := range bad {
		diffs += b
	}
	first := ""
	if diffs > 0 {
		first = "get-returned-a-state-never-put-under-that-key"
	}
	return goroutines * iters, diffs, first, nil
}

// ---- first use of a Config (serverInit under serverInitOnce, reached through Clone or the first handshake)
//
//	while SetSessionTicketKeys rotates the keys (rows config_first_use / config_clone x config_set_ticket_keys).
//
// Functional observation (public behaviour only): whatever the interleaving, afterwards the Config issues tickets
// under the ROTATED key k - a ticket obtained from it is accepted (session resumed) by another server Config
// whose only ticket key is k.  Handshakes are expensive, so this is sampled every 40th round; the race detector
// watches every round.
func scenCfgFirstRotate(seed uint64, goroutines, iters int) (int, int, string, error) {
	rsa, err := keyPair("rsa_sign.cer", "rsa_sign_key.pem")
	if err != nil {
		return 0, 0, "", err
	}
	certs := []gmtls.Certificate{rsa}
	diffs, first := 0, ""
	fail := func(s string) {
		diffs++
		if first == "" {
			first = s
		}
	}
	checked := 0
	for i := 0; i < iters; i++ {
		cfg := &gmtls.Config{Certificates: certs}
		var k [32]byte
		copy(k[:], newDet(seed, 0, i, 0).r.Bytes(32))
		var wg sync.WaitGroup
		start := make(chan struct{})
		clones := make([]*gmtls.Config, goroutines)
		for g := 0; g < goroutines; g++ {
			wg.Add(1)
			go func(g int) {
				defer wg.Done()
				<-start
				if g == 0 {
					cfg.SetSessionTicketKeys([][32]byte{k})
				} else {
					clones[g] = cfg.Clone()
				}
			}(g)
		}
		close(start)
		wg.Wait()
		if cfg.Clone().SessionTicketsDisabled {
			fail("tickets-disabled-after-first-use")
		}
		if i%40 == 0 {
			checked++
			ok, err := ticketAcceptedUnder(cfg, k, certs)
			if err != nil {
				return 0, 0, "", err
			}
			if checked == 1 { // the observation must be able to tell keys apart
				other := k
				other[0] ^= 0xff
				if wrong, err := ticketAcceptedUnder(cfg, other, certs); err != nil || wrong {
					return 0, 0, "", errors.New("functional observation is vacuous: a ticket was accepted under a different key")
				}
			}
			if !ok {
				fail(fmt.Sprintf("round%d:rotation-lost:ticket-issued-after-SetSessionTicketKeys-is-not-under-the-rotated-key", i))
			}
		}
	}
	if checked == 0 {
		return 0, 0, "", errors.New("no functional check was made")
	}
	return goroutines * iters, diffs, first, nil
}

// one TLS handshake of a client (with session cache) against a server Config: (resumed, error)
func handshakeOnce(scfg, ccfg *gmtls.Config) (bool, error) {
	ln, err := listen()
	if err != nil {
		return false, err
	}
	defer ln.Close()
	done := make(chan error, 1)
	go func() {
		raw, err := ln.Accept()
		if err != nil {
			done <- err
			return
		}
		raw.SetDeadline(time.Now().Add(hx.D(ioDeadline)))
		c := gmtls.Server(raw, scfg)
		err = c.Handshake()
		if err == nil {
			buf := make([]byte, 1)
			_, err = io.ReadFull(c, buf)
			if err == nil {
				_, err = c.Write(buf)
			}
		}
		c.Close()
		done <- err
	}()
	raw, err := dial(ln.Addr().String())
	if err != nil {
		return false, err
	}
	c := gmtls.Client(raw, ccfg)
	defer c.Close()
	if err := c.Handshake(); err != nil {
		return false, err
	}
	resumed := c.ConnectionState().DidResume
	if _, err := c.Write([]byte{7}); err != nil {
		return false, err
	}
	buf := make([]byte, 1)
	if _, err := io.ReadFull(c, buf); err != nil {
		return false, err
	}
	if err := <-done; err != nil {
		return false, err
	}
	return resumed, nil
}

// does a ticket issued by [issuer] decrypt under key k?  A client obtains a ticket from issuer, then offers it to a
// fresh server Config whose only ticket key is k.
func ticketAcceptedUnder(issuer *gmtls.Config, k [32]byte, certs []gmtls.Certificate) (bool, error) {
	ccfg := clientConfig(false, gmtls.NewLRUClientSessionCache(4))
	if _, err := handshakeOnce(issuer, ccfg); err != nil {
		return false, errors.New("ticket-issuing handshake: " + err.Error())
	}
	verifier := &gmtls.Config{Certificates: certs}
	verifier.SetSessionTicketKeys([][32]byte{k})
	resumed, err := handshakeOnce(verifier, ccfg)
	if err != nil {
		return false, errors.New("ticket-offering handshake: " + err.Error())
	}
	return resumed, nil
}

func init() { register("cfg_first_rotate", scenCfgFirstRotate) }
