package main

// conn_close_stall_gm / conn_close_stall_tls: Close while a Write is parked in the transport.
// rows: conn_write, conn_close (the activeCall interlock: Conc/ActiveCall.v, theorem conn_close_never_waits_for_a_write).
//
// An established connection over loopback TCP whose peer stops reading.  On the connection under test one goroutine
// sits in Read (the peer sends nothing) and W goroutines write 64 KiB messages until no Write completes any more (the
// socket buffers are full: one Write is parked in the transport holding c.out, the others wait for c.out).  Then Close is
// called from another goroutine.  As some sequential order of the calls would: Close returns (it finds a Write in flight and
// closes the transport instead of queueing a close_notify behind that Write), every blocked Write returns an error,
// the blocked Read returns.  The result records which of the three returned within their limits.

import (
	"errors"
	"fmt"
	"os"
	"sync"
	"sync/atomic"
	"time"

	"verifharness/internal/hx"
)

func init() {
	register("conn_close_stall_gm", func(s uint64, g, i int) (int, int, string, error) { return scenConnCloseStall(true, s, g, i) })
	register("conn_close_stall_tls", func(s uint64, g, i int) (int, int, string, error) { return scenConnCloseStall(false, s, g, i) })
}

const closeLimit = 5 * time.Second // (x10 when the case is retried) far below the transport deadline (ioDeadline), which would end a parked Write by itself

func closeStallRun(gm, victimIsServer bool, W int) (string, int, error) {
	pr, err := connectPair(gm)
	if err != nil {
		return "", 0, err
	}
	defer pr.close()
	victim := pr.srv
	if !victimIsServer {
		victim = pr.cli
	}
	var completed int64
	var wwg sync.WaitGroup
	werrs := make([]error, W)
	for g := 0; g < W; g++ {
		wwg.Add(1)
		go func(g int) {
			defer wwg.Done()
			chunk := make([]byte, 64<<10)
			for j := 0; j < 1<<20; j++ {
				if _, err := victim.Write(chunk); err != nil {
					werrs[g] = err
					return
				}
				atomic.AddInt64(&completed, 1)
			}
			werrs[g] = errors.New("writer ran out of iterations")
		}(g)
	}
	readDone := make(chan error, 1)
	go func() {
		buf := make([]byte, 512)
		for {
			if _, err := victim.Read(buf); err != nil {
				readDone <- err
				return
			}
		}
	}()
	// wait until the writers make no progress any more
	last, since := int64(-1), time.Now()
	begin := time.Now()
	for {
		time.Sleep(10 * time.Millisecond)
		now := atomic.LoadInt64(&completed)
		if now != last {
			last, since = now, time.Now()
			if time.Since(begin) > hx.D(40*time.Second) {
				return "", 0, errors.New("timed out waiting for the writers to stall (the peer's buffers never filled)")
			}
			continue
		}
		if now > 0 && time.Since(since) > hx.D(500*time.Millisecond) {
			break
		}
		if time.Since(begin) > hx.D(40*time.Second) {
			return "", 0, errors.New("timed out waiting for the first Write to complete")
		}
	}
	// Close from another goroutine
	closeDone := make(chan error, 1)
	go func() { closeDone <- victim.Close() }()
	res := ""
	select {
	case <-closeDone:
		res = "close=returned"
	case <-time.After(hx.D(closeLimit)):
		res = "close=STILL-BLOCKED-at-the-deadline"
	}
	// once Close has returned the others follow at once; if it has not, they are blocked for the same reason: a short wait
	after := hx.D(closeLimit)
	if res != "close=returned" {
		after = time.Second
	}
	wdone := make(chan struct{})
	go func() { wwg.Wait(); close(wdone) }()
	select {
	case <-wdone:
		res += ";writes=returned-an-error"
		for _, e := range werrs {
			if e == nil {
				res = res[:len(res)-len("returned-an-error")] + "returned-nil"
			}
		}
	case <-time.After(after):
		res += ";writes=STILL-BLOCKED-at-the-deadline"
	}
	select {
	case <-readDone:
		res += ";read=returned"
	case <-time.After(after):
		res += ";read=STILL-BLOCKED-at-the-deadline"
	}
	if debug {
		fmt.Fprintf(os.Stderr, "debug: close-stall server=%v W=%d completed=%d: %s\n", victimIsServer, W, atomic.LoadInt64(&completed), res)
	}
	return res, int(atomic.LoadInt64(&completed)) + 2, nil
}

func scenConnCloseStall(gm bool, seed uint64, goroutines, iters int) (int, int, string, error) {
	W := goroutines - 1
	if W < 1 {
		W = 1
	}
	if W > 8 {
		W = 8
	}
	const want = "close=returned;writes=returned-an-error;read=returned"
	calls, diffs, first := 0, 0, ""
	for rep := 0; rep < iters; rep++ {
		for _, server := range []bool{(rep+int(seed))%2 == 0, (rep+int(seed))%2 != 0} {
			res, c, err := closeStallRun(gm, server, W)
			if err != nil {
				return calls, diffs, first, err
			}
			calls += c
			if res != want {
				diffs++
				if first == "" {
					role := "client"
					if server {
						role = "server"
					}
					first = fmt.Sprintf("%s/rep%d:want=%s,got=%s", role, rep, want, res)
				}
				return calls, diffs, first, nil // a connection that hangs costs a deadline each time: one is enough
			}
		}
	}
	return calls, diffs, first, nil
}
