package main

import (
	"bytes"
	"crypto/cipher"
	stdx509 "crypto/x509"
	"crypto/x509/pkix"
	"encoding/pem"
	"errors"
	"fmt"
	"math/big"
	"os"
	"path/filepath"
	"sync"
	"time"

	"github.com/tjfoc/gmsm/sm2"
	"github.com/tjfoc/gmsm/sm3"
	"github.com/tjfoc/gmsm/sm4"
	"github.com/tjfoc/gmsm/x509"
	"verifharness/internal/hx"
)

func repoDir() string {
	if d := os.Getenv("VERIF_REPO"); d != "" {
		return d
	}
	return "/repo"
}

func certFile(name string) []byte {
	b, err := os.ReadFile(filepath.Join(repoDir(), "gmtls", "websvr", "certs", name))
	if err != nil {
		panic(err)
	}
	return b
}

func init() {
	register("sm4_shared", scenSm4Shared)
	register("sm4_first", scenSm4First)
	register("curve_first", scenCurveFirst)
	register("curve_first_mixed", scenCurveFirstMixed)
	register("sm2_ops", scenSm2Ops)
	register("sm3_hash", scenSm3)
	register("x509_parse", scenX509Parse)
	register("certpool_verify", scenCertPool)
}

// ---- one shared cipher.Block (table rows sm4_encrypt, sm4_decrypt, sm4_helpers) -------------------------------
func scenSm4Shared(seed uint64, goroutines, iters int) (int, int, string, error) {
	r := hx.NewRng(seed)
	key := r.Bytes(16)
	blk, err := sm4.NewCipher(key)
	if err != nil {
		return 0, 0, "", err
	}
	// inputs are generated up front and only read afterwards
	in := make([][][]byte, goroutines)
	for g := range in {
		in[g] = make([][]byte, iters)
		for i := range in[g] {
			in[g][i] = r.Bytes(16 * (1 + (g+i)%5))
		}
	}
	iv := r.Bytes(16)
	calls, diffs, first := compare(goroutines, iters, false, func(g, i int) string {
		src := in[g][i]
		enc := make([]byte, 16)
		dec := make([]byte, 16)
		blk.Encrypt(enc, src[:16])
		blk.Decrypt(dec, src[:16])
		back := make([]byte, 16)
		blk.Decrypt(back, enc)
		cbc := make([]byte, len(src))
		cipher.NewCBCEncrypter(blk, iv).CryptBlocks(cbc, src)
		ctr := make([]byte, len(src))
		cipher.NewCTR(blk, iv).XORKeyStream(ctr, src)
		pbc := make([]byte, len(src))
		cipher.NewCBCDecrypter(blk, iv).CryptBlocks(pbc, cbc)
		var ecb, cbc2 []byte
		var e1, e2 error
		if i%8 == 0 { // package-level helpers: fresh cipher per call, read the package variable sm4.IV
			ecb, e1 = sm4.Sm4Ecb(key, src, true)
			cbc2, e2 = sm4.Sm4Cbc(key, src, true)
		}
		return sum(enc, dec, bytes.Equal(back, src[:16]), cbc, ctr, bytes.Equal(pbc, src), ecb, e1, cbc2, e2)
	})
	return calls, diffs, first, nil
}

// ---- FIRST use of a freshly created cipher.Block by many goroutines at once (rows sm4_new_cipher, sm4_decrypt,
//
//	sm4_encrypt): every round makes a new object and releases the goroutines together, so that their first
//	Decrypt / Encrypt calls on that object overlap; the reference results come from a separate object.
func scenSm4First(seed uint64, goroutines, iters int) (int, int, string, error) {
	r := hx.NewRng(seed)
	diffs, first := 0, ""
	for round := 0; round < iters; round++ {
		key := r.Bytes(16)
		ref, err := sm4.NewCipher(key)
		if err != nil {
			return 0, 0, "", err
		}
		in := make([][]byte, goroutines)
		wantD := make([][]byte, goroutines)
		wantE := make([][]byte, goroutines)
		for g := range in {
			in[g] = r.Bytes(16)
			wantD[g], wantE[g] = make([]byte, 16), make([]byte, 16)
			ref.Decrypt(wantD[g], in[g])
			ref.Encrypt(wantE[g], in[g])
		}
		blk, err := sm4.NewCipher(key) // the shared object: nothing has been called on it yet
		if err != nil {
			return 0, 0, "", err
		}
		gotD := make([][]byte, goroutines)
		gotE := make([][]byte, goroutines)
		var wg sync.WaitGroup
		start := make(chan struct{})
		for g := 0; g < goroutines; g++ {
			wg.Add(1)
			go func(g int) {
				defer wg.Done()
				d, e := make([]byte, 16), make([]byte, 16)
				<-start
				if g%4 == 3 { // some start with Encrypt
					blk.Encrypt(e, in[g])
					blk.Decrypt(d, in[g])
				} else {
					blk.Decrypt(d, in[g])
					blk.Encrypt(e, in[g])
				}
				gotD[g], gotE[g] = d, e
			}(g)
		}
		close(start)
		wg.Wait()
		for g := 0; g < goroutines; g++ {
			if !bytes.Equal(gotD[g], wantD[g]) || !bytes.Equal(gotE[g], wantE[g]) {
				diffs++
				if first == "" {
					first = fmt.Sprintf("round%d/g%d:first-use-of-a-shared-cipher.Block:key=%x,in=%x,decrypt=%x,want=%x", round, g, key, in[g], gotD[g], wantD[g])
				}
			}
		}
	}
	return 2 * goroutines * iters, diffs, first, nil
}

// ---- first use of the curve from many goroutines at once (rows curve_first_use, curve_use) ---------------------
// The process is fresh: nothing has touched sm2.P256Sm2() before the goroutines are released.
func scenCurveFirst(seed uint64, goroutines, iters int) (int, int, string, error) {
	calls, diffs, first := compare(goroutines, iters, true, func(g, i int) string {
		c := sm2.P256Sm2()
		k := newDet(seed, g, i, 0).r.Bytes(32)
		x, y := c.ScalarBaseMult(k)
		p := c.Params()
		return sum(x.Bytes(), y.Bytes(), c.IsOnCurve(x, y), p.P.Bytes(), p.N.Bytes(), p.Gx.Bytes(), p.BitSize)
	})
	return calls, diffs, first, nil
}

// first use through different entry points (GenerateKey, certificate parsing, Decompress, hex readers)
func scenCurveFirstMixed(seed uint64, goroutines, iters int) (int, int, string, error) {
	certPem := certFile("sm2_sign_cert.cer")
	keyPem := certFile("sm2_sign_key.pem")
	calls, diffs, first := compare(goroutines, iters, true, func(g, i int) string {
		switch g % 4 {
		case 0:
			k, err := sm2.GenerateKey(newDet(seed, g, i, 1))
			if err != nil {
				return "err"
			}
			return sum(k.D.Bytes(), k.X.Bytes(), k.Y.Bytes())
		case 1:
			c, err := x509.ReadCertificateFromPem(certPem)
			if err != nil {
				return "err"
			}
			pk, _ := c.PublicKey.(*sm2.PublicKey)
			if pk == nil {
				return sum(c.Subject.CommonName, "nokey")
			}
			return sum(c.Subject.CommonName, pk.X.Bytes(), pk.Curve.IsOnCurve(pk.X, pk.Y))
		case 2:
			k, err := x509.ReadPrivateKeyFromPem(keyPem, nil)
			if err != nil {
				return "err"
			}
			return sum(k.D.Bytes(), k.X.Bytes())
		default:
			k, err := x509.ReadPrivateKeyFromHex(fmt.Sprintf("%064x", 12345+g*977+i))
			if err != nil {
				return "err"
			}
			cp := sm2.Compress(&k.PublicKey)
			q := sm2.Decompress(cp)
			return sum(k.X.Bytes(), cp, q != nil && q.Y.Cmp(k.Y) == 0)
		}
	})
	return calls, diffs, first, nil
}

// ---- package-level SM2 operations on separate data and on one shared key (rows sm2_*) -------------------------
func scenSm2Ops(seed uint64, goroutines, iters int) (int, int, string, error) {
	shared, err := sm2.GenerateKey(newDet(seed, 999, 0, 0))
	if err != nil {
		return 0, 0, "", err
	}
	keys := make([]*sm2.PrivateKey, goroutines)
	for g := range keys {
		if keys[g], err = sm2.GenerateKey(newDet(seed, g, 0, 7)); err != nil {
			return 0, 0, "", err
		}
	}
	uid := []byte("1234567812345678")
	calls, diffs, first := compare(goroutines, iters, false, func(g, i int) string {
		priv := keys[g]
		if i%2 == 1 {
			priv = shared // one key object read by every goroutine
		}
		msg := newDet(seed, g, i, 2).r.Bytes(1 + (g*7+i*13)%200)
		sig, e1 := priv.Sign(newDet(seed, g, i, 3), msg, nil)
		ok := priv.PublicKey.Verify(msg, sig)
		bad := append([]byte{}, msg...)
		bad[0] ^= 1
		nok := priv.PublicKey.Verify(bad, sig)
		rr, ss, e2 := sm2.Sm2Sign(priv, msg, uid, newDet(seed, g, i, 4))
		v2 := e2 == nil && sm2.Sm2Verify(&priv.PublicKey, msg, uid, rr, ss)
		var rb, sb []byte
		if e2 == nil {
			rb, sb = rr.Bytes(), ss.Bytes()
		}
		mode := sm2.C1C3C2
		if g%2 == 1 {
			mode = sm2.C1C2C3
		}
		ct, e3 := sm2.Encrypt(&priv.PublicKey, msg, newDet(seed, g, i, 5), mode)
		pt, e4 := sm2.Decrypt(priv, ct, mode)
		ca, e5 := sm2.EncryptAsn1(&priv.PublicKey, msg, newDet(seed, g, i, 6))
		pa, e6 := sm2.DecryptAsn1(priv, ca)
		k2, e7 := sm2.GenerateKey(newDet(seed, g, i, 8))
		var kd []byte
		if e7 == nil {
			kd = k2.X.Bytes()
		}
		return sum(sig, e1, ok, nok, rb, sb, v2, ct, e3, bytes.Equal(pt, msg), e4, ca, e5, bytes.Equal(pa, msg), e6, kd)
	})
	return calls, diffs, first, nil
}

// ---- sm3.New from many goroutines, one hash object per goroutine; Sm3Sum (rows sm3_new, sm3_hash) -------------
func scenSm3(seed uint64, goroutines, iters int) (int, int, string, error) {
	common := hx.NewRng(seed).Bytes(5000) // read-only input shared by all
	calls, diffs, first := compare(goroutines, iters, false, func(g, i int) string {
		msg := newDet(seed, g, i, 0).r.Bytes((g*131 + i*17) % 700)
		h := sm3.New()
		h.Write(msg[:len(msg)/2])
		mid := h.Sum(nil)
		h.Write(msg[len(msg)/2:])
		d1 := h.Sum(nil)
		h.Reset()
		h.Write(common[:(g*37+i*91)%5000])
		d2 := h.Sum([]byte{1, 2})
		return sum(mid, d1, bytes.Equal(d1, sm3.Sm3Sum(msg)), d2)
	})
	return calls, diffs, first, nil
}

// ---- parsers on shared read-only inputs (rows x509_parse_cert, x509_parse_pkcs7, x509_pkcs8) -----------------
type parseFix struct {
	certPems [][]byte
	signed   []byte // PKCS#7 SignedData (DER)
	signedB  []byte // the same in BER (indefinite outer length): goes through ber2der
	envel    []byte // PKCS#7 EnvelopedData for the SM2 enc... sign cert
	cert     *x509.Certificate
	key      *sm2.PrivateKey
	keyPem   []byte
	encPem   []byte
	csrPem   []byte
	content  []byte
}

func derToBerOuter(der []byte) []byte {
	// 30 <len> body  ->  30 80 body 00 00
	if len(der) < 2 || der[0] != 0x30 {
		return nil
	}
	hl := 2
	if der[1]&0x80 != 0 {
		hl = 2 + int(der[1]&0x7f)
	}
	if hl > len(der) {
		return nil
	}
	out := append([]byte{0x30, 0x80}, der[hl:]...)
	return append(out, 0, 0)
}

func newParseFix() (*parseFix, error) {
	f := &parseFix{content: []byte("C20 concurrent pkcs7 content")}
	for _, n := range []string{"sm2_sign_cert.cer", "sm2_enc_cert.cer", "SM2_CA.cer", "rsa_sign.cer", "RSA_CA.cer", "sm2_auth_cert.cer"} {
		f.certPems = append(f.certPems, certFile(n))
	}
	var err error
	if f.cert, err = x509.ReadCertificateFromPem(certFile("sm2_sign_cert.cer")); err != nil {
		return nil, err
	}
	f.keyPem = certFile("sm2_sign_key.pem")
	if f.key, err = x509.ReadPrivateKeyFromPem(f.keyPem, nil); err != nil {
		return nil, err
	}
	sd, err := x509.NewSignedData(f.content)
	if err != nil {
		return nil, err
	}
	// SignedData supports RSA signers only
	rsaCert, err := x509.ReadCertificateFromPem(certFile("rsa_sign.cer"))
	if err != nil {
		return nil, err
	}
	blk, _ := pem.Decode(certFile("rsa_sign_key.pem"))
	if blk == nil {
		return nil, errors.New("rsa_sign_key.pem: no PEM block")
	}
	var rsaKey interface{}
	if rsaKey, err = stdx509.ParsePKCS8PrivateKey(blk.Bytes); err != nil {
		if rsaKey, err = stdx509.ParsePKCS1PrivateKey(blk.Bytes); err != nil {
			return nil, err
		}
	}
	if err = sd.AddSigner(rsaCert, rsaKey, x509.SignerInfoConfig{}); err != nil {
		return nil, err
	}
	if f.signed, err = sd.Finish(); err != nil {
		return nil, err
	}
	f.signedB = derToBerOuter(f.signed)
	if f.envel, err = x509.PKCS7EncryptSM2(f.content, []*x509.Certificate{f.cert}, sm2.C1C3C2); err != nil {
		return nil, err
	}
	if f.encPem, err = x509.WritePrivateKeyToPem(f.key, []byte("pass-C20")); err != nil {
		return nil, err
	}
	f.csrPem, err = x509.CreateCertificateRequestToPem(&x509.CertificateRequest{
		Subject: pkix.Name{CommonName: "c20.example", Organization: []string{"C20"}}, SignatureAlgorithm: x509.SM2WithSM3}, f.key)
	if err != nil {
		return nil, err
	}
	return f, nil
}

func scenX509Parse(seed uint64, goroutines, iters int) (int, int, string, error) {
	f, err := newParseFix()
	if err != nil {
		return 0, 0, "", err
	}
	if f.signedB == nil {
		return 0, 0, "", errors.New("cannot build BER sample")
	}
	calls, diffs, first := compare(goroutines, iters, false, func(g, i int) string {
		var parts []interface{}
		c, e := x509.ReadCertificateFromPem(f.certPems[(g+i)%len(f.certPems)])
		parts = append(parts, e)
		if e == nil {
			parts = append(parts, c.Subject.String(), c.SerialNumber.Bytes(), c.RawTBSCertificate, fmt.Sprint(c.SignatureAlgorithm), c.NotAfter.Unix())
		}
		for _, blob := range [][]byte{f.signed, f.signedB} {
			p7, e := x509.ParsePKCS7(blob)
			parts = append(parts, e)
			if e == nil {
				parts = append(parts, p7.Content, len(p7.Certificates), p7.Verify())
			}
		}
		p7, e := x509.ParsePKCS7(f.envel)
		parts = append(parts, e)
		if e == nil {
			pt, e2 := p7.DecryptSM2(f.cert, f.key, sm2.C1C3C2)
			parts = append(parts, pt, e2)
		}
		k, e := x509.ReadPrivateKeyFromPem(f.keyPem, nil)
		parts = append(parts, e)
		if e == nil {
			parts = append(parts, k.D.Bytes(), k.X.Bytes())
		}
		if i%3 == 0 { // PBKDF2: slow, sampled
			k, e = x509.ReadPrivateKeyFromPem(f.encPem, []byte("pass-C20"))
			parts = append(parts, e)
			if e == nil {
				parts = append(parts, k.D.Bytes())
			}
			_, e = x509.ReadPrivateKeyFromPem(f.encPem, []byte("pass-C2O"))
			parts = append(parts, e)
		}
		req, e := x509.ReadCertificateRequestFromPem(f.csrPem)
		parts = append(parts, e)
		if e == nil {
			parts = append(parts, req.Subject.String(), req.CheckSignature())
		}
		return sum(parts...)
	})
	return calls, diffs, first, nil
}

// ---- one CertPool used by concurrent verifications (rows certpool_read, cert_verify) -------------------------
func scenCertPool(seed uint64, goroutines, iters int) (int, int, string, error) {
	roots := x509.NewCertPool()
	inter := x509.NewCertPool()
	if !roots.AppendCertsFromPEM(certFile("SM2_CA.cer")) || !roots.AppendCertsFromPEM(certFile("RSA_CA.cer")) {
		return 0, 0, "", errors.New("cannot load CA certificates")
	}
	// a fresh chain root2 -> mid -> leaf, built once before the goroutines start
	// aki != nil: the certificate carries this AuthorityKeyId although its issuer has no SubjectKeyId (older CAs):
	// the pool lookup by key id misses and falls back to the lookup by issuer name
	var aki []byte
	mk := func(cn string, serial int64, isCA bool, parent *x509.Certificate, parentKey *sm2.PrivateKey, k int) (*x509.Certificate, *sm2.PrivateKey, error) {
		key, err := sm2.GenerateKey(newDet(seed, 500+k, 0, 0))
		if err != nil {
			return nil, nil, err
		}
		t := &x509.Certificate{
			SerialNumber: big.NewInt(serial), Subject: pkix.Name{CommonName: cn, Organization: []string{"C20"}},
			NotBefore: time.Unix(1600000000, 0), NotAfter: time.Unix(1900000000, 0),
			SignatureAlgorithm: x509.SM2WithSM3, BasicConstraintsValid: true, IsCA: isCA,
			KeyUsage: x509.KeyUsageCertSign | x509.KeyUsageDigitalSignature, ExtKeyUsage: []x509.ExtKeyUsage{x509.ExtKeyUsageServerAuth},
			DNSNames: []string{cn}, AuthorityKeyId: aki,
		}
		p, pk := parent, parentKey
		if p == nil {
			p, pk = t, key
		}
		der, err := x509.CreateCertificate(t, p, &key.PublicKey, pk)
		if err != nil {
			return nil, nil, err
		}
		c, err := x509.ParseCertificate(der)
		return c, key, err
	}
	root2, rk, err := mk("c20-root", 1, true, nil, nil, 1)
	if err != nil {
		return 0, 0, "", err
	}
	mid, mkey, err := mk("c20-mid", 2, true, root2, rk, 2)
	if err != nil {
		return 0, 0, "", err
	}
	leaf, _, err := mk("c20-leaf.example", 3, false, mid, mkey, 3)
	if err != nil {
		return 0, 0, "", err
	}
	orphanRoot, ok2, err := mk("c20-other-root", 4, true, nil, nil, 4)
	if err != nil {
		return 0, 0, "", err
	}
	orphan, _, err := mk("c20-orphan.example", 5, false, orphanRoot, ok2, 5)
	if err != nil {
		return 0, 0, "", err
	}
	roots.AddCert(root2)
	inter.AddCert(mid)
	// root3 and mid3 have no SubjectKeyId; mid3 and the leaves below carry their own AuthorityKeyId values
	root3, r3k, err := mk("c20-noskid-root", 10, true, nil, nil, 10)
	if err != nil {
		return 0, 0, "", err
	}
	aki = []byte("aki-of-mid3")
	mid3, m3k, err := mk("c20-noskid-mid", 11, true, root3, r3k, 11)
	if err != nil {
		return 0, 0, "", err
	}
	roots.AddCert(root3)
	inter.AddCert(mid3)
	var akiLeaves []*x509.Certificate
	for j := 0; j < 2*goroutines+4; j++ {
		aki = []byte(fmt.Sprintf("aki-%d-%d", seed, j))
		var l *x509.Certificate
		if j%2 == 0 {
			l, _, err = mk(fmt.Sprintf("c20-aki-leaf-%d.example", j), int64(100+j), false, mid3, m3k, 100+j)
		} else {
			l, _, err = mk(fmt.Sprintf("c20-aki-leaf-%d.example", j), int64(100+j), false, root3, r3k, 100+j)
		}
		if err != nil {
			return 0, 0, "", err
		}
		akiLeaves = append(akiLeaves, l)
	}
	aki = nil
	var leaves []*x509.Certificate
	for _, n := range []string{"sm2_sign_cert.cer", "sm2_enc_cert.cer", "rsa_sign.cer", "sm2_auth_cert.cer"} {
		c, err := x509.ReadCertificateFromPem(certFile(n))
		if err != nil {
			return 0, 0, "", err
		}
		leaves = append(leaves, c)
	}
	leaves = append(leaves, leaf, orphan, mid)
	leaves = append(leaves, akiLeaves...)
	now := time.Unix(1700000000, 0)
	// non-vacuity of the fixture, checked on a pool of its own (the shared pool stays untouched until the goroutines
	// start): the leaves with a foreign AuthorityKeyId do chain to the root through the lookup by issuer name
	{
		r2, i2 := x509.NewCertPool(), x509.NewCertPool()
		r2.AddCert(root3)
		i2.AddCert(mid3)
		for _, l := range akiLeaves[:2] {
			ch, err := l.Verify(x509.VerifyOptions{Roots: r2, Intermediates: i2, CurrentTime: now, KeyUsages: []x509.ExtKeyUsage{x509.ExtKeyUsageAny}})
			if err != nil || len(ch) == 0 || len(l.AuthorityKeyId) == 0 {
				return 0, 0, "", fmt.Errorf("fixture: leaf with its own AuthorityKeyId does not verify: %v", err)
			}
		}
	}
	// the concurrent verifications are the FIRST use of the pool (the single-threaded reference run comes afterwards)
	calls, diffs, first := compare(goroutines, iters, true, func(g, i int) string {
		c := leaves[(g*3+i)%len(leaves)] // certificate objects are shared too (read-only)
		opts := x509.VerifyOptions{Roots: roots, Intermediates: inter, CurrentTime: now, KeyUsages: []x509.ExtKeyUsage{x509.ExtKeyUsageAny}}
		if (g+i)%5 == 0 {
			opts.DNSName = "localhost"
		}
		chains, err := c.Verify(opts)
		parts := []interface{}{err, len(chains)}
		for _, ch := range chains {
			for _, x := range ch {
				parts = append(parts, x.Subject.CommonName, x.SerialNumber.Bytes())
			}
		}
		parts = append(parts, len(roots.Subjects()))
		return sum(parts...)
	})
	return calls, diffs, first, nil
}
