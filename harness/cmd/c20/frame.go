package main

import (
	"crypto/sha256"
	"encoding/hex"
	"fmt"
	"sync"

	"verifharness/internal/hx"
)

// detReader: a deterministic random stream owned by ONE goroutine (never shared).
type detReader struct{ r *hx.Rng }

func newDet(seed uint64, g, i, k int) *detReader {
	return &detReader{hx.NewRng(seed*1000003 + uint64(g)*10007 + uint64(i)*101 + uint64(k))}
}
func (d *detReader) Read(p []byte) (int, error) {
	for i := range p {
		p[i] = byte(d.r.U64())
	}
	return len(p), nil
}

// digest of a list of result parts (each part is copied into the hash: no buffer is kept)
func sum(parts ...interface{}) string {
	h := sha256.New()
	for _, p := range parts {
		switch v := p.(type) {
		case []byte:
			fmt.Fprintf(h, "b%d:", len(v))
			h.Write(v)
		case string:
			fmt.Fprintf(h, "s%d:%s", len(v), v)
		case error:
			if v == nil {
				h.Write([]byte("e0"))
			} else {
				h.Write([]byte("e1"))
			}
		case bool:
			fmt.Fprintf(h, "t%v", v)
		case nil:
			h.Write([]byte("nil"))
		default:
			fmt.Fprintf(h, "v%v", v)
		}
		h.Write([]byte{0})
	}
	return hex.EncodeToString(h.Sum(nil)[:12])
}

// compare runs work(g,i) for all g < goroutines, i < iters once single-threaded and once with one goroutine
// per g (all released together), and counts the calls whose concurrent result differs.
// work must be a deterministic function of (g, i) and the shared objects it was given.
func compare(goroutines, iters int, concFirst bool, work func(g, i int) string) (int, int, string) {
	seq := make([][]string, goroutines)
	conc := make([][]string, goroutines)
	runSeq := func() {
		for g := 0; g < goroutines; g++ {
			seq[g] = make([]string, iters)
			for i := 0; i < iters; i++ {
				seq[g][i] = work(g, i)
			}
		}
	}
	runConc := func() {
		var wg sync.WaitGroup
		start := make(chan struct{})
		for g := 0; g < goroutines; g++ {
			conc[g] = make([]string, iters)
			wg.Add(1)
			go func(g int) {
				defer wg.Done()
				mine := conc[g]
				<-start
				for i := 0; i < iters; i++ {
					mine[i] = work(g, i)
				}
			}(g)
		}
		close(start)
		wg.Wait()
	}
	if concFirst {
		runConc()
		runSeq()
	} else {
		runSeq()
		runConc()
	}
	diffs, first := 0, ""
	for g := 0; g < goroutines; g++ {
		for i := 0; i < iters; i++ {
			if seq[g][i] != conc[g][i] {
				diffs++
				if first == "" {
					first = fmt.Sprintf("g%d/i%d:seq=%s,conc=%s", g, i, seq[g][i], conc[g][i])
				}
			}
		}
	}
	return goroutines * iters, diffs, first
}
