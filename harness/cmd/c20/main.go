// Driver for C20 (results do not depend on goroutine interleaving; shared objects are race-free).
// Black box: public API of /repo only.
//
//	c20 gen <seed> <tier> <cases-out> <obs-out>   generate scenario cases, run each in a FRESH subprocess
//	c20 run <cases-in> <obs-out>                  re-run given cases (replay, corpus)
//	c20 one <case fields...>                      run one scenario in this process, print "OBS <id> ..."
//
// The same source is built twice by checks/c20.py: plainly (result comparison) and with `-race`
// (race-detector leg: every "WARNING: DATA RACE" written by a scenario process is counted and
// the report kept next to the observation file).
//
// Case line:   S <id> <scenario> <goroutines> <iters> <seed>
// Observation: <id> ok <calls> <diffs> <races> <first-difference or ->      (diffs: concurrent results
//
//	that differ from the single-threaded result of the same call; races: race reports)
//	<id> err <text> | <id> PANIC | <id> HANG
//
// Each row of the access table coq/Conc/AccessTable.v names the scenario that exercises it.
package main

import (
	"bytes"
	"fmt"
	"os"
	"os/exec"
	"strconv"
	"strings"
	"time"

	"verifharness/internal/hx"
)

type scenario struct {
	name string
	// run returns (calls, diffs, first difference, error)
	run func(seed uint64, goroutines, iters int) (int, int, string, error)
}

var scenarios = map[string]scenario{}

func register(name string, f func(seed uint64, g, it int) (int, int, string, error)) {
	scenarios[name] = scenario{name, f}
}

const oneDeadline = 150 * time.Second

func runOne(f []string) string {
	id := f[1]
	sc, ok := scenarios[f[2]]
	if !ok {
		return id + " err unknown-scenario"
	}
	g, _ := strconv.Atoi(f[3])
	it, _ := strconv.Atoi(f[4])
	seed, _ := strconv.ParseUint(f[5], 10, 64)
	res, _ := hx.Guard(oneDeadline, func() string {
		calls, diffs, first, err := sc.run(seed, g, it)
		if err != nil {
			return "err " + strings.ReplaceAll(err.Error(), " ", "_")
		}
		if first == "" {
			first = "-"
		}
		return fmt.Sprintf("ok %d %d %s", calls, diffs, strings.ReplaceAll(first, " ", "_"))
	})
	return id + " " + res
}

// runCase executes one case in a fresh process (so that "first use" scenarios really are first uses and
// a race report can be attributed to exactly one scenario).
func runCase(line, obsPath string) string {
	f := strings.Split(line, " ")
	id := f[1]
	cmd := exec.Command(os.Args[0], append([]string{"one"}, f...)...)
	var stdout, stderr bytes.Buffer
	cmd.Stdout = &stdout
	cmd.Stderr = &stderr
	cmd.Env = append(os.Environ(), "GORACE=halt_on_error=0 history_size=3", hx.ChildEnv())
	if os.Getenv("GOMAXPROCS") == "" && len(f) > 5 {
		// vary the number of OS threads running goroutines over the scenarios (2, 4, all processors)
		if sd, err := strconv.ParseUint(f[5], 10, 64); err == nil && sd%3 != 0 {
			cmd.Env = append(cmd.Env, fmt.Sprintf("GOMAXPROCS=%d", 2*(sd%3)))
		}
	}
	done := make(chan error, 1)
	if err := cmd.Start(); err != nil {
		return id + " err cannot-start-subprocess"
	}
	go func() { done <- cmd.Wait() }()
	select {
	case <-done:
	case <-time.After(hx.D(oneDeadline + 30*time.Second)):
		cmd.Process.Kill()
		return id + " HANG"
	}
	races := strings.Count(stderr.String(), "WARNING: DATA RACE")
	if races > 0 || strings.Contains(stderr.String(), "fatal error:") {
		os.WriteFile(fmt.Sprintf("%s.report.%s.txt", obsPath, id), stderr.Bytes(), 0o644)
	}
	obs := ""
	for _, l := range strings.Split(stdout.String(), "\n") {
		if strings.HasPrefix(l, "OBS ") {
			obs = strings.TrimPrefix(l, "OBS ")
		}
	}
	if obs == "" {
		if strings.Contains(stderr.String(), "fatal error:") || strings.Contains(stderr.String(), "panic:") {
			return id + " PANIC"
		}
		return id + " err no-observation"
	}
	p := strings.Split(obs, " ")
	if len(p) >= 5 && p[1] == "ok" {
		return fmt.Sprintf("%s ok %s %s %d %s", p[0], p[2], p[3], races, p[4])
	}
	if races > 0 {
		return obs + " races=" + strconv.Itoa(races)
	}
	return obs
}

type plan struct {
	name   string
	gs     []int
	iters  int
	titers int // thorough
	tgs    []int
}

var plans = []plan{
	{"sm4_shared", []int{2, 8, 32}, 200, 2000, []int{2, 3, 8, 16, 32}},
	{"sm4_first", []int{2, 8, 32}, 400, 4000, []int{2, 3, 8, 16, 32}},
	{"sm4_iv_readers", []int{2, 16}, 60, 300, []int{2, 8, 32}},
	{"sm4_iv_set", []int{2, 8, 32}, 200, 1000, []int{2, 3, 8, 16, 32}},
	{"sm4_gcm", []int{2, 16}, 8, 30, []int{2, 8, 32}},
	{"curve_first", []int{2, 32}, 2, 4, []int{2, 4, 8, 16, 32}},
	{"curve_first_mixed", []int{8, 32}, 1, 2, []int{2, 8, 16, 32}},
	{"sm2_ops", []int{2, 8, 32}, 3, 12, []int{2, 4, 8, 16, 32}},
	{"sm3_hash", []int{2, 32}, 40, 400, []int{2, 8, 32}},
	{"x509_parse", []int{2, 8, 32}, 3, 12, []int{2, 8, 16, 32}},
	{"certpool_verify", []int{2, 8, 32}, 4, 20, []int{2, 8, 16, 32}},
	{"pkcs7_cea", []int{2, 8}, 3, 10, []int{2, 8, 32}},
	{"sm2_keyexchange", []int{2, 16}, 2, 6, []int{2, 8, 32}},
	{"pkcs12_codec", []int{2, 16}, 3, 8, []int{2, 8, 32}},
	{"hs_gm", []int{2, 8}, 5, 8, []int{2, 8, 16, 32}},
	{"hs_tls", []int{2, 8}, 5, 8, []int{2, 8, 16, 32}},
	{"hs_auto", []int{4, 16}, 4, 8, []int{2, 8, 16, 32}},
	{"conn_rwc_gm", []int{2, 8, 32}, 20, 60, []int{2, 4, 8, 16, 32}},
	{"conn_rwc_tls", []int{2, 8, 32}, 20, 60, []int{2, 4, 8, 16, 32}},
	{"conn_close_stall_gm", []int{2}, 1, 2, []int{2, 8}},
	{"conn_close_stall_tls", []int{4}, 1, 2, []int{3}},
	{"conn_alert_gm", []int{2, 8}, 1, 3, []int{2, 3, 8, 16}},
	{"conn_alert_tls", []int{2, 8}, 1, 3, []int{2, 3, 8, 16}},
	{"lru_cache", []int{2, 32}, 200, 2000, []int{2, 8, 32}},
	{"cfg_first_rotate", []int{2, 4}, 1500, 6000, []int{2, 3, 4, 8}},
}

func main() {
	if len(os.Args) < 2 {
		fmt.Fprintln(os.Stderr, "usage: c20 gen|run|one ...")
		os.Exit(2)
	}
	switch os.Args[1] {
	case "one":
		fmt.Println("OBS " + runOne(os.Args[2:]))
	case "gen":
		seed, _ := strconv.ParseUint(os.Args[2], 10, 64)
		tier := os.Args[3]
		out := hx.NewOut(os.Args[4], os.Args[5])
		r := hx.NewRng(seed)
		var lines []string
		n := 0
		for _, p := range plans {
			gs, it := p.gs, p.iters
			if tier == "thorough" {
				gs, it = p.tgs, p.titers
			}
			for _, g := range gs {
				n++
				lines = append(lines, fmt.Sprintf("S s%03d %s %d %d %d", n, p.name, g, it, r.U64()%1000000))
			}
		}
		runAll(lines, out, os.Args[5])
	case "run":
		lines := hx.ReadLines(os.Args[2])
		out := hx.NewOut(os.DevNull, os.Args[3])
		runAll(lines, out, os.Args[3])
	default:
		os.Exit(2)
	}
}

// scenario processes run a few at a time: each is itself heavily concurrent
func runAll(lines []string, out *hx.Out, obsPath string) {
	par := 3
	if v, err := strconv.Atoi(os.Getenv("C20_PAR")); err == nil && v > 0 {
		par = v
	}
	res := make([]string, len(lines))
	sem := make(chan struct{}, par)
	done := make(chan int, len(lines))
	for i := range lines {
		go func(i int) {
			sem <- struct{}{}
			res[i] = runCase(lines[i], obsPath)
			<-sem
			done <- i
		}(i)
	}
	for range lines {
		<-done
	}
	for i, l := range lines {
		out.Case(l)
		out.Obs(res[i])
	}
	// a scenario that ran out of time (HANG, or one of its own "timed out" errors) is run again alone with 10x deadlines
	out.RetryIf(func(obs string) bool {
		return hx.TimedOut(obs) || strings.Contains(obs, "timed_out") || strings.Contains(obs, "timeout") || strings.Contains(obs, "deadline")
	}, func(l string) string { return runCase(l, obsPath) })
	out.Close()
}
