// Correspondence driver for C14 (serialisations round-trip).  Black box: public API only.
//
//	c14 gen <seed> <tier> <cases-out> <obs-out>   generate cases, run /repo on them
//	c14 run <cases-in> <obs-out>                  re-run given cases (replay, corpus)
//
// Integers are lower-case hex without leading zeros ("0" for zero); bytes are hex ("-" empty); text is the
// hex of its bytes.  Case lines and observations:
//
//	HP id d                 WritePrivateKeyToHex, then ReadPrivateKeyFromHex   -> ok <text> <ok D|err>
//	HR id text              ReadPrivateKeyFromHex(text)                       -> ok D | err
//	HQ id x y               WritePublicKeyToHex / ReadPublicKeyFromHex        -> ok <text> <ok X Y|err>
//	HS id text              ReadPublicKeyFromHex(text)                        -> ok X Y | err
//	CP id x y               Compress, then Decompress                         -> ok <bytes> <ok X Y|nil>
//	CD id bytes             Decompress(bytes)                                 -> ok X Y | nil
//	SG id r s               SignDigitToSignData, then SignDataToSignDigit     -> ok <der> <ok R S|err>
//	SD id der               SignDataToSignDigit(der)                          -> ok R S | neg | err
//	CM id data              CipherMarshal, then CipherUnmarshal               -> ok <der> <ok data|err> | err
//	CU id der               CipherUnmarshal(der)                              -> ok data | err
//	P8 id d x y c           MarshalSm2UnecryptedPrivateKey, ParsePKCS8UnecryptedPrivateKey -> ok <der> <ok D X Y|err>  (c=1: (x,y) = [d]G)
//	PK id octets            ParsePKCS8UnecryptedPrivateKey on a PKCS#8 whose PrivateKey OCTET STRING is octets -> ok D | err
//	PX id x y               MarshalSm2PublicKey / ParseSm2PublicKey, PEM wrappers -> ok X Y <pem ok 0/1>
//	PM id d                 WritePrivateKeyToPem(nil) / ReadPrivateKeyFromPem(nil) and the PKCS8 functions -> ok D X Y
//	PW id d pwd n           password-protected PEM with pwd, round trip, then n derived wrong passwords
//	                        -> ok <roundtrip 0/1> <wrong tried> <wrong rejected> <wrong accepted with the same key>
//	LD id loader ci ki cj kj cdesc kdesc cdesc2 kdesc2   key-pair loaders on material ci/ki (and cj/kj) -> ok 0/1
//	LP id loader certfile keyfile [certfile2 keyfile2]   loaders on composed PEM input; a file is a comma list of blocks
//	                        LABEL/content/ref (LABEL with _ for space; content: cert=<cdesc> p1rsa=<n> p8rsa=<n> p8ec=<cu:x:y>
//	                        p8sm2=<x:y> p8other sec1 enc junk; ref: how the driver rebuilds the bytes), "-" = empty file -> ok 0/1
package main

import (
	"bytes"
	"crypto/ecdsa"
	"crypto/ed25519"
	"crypto/elliptic"
	"crypto/rsa"
	stdx509 "crypto/x509"
	"crypto/x509/pkix"
	"encoding/asn1"
	"encoding/pem"
	"fmt"
	"math/big"
	"os"
	"path/filepath"
	"strconv"
	"strings"
	"time"

	"github.com/tjfoc/gmsm/gmtls"
	"github.com/tjfoc/gmsm/sm2"
	"github.com/tjfoc/gmsm/x509"
	"verifharness/internal/hx"
)

const deadline = 60 * time.Second

func hexInt(x *big.Int) string {
	if x == nil {
		return "nil"
	}
	if x.Sign() < 0 {
		return "n" + new(big.Int).Neg(x).Text(16)
	}
	return x.Text(16)
}
func unInt(s string) *big.Int {
	x, ok := new(big.Int).SetString(s, 16)
	if !ok {
		panic("bad int " + s)
	}
	return x
}
func text(s string) string   { return hx.Hex([]byte(s)) }
func unText(s string) string { return string(hx.UnHex(s)) }
func keyOf(d *big.Int) *sm2.PrivateKey {
	c := sm2.P256Sm2()
	k := new(sm2.PrivateKey)
	k.Curve = c
	k.D = new(big.Int).Set(d)
	k.X, k.Y = c.ScalarBaseMult(d.Bytes())
	return k
}
func pubOf(x, y *big.Int) *sm2.PublicKey { return &sm2.PublicKey{Curve: sm2.P256Sm2(), X: x, Y: y} }

func repoDir() string {
	if d := os.Getenv("VERIF_REPO"); d != "" {
		return d
	}
	return "/repo"
}
func certFile(name string) []byte {
	b, err := os.ReadFile(filepath.Join(repoDir(), "gmtls", "websvr", "certs", name))
	if err != nil {
		panic(err)
	}
	return b
}

// ---- loader materials (deterministic: independent of the case seed, so that `run` rebuilds them) --------------
type material struct {
	certPEM, keyPEM []byte
	cdesc, kdesc    string
}

// content descriptor of the key block of a material, for LP cases
func (m material) kcontent() string {
	blk, _ := pem.Decode(m.keyPEM)
	f := strings.SplitN(m.kdesc, ":", 2)
	switch f[0] {
	case "sm2":
		return "p8sm2=" + f[1]
	case "ecdsa":
		return "p8ec=" + f[1]
	case "rsa":
		if blk != nil {
			if _, err := stdx509.ParsePKCS1PrivateKey(blk.Bytes); err == nil {
				return "p1rsa=" + f[1]
			}
		}
		return "p8rsa=" + f[1]
	}
	return "junk"
}

var materials []material

func curveID(c elliptic.Curve) int {
	switch c.Params().Name {
	case "SM2-P-256":
		return 0
	case "P-256":
		return 1
	case "P-384":
		return 2
	}
	return 9
}

func descCert(certPEM []byte) string {
	blk, _ := pem.Decode(certPEM)
	if blk == nil {
		return "bad"
	}
	c, err := x509.ParseCertificate(blk.Bytes)
	if err != nil {
		return "bad"
	}
	switch p := c.PublicKey.(type) {
	case *rsa.PublicKey:
		return "rsa:" + hexInt(p.N)
	case *ecdsa.PublicKey:
		return fmt.Sprintf("ec:%d:%s:%s", curveID(p.Curve), hexInt(p.X), hexInt(p.Y))
	case *sm2.PublicKey:
		return fmt.Sprintf("ec:0:%s:%s", hexInt(p.X), hexInt(p.Y))
	}
	return "other"
}

func sm2Material(r *hx.Rng, d *big.Int, cn string) material {
	key := keyOf(d)
	t := &x509.Certificate{SerialNumber: big.NewInt(int64(1000 + r.Intn(100000))), Subject: pkix.Name{CommonName: cn, Organization: []string{"C14"}},
		NotBefore: time.Unix(1600000000, 0), NotAfter: time.Unix(1900000000, 0), SignatureAlgorithm: x509.SM2WithSM3,
		KeyUsage: x509.KeyUsageDigitalSignature | x509.KeyUsageKeyEncipherment, BasicConstraintsValid: true}
	certPEM, err := x509.CreateCertificateToPem(t, t, &key.PublicKey, key)
	if err != nil {
		panic(err)
	}
	keyPEM, err := x509.WritePrivateKeyToPem(key, nil)
	if err != nil {
		panic(err)
	}
	return material{certPEM, keyPEM, descCert(certPEM), fmt.Sprintf("sm2:%s:%s", hexInt(key.X), hexInt(key.Y))}
}

type detReader struct{ r *hx.Rng }

func (d *detReader) Read(p []byte) (int, error) {
	copy(p, d.r.Bytes(len(p)))
	return len(p), nil
}

func buildMaterials() {
	r := hx.NewRng(20260925)
	file := func(cert, key, kind string) material {
		m := material{certPEM: certFile(cert), keyPEM: certFile(key)}
		m.cdesc = descCert(m.certPEM)
		if kind == "sm2" {
			k, err := x509.ReadPrivateKeyFromPem(m.keyPEM, nil)
			if err != nil {
				panic(err)
			}
			m.kdesc = fmt.Sprintf("sm2:%s:%s", hexInt(k.X), hexInt(k.Y))
		} else {
			blk, _ := pem.Decode(m.keyPEM)
			var n *big.Int
			if k, err := stdx509.ParsePKCS1PrivateKey(blk.Bytes); err == nil {
				n = k.N
			} else if k8, err := stdx509.ParsePKCS8PrivateKey(blk.Bytes); err == nil {
				n = k8.(*rsa.PrivateKey).N
			} else {
				panic("rsa key " + key)
			}
			m.kdesc = "rsa:" + hexInt(n)
		}
		return m
	}
	materials = append(materials,
		file("sm2_sign_cert.cer", "sm2_sign_key.pem", "sm2"),        // 0
		file("sm2_enc_cert.cer", "sm2_enc_key.pem", "sm2"),          // 1
		file("sm2_auth_cert.cer", "sm2_auth_key.pem", "sm2"),        // 2
		file("rsa_sign.cer", "rsa_sign_key.pem", "rsa"),             // 3
		file("rsa_auth_cert.cer", "rsa_auth_key.pem", "rsa"),        // 4
		sm2Material(r, new(big.Int).SetBytes(r.Bytes(31)), "c14-a"), // 5
		sm2Material(r, big.NewInt(41105224), "c14-x-leading-zero"),  // 6: x has three leading zero bytes
		sm2Material(r, big.NewInt(60000225), "c14-y-leading-zeros"), // 7: y has two leading zero bytes
	)
	// 8: ECDSA P-256 pair made with the standard library
	ek, err := ecdsa.GenerateKey(elliptic.P256(), &detReader{r})
	if err != nil {
		panic(err)
	}
	et := &stdx509.Certificate{SerialNumber: big.NewInt(77), Subject: pkix.Name{CommonName: "c14-p256"},
		NotBefore: time.Unix(1600000000, 0), NotAfter: time.Unix(1900000000, 0)}
	eder, err := stdx509.CreateCertificate(&detReader{r}, et, et, &ek.PublicKey, ek)
	if err != nil {
		panic(err)
	}
	ekder, err := stdx509.MarshalPKCS8PrivateKey(ek)
	if err != nil {
		panic(err)
	}
	lpExtra.ecKey = ek
	if lpExtra.sec1, err = stdx509.MarshalECPrivateKey(ek); err != nil {
		panic(err)
	}
	_, edk, err := ed25519.GenerateKey(&detReader{r})
	if err != nil {
		panic(err)
	}
	if lpExtra.ed, err = stdx509.MarshalPKCS8PrivateKey(edk); err != nil {
		panic(err)
	}
	ecert := pem.EncodeToMemory(&pem.Block{Type: "CERTIFICATE", Bytes: eder})
	materials = append(materials, material{ecert, pem.EncodeToMemory(&pem.Block{Type: "PRIVATE KEY", Bytes: ekder}),
		descCert(ecert), fmt.Sprintf("ecdsa:1:%s:%s", hexInt(ek.X), hexInt(ek.Y))})
	// 10..12: the certificate of material 0 / 1 / 5 with the private key n-d: its public point is -P, i.e. the SAME X
	// and the other Y - the closest mismatching key there is
	// (appended after 9 below)
	// 9: PEM blocks of the right types around garbage
	materials = append(materials, material{pem.EncodeToMemory(&pem.Block{Type: "CERTIFICATE", Bytes: []byte{0x30, 0x03, 1, 2, 3}}),
		pem.EncodeToMemory(&pem.Block{Type: "PRIVATE KEY", Bytes: []byte{0x30, 0x03, 2, 1, 0}}), "bad", "bad"})
	for _, i := range []int{0, 1, 5} {
		k, err := x509.ReadPrivateKeyFromPem(materials[i].keyPEM, nil)
		if err != nil {
			panic(err)
		}
		neg := keyOf(new(big.Int).Sub(curveN, k.D))
		if neg.X.Cmp(k.X) != 0 || neg.Y.Cmp(k.Y) == 0 {
			panic("negated key: unexpected public point")
		}
		negPEM, err := x509.WritePrivateKeyToPem(neg, nil)
		if err != nil {
			panic(err)
		}
		materials = append(materials, material{materials[i].certPEM, negPEM, materials[i].cdesc,
			fmt.Sprintf("sm2:%s:%s", hexInt(neg.X), hexInt(neg.Y))})
	}
}

// the passwords derived from pwd that must all be refused
func wrongPasswords(pwd []byte, n int) [][]byte {
	var out [][]byte
	// HMAC pads its key with zeros to the 64-byte block: passwords that differ only in trailing NUL bytes are the SAME
	// PBKDF2-HMAC password (PKCS#5 / RFC 2104, any conforming implementation), not wrong ones
	hmacEquivalent := func(a, b []byte) bool {
		return len(a) <= 64 && len(b) <= 64 && bytes.Equal(bytes.TrimRight(a, "\x00"), bytes.TrimRight(b, "\x00"))
	}
	add := func(b []byte) {
		if !bytes.Equal(b, pwd) && !hmacEquivalent(b, pwd) {
			out = append(out, b)
		}
	}
	if len(pwd) > 0 {
		b := append([]byte{}, pwd...)
		b[0] ^= 0x01
		add(b)
		b = append([]byte{}, pwd...)
		b[len(b)-1] ^= 0x20 // case of the last letter
		add(b)
		add(pwd[:len(pwd)-1])
		b = append([]byte{}, pwd...)
		b[len(b)/2]++
		add(b)
	}
	add(append(append([]byte{}, pwd...), 'x'))
	add(append(append([]byte{}, pwd...), pwd...))
	add(append([]byte{0}, pwd...))
	add([]byte{})
	add([]byte(strings.ToUpper(string(pwd))))
	add([]byte(" " + string(pwd)))
	if len(out) > n {
		out = out[:n]
	}
	return out
}

type sm2PrivASN struct {
	Version    int
	PrivateKey []byte
}
type sm2PrivFullASN struct {
	Version       int
	PrivateKey    []byte
	NamedCurveOID asn1.ObjectIdentifier `asn1:"optional,explicit,tag:0"`
	PublicKey     asn1.BitString        `asn1:"optional,explicit,tag:1"`
}
type pkcs8ASN struct {
	Version    int
	Algo       pkix.AlgorithmIdentifier
	PrivateKey []byte
}

func runCase(line string) string {
	f := strings.Split(line, " ")
	id := f[1]
	res, _ := hx.Guard(deadline, func() string {
		switch f[0] {
		case "HP":
			d := unInt(f[2])
			k := &sm2.PrivateKey{D: d}
			k.Curve = sm2.P256Sm2()
			s := x509.WritePrivateKeyToHex(k)
			back, err := x509.ReadPrivateKeyFromHex(s)
			if err != nil {
				return "ok " + text(s) + " err"
			}
			return "ok " + text(s) + " ok " + hexInt(back.D)
		case "HR":
			k, err := x509.ReadPrivateKeyFromHex(unText(f[2]))
			if err != nil {
				return "err"
			}
			return "ok " + hexInt(k.D)
		case "HQ":
			s := x509.WritePublicKeyToHex(pubOf(unInt(f[2]), unInt(f[3])))
			back, err := x509.ReadPublicKeyFromHex(s)
			if err != nil {
				return "ok " + text(s) + " err"
			}
			return "ok " + text(s) + " ok " + hexInt(back.X) + " " + hexInt(back.Y)
		case "HS":
			k, err := x509.ReadPublicKeyFromHex(unText(f[2]))
			if err != nil {
				return "err"
			}
			return "ok " + hexInt(k.X) + " " + hexInt(k.Y)
		case "CP":
			c := sm2.Compress(pubOf(unInt(f[2]), unInt(f[3])))
			p := sm2.Decompress(c)
			if p == nil {
				return "ok " + hx.Hex(c) + " nil"
			}
			return "ok " + hx.Hex(c) + " ok " + hexInt(p.X) + " " + hexInt(p.Y)
		case "CD":
			p := sm2.Decompress(hx.UnHex(f[2]))
			if p == nil {
				return "nil"
			}
			return "ok " + hexInt(p.X) + " " + hexInt(p.Y)
		case "SG":
			der, err := sm2.SignDigitToSignData(unInt(f[2]), unInt(f[3]))
			if err != nil {
				return "err"
			}
			r, s, err := sm2.SignDataToSignDigit(der)
			if err != nil {
				return "ok " + hx.Hex(der) + " err"
			}
			return "ok " + hx.Hex(der) + " ok " + hexInt(r) + " " + hexInt(s)
		case "SD":
			r, s, err := sm2.SignDataToSignDigit(hx.UnHex(f[2]))
			if err != nil {
				return "err"
			}
			if r.Sign() < 0 || s.Sign() < 0 {
				return "neg"
			}
			return "ok " + hexInt(r) + " " + hexInt(s)
		case "CM":
			data := hx.UnHex(f[2])
			der, err := sm2.CipherMarshal(append([]byte{}, data...))
			if err != nil {
				return "err"
			}
			back, err := sm2.CipherUnmarshal(der)
			if err != nil {
				return "ok " + hx.Hex(der) + " err"
			}
			return "ok " + hx.Hex(der) + " ok " + hx.Hex(back)
		case "CU":
			back, err := sm2.CipherUnmarshal(hx.UnHex(f[2]))
			if err != nil {
				return "err"
			}
			return "ok " + hx.Hex(back)
		case "P8":
			k := &sm2.PrivateKey{D: unInt(f[2])}
			k.Curve, k.X, k.Y = sm2.P256Sm2(), unInt(f[3]), unInt(f[4])
			der, err := x509.MarshalSm2UnecryptedPrivateKey(k)
			if err != nil {
				return "err"
			}
			back, err := x509.ParsePKCS8UnecryptedPrivateKey(der)
			if err != nil {
				return "ok " + hx.Hex(der) + " err"
			}
			return "ok " + hx.Hex(der) + " ok " + hexInt(back.D) + " " + hexInt(back.X) + " " + hexInt(back.Y)
		case "PK":
			inner, err := asn1.Marshal(sm2PrivASN{1, hx.UnHex(f[2])})
			if err != nil {
				return "BADCASE"
			}
			der, err := asn1.Marshal(pkcs8ASN{0, pkix.AlgorithmIdentifier{Algorithm: asn1.ObjectIdentifier{1, 2, 840, 10045, 2, 1},
				Parameters: asn1.RawValue{FullBytes: []byte{6, 8, 42, 129, 28, 207, 85, 1, 130, 45}}}, inner})
			if err != nil {
				return "BADCASE"
			}
			k, err := x509.ParsePKCS8UnecryptedPrivateKey(der)
			if err != nil {
				return "err"
			}
			return "ok " + hexInt(k.D)
		case "PS": // x509.ParseSm2PrivateKey called directly on the inner structure (bare, or with curve OID and public key)
			oct := hx.UnHex(f[2])
			var inner []byte
			var err error
			if f[3] == "1" {
				pt := keyOf(big.NewInt(7))
				inner, err = asn1.Marshal(sm2PrivFullASN{1, oct, asn1.ObjectIdentifier{1, 2, 156, 10197, 1, 301},
					asn1.BitString{Bytes: elliptic.Marshal(pt.Curve, pt.X, pt.Y), BitLength: 65 * 8}})
			} else {
				inner, err = asn1.Marshal(sm2PrivASN{1, oct})
			}
			if err != nil {
				return "BADCASE"
			}
			k, err := x509.ParseSm2PrivateKey(inner)
			if err != nil {
				return "err"
			}
			return "ok " + hexInt(k.D)
		case "EA": // genuine ciphertexts: Encrypt / EncryptAsn1 with the same nonce stream, CipherMarshal / CipherUnmarshal, DecryptAsn1
			k := keyOf(unInt(f[2]))
			msg := hx.UnHex(f[3])
			seed, _ := strconv.ParseUint(f[4], 10, 64)
			raw, err := sm2.Encrypt(&k.PublicKey, msg, &detReader{hx.NewRng(seed)}, sm2.C1C3C2)
			if err != nil {
				return "err encrypt"
			}
			asn, err := sm2.EncryptAsn1(&k.PublicKey, msg, &detReader{hx.NewRng(seed)})
			if err != nil {
				return "err encryptasn1"
			}
			b2 := func(b bool) int {
				if b {
					return 1
				}
				return 0
			}
			m, e1 := sm2.CipherMarshal(append([]byte{}, raw...))
			u, e2 := sm2.CipherUnmarshal(asn)
			p1, e3 := sm2.DecryptAsn1(k, asn)
			p2, e4 := k.DecryptAsn1(asn)
			p3, e5 := sm2.Decrypt(k, u, sm2.C1C3C2)
			asn2, e6 := k.PublicKey.EncryptAsn1(msg, &detReader{hx.NewRng(seed)})
			return fmt.Sprintf("ok %s %s %d %d %d %d", hx.Hex(raw), hx.Hex(asn), b2(e1 == nil && bytes.Equal(m, asn)), b2(e2 == nil && bytes.Equal(u, raw)),
				b2(e3 == nil && e4 == nil && e5 == nil && bytes.Equal(p1, msg) && bytes.Equal(p2, msg) && bytes.Equal(p3, msg)), b2(e6 == nil && bytes.Equal(asn2, asn)))
		case "PX":
			pub := pubOf(unInt(f[2]), unInt(f[3]))
			der, err := x509.MarshalSm2PublicKey(pub)
			if err != nil {
				return "err"
			}
			back, err := x509.ParseSm2PublicKey(der)
			if err != nil || back.X == nil {
				return "err"
			}
			pemOK := 0
			if p, err := x509.WritePublicKeyToPem(pub); err == nil {
				if b2, err := x509.ReadPublicKeyFromPem(p); err == nil && b2.X != nil && b2.X.Cmp(pub.X) == 0 && b2.Y.Cmp(pub.Y) == 0 {
					pemOK = 1
				}
			}
			return fmt.Sprintf("ok %s %s %d", hexInt(back.X), hexInt(back.Y), pemOK)
		case "PM":
			k := keyOf(unInt(f[2]))
			p, err := x509.WritePrivateKeyToPem(k, nil)
			if err != nil {
				return "err"
			}
			back, err := x509.ReadPrivateKeyFromPem(p, nil)
			if err != nil {
				return "err"
			}
			der, err := x509.MarshalSm2PrivateKey(k, nil)
			if err != nil {
				return "err"
			}
			b2, err := x509.ParsePKCS8PrivateKey(der, nil)
			if err != nil || b2.D.Cmp(back.D) != 0 {
				return "err"
			}
			// the plain form read with a password, and a key written with one read without: both must fail
			if _, err := x509.ReadPrivateKeyFromPem(p, []byte("pw")); err == nil {
				return "err plain-form-read-with-password"
			}
			return "ok " + hexInt(back.D) + " " + hexInt(back.X) + " " + hexInt(back.Y)
		case "PW":
			k := keyOf(unInt(f[2]))
			pwd := hx.UnHex(f[3])
			n, _ := strconv.Atoi(f[4])
			p, err := x509.WritePrivateKeyToPem(k, pwd)
			if err != nil {
				return "err"
			}
			rt := 0
			if back, err := x509.ReadPrivateKeyFromPem(p, pwd); err == nil && back.D.Cmp(k.D) == 0 && back.X.Cmp(k.X) == 0 && back.Y.Cmp(k.Y) == 0 {
				rt = 1
			}
			// same through the DER functions
			if der, err := x509.MarshalSm2PrivateKey(k, pwd); err != nil {
				rt = 0
			} else if back, err := x509.ParsePKCS8PrivateKey(der, pwd); err != nil || back.D.Cmp(k.D) != 0 {
				rt = 0
			}
			tried, rejected, same := 0, 0, 0
			dtried, drejected := 0, 0
			encDer, derr := x509.MarshalSm2PrivateKey(k, pwd)
			for _, w := range wrongPasswords(pwd, n) {
				tried++
				back, err := x509.ReadPrivateKeyFromPem(p, w)
				if err != nil {
					rejected++
				} else if back.D.Cmp(k.D) == 0 {
					same++
				}
				// the same wrong password against the DER entry points
				if derr == nil {
					dtried += 2
					if _, err := x509.ParsePKCS8PrivateKey(encDer, w); err != nil {
						drejected++
					}
					if _, err := x509.ParsePKCS8EcryptedPrivateKey(encDer, w); err != nil {
						drejected++
					}
				}
			}
			tried++ // nil password on a protected key
			if _, err := x509.ReadPrivateKeyFromPem(p, nil); err != nil {
				rejected++
			}
			if derr == nil { // nil password: ParsePKCS8PrivateKey takes the unencrypted path and must refuse the encrypted form
				dtried++
				if _, err := x509.ParsePKCS8PrivateKey(encDer, nil); err != nil {
					drejected++
				}
			}
			return fmt.Sprintf("ok %d %d %d %d %d %d", rt, tried, rejected, same, dtried, drejected)
		case "FK":
			return runFK(f)
		case "LD":
			return runLoader(f)
		case "LP":
			return runLoaderPem(f)
		}
		return "BADCASE"
	})
	return id + " " + res
}

var lpExtra struct {
	sec1, ed []byte
	ecKey    *ecdsa.PrivateKey
}

// bytes of one block reference: c<i> certificate of material i, k<i> its key, s8 SEC 1 form of the ECDSA key of material 8,
// e<i> password-protected PKCS#8 of SM2 material i, ed an Ed25519 PKCS#8 key, j junk
func refBytes(ref string) []byte {
	switch {
	case ref == "j":
		return []byte{0x30, 0x03, 0x02, 0x01, 0x07}
	case ref == "ed":
		return lpExtra.ed
	case ref == "s8":
		return lpExtra.sec1
	}
	i, _ := strconv.Atoi(ref[1:])
	switch ref[0] {
	case 'c':
		b, _ := pem.Decode(materials[i].certPEM)
		return b.Bytes
	case 'k':
		b, _ := pem.Decode(materials[i].keyPEM)
		return b.Bytes
	case 'e':
		k, err := x509.ReadPrivateKeyFromPem(materials[i].keyPEM, nil)
		if err != nil {
			panic(err)
		}
		der, err := x509.MarshalSm2PrivateKey(k, []byte("c14"))
		if err != nil {
			panic(err)
		}
		return der
	}
	panic("bad block reference " + ref)
}

func buildPem(spec string) []byte {
	if spec == "-" {
		return []byte{}
	}
	var out []byte
	for _, b := range strings.Split(spec, ",") {
		f := strings.Split(b, "/")
		out = append(out, pem.EncodeToMemory(&pem.Block{Type: strings.ReplaceAll(f[0], "_", " "), Bytes: refBytes(f[2])})...)
	}
	return out
}

func runLoaderPem(f []string) string {
	b2i := func(err error) string {
		if err == nil {
			return "ok 1"
		}
		return "ok 0"
	}
	switch f[2] {
	case "X509KeyPair":
		_, err := gmtls.X509KeyPair(buildPem(f[3]), buildPem(f[4]))
		return b2i(err)
	case "GMX509KeyPairsSingle":
		_, err := gmtls.GMX509KeyPairsSingle(buildPem(f[3]), buildPem(f[4]))
		return b2i(err)
	case "GMX509KeyPairs":
		_, err := gmtls.GMX509KeyPairs(buildPem(f[3]), buildPem(f[4]), buildPem(f[5]), buildPem(f[6]))
		return b2i(err)
	}
	return "BADCASE"
}

func runLoader(f []string) string {
	idx := func(s string) material {
		i, _ := strconv.Atoi(s)
		return materials[i]
	}
	c1, k1 := idx(f[3]), idx(f[4])
	b2i := func(err error) string {
		if err == nil {
			return "ok 1"
		}
		return "ok 0"
	}
	switch f[2] {
	case "X509KeyPair":
		_, err := gmtls.X509KeyPair(c1.certPEM, k1.keyPEM)
		return b2i(err)
	case "GMX509KeyPairsSingle":
		_, err := gmtls.GMX509KeyPairsSingle(c1.certPEM, k1.keyPEM)
		return b2i(err)
	case "GMX509KeyPairs":
		c2, k2 := idx(f[5]), idx(f[6])
		_, err := gmtls.GMX509KeyPairs(c1.certPEM, k1.keyPEM, c2.certPEM, k2.keyPEM)
		return b2i(err)
	}
	// file based loaders
	dir, err := os.MkdirTemp("", "c14ld")
	if err != nil {
		return "BADCASE"
	}
	defer os.RemoveAll(dir)
	w := func(name string, b []byte) string {
		p := filepath.Join(dir, name)
		os.WriteFile(p, b, 0o600)
		return p
	}
	switch f[2] {
	case "LoadX509KeyPair":
		_, err := gmtls.LoadX509KeyPair(w("c.pem", c1.certPEM), w("k.pem", k1.keyPEM))
		return b2i(err)
	case "LoadGMX509KeyPair":
		_, err := gmtls.LoadGMX509KeyPair(w("c.pem", c1.certPEM), w("k.pem", k1.keyPEM))
		return b2i(err)
	case "LoadGMX509KeyPairs":
		c2, k2 := idx(f[5]), idx(f[6])
		_, err := gmtls.LoadGMX509KeyPairs(w("c.pem", c1.certPEM), w("k.pem", k1.keyPEM), w("c2.pem", c2.certPEM), w("k2.pem", k2.keyPEM))
		return b2i(err)
	}
	return "BADCASE"
}

// ---------------------------------------------------------------------------------------------------------------
var curveN = unInt("FFFFFFFEFFFFFFFFFFFFFFFFFFFFFFFF7203DF6B21C6052B53BBF40939D54123")
var curveP = unInt("FFFFFFFEFFFFFFFFFFFFFFFFFFFFFFFFFFFFFFFF00000000FFFFFFFFFFFFFFFF")

// scalars whose public point has coordinates with leading zero bytes (found once by search: d, which coordinate, how many)
var zeroCoordScalars = []int64{16000002 /* x: 1 */, 4000042 /* y: 1 */, 52000206 /* x: 2 */, 60000225 /* y: 2 */, 41105224 /* x: 3 */, 13047929 /* y: 3 */, 278982 /* x: 1 and y: 1 */}

func randBelow(r *hx.Rng, n *big.Int) *big.Int {
	return new(big.Int).Mod(new(big.Int).SetBytes(r.Bytes(40)), n)
}

// d values: leading zero bytes and nibbles, boundaries, random
func genD(r *hx.Rng, i int) *big.Int {
	switch i % 12 {
	case 0:
		return big.NewInt(int64(1 + r.Intn(255))) // one byte
	case 1:
		return new(big.Int).SetBytes(r.Bytes(31)) // one leading zero byte
	case 2:
		return new(big.Int).SetBytes(r.Bytes(30)) // two
	case 3:
		return new(big.Int).SetBytes(r.Bytes(29)) // three
	case 4:
		b := r.Bytes(32)
		b[0] &= 0x0f // odd number of hex digits
		return new(big.Int).SetBytes(b)
	case 5:
		b := r.Bytes(31)
		b[0] &= 0x0f
		return new(big.Int).SetBytes(b)
	case 6:
		return new(big.Int).Sub(curveN, big.NewInt(int64(2+r.Intn(3)))) // n-2 .. n-4
	case 7:
		return big.NewInt(zeroCoordScalars[r.Intn(len(zeroCoordScalars))])
	case 8:
		return new(big.Int).SetBytes(r.Bytes(1 + r.Intn(20)))
	default:
		d := randBelow(r, new(big.Int).Sub(curveN, big.NewInt(2)))
		return d.Add(d, big.NewInt(1))
	}
}

func main() {
	if len(os.Args) < 4 {
		fmt.Fprintln(os.Stderr, "usage: c14 gen <seed> <tier> <cases> <obs> | c14 run <cases> <obs>")
		os.Exit(2)
	}
	buildMaterials()
	if os.Args[1] == "run" {
		out := hx.NewOut(os.DevNull, os.Args[3])
		for _, l := range hx.ReadLines(os.Args[2]) {
			out.Obs(runCase(l))
		}
		out.Retry(runCase) // a case that ran out of time in this pass is re-run alone with 10x deadlines
		out.Close()
		return
	}
	seed, _ := strconv.ParseUint(os.Args[2], 10, 64)
	tier := os.Args[3]
	out := hx.NewOut(os.Args[4], os.Args[5])
	r := hx.NewRng(seed)
	scale := 1
	if tier == "thorough" {
		scale = 8
	}
	n := 0
	emit := func(op string, fields ...string) {
		n++
		line := fmt.Sprintf("%s %s%05d %s", op, strings.ToLower(op), n, strings.Join(fields, " "))
		out.Case(line)
		out.Obs(runCase(line))
	}
	two256 := new(big.Int).Lsh(big.NewInt(1), 256)

	// ---- hexadecimal private keys
	for i := 0; i < 120*scale; i++ {
		emit("HP", hexInt(genD(r, i)))
	}
	for _, d := range []*big.Int{big.NewInt(0), big.NewInt(1), new(big.Int).Sub(curveN, big.NewInt(1)), new(big.Int).Sub(curveN, big.NewInt(2)), curveN,
		new(big.Int).Sub(two256, big.NewInt(1)), two256, new(big.Int).Lsh(big.NewInt(1), 300)} {
		emit("HP", hexInt(d))
	}
	for i := 0; i < 40*scale; i++ {
		d := genD(r, i)
		s := d.Text(16)
		switch i % 8 {
		case 0: // odd number of digits (what the old writer produced)
			if len(s)%2 == 0 {
				s = s[1:]
			}
		case 1:
			s = strings.ToUpper(fmt.Sprintf("%064x", d))
		case 2:
			s = fmt.Sprintf("%064x", d)
			s = s[:10] + "g" + s[11:]
		case 3:
			s = "0x" + fmt.Sprintf("%064x", d)
		case 4:
			s = fmt.Sprintf("%070x", d) // more than 32 bytes, leading zeros
		case 5:
			s = ""
		case 6:
			s = fmt.Sprintf("%x", new(big.Int).Add(curveN, big.NewInt(int64(r.Intn(3))-1)))
		default:
			if len(s)%2 == 1 {
				s = "0" + s
			}
		}
		emit("HR", text(s))
	}
	// ---- public keys: real points (incl. the ones with leading zero coordinates) and arbitrary pairs
	var pts [][2]*big.Int
	for _, d := range zeroCoordScalars {
		k := keyOf(big.NewInt(d))
		pts = append(pts, [2]*big.Int{k.X, k.Y})
	}
	for i := 0; i < 30*scale; i++ {
		k := keyOf(genD(r, i+9))
		pts = append(pts, [2]*big.Int{k.X, k.Y})
	}
	for _, p := range pts {
		emit("HQ", hexInt(p[0]), hexInt(p[1]))
		emit("CP", hexInt(p[0]), hexInt(p[1]))
		emit("PX", hexInt(p[0]), hexInt(p[1]))
	}
	for i := 0; i < 30*scale; i++ { // arbitrary coordinates: the hex codec does not look at the curve
		x := new(big.Int).SetBytes(r.Bytes(1 + r.Intn(32)))
		y := new(big.Int).SetBytes(r.Bytes(r.Intn(33)))
		emit("HQ", hexInt(x), hexInt(y))
	}
	for i := 0; i < 24*scale; i++ {
		p := pts[r.Intn(len(pts))]
		s := fmt.Sprintf("04%064x%064x", p[0], p[1])
		switch i % 8 {
		case 0:
			s = s[2:] // 64 bytes without the tag
		case 1:
			s = "03" + s[2:]
		case 2:
			s = s[:len(s)-2]
		case 3:
			s = s + "00"
		case 4:
			s = strings.ToUpper(s)
		case 5:
			s = s[1:]
		case 6:
			s = "04" + s
		}
		emit("HS", text(s))
	}
	// ---- Decompress on arbitrary input
	for i := 0; i < 60*scale; i++ {
		p := pts[r.Intn(len(pts))]
		c := append([]byte{byte(p[1].Bit(0))}, p[0].FillBytes(make([]byte, 32))...)
		switch i % 10 {
		case 0:
			c[0] ^= 1 // the other root
		case 1:
			c[0] = byte(2 + r.Intn(254))
		case 2:
			c = c[:len(c)-1-r.Intn(5)]
		case 3:
			c = append(c, 0)
		case 4:
			c = []byte{}
		case 5: // x >= p
			c = append([]byte{byte(r.Intn(2))}, new(big.Int).Add(curveP, big.NewInt(int64(r.Intn(5)))).FillBytes(make([]byte, 32))...)
		case 6, 7: // random x: a non-residue about half of the time
			c = append([]byte{byte(r.Intn(2))}, randBelow(r, curveP).FillBytes(make([]byte, 32))...)
		case 8:
			c = append([]byte{byte(r.Intn(2))}, big.NewInt(int64(r.Intn(50))).FillBytes(make([]byte, 32))...)
		}
		emit("CD", hx.Hex(c))
	}
	// ---- signatures: all classes of (r, s)
	ints := func(i int) *big.Int {
		switch i % 9 {
		case 0:
			return big.NewInt(int64(r.Intn(3)))
		case 1:
			return big.NewInt(int64(0x7f + r.Intn(3))) // around the sign bit of one byte
		case 2:
			b := r.Bytes(32)
			b[0] |= 0x80
			return new(big.Int).SetBytes(b)
		case 3:
			b := r.Bytes(32)
			b[0] &= 0x7f
			return new(big.Int).SetBytes(b)
		case 4:
			return new(big.Int).SetBytes(r.Bytes(1 + r.Intn(31)))
		case 5:
			return new(big.Int).Sub(curveN, big.NewInt(int64(1+r.Intn(2))))
		case 6:
			return new(big.Int).SetBytes(r.Bytes(33 + r.Intn(100))) // long form lengths
		case 7:
			b := r.Bytes(r.Pick([]int{126, 127, 128, 129, 255, 256, 257}))
			b[0] |= 0x80
			return new(big.Int).SetBytes(b)
		default:
			return randBelow(r, curveN)
		}
	}
	for i := 0; i < 120*scale; i++ {
		emit("SG", hexInt(ints(i)), hexInt(ints(i/9+i)))
	}
	for i := 0; i < 40*scale; i++ {
		der, _ := sm2.SignDigitToSignData(ints(i), ints(i+3))
		switch i % 10 {
		case 0:
			der = der[:len(der)-1]
		case 1:
			der = append(der, 0xde, 0xad)
		case 2:
			der = []byte{0x30, 0x08, 0x02, 0x02, 0x00, 0x01, 0x02, 0x02, 0x00, 0x7f} // non-minimal integers
		case 3:
			der = []byte{0x30, 0x06, 0x02, 0x01, 0x81, 0x02, 0x01, 0x01} // negative r
		case 4:
			der = []byte{0x30, 0x81, 0x06, 0x02, 0x01, 0x01, 0x02, 0x01, 0x01} // non-minimal length
		case 5:
			der = []byte{0x30, 0x80, 0x02, 0x01, 0x01, 0x02, 0x01, 0x01, 0, 0} // indefinite length
		case 6:
			der = []byte{0x30, 0x05, 0x02, 0x00, 0x02, 0x01, 0x01} // empty integer
		case 7:
			der = []byte{0x30, 0x09, 0x02, 0x01, 0x05, 0x02, 0x01, 0x06, 0x02, 0x01, 0x07} // a third field inside
		case 8:
			der[0] = 0x31
		}
		emit("SD", hx.Hex(der))
	}
	// ---- ciphertexts
	for i := 0; i < 80*scale; i++ {
		p := pts[r.Intn(len(pts))]
		x, y := p[0], p[1]
		switch i % 6 {
		case 1:
			x = new(big.Int).SetBytes(r.Bytes(1 + r.Intn(30))) // short coordinates (the codec does not look at the curve)
		case 2:
			y = new(big.Int).SetBytes(r.Bytes(r.Intn(31)))
		case 3:
			x, y = big.NewInt(0), big.NewInt(0)
		}
		data := append([]byte{4}, x.FillBytes(make([]byte, 32))...)
		data = append(data, y.FillBytes(make([]byte, 32))...)
		data = append(data, r.Bytes(32)...)
		data = append(data, r.Bytes(r.Pick([]int{0, 1, 16, 100, 127, 128, 300}))...)
		if i%11 == 10 {
			data = data[:90+r.Intn(7)] // too short
		}
		emit("CM", hx.Hex(data))
	}
	// genuine ciphertexts (sm2.Encrypt on real keys, deterministic nonce streams): through CipherMarshal / CipherUnmarshal against
	// the model (CM), and through EncryptAsn1 / DecryptAsn1 (EA); keys whose C1 has short coordinates come by chance only
	for i := 0; i < 24*scale; i++ {
		k := keyOf(genD(r, i+3))
		msg := r.Bytes(r.Pick([]int{0, 1, 15, 16, 17, 32, 100, 127, 128, 300, 1000}))
		if len(msg) == 0 {
			msg = []byte{byte(i)} // Encrypt of an empty message is a C02 matter
		}
		sd := r.U64() % 1000000
		if raw, err := sm2.Encrypt(&k.PublicKey, msg, &detReader{hx.NewRng(sd)}, sm2.C1C3C2); err == nil {
			emit("CM", hx.Hex(raw))
		}
		emit("EA", hexInt(k.D), hx.Hex(msg), strconv.FormatUint(sd, 10))
	}
	type cipherASN struct {
		X, Y *big.Int
		H, C []byte
	}
	for i := 0; i < 40*scale; i++ {
		c := cipherASN{new(big.Int).SetBytes(r.Bytes(32)), new(big.Int).SetBytes(r.Bytes(32)), r.Bytes(32), r.Bytes(r.Intn(40))}
		switch i % 8 {
		case 0:
			c.X = new(big.Int).SetBytes(r.Bytes(1 + r.Intn(31)))
		case 1:
			c.Y = big.NewInt(0)
		case 2:
			c.X = new(big.Int).Lsh(big.NewInt(1), 256) // 33 bytes
		case 3:
			c.Y = new(big.Int).Neg(c.Y)
		case 4:
			c.H = c.H[:31]
		case 5:
			c.H = append(c.H, 1)
		case 6:
			c.C = nil
		}
		der, err := asn1.Marshal(c)
		if err != nil {
			continue
		}
		if i%8 == 7 {
			der = append(der, 1, 2, 3)
		}
		emit("CU", hx.Hex(der))
	}
	// ---- PKCS#8
	for i := 0; i < 60*scale; i++ {
		k := keyOf(genD(r, i))
		emit("P8", hexInt(k.D), hexInt(k.X), hexInt(k.Y), "1")
		emit("PM", hexInt(k.D))
	}
	for _, d := range []*big.Int{big.NewInt(0), new(big.Int).Sub(curveN, big.NewInt(1)), curveN, new(big.Int).Add(curveN, big.NewInt(1))} {
		k := keyOf(big.NewInt(5))
		emit("P8", hexInt(d), hexInt(k.X), hexInt(k.Y), "0") // d at the ends of the range (the public point is not read back)
	}
	for i := 0; i < 40*scale; i++ {
		d := genD(r, i)
		oct := d.Bytes()
		switch i % 8 {
		case 0:
			oct = d.FillBytes(make([]byte, 32))
		case 1:
			oct = append(make([]byte, 1+r.Intn(8)), d.FillBytes(make([]byte, 32))...) // longer than 32 with leading zeros
		case 2:
			oct = append([]byte{1}, d.FillBytes(make([]byte, 32))...) // longer than 32, leading byte not zero
		case 3:
			oct = []byte{}
		case 4:
			oct = curveN.Bytes()
		case 5:
			oct = new(big.Int).Sub(curveN, big.NewInt(1)).Bytes()
		case 6:
			oct = append([]byte{0, 0}, d.Bytes()...)
		}
		emit("PK", hx.Hex(oct))
		emit("PS", hx.Hex(oct), strconv.Itoa(i%2))
	}
	// ---- key files of foreign encoders
	genFK(r, emit)
	// ---- passwords
	pw := [][]byte{{}, []byte("a"), []byte("Passw0rd-C14"), []byte("pässwörd-密码-🔑"), bytes.Repeat([]byte("0123456789abcdeF"), 64), r.Bytes(32), []byte("trailing space ")}
	for i := 0; i < 14*scale; i++ {
		emit("PW", hexInt(genD(r, i+5)), hx.Hex(pw[i%len(pw)]), "9")
	}
	// ---- loaders
	nm := len(materials)
	for _, ld := range []string{"X509KeyPair", "GMX509KeyPairsSingle", "LoadX509KeyPair", "LoadGMX509KeyPair"} {
		for ci := 0; ci < nm; ci++ {
			for ki := 0; ki < nm; ki++ {
				emit("LD", ld, strconv.Itoa(ci), strconv.Itoa(ki), "-", "-", materials[ci].cdesc, materials[ki].kdesc, "-", "-")
			}
		}
	}
	sm2ish := []int{0, 1, 2, 5, 6, 7, 3, 9, 10, 11, 12}
	// near misses that are always included: the key n-d (same X, other Y) in the signing or in the encryption position
	forced := map[[4]int]bool{{0, 10, 1, 1}: true, {0, 0, 1, 11}: true, {5, 12, 1, 1}: true, {0, 0, 5, 12}: true, {0, 10, 1, 11}: true,
		{1, 1, 0, 0}: true, {0, 1, 1, 0}: true, {0, 0, 0, 0}: true}
	for _, ld := range []string{"GMX509KeyPairs", "LoadGMX509KeyPairs"} {
		cnt := 0
		for _, a := range sm2ish {
			for _, b := range sm2ish {
				for _, c := range sm2ish {
					for _, d := range sm2ish {
						match := 0
						if a == b {
							match++
						}
						if c == d {
							match++
						}
						// all fully matching combinations, and a sample of the others
						must := forced[[4]int{a, b, c, d}]
						if match < 2 && !must && r.Intn(40) != 0 {
							continue
						}
						cnt++
						emit("LD", ld, strconv.Itoa(a), strconv.Itoa(b), strconv.Itoa(c), strconv.Itoa(d),
							materials[a].cdesc, materials[b].kdesc, materials[c].cdesc, materials[d].kdesc)
					}
				}
			}
		}
	}
	// ---- loaders on composed PEM input: which block is used
	cb := func(i int) string { return "CERTIFICATE/cert=" + materials[i].cdesc + "/c" + strconv.Itoa(i) }
	kb := func(label string, i int) string {
		return label + "/" + materials[i].kcontent() + "/k" + strconv.Itoa(i)
	}
	junk := func(label string) string { return label + "/junk/j" }
	type pf struct{ c, k string }
	files := []pf{
		{cb(5), kb("PRIVATE_KEY", 5)},
		{cb(5) + "," + cb(0), kb("PRIVATE_KEY", 5)},                                                  // leaf then chain
		{cb(0) + "," + cb(5), kb("PRIVATE_KEY", 5)},                                                  // leaf is not first
		{junk("EC_PARAMETERS") + "," + cb(5), junk("EC_PARAMETERS") + "," + kb("EC_PRIVATE_KEY", 5)}, // PKCS#8 SM2 under another label
		{cb(8), "EC_PRIVATE_KEY/sec1/s8"},                                                            // SEC 1: no parser
		{cb(8), kb("PRIVATE_KEY", 8)},
		{cb(5), "ENCRYPTED_PRIVATE_KEY/enc/e5," + kb("PRIVATE_KEY", 5)}, // first key block decides
		{cb(5), "ENCRYPTED_PRIVATE_KEY/enc/e5"},
		{cb(5), kb("PRIVATE_KEY", 5) + "," + kb("PRIVATE_KEY", 0)},
		{cb(0), kb("PRIVATE_KEY", 5) + "," + kb("PRIVATE_KEY", 0)},
		{cb(5), cb(5)}, // certificate given as key
		{kb("PRIVATE_KEY", 5), kb("PRIVATE_KEY", 5)}, // key given as certificate
		{"-", kb("PRIVATE_KEY", 5)}, {cb(5), "-"},
		{cb(5), "PRIVATE_KEY/p8other/ed"},
		{cb(3), kb("RSA_PRIVATE_KEY", 3)}, {cb(3), kb("PRIVATE_KEY", 4)},
		{cb(5), junk("PUBLIC_KEY") + "," + kb("PRIVATE_KEY", 5)},
		{cb(5), kb("PUBLIC_KEY", 5)}, // right bytes, label not a private key
		{cb(6), kb("SM2_PRIVATE_KEY", 6)}, {cb(7), kb("PRIVATE_KEY", 12)}, {cb(5), kb("PRIVATE_KEY", 12)},
		{junk("CERTIFICATE") + "," + cb(5), kb("PRIVATE_KEY", 5)}, // first CERTIFICATE block does not parse
	}
	for _, ld := range []string{"X509KeyPair", "GMX509KeyPairsSingle"} {
		for _, x := range files {
			emit("LP", ld, x.c, x.k)
		}
	}
	enc := pf{cb(1), kb("PRIVATE_KEY", 1)}
	for _, x := range files {
		emit("LP", "GMX509KeyPairs", x.c, x.k, enc.c, enc.k)
		emit("LP", "GMX509KeyPairs", cb(0), kb("PRIVATE_KEY", 0), x.c, x.k)
	}
	out.Retry(runCase) // a case that ran out of time in this pass is re-run alone with 10x deadlines
	out.Close()
}
