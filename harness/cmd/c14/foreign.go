package main

// FK cases: key files written by OTHER encoders.  The package's own Marshal functions only ever write the private scalar
// as its minimal byte string; BigInteger-style encoders write 33 octets (a leading zero) when the top bit is set, fixed-width
// ones pad, minimal ones strip leading zeros.  The PKCS#8 / ECPrivateKey bytes are built by hand: the scalar sits in an
// OCTET STRING of 30..34 octets, with or without the optional curve OID and public key; plain, PEM-armoured, PBES2-
// encrypted (PBKDF2-HMAC-SHA1 / AES-256-CBC computed here, not by the package) and offered to the TLS key-pair loaders.
//
//	FK <id> <scalar, 64 hex digits> <octets> <form> <with public key 0|1> <with curve OID 0|1> <scalar octets, hex>
//	-> ok <D> <X> <Y> <D2> <X2> <Y2>       loaded key, and the key loaded again from its re-serialisation   | err <where>
//
// forms: sm2 (ParseSm2PrivateKey), pkcs8 (ParsePKCS8UnecryptedPrivateKey), p8any (ParsePKCS8PrivateKey, nil password),
// pem (ReadPrivateKeyFromPem), enc (ParsePKCS8PrivateKey with password), encpem (ReadPrivateKeyFromPem with password),
// x509kp (gmtls.X509KeyPair with a certificate of the true public key), gmsingle (gmtls.GMX509KeyPairsSingle)
//
// Round 6 - public key option "2": the optional publicKey field is present and holds a point of the curve that is NOT
// [d]G, namely [e]G for the foreign scalar e in a 9th field.  Extra forms: gmpairs (gmtls.GMX509KeyPairs, the file in both
// slots, certificates of [d]G: accepted), and x509kp-e / gmsingle-e / gmpairs-s-e / gmpairs-e-e: the same loaders (signing
// and encryption slot of the dual one) with the certificate of the EMBEDDED point [e]G -> `err refused:<..>` is the only
// right answer (the file does not hold that certificate's private key); an acceptance is reported as `ok <loaded key>`.

import (
	"crypto/aes"
	"crypto/cipher"
	"crypto/elliptic"
	"crypto/hmac"
	"crypto/sha1"
	"crypto/x509/pkix"
	"encoding/asn1"
	"encoding/pem"
	"fmt"
	"math/big"
	"strconv"
	"strings"
	"time"

	"github.com/tjfoc/gmsm/gmtls"
	"github.com/tjfoc/gmsm/sm2"
	"github.com/tjfoc/gmsm/x509"
	"verifharness/internal/hx"
)

var (
	derOIDecPublicKey = []byte{0x06, 0x07, 0x2a, 0x86, 0x48, 0xce, 0x3d, 0x02, 0x01}       // 1.2.840.10045.2.1
	derOIDsm2Curve    = []byte{0x06, 0x08, 0x2a, 0x81, 0x1c, 0xcf, 0x55, 0x01, 0x82, 0x2d} // 1.2.156.10197.1.301
)

var fkPassword = []byte("foreign-key-password")

func derTLV(tag byte, v []byte) []byte {
	var h []byte
	switch n := len(v); {
	case n < 128:
		h = []byte{tag, byte(n)}
	case n < 256:
		h = []byte{tag, 0x81, byte(n)}
	default:
		h = []byte{tag, 0x82, byte(n >> 8), byte(n)}
	}
	return append(h, v...)
}

func pbkdf2sha1(pwd, salt []byte, iter, keyLen int) []byte {
	var out []byte
	for blk := 1; len(out) < keyLen; blk++ {
		m := hmac.New(sha1.New, pwd)
		m.Write(salt)
		m.Write([]byte{byte(blk >> 24), byte(blk >> 16), byte(blk >> 8), byte(blk)})
		u := m.Sum(nil)
		t := append([]byte{}, u...)
		for i := 1; i < iter; i++ {
			m = hmac.New(sha1.New, pwd)
			m.Write(u)
			u = m.Sum(nil)
			for k := range t {
				t[k] ^= u[k]
			}
		}
		out = append(out, t...)
	}
	return out[:keyLen]
}

// PBES2 envelope around p8 (RFC 8018: PBKDF2 with HMAC-SHA1, AES-256-CBC, PKCS#7 padding)
func encryptPKCS8(p8, pwd, salt, iv []byte) ([]byte, error) {
	const iter = 2048
	key := pbkdf2sha1(pwd, salt, iter, 32)
	pad := aes.BlockSize - len(p8)%aes.BlockSize
	pt := append(append([]byte{}, p8...), make([]byte, pad)...)
	for i := len(p8); i < len(pt); i++ {
		pt[i] = byte(pad)
	}
	blk, err := aes.NewCipher(key)
	if err != nil {
		return nil, err
	}
	ct := make([]byte, len(pt))
	cipher.NewCBCEncrypter(blk, iv).CryptBlocks(ct, pt)
	return asn1.Marshal(x509.EncryptedPrivateKeyInfo{
		EncryptionAlgorithm: x509.Pbes2Algorithms{
			IdPBES2: asn1.ObjectIdentifier{1, 2, 840, 113549, 1, 5, 13},
			Pbes2Params: x509.Pbes2Params{
				KeyDerivationFunc: x509.Pbes2KDfs{
					IdPBKDF2: asn1.ObjectIdentifier{1, 2, 840, 113549, 1, 5, 12},
					Pkdf2Params: x509.Pkdf2Params{Salt: salt, IterationCount: iter,
						Prf: pkix.AlgorithmIdentifier{Algorithm: asn1.ObjectIdentifier{1, 2, 840, 113549, 2, 7}, Parameters: asn1.RawValue{FullBytes: []byte{5, 0}}}},
				},
				EncryptionScheme: x509.Pbes2Encs{EncryAlgo: asn1.ObjectIdentifier{2, 16, 840, 1, 101, 3, 4, 1, 42}, IV: iv},
			},
		},
		EncryptedData: ct,
	})
}

func slugErr(err error) string {
	s := strings.Map(func(r rune) rune {
		if r == ' ' || r == '\n' || r == '\t' {
			return '-'
		}
		return r
	}, fmt.Sprint(err))
	if len(s) > 80 {
		s = s[:80]
	}
	return s
}

// the scalar shapes of one case: 32 bytes d, and its encoding in `octets` octets
func fkScalar(r *hx.Rng, octets int, topBit bool) ([]byte, []byte) {
	d := r.Bytes(32)
	if d[0] == 0xff {
		d[0] = 0xfe // stay below the group order (which starts with fffffffe)
	}
	switch octets {
	case 31:
		d[0] = 0
		d[1] |= 0x80
	case 30:
		d[0], d[1] = 0, 0
		d[2] |= 1
	default:
		if topBit {
			d[0] |= 0x80
			if d[0] == 0xff {
				d[0] = 0xfe
			}
		} else {
			d[0] &= 0x7f
			d[0] |= 1
		}
	}
	if octets >= 32 {
		return d, append(make([]byte, octets-32), d...)
	}
	return d, d[32-octets:]
}

func runFK(f []string) string {
	db := hx.UnHex(f[2])
	sc := hx.UnHex(f[7])
	if len(db) != 32 {
		return "BADCASE"
	}
	curve := sm2.P256Sm2()
	truth := keyOf(new(big.Int).SetBytes(db)) // D and [D]G from the package's ScalarBaseMult (the predicate recomputes [D]G itself)
	body := append(derTLV(2, []byte{1}), derTLV(4, sc)...)
	if f[6] == "1" {
		body = append(body, derTLV(0xa0, derOIDsm2Curve)...)
	}
	if f[5] == "1" {
		body = append(body, derTLV(0xa1, derTLV(3, append([]byte{0}, elliptic.Marshal(curve, truth.X, truth.Y)...)))...)
	}
	// "2": the optional publicKey field holds a point of the curve that is NOT [d]G - the point of the foreign scalar in
	// f[8] (a key file with somebody else's public point, a hand-edited or corrupted file).  The field is optional and
	// redundant: the key of the file is d, its public point is [d]G whatever the field says.
	var foreign *sm2.PrivateKey
	if f[5] == "2" {
		if len(f) < 9 || len(hx.UnHex(f[8])) != 32 {
			return "BADCASE"
		}
		foreign = keyOf(new(big.Int).SetBytes(hx.UnHex(f[8])))
		if foreign.D.Cmp(truth.D) == 0 {
			return "BADCASE"
		}
		body = append(body, derTLV(0xa1, derTLV(3, append([]byte{0}, elliptic.Marshal(curve, foreign.X, foreign.Y)...)))...)
	}
	ecpriv := derTLV(0x30, body)
	p8 := append(derTLV(2, []byte{0}), derTLV(0x30, append(append([]byte{}, derOIDecPublicKey...), derOIDsm2Curve...))...)
	p8 = derTLV(0x30, append(p8, derTLV(4, ecpriv)...))
	seedRng := hx.NewRng(uint64(db[5])<<8 | uint64(db[9]))
	var key *sm2.PrivateKey
	var err error
	certPEMof := func(owner *sm2.PrivateKey) ([]byte, error) {
		t := &x509.Certificate{SerialNumber: big.NewInt(1410), Subject: pkix.Name{CommonName: "foreign key " + f[1]},
			NotBefore: time.Unix(1700000000, 0), NotAfter: time.Unix(1900000000, 0), KeyUsage: x509.KeyUsageDigitalSignature,
			SignatureAlgorithm: x509.SM2WithSM3}
		der, err := x509.CreateCertificate(t, t, &owner.PublicKey, owner)
		if err != nil {
			return nil, err
		}
		return pem.EncodeToMemory(&pem.Block{Type: "CERTIFICATE", Bytes: der}), nil
	}
	certPEM := func() ([]byte, error) { return certPEMof(truth) }
	fromTLS := func(c gmtls.Certificate, err error) (*sm2.PrivateKey, error) {
		if err != nil {
			return nil, err
		}
		k, ok := c.PrivateKey.(*sm2.PrivateKey)
		if !ok {
			return nil, fmt.Errorf("loader returned a %T", c.PrivateKey)
		}
		return k, nil
	}
	switch f[4] {
	case "sm2":
		key, err = x509.ParseSm2PrivateKey(ecpriv)
	case "pkcs8":
		key, err = x509.ParsePKCS8UnecryptedPrivateKey(p8)
	case "p8any":
		key, err = x509.ParsePKCS8PrivateKey(p8, nil)
	case "pem":
		key, err = x509.ReadPrivateKeyFromPem(pem.EncodeToMemory(&pem.Block{Type: "PRIVATE KEY", Bytes: p8}), nil)
	case "enc", "encpem":
		var enc []byte
		if enc, err = encryptPKCS8(p8, fkPassword, seedRng.Bytes(8), seedRng.Bytes(16)); err != nil {
			return "BADCASE"
		}
		if f[4] == "enc" {
			key, err = x509.ParsePKCS8PrivateKey(enc, fkPassword)
		} else {
			key, err = x509.ReadPrivateKeyFromPem(pem.EncodeToMemory(&pem.Block{Type: "ENCRYPTED PRIVATE KEY", Bytes: enc}), fkPassword)
		}
	case "x509kp", "gmsingle":
		cp, cerr := certPEM()
		if cerr != nil {
			return "BADCASE"
		}
		kp := pem.EncodeToMemory(&pem.Block{Type: "PRIVATE KEY", Bytes: p8})
		if f[4] == "x509kp" {
			key, err = fromTLS(gmtls.X509KeyPair(cp, kp))
		} else {
			key, err = fromTLS(gmtls.GMX509KeyPairsSingle(cp, kp))
		}
	case "gmpairs":
		// the dual loader, the file in BOTH slots, with a certificate of the true key [d]G for each: accepted
		cp, cerr := certPEM()
		if cerr != nil {
			return "BADCASE"
		}
		kp := pem.EncodeToMemory(&pem.Block{Type: "PRIVATE KEY", Bytes: p8})
		key, err = fromTLS(gmtls.GMX509KeyPairs(cp, kp, cp, kp))
	case "x509kp-e", "gmsingle-e", "gmpairs-s-e", "gmpairs-e-e":
		// the certificate is the one of the FOREIGN point the file carries in its publicKey field: the file's scalar is
		// not that certificate's private key, every loader has to refuse the pair.  The other slot of the dual loader
		// holds the genuine pair of the foreign key (written by the package), so only the slot under test can refuse.
		if foreign == nil {
			return "BADCASE"
		}
		cp, cerr := certPEMof(foreign)
		gk, gerr := x509.WritePrivateKeyToPem(foreign, nil)
		if cerr != nil || gerr != nil {
			return "BADCASE"
		}
		if c, cerr := gmtls.GMX509KeyPairs(cp, gk, cp, gk); cerr != nil || c.PrivateKey == nil { // positive control of the material
			return "BADCASE"
		}
		kp := pem.EncodeToMemory(&pem.Block{Type: "PRIVATE KEY", Bytes: p8})
		switch f[4] {
		case "x509kp-e":
			key, err = fromTLS(gmtls.X509KeyPair(cp, kp))
		case "gmsingle-e":
			key, err = fromTLS(gmtls.GMX509KeyPairsSingle(cp, kp))
		case "gmpairs-s-e":
			key, err = fromTLS(gmtls.GMX509KeyPairs(cp, kp, cp, gk))
		default:
			_, err = gmtls.GMX509KeyPairs(cp, gk, cp, kp)
			if err == nil {
				key, err = x509.ReadPrivateKeyFromPem(kp, nil) // accepted: report what the accepted encryption key file reads as
			}
		}
		if err != nil {
			return "err refused:" + slugErr(err)
		}
	default:
		return "BADCASE"
	}
	if err != nil || key == nil || key.D == nil || key.X == nil || key.Y == nil {
		return "err load:" + slugErr(err)
	}
	// what the package writes for the loaded key must load to the same key
	re, err := x509.MarshalSm2UnecryptedPrivateKey(key)
	if err != nil {
		return "err remarshal:" + slugErr(err)
	}
	k2, err := x509.ParsePKCS8UnecryptedPrivateKey(re)
	if err != nil || k2.X == nil {
		return "err reload:" + slugErr(err)
	}
	return fmt.Sprintf("ok %s %s %s %s %s %s", hexInt(key.D), hexInt(key.X), hexInt(key.Y), hexInt(k2.D), hexInt(k2.X), hexInt(k2.Y))
}

func genFK(r *hx.Rng, emit func(op string, args ...string)) {
	shapes := []struct {
		octets int
		top    bool
	}{{32, true}, {32, false}, {33, true}, {33, false}, {34, true}, {31, false}, {30, false}}
	forms := []string{"sm2", "pkcs8", "p8any", "pem", "enc", "encpem", "x509kp", "gmsingle"}
	for _, sh := range shapes {
		for fi, form := range forms {
			for opt := 0; opt < 4; opt++ {
				if (form == "enc" || form == "encpem" || form == "x509kp" || form == "gmsingle") && opt != (fi+sh.octets)%4 && opt != 3 {
					continue // the costly forms: two of the four option combinations each
				}
				d, sc := fkScalar(r, sh.octets, sh.top)
				emit("FK", hx.Hex(d), strconv.Itoa(sh.octets), form, strconv.Itoa(opt&1), strconv.Itoa(opt>>1), hx.Hex(sc))
			}
		}
	}
	// key files whose optional publicKey field DISAGREES with the scalar (public key option "2": the point of the foreign
	// scalar in the last field): every reader has to return (d, [d]G); every loader has to accept the file with a
	// certificate of [d]G and to refuse it with the certificate of the embedded foreign point.
	mforms := []string{"sm2", "pkcs8", "p8any", "pem", "enc", "encpem", "x509kp", "gmsingle", "gmpairs",
		"x509kp-e", "gmsingle-e", "gmpairs-s-e", "gmpairs-e-e"}
	mshapes := []struct {
		octets int
		top    bool
	}{{32, true}, {32, false}, {33, true}, {31, false}}
	for si, sh := range mshapes {
		for fi, form := range mforms {
			if si >= 2 && (form == "enc" || form == "encpem") {
				continue
			}
			d, sc := fkScalar(r, sh.octets, sh.top)
			e, _ := fkScalar(r, 32-(fi+si)%2, (fi+si)%3 == 0) // foreign scalar: 32 or 31 significant octets
			if hx.Hex(e) == hx.Hex(d) {
				e[31] ^= 1
			}
			oid := strconv.Itoa((fi + si) & 1)
			if strings.HasSuffix(form, "-e") {
				oid = "1" // what the package itself writes, apart from the scalar
			}
			emit("FK", hx.Hex(d), strconv.Itoa(sh.octets), form, "2", oid, hx.Hex(sc), hx.Hex(e))
		}
	}
}
